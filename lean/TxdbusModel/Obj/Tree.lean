/-
C16 - Code model of the exported-object table of `txdbus.objects.DBusObjectHandler` and of the
three places where a remote peer sees it:

* `exports` (objects.py `DBusObjectHandler.__init__/exportObject/unexportObject`): a Python
  `dict` path -> object, i.e. an insertion-ordered table (assignment to an existing key keeps
  its position, `del` of a missing key raises), and the `InterfacesAdded` / `InterfacesRemoved`
  signals handed to `conn.sendMessage`.  `exportObject` first collects the properties and
  builds (marshals) the signal - which raises for an object whose properties cannot be sent -
  and only then touches the table (repair fixes/C16-03);
* the child-node computation of `introspection.generateIntrospectionXML`, on strings, as the
  code does it (`endswith('/')`, `startswith`, slice, `partition('/')[0]`, `not in matches`);
* the descendant selection of `DBusObjectHandler.getManagedObjects` (`sorted(keys)`,
  `startswith`) and the `except Exception -> Error.Failed` around it;
* the head of `handleMethodCallMessage`: which (interface, member) pairs are answered by the
  handler itself (taken from the generated table `Gen.Dispatch`), Peer.Ping,
  Introspectable.Introspect (falls through when the XML is `None`), the `UnknownObject` branch,
  ObjectManager.GetManagedObjects, and "everything else goes on to method dispatch" (C10).

The model mirrors the code AFTER the repairs fixes/C16-01 (F23), C16-02 (F24), C16-03 (half-done
export); the pre-repair variants are kept (`childLoopOrig`, `managedOrig`, `stepOrig`) for the
witness theorems.  Objects are abstract (`Txdbus.Obj.Obj`).  Core Lean only.
-/
import TxdbusModel.Obj.TreeSpec
import TxdbusModel.Gen.Dispatch

namespace Txdbus.Obj.Tree

/-! ### Python string helpers -/

/-- `s.startswith(t)` -/
def startsWith : Str → Str → Bool
  | _, [] => true
  | [], _ :: _ => false
  | a :: s, b :: t => a == b && startsWith s t

/-- `s.endswith('/')` -/
def endsWithSlash : Str → Bool
  | [] => false
  | [c] => c == '/'
  | _ :: c :: s => endsWithSlash (c :: s)

/-- `s.partition('/')[0]` -/
def beforeSlash (s : Str) : Str := s.takeWhile (fun c => !(c == '/'))

/-- `str.__le__`: lexicographic on code points. -/
def strLe : Str → Str → Bool
  | [], _ => true
  | _ :: _, [] => false
  | a :: s, b :: t =>
    if a.toNat < b.toNat then true else if b.toNat < a.toNat then false else strLe s t

def insertSorted (x : Str) : List Str → List Str
  | [] => [x]
  | y :: ys => if strLe x y then x :: y :: ys else y :: insertSorted x ys

/-- `sorted(list_of_str)` -/
def sortStr (l : List Str) : List Str := l.foldr insertSorted []

/-! ### Python dicts with `str` keys -/

/-- `dict` in insertion order. -/
abbrev Table (α : Type) := List (Str × α)

/-- `d.get(p, None)` -/
def lookup {α : Type} : Table α → Str → Option α
  | [], _ => none
  | (k, o) :: e, p => if k = p then some o else lookup e p

/-- `d[p] = o`: an existing key keeps its position. -/
def setItem {α : Type} : Table α → Str → α → Table α
  | [], p, o => [(p, o)]
  | (k, v) :: e, p, o => if k = p then (k, o) :: e else (k, v) :: setItem e p o

/-- `del d[p]` (the caller has looked the key up before). -/
def delItem {α : Type} (e : Table α) (p : Str) : Table α := e.filter (fun kv => !(kv.1 == p))

/-- `d.keys()` -/
def keys {α : Type} (e : Table α) : List Str := e.map Prod.fst

/-- The dict built by `i = {}; for iface in …: i[iface.name] = getAllProperties(iface.name)`. -/
def dictOf (l : List (Str × Nat)) : Table Nat := l.foldl (fun d kv => setItem d kv.1 kv.2) []

/-- `self.exports` -/
abbrev Exports := Table Obj

/-! ### export / unexport -/

/-- The two ObjectManager signals, as handed to `conn.sendMessage`: the path in the message
header, the first body argument, and the second body argument: the dict `a{sa{sv}}` interface
name -> properties (token), resp. the array `as` of interface names. -/
inductive Signal where
  | interfacesAdded (hdrPath argPath : Str) (ifaces : Table Nat)
  | interfacesRemoved (hdrPath argPath : Str) (ifaces : List Str)
  deriving DecidableEq, Repr

/-- Result of one API call: the table afterwards, the messages sent, whether it raised. -/
structure StepResult where
  exports : Exports
  sent : List Signal
  raised : Bool
  deriving DecidableEq, Repr

/-- `exportObject(o)` / `unexportObject(p)`. -/
def step (e : Exports) : Op → StepResult
  | .export o =>
    -- getAllProperties of every interface, SignalMessage(...) (marshalled in its constructor)
    if o.sendable then
      { exports := setItem e o.path o
        sent := [.interfacesAdded o.path o.path (dictOf o.ifaces)]
        raised := false }
    else { exports := e, sent := [], raised := true }
  | .unexport p =>
    match lookup e p with
    | none => { exports := e, sent := [], raised := true }      -- `o = self.exports[objectPath]` raises
    | some o =>
      { exports := delItem e p
        sent := [.interfacesRemoved o.path o.path o.ifaceNames]
        raised := false }

/-- `exportObject` before the repair C16-03: the table is written first. -/
def stepOrig (e : Exports) : Op → StepResult
  | .export o =>
    if o.sendable then
      { exports := setItem e o.path o
        sent := [.interfacesAdded o.path o.path (dictOf o.ifaces)]
        raised := false }
    else { exports := setItem e o.path o, sent := [], raised := true }
  | op => step e op

/-- The table after a history of calls (a call that raises leaves it unchanged). -/
def run (h : List Op) : Exports := h.foldl (fun e op => (step e op).exports) []

def runOrig (h : List Op) : Exports := h.foldl (fun e op => (stepOrig e op).exports) []

/-! ### Introspection: child nodes -/

/-- `if not objectPath.endswith('/'): objectPath += '/'` -/
def dirPrefix (p : Str) : Str := if endsWithSlash p then p else p ++ ['/']

/-- `path[len(objectPath):].partition('/')[0]` -/
def childOf (pre path : Str) : Str := beforeSlash (path.drop pre.length)

/-- The loop over `exportedObjects.keys()` (repaired: an empty name is not a child). -/
def childLoop (pre : Str) : List Str → List Str → List Str
  | [], acc => acc
  | path :: rest, acc =>
    if startsWith path pre then
      let name := childOf pre path
      if !name.isEmpty && !acc.contains name then childLoop pre rest (acc ++ [name])
      else childLoop pre rest acc
    else childLoop pre rest acc

/-- The loop as it was before the repair of F23. -/
def childLoopOrig (pre : Str) : List Str → List Str → List Str
  | [], acc => acc
  | path :: rest, acc =>
    if startsWith path pre then
      let name := childOf pre path
      if !acc.contains name then childLoopOrig pre rest (acc ++ [name])
      else childLoopOrig pre rest acc
    else childLoopOrig pre rest acc

/-- `<node name=…/>` children listed for `p`. -/
def introspectChildren (p : Str) (e : Exports) : List Str := childLoop (dirPrefix p) (keys e) []

def introspectChildrenOrig (p : Str) (e : Exports) : List Str := childLoopOrig (dirPrefix p) (keys e) []

/-- `generateIntrospectionXML`: `None`, or the interface names of the object at `p` (if any;
the built-in interfaces of `_intro` follow them) and the child node names. -/
def introspect (p : Str) (e : Exports) : Option (Option (List Str) × List Str) :=
  let obj := lookup e p
  let kids := introspectChildren p e
  if obj.isNone && kids.isEmpty then none
  else some (obj.map (·.ifaceNames), kids)

/-! ### GetManagedObjects -/

/-- One entry of the reply dict: path, and the dict interface name -> properties (token). -/
abbrev Entry := Str × Table Nat

def entryOf (e : Exports) (k : Str) : Option Entry :=
  (lookup e k).map fun o => (k, dictOf o.ifaces)

/-- The paths `getManagedObjects(objectPath)` visits (repaired: prefix test on `objectPath + '/'`). -/
def managedKeys {α : Type} (p : Str) (e : Table α) : List Str :=
  let pre := dirPrefix p
  (sortStr (keys e)).filter fun k => !(!startsWith k pre || k == p)

def managed (p : Str) (e : Exports) : List Entry := (managedKeys p e).filterMap (entryOf e)

/-- Before the repair of F24: `p.startswith(objectPath)`. -/
def managedOrig (p : Str) (e : Exports) : List Entry :=
  ((sortStr (keys e)).filter fun k => !(!startsWith k p || k == p)).filterMap (entryOf e)

/-- Collecting and marshalling the properties of every visited object succeeds. -/
def managedSendable (p : Str) (e : Exports) : Bool :=
  (managedKeys p e).all fun k => match lookup e k with | some o => o.sendable | none => true

/-! ### Head of `handleMethodCallMessage` -/

inductive Call where
  | ping                 -- Gen.Dispatch.peerPair
  | introspect           -- Gen.Dispatch.introspectPair
  | getManagedObjects    -- Gen.Dispatch.managedPair
  | ordinary             -- any other interface / member
  deriving DecidableEq, Repr

def isPair (pr : String × String) (iface : Option Str) (member : Str) : Bool :=
  iface == some pr.1.toList && member == pr.2.toList

/-- The `msg.interface == … and msg.member == …` tests, in the order of the code; the pairs
come from the table generated from objects.py. -/
def classify (iface : Option Str) (member : Str) : Call :=
  if isPair Gen.Dispatch.peerPair iface member then .ping
  else if isPair Gen.Dispatch.introspectPair iface member then .introspect
  else if isPair Gen.Dispatch.managedPair iface member then .getManagedObjects
  else .ordinary

/-- Error names of the two error replies of this part of the handler (generated table). -/
def unknownObjectName : Str := Gen.Dispatch.unknownObject.1.toList
def managedFailedName : Str := Gen.Dispatch.managedFailed.1.toList

inductive Reply where
  | pong
  | introspection (ifaces : Option (List Str)) (children : List Str)
  | managed (entries : List Entry)
  /-- error `unknownObjectName` about `path` -/
  | unknownObject (path : Str)
  /-- error `managedFailedName` -/
  | managedFailed
  /-- the call goes on to interface / method lookup on this object (C10) -/
  | dispatch (o : Obj)
  deriving DecidableEq, Repr

def handle (e : Exports) (p : Str) (c : Call) : Reply :=
  if c = .ping then .pong else
  match (if c = .introspect then introspect p e else none) with
  | some (ifs, kids) => .introspection ifs kids
  | none =>
    match lookup e p with
    | none => .unknownObject p
    | some o =>
      if c = .getManagedObjects then
        if managedSendable o.path e then .managed (managed o.path e) else .managedFailed
      else .dispatch o

/-- `handleMethodCallMessage(msg)` for a call of `member` on `iface` (absent: `none`) at `p`. -/
def handleMsg (e : Exports) (p : Str) (iface : Option Str) (member : Str) : Reply :=
  handle e p (classify iface member)

/-! ### Several handlers alive in one process

MODELLING ASSUMPTION, not a fact established here: as read today, `DBusObjectHandler.__init__` creates
`self.exports = {}` per instance, the methods above read and write `self.exports` / `self.conn` only, and
nothing in `introspection.generateIntrospectionXML` or the handler is kept at module or class level.  `Multi`
WRITES THAT ASSUMPTION DOWN: a family of independent tables (`Nat -> Exports`), a call on handler `k`
touching `k`'s table and `k`'s connection only (`sentOn j := if j = k ...`).  Independence of the handlers is
therefore true BY CONSTRUCTION of this model; nothing here could detect a table, memo or binding shared
between handlers.  The guard that the code behaves like this is the correspondence stream `history-handlers`
(harness/c16.py), nothing else.  NOT expressible in this model: the single-slot `DBusObject._objectHandler`
binding (one instance exported on two handlers is bound to the last one), ONE mutable instance reachable from
two tables (objects are values here, copied into each table), the class-level `_dbusIfaceCache` /
`DBusProperty` fields, any module-level memo. -/
namespace Multi

/-- Handler number -> its `exports` dict. -/
abbrev Tables := Nat → Exports

/-- No handler has exported anything. -/
def init : Tables := fun _ => []

/-- Handler `k`'s table becomes `e`; the others are what they were. -/
def set (T : Tables) (k : Nat) (e : Exports) : Tables := fun j => if j = k then e else T j

/-- Result of one API call on one handler: every handler's table afterwards, the messages handed to
each handler's connection (`self.conn.sendMessage`), whether the call raised. -/
structure MStepResult where
  tables : Tables
  sentOn : Nat → List Signal
  raised : Bool

/-- `handler_k.exportObject(o)` / `handler_k.unexportObject(p)`. -/
def step (T : Tables) (k : Nat) (op : Op) : MStepResult :=
  let r := Tree.step (T k) op
  { tables := set T k r.exports
    sentOn := fun j => if j = k then r.sent else []
    raised := r.raised }

/-- The tables after an interleaved history of calls `(handler, call)`. -/
def run (h : List (Nat × Op)) : Tables := h.foldl (fun T kop => (step T kop.1 kop.2).tables) init

/-- The calls that were made on handler `k`, in order. -/
def proj (k : Nat) (h : List (Nat × Op)) : List Op := (h.filter fun kop => kop.1 == k).map Prod.snd

end Multi

end Txdbus.Obj.Tree
