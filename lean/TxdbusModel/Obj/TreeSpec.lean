/-
C16 - Spec of the exported-object tree, written from the property statement and the DBus
specification only (it never looks at txdbus).

* An object path is a list of elements; the root `/` is the empty list.  `render` / `parse`
  relate it to its text form (DBus grammar: `/`, or `/`-separated non-empty elements over
  `[A-Za-z0-9_]`, no trailing `/`).
* `below p E`    = the exported paths of which `p` is a proper element-wise prefix.
* `children p E` = the distinct first elements of the remainders of the paths strictly below `p`.
* A history is a list of export / unexport calls on abstract objects (a path, the names of the
  object's interfaces, an opaque payload standing for its readable properties);
  `exportedAfter h s` is the object visible at the text path `s` after the history `h`.

Core Lean only.
-/
namespace Txdbus.Obj

abbrev Str := List Char

/-- An exported object, abstractly: where it says it lives, the names of its interfaces in
the order `getInterfaces()` yields them (repetitions possible), and an opaque token standing
for "its readable properties, per interface" (property access itself is C17). -/
structure Obj where
  path : Str
  ifaces : List Str
  payload : Nat
  deriving DecidableEq, Repr, Inhabited

/-- One call of the export API. -/
inductive Op where
  | export (o : Obj)
  | unexport (p : Str)
  deriving DecidableEq, Repr, Inhabited

namespace TreeSpec

abbrev Elem := List Char
/-- Object path as a list of elements; the root is `[]`. -/
abbrev Path := List Elem

/-- `[A-Za-z0-9_]` (ASCII only). -/
def elemChar (c : Char) : Bool :=
  ('A'.toNat ≤ c.toNat && c.toNat ≤ 'Z'.toNat) ||
  ('a'.toNat ≤ c.toNat && c.toNat ≤ 'z'.toNat) ||
  ('0'.toNat ≤ c.toNat && c.toNat ≤ '9'.toNat) ||
  c == '_'

def validElem (e : Elem) : Bool := !e.isEmpty && e.all elemChar

/-- Every element is non-empty and over `[A-Za-z0-9_]`. -/
def ValidPath (p : Path) : Prop := ∀ e ∈ p, validElem e = true

instance (p : Path) : Decidable (ValidPath p) := by unfold ValidPath; infer_instance

/-- `/e1/e2/…` without the special case of the root. -/
def flat : Path → Str
  | [] => []
  | e :: p => '/' :: (e ++ flat p)

/-- Text form of a path. -/
def render : Path → Str
  | [] => ['/']
  | e :: p => flat (e :: p)

/-- Python's `s.split('/')`. -/
def splitSlash : Str → List Str
  | [] => [[]]
  | c :: s =>
    if c = '/' then [] :: splitSlash s
    else match splitSlash s with
      | [] => [[c]]
      | w :: ws => (c :: w) :: ws

/-- Text to elements: split on `/`; the DBus grammar decides what is a path at all. -/
def parse (s : Str) : Option Path :=
  if s = ['/'] then some []
  else match splitSlash s with
    | [] :: e :: es => if (e :: es).all validElem then some (e :: es) else none
    | _ => none

/-- The text `s` is a valid object path. -/
def ValidText (s : Str) : Prop := (parse s).isSome = true

instance (s : Str) : Decidable (ValidText s) := by unfold ValidText; infer_instance

/-- `p` is a proper element-wise prefix of `q`. -/
def properPrefix : Path → Path → Bool
  | [], [] => false
  | [], _ :: _ => true
  | _ :: _, [] => false
  | a :: p, b :: q => a == b && properPrefix p q

/-- The exported paths strictly below `p`. -/
def below (p : Path) (E : List Path) : List Path := E.filter (properPrefix p)

/-- First element of the remainder of `q` after `p`. -/
def childName (p q : Path) : Option Elem := (q.drop p.length).head?

/-- Keep the first occurrence of every value. -/
def dedup {α : Type} [BEq α] : List α → List α
  | [] => []
  | x :: xs => x :: (dedup xs).filter (fun y => !(y == x))

/-- Names of the immediate children of `p` among the exported paths `E`. -/
def children (p : Path) (E : List Path) : List Elem :=
  dedup ((below p E).filterMap (childName p))

/-! ### Histories -/

/-- What one call does to the question "which object is visible at the text path `s`". -/
def visibleStep (s : Str) (cur : Option Obj) : Op → Option Obj
  | .export o => if o.path = s then some o else cur
  | .unexport q => if q = s then none else cur

/-- The object visible at `s` after the calls `h` (in order): the one exported there most
recently, unless that path was unexported since.  (Unexporting a path that is not exported
changes nothing.) -/
def exportedAfter (h : List Op) (s : Str) : Option Obj :=
  h.foldl (visibleStep s) none

/-- Text paths named by an export call of the history. -/
def mentioned : List Op → List Str
  | [] => []
  | .export o :: h => o.path :: mentioned h
  | .unexport _ :: h => mentioned h

/-- The set of exported paths after `h`, as element lists. -/
def exportedPaths (h : List Op) : List Path :=
  (dedup ((mentioned h).filter fun s => (exportedAfter h s).isSome)).filterMap parse

/-- Every object of the history was created at a valid path (`DBusObject.__init__` validates
its path; a hand-written `IDBusObject` has to do the same). -/
def WfHistory (h : List Op) : Prop := ∀ o, Op.export o ∈ h → ValidText o.path

end TreeSpec
end Txdbus.Obj
