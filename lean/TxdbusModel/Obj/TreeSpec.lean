/-
C16 - Spec of the exported-object tree, written from the property statement and the DBus
specification only (it never looks at txdbus).

* An object path is a list of elements; the root `/` is the empty list.  `render` / `parse`
  relate it to its text form (DBus grammar: `/`, or `/`-separated non-empty elements over
  `[A-Za-z0-9_]`, no trailing `/`).
* `below p E`    = the exported paths of which `p` is a proper element-wise prefix.
* `children p E` = the distinct first elements of the remainders of the paths strictly below `p`.
* A history is a list of export / unexport calls on abstract objects (a path, the names of the
  object's interfaces, an opaque payload standing for its readable properties);
  `exportedAfter h s` is the object visible at the text path `s` after the history `h`.

Core Lean only.
-/
namespace Txdbus.Obj

abbrev Str := List Char

/-- An exported object, abstractly: where it says it lives; its interfaces in the order
`getInterfaces()` yields them (repetitions possible), each with an opaque token standing for
the result of `getAllProperties(<that interface>)` - "the readable properties of the
interface", whose exactness is property C17 (`getall_exact`); and whether those property values
can be sent at all (`sendable = false`: collecting or marshalling them raises, e.g. a `u`
property holding -1). -/
structure Obj where
  path : Str
  ifaces : List (Str × Nat)
  sendable : Bool
  deriving DecidableEq, Repr, Inhabited

/-- The interface names of an object. -/
def Obj.ifaceNames (o : Obj) : List Str := o.ifaces.map Prod.fst

/-- `getAllProperties(name)` is a function of the name: the same name carries the same token. -/
def Obj.Consistent (o : Obj) : Prop :=
  ∀ n t t', (n, t) ∈ o.ifaces → (n, t') ∈ o.ifaces → t = t' 

/-- One call of the export API. -/
inductive Op where
  | export (o : Obj)
  | unexport (p : Str)
  deriving DecidableEq, Repr, Inhabited

namespace TreeSpec

abbrev Elem := List Char
/-- Object path as a list of elements; the root is `[]`. -/
abbrev Path := List Elem

/-- `[A-Za-z0-9_]` (ASCII only), on the code point. -/
def elemCode (n : Nat) : Bool :=
  (65 ≤ n && n ≤ 90) || (97 ≤ n && n ≤ 122) || (48 ≤ n && n ≤ 57) || n == 95

/-- `[A-Za-z0-9_]` (ASCII only). -/
def elemChar (c : Char) : Bool := elemCode c.toNat

def validElem (e : Elem) : Bool := !e.isEmpty && e.all elemChar

/-- Every element is non-empty and over `[A-Za-z0-9_]`. -/
def ValidPath (p : Path) : Prop := ∀ e ∈ p, validElem e = true

instance (p : Path) : Decidable (ValidPath p) := by unfold ValidPath; infer_instance

/-- `/e1/e2/…` without the special case of the root. -/
def flat : Path → Str
  | [] => []
  | e :: p => '/' :: (e ++ flat p)

/-- Text form of a path. -/
def render : Path → Str
  | [] => ['/']
  | e :: p => flat (e :: p)

/-- Python's `s.split('/')`. -/
def splitSlash : Str → List Str
  | [] => [[]]
  | c :: s =>
    if c = '/' then [] :: splitSlash s
    else match splitSlash s with
      | [] => [[c]]
      | w :: ws => (c :: w) :: ws

/-- Text to elements: split on `/`; the DBus grammar decides what is a path at all. -/
def parse (s : Str) : Option Path :=
  if s = ['/'] then some []
  else match splitSlash s with
    | [] :: e :: es => if (e :: es).all validElem then some (e :: es) else none
    | _ => none

/-- The text `s` is a valid object path. -/
def ValidText (s : Str) : Prop := (parse s).isSome = true

instance (s : Str) : Decidable (ValidText s) := by unfold ValidText; infer_instance

/-- `p` is a proper element-wise prefix of `q`. -/
def properPrefix : Path → Path → Bool
  | [], [] => false
  | [], _ :: _ => true
  | _ :: _, [] => false
  | a :: p, b :: q => a == b && properPrefix p q

/-- The exported paths strictly below `p`. -/
def below (p : Path) (E : List Path) : List Path := E.filter (properPrefix p)

/-- First element of the remainder of `q` after `p`. -/
def childName (p q : Path) : Option Elem := (q.drop p.length).head?

/-- Keep the first occurrence of every value. -/
def dedup {α : Type} [BEq α] : List α → List α
  | [] => []
  | x :: xs => x :: (dedup xs).filter (fun y => !(y == x))

/-- Names of the immediate children of `p` among the exported paths `E`. -/
def children (p : Path) (E : List Path) : List Elem :=
  dedup ((below p E).filterMap (childName p))

/-! ### Histories -/

/-- What one call does to the question "which object is visible at the text path `s`". -/
def visibleStep (s : Str) (cur : Option Obj) : Op → Option Obj
  | .export o => if o.sendable = true ∧ o.path = s then some o else cur
  | .unexport q => if q = s then none else cur

/-- The object visible at `s` after the calls `h` (in order): the one exported there most
recently, unless that path was unexported since.  An export call that fails (the object's
properties cannot be announced) implies nothing, and neither does unexporting a path that is
not exported. -/
def exportedAfter (h : List Op) (s : Str) : Option Obj :=
  h.foldl (visibleStep s) none

/-- Text paths named by an export call of the history. -/
def mentioned : List Op → List Str
  | [] => []
  | .export o :: h => o.path :: mentioned h
  | .unexport _ :: h => mentioned h

/-- The set of exported paths after `h`, as element lists. -/
def exportedPaths (h : List Op) : List Path :=
  (dedup ((mentioned h).filter fun s => (exportedAfter h s).isSome)).filterMap parse

/-- Every object of the history was created at a valid path (`DBusObject.__init__` validates
its path; a hand-written `IDBusObject` has to do the same). -/
def WfHistory (h : List Op) : Prop := ∀ o, Op.export o ∈ h → ValidText o.path

end TreeSpec
end Txdbus.Obj
