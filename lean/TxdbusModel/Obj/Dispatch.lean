/-
C10 CODE MODEL: `DBusObjectHandler.handleMethodCallMessage` (txdbus/objects.py) with
`DBusObject.executeMethod`, the decorated-method cache (`_iterIFaceCaches`, `_cacheInterfaces`,
`_searchCache`, `_getDecoratedMethod`), the rule of `_set_method_flags` (`needsCaller`: the
parameter list of the method ends in `dbusCaller`; keyword and minimum length from the source),
the nested `send_reply` / `send_error`, `exportObject` / `unexportObject` as operations of a
history, and the reply constructors of txdbus/message.py, as the code is written (after
repairs C10-01: `send_error` escapes NUL in the text it sends, and C10-02: a failure while
building the GetManagedObjects reply is answered with an error).

What is a parameter (`Env`), not modelled here:
  * `encErr sig body`  - does `MethodReturnMessage(serial, body=body, signature=sig, ...)` raise,
                         and with which exception (the wire codec is C01/C02's);
  * `managedErr path`  - does building the GetManagedObjects reply (`getManagedObjects(path)`,
                         C16's, and its `MethodReturnMessage`) raise, e.g. on a property value
                         that does not fit a variant;
  * `ofSeq vs`         - a Python list / tuple taken as ONE value (`[return_values]`);
  * `validErr name`    - `marshal.validateErrorName(name)` returns (C18's validator);
  * `textFix text`     - what `send_error` makes of the text before `ErrorMessage(...)`:
                         `none` when the constructor raises.  `fixSource` is read off the
                         generated table (the escape statement of the source under test),
                         `fixRepaired` is the repaired code, `fixPrefix` the code before C10-01.
Every OTHER message is assumed to marshal (Ping / Introspect replies, the four `_send_err`
texts - the C10-02 text is `str(e)` without escaping): an assumption validated by the streams.

All constants (built-in pairs, reply signatures, error names and texts, prefixes, the name of
the exception raised when nothing is bound, the caller keyword, the escape) come from
`Gen/Dispatch.lean`, translated from the source on every run.

A history is a list of operations; operation number `k` (its position) is the identity of the
call it delivers and of the Deferred that call's method may return:
  * `call c behav`     - the parsed method call `c` arrives; `behav impl` is what the user function
                         `impl` does when (if) it is invoked;
  * `resolve k r`      - the Deferred returned by call `k` fires with a value or a failure;
  * `exportObj p o` / `unexportObj p` - the application exports / unexports between calls.
Every event is tagged with the number of the call it belongs to.

Python corner semantics kept explicit: truthiness of `msg.interface` (`None` and `''` are
false), `x or d`, `dict` insertion / overwrite order of the per-class cache, attribute lookup
along `__mro__`, `for ... break`, the `(list, tuple)` / `nret == 1` convention of `send_reply`.
Core Lean only.
-/
import TxdbusModel.Gen.Dispatch

namespace Txdbus.Obj.Dispatch

/-- A Python `str`: the list of its code points. -/
abbrev Str := List Char

/-! ### Python primitives -/

/-- `if s:` for `s : Optional[str]`: `None` and `''` are false. -/
def truthy : Option Str → Bool
  | some (_ :: _) => true
  | _ => false

/-- `s or d` for `s : Optional[str]`. -/
def orElse (s : Option Str) (d : Str) : Str :=
  match s with
  | some (c :: t) => c :: t
  | _ => d

/-- `fmt % args` restricted to the conversions `%s` and `%%` (the translator accepts no other
and checks that the number of `%s` equals the number of arguments). -/
def pyFormat : Str → List Str → Str
  | '%' :: 's' :: t, a :: as => a ++ pyFormat t as
  | '%' :: 's' :: t, [] => pyFormat t []
  | '%' :: '%' :: t, as => '%' :: pyFormat t as
  | c :: t, as => c :: pyFormat t as
  | [], _ => []

/-- `d[k] = v` on a `dict` kept as an association list in insertion order: an existing key keeps
its position, a new key goes to the end. -/
def dictSet {α : Type} (d : List (Str × α)) (k : Str) (v : α) : List (Str × α) :=
  match d with
  | [] => [(k, v)]
  | (k', v') :: t => if k' = k then (k, v) :: t else (k', v') :: dictSet t k v

/-- `d.get(k)` / `k in d` / `d[k]`. -/
def dictGet {α : Type} (d : List (Str × α)) (k : Str) : Option α :=
  match d with
  | [] => none
  | (k', v) :: t => if k' = k then some v else dictGet t k

/-- first `some` of `f` over a list (a `for` loop that returns at the first hit). -/
def firstSome {α β : Type} (f : α → Option β) : List α → Option β
  | [] => none
  | a :: t => match f a with
    | some b => some b
    | none => firstSome f t

/-! ### Tables (generated from the source) -/

def pairOf (p : String × String) : Str × Str := (p.1.toList, p.2.toList)

def peerPair : Str × Str := pairOf Gen.Dispatch.peerPair
def introspectPair : Str × Str := pairOf Gen.Dispatch.introspectPair
def managedPair : Str × Str := pairOf Gen.Dispatch.managedPair
def introspectSig : Str := Gen.Dispatch.introspectSig.toList
def managedSig : Str := Gen.Dispatch.managedSig.toList
def pyExceptionPrefix : Str := Gen.Dispatch.pyExceptionPrefix.toList
def invalidNameNotice : Str := Gen.Dispatch.invalidNameNotice.toList
def invalidErrorName : Str := Gen.Dispatch.invalidErrorName.toList
def attrPrefix : Str := Gen.Dispatch.attrPrefix.toList
def callerKeyword : Str := Gen.Dispatch.callerKeyword.toList

/-! ### Declarations -/

/-- `interface.Method`: `nret` is the number of complete types of `sigOut`, computed by
`DBusInterface.addMethod` (C19's splitter); it is an input here. -/
structure Method where
  name : Str
  sigIn : Str
  sigOut : Str
  nret : Nat
  deriving DecidableEq, Repr

/-- `interface.DBusInterface`: `methods` is the `dict` name -> Method in insertion order. -/
structure Iface where
  name : Str
  methods : List (Str × Method)
  deriving DecidableEq, Repr

/-- A function found in a class `__dict__`.  `id` identifies the user function (it is what an
invocation records); `deco` is `(_dbusInterface, _dbusMethod)` when decorated with
`@dbusMethod`; `params` are the names of its positional parameters, `self` included
(`inspect.getfullargspec(bound_method)[0]`). -/
structure Func where
  id : Nat
  deco : Option (Str × Str)
  params : List Str
  deriving DecidableEq, Repr

/-- `DBusObject._set_method_flags`: `len(args) >= N and args[-1] == 'dbusCaller'` (keyword and N
from the source) - what "the method asks for the caller's name" means. -/
def needsCaller (params : List Str) : Bool :=
  decide (params.length ≥ Gen.Dispatch.callerMinArgs) && (params.getLast? == some callerKeyword)

/-- `m._dbusCaller` -/
def Func.wantsCaller (f : Func) : Bool := needsCaller f.params

/-- One class of `type(obj).__mro__` (without `object`): `ifaces` is `some l` iff
`'dbusInterfaces' in cls.__dict__`; `attrs` are the functions of `cls.__dict__` in definition
order under their attribute names (a function's `__name__` is its attribute name). -/
structure Class where
  ifaces : Option (List Iface)
  attrs : List (Str × Func)
  /-- the `DBusProperty` attributes of `cls.__dict__`: (number of FUNCTIONS that precede the attribute in
  the class body, name of the interface the property is bound to).  A property implements no member,
  but `_cacheInterfaces` creates the per-class cache entry of its interface (`get_ic(obj.interface)`),
  which fixes the position of that interface in the dict order of the cache. -/
  propKeys : List (Nat × Str) := []
  deriving DecidableEq, Repr

/-- One attribute of a class body that `_cacheInterfaces` looks at. -/
inductive BodyEntry where
  | func (a : Str × Func)
  | prop (iface : Str)
  deriving DecidableEq, Repr

/-- Functions and properties merged back into class-body order; `n` = number of functions already passed. -/
def mergeBody : List (Str × Func) → List (Nat × Str) → Nat → List BodyEntry
  | [], props, n => (props.filter fun p => p.1 ≥ n).map fun p => .prop p.2
  | a :: t, props, n =>
    ((props.filter fun p => p.1 = n).map fun p => BodyEntry.prop p.2) ++ .func a :: mergeBody t props (n + 1)

/-- `cls.__dict__.items()` restricted to what `_cacheInterfaces` acts on, in definition order. -/
def Class.body (c : Class) : List BodyEntry := mergeBody c.attrs c.propKeys 0

/-- An exported object: its class chain in `__mro__` order. -/
structure Obj where
  classes : List Class
  deriving DecidableEq, Repr

/-- `DBusObjectHandler.exports`: `dict` object path -> object. -/
abbrev Exports := List (Str × Obj)

/-! ### Messages, outcomes, events -/

/-- The fields of a parsed `MethodCallMessage` the dispatcher reads.  `body` is `msg.body`
(`None` is the empty list: both are false in `if methodArguments:`). -/
structure Call (V : Type) where
  path : Str
  iface : Option Str
  member : Str
  sig : Option Str
  sender : Option Str
  serial : Nat
  expectReply : Bool
  body : List V

/-- An exception instance as `send_error` sees it: class name, `dbusErrorName` (absent or `None`
is `none`), `str(e)`. -/
structure Exc where
  cls : Str
  errName : Option Str
  text : Str
  deriving DecidableEq, Repr

/-- What a user method returns: `seq` when `isinstance(r, (list, tuple))`. -/
inductive Ret (V : Type) where
  | single (v : V)
  | seq (vs : List V)
  deriving DecidableEq, Repr

/-- What invoking a user method does. -/
inductive Outcome (V : Type) where
  | value (r : Ret V)      -- returns (or returns an already fired Deferred)
  | raise (e : Exc)        -- raises (or returns an already failed Deferred)
  | deferred               -- returns a Deferred that has not fired yet
  deriving DecidableEq, Repr

/-- How a pending Deferred fires. -/
inductive Resolution (V : Type) where
  | value (r : Ret V)
  | fail (e : Exc)
  deriving DecidableEq, Repr

/-- The body of a method return. -/
inductive Body (V : Type) where
  | empty                  -- Peer.Ping: no body, no signature
  | xml (path : Str)       -- Introspect: `[generateIntrospectionXML(path, exports)]` (C16's)
  | managed (path : Str)   -- GetManagedObjects: `[getManagedObjects(path)]` (C16's)
  | vals (vs : List V)     -- a user method's result
  deriving DecidableEq, Repr

/-- A message handed to `conn.sendMessage`. -/
inductive Msg (V : Type) where
  | ret (replySerial : Nat) (dest : Option Str) (sig : Option Str) (body : Body V)
  | err (name : Str) (replySerial : Nat) (dest : Option Str) (text : Str)
  deriving DecidableEq, Repr

def Msg.replySerial {V : Type} : Msg V → Nat
  | .ret s _ _ _ => s
  | .err _ s _ _ => s

def Msg.dest {V : Type} : Msg V → Option Str
  | .ret _ d _ _ => d
  | .err _ _ d _ => d

/-- What the handler does that can be observed. -/
inductive Event (V : Type) where
  | sent (m : Msg V)
  /-- user function `impl` called with positional `args`; `caller = some s` iff it was passed
  `dbusCaller=s`. -/
  | invoked (impl : Nat) (args : List V) (caller : Option (Option Str))
  deriving DecidableEq, Repr

/-- Parameters (see the header). -/
structure Env (V : Type) where
  encErr : Str → List V → Option Exc
  managedErr : Str → Option Exc
  ofSeq : List V → V
  validErr : Str → Bool
  textFix : Str → Option Str

/-- `t.replace(a, b)` for a one-character `a`. -/
def replaceChar (a : Char) (b : Str) (t : Str) : Str :=
  t.flatMap fun c => if c = a then b else [c]

/-- repair C10-01: `errMsg.replace('\0', '\\x00')` -/
def escapeNul (t : Str) : Str := replaceChar '\x00' ['\\', 'x', '0', '0'] t

/-- the repaired `send_error`: the text is escaped, `ErrorMessage(...)` does not raise. -/
def fixRepaired (t : Str) : Option Str := some (escapeNul t)

/-- `send_error` before repair C10-01: the text is used as it is and `ErrorMessage(...)` raises
`MarshallingError` on an embedded NUL (nothing is sent). -/
def fixPrefix (t : Str) : Option Str := if t.contains '\x00' then none else some t

/-- What `send_error` of the source under test does with the text, read off the generated table:
with an escape statement the text is escaped and sent; without one (the code before repair
C10-01) `ErrorMessage(...)` raises when the text contains NUL.  (Lone surrogates are not values
of `Char`; the `.encode('utf-8', 'backslashreplace').decode('utf-8')` that follows the escape is
the identity on every other string.) -/
def fixSource (t : Str) : Option Str :=
  match Gen.Dispatch.textEscape with
  | some (a, b) =>
    let t' := replaceChar (Char.ofNat a) b.toList t
    if t'.contains '\x00' then none else some t'
  | none => fixPrefix t

/-! ### Lookup (handleMethodCallMessage) -/

/-- `generateIntrospectionXML(path, exports) is not None`: the path is exported or some exported
path lies below it. -/
def introspectable (ex : Exports) (path : Str) : Bool :=
  let p := if path.getLast? = some '/' then path else path ++ ['/']
  (dictGet ex path).isSome || ex.any (fun e => p.isPrefixOf e.1)

/-- `o.getInterfaces()`: `dbusInterfaces` of every class that defines it, in `__mro__` order. -/
def getInterfaces (o : Obj) : List Iface :=
  o.classes.flatMap fun c => c.ifaces.getD []

/-- The `for x in o.getInterfaces(): ... break` loop. -/
def findIface (iface : Option Str) (member : Str) : List Iface → Option Iface
  | [] => none
  | x :: rest =>
    if truthy iface then
      if some x.name = iface then some x else findIface iface member rest
    else
      if (dictGet x.methods member).isSome then some x else findIface iface member rest

/-! ### executeMethod -/

/-- `getattr(self, name, None)` restricted to functions defined in classes. -/
def getattrFunc (o : Obj) (name : Str) : Option Func :=
  firstSome (fun c => dictGet c.attrs name) o.classes

/-- The per-class `_dbusIfaceCache` restricted to methods: interface name -> (member -> attribute
name of the decorated function), built by iterating `cls.__dict__.items()`. -/
abbrev Cache := List (Str × List (Str × Str))

def cacheAdd (cache : Cache) (i m attr : Str) : Cache :=
  match dictGet cache i with
  | some ms => dictSet cache i (dictSet ms m attr)
  | none => dictSet cache i [(m, attr)]

/-- One `(name, obj)` of `cls.__dict__.items()` in `_cacheInterfaces`. -/
def cacheStep (cache : Cache) (a : Str × Func) : Cache :=
  match a.2.deco with
  | some (i, m) => cacheAdd cache i m a.1
  | none => cache

/-- The `DBusProperty` branch of `_cacheInterfaces`, as far as methods are concerned:
`get_ic(obj.interface)` creates the (empty) cache entry of the interface if there is none yet. -/
def cacheTouch (cache : Cache) (i : Str) : Cache :=
  match dictGet cache i with
  | some _ => cache
  | none => dictSet cache i []

def bodyStep (cache : Cache) : BodyEntry → Cache
  | .func a => cacheStep cache a
  | .prop i => cacheTouch cache i

def cacheOfClass (c : Class) : Cache :=
  c.body.foldl bodyStep []

/-- `_searchCache(interfaceName, 'methods', key)`: attribute name of the function found. -/
def searchCache (o : Obj) (iname key : Str) : Option Str :=
  firstSome (fun c =>
    let cache := cacheOfClass c
    if iname ≠ [] then
      match dictGet cache iname with
      | some ms => dictGet ms key
      | none => none
    else
      firstSome (fun ic => dictGet ic.2 key) cache) o.classes

/-- `_getDecoratedMethod`: `getattr(self, f.__name__)` of the cached function. -/
def getDecorated (o : Obj) (iname member : Str) : Option Func :=
  match searchCache o iname member with
  | some attr => getattrFunc o attr
  | none => none

/-- The function `executeMethod` ends up calling; `none` is `raise NotImplementedError`. -/
def resolveImpl (o : Obj) (iname member : Str) : Option Func :=
  -- m = getattr(self, 'dbus_' + methodName, None)
  let m0 := getattrFunc o (attrPrefix ++ member)
  -- if m is None: m = self._getDecoratedMethod(iname, methodName); if m is None: raise
  let m1 := match m0 with
    | some f => some f
    | none => getDecorated o iname member
  match m1 with
  | none => none
  | some f =>
    -- if hasattr(m, '_dbusInterface') and m._dbusInterface != iname: m = self._getDecoratedMethod(...)
    match f.deco with
    | some (i, _) => if i ≠ iname then getDecorated o iname member else some f
    | none => some f

/-- `raise NotImplementedError` (class name from the source): no arguments, empty text. -/
def notImplemented : Exc := { cls := Gen.Dispatch.unboundException.toList, errName := none, text := [] }

/-! ### Replies -/

/-- `self._send_err(msg, name, text)` -/
def sendErr {V : Type} (c : Call V) (name text : Str) : Event V :=
  .sent (.err name c.serial c.sender text)

/-- The text of a `_send_err` call: the pieces of the generated table filled from the call, the
method found (`sigIn`) and the caught exception (`exc`). -/
def renderText {V : Type} (c : Call V) (sigIn exc : Str) : List Gen.Dispatch.Piece → Str
  | [] => []
  | .lit s :: t => s.toList ++ renderText c sigIn exc t
  | .path :: t => c.path ++ renderText c sigIn exc t
  | .member :: t => c.member ++ renderText c sigIn exc t
  | .sigOr d :: t => orElse c.sig d.toList ++ renderText c sigIn exc t
  | .ifaceOr d :: t => orElse c.iface d.toList ++ renderText c sigIn exc t
  | .sigInOr d :: t => orElse (some sigIn) d.toList ++ renderText c sigIn exc t
  | .excText :: t => exc ++ renderText c sigIn exc t

def errEvent {V : Type} (c : Call V) (tbl : String × List Gen.Dispatch.Piece) (sigIn exc : Str) : Event V :=
  sendErr c tbl.1.toList (renderText c sigIn exc tbl.2)

/-- `'%s is not an object provided by this process.'` -/
def unknownObjectErr {V : Type} (c : Call V) : Event V := errEvent c Gen.Dispatch.unknownObject [] []
/-- `'Method "%s" with signature "%s" on interface "%s" doesn't exist'` -/
def unknownMethodErr {V : Type} (c : Call V) : Event V := errEvent c Gen.Dispatch.unknownMethod [] []
/-- `'Call to %s has wrong args (%s, expected %s)'` -/
def invalidArgsErr {V : Type} (c : Call V) (m : Method) : Event V := errEvent c Gen.Dispatch.invalidArgs m.sigIn []
/-- repair C10-02: `'GetManagedObjects failed: %s' % (e,)` -/
def managedFailedErr {V : Type} (c : Call V) (e : Exc) : Event V := errEvent c Gen.Dispatch.managedFailed [] e.text

/-- What a reply needs to remember of the call (the closure of `send_reply` / `send_error`). -/
structure Pending where
  id : Nat
  serial : Nat
  sender : Option Str
  sigOut : Str
  nret : Nat
  deriving DecidableEq, Repr

/-- The nested `send_error(err)`. -/
def sendError {V : Type} (env : Env V) (p : Pending) (e : Exc) : List (Event V) :=
  -- name = e.dbusErrorName if present and not None, else 'org.txdbus.PythonException.' + class name
  let name0 := match e.errName with
    | some n => n
    | none => pyExceptionPrefix ++ e.cls
  -- try: validateErrorName(name) except MarshallingError: errMsg = notice % name + errMsg; name = fallback
  let nt : Str × Str :=
    if env.validErr name0 then (name0, e.text)
    else (invalidErrorName, pyFormat invalidNameNotice [name0] ++ e.text)
  match env.textFix nt.2 with
  | some t => [.sent (.err nt.1 p.serial p.sender t)]
  | none => []          -- ErrorMessage(...) raised inside the errback: nothing is sent

/-- The nested `send_reply(return_values)`; when `MethodReturnMessage(...)` raises, the Deferred's
next errback is `send_error`. -/
def sendReply {V : Type} (env : Env V) (p : Pending) (r : Ret V) : List (Event V) :=
  let body := match r with
    | .seq vs => if p.nret = 1 then [env.ofSeq vs] else vs
    | .single v => [v]
  match env.encErr p.sigOut body with
  | none => [.sent (.ret p.serial p.sender (some p.sigOut) (.vals body))]
  | some e => sendError env p e

/-- `d.addCallback(send_reply); d.addErrback(send_error)` on a Deferred that fires with `r`. -/
def fire {V : Type} (env : Env V) (p : Pending) : Resolution V → List (Event V)
  | .value r => sendReply env p r
  | .fail e => sendError env p e

/-- The closure of `send_reply` / `send_error` for call number `k` on method `m`. -/
def pendingOf {V : Type} (k : Nat) (c : Call V) (m : Method) : Pending :=
  { id := k, serial := c.serial, sender := c.sender, sigOut := m.sigOut, nret := m.nret }

/-- `d = defer.maybeDeferred(o.executeMethod, ...)` once `executeMethod` has found function `f`,
which does `oc`; then `if msg.expectReply: d.addCallback(send_reply); d.addErrback(send_error)`. -/
def afterExecute {V : Type} (env : Env V) (p : Pending) (c : Call V) (f : Func) (oc : Outcome V) :
    List (Event V) × Option Pending :=
  let inv : Event V := .invoked f.id c.body (if f.wantsCaller then some c.sender else none)
  if c.expectReply then
    match oc with
    | .value r => (inv :: sendReply env p r, none)
    | .raise e => (inv :: sendError env p e, none)
    | .deferred => ([inv], some p)
  else
    ([inv], none)

/-- `i` = the first matching interface of the `for x in o.getInterfaces()` loop, `m = i.methods.get(msg.member)`. -/
def lookupMethod (o : Obj) (iface : Option Str) (member : Str) : Option (Iface × Method) :=
  match findIface iface member (getInterfaces o) with
  | some i => (dictGet i.methods member).map fun m => (i, m)
  | none => none

/-- The signature check and the dispatch to `executeMethod` once interface `i` and method `m` are found. -/
def dispatchMethod {V : Type} (env : Env V) (o : Obj) (k : Nat) (c : Call V) (behav : Nat → Outcome V)
    (i : Iface) (m : Method) : List (Event V) × Option Pending :=
  -- msig = msg.signature if not None else ''; esig = m.sigIn; if esig != msig
  if m.sigIn ≠ c.sig.getD [] then
    ([invalidArgsErr c m], none)
  else
    -- d = defer.maybeDeferred(o.executeMethod, i, msg.member, msg.body, msg.sender)
    match resolveImpl o i.name c.member with
    | none =>
      -- raise NotImplementedError inside maybeDeferred
      (if c.expectReply then sendError env (pendingOf k c m) notImplemented else [], none)
    | some f => afterExecute env (pendingOf k c m) c f (behav f.id)

/-- `handleMethodCallMessage(msg)` for call number `k`: the events in the code's order and, when
the user method returned an unfired Deferred that has the reply callbacks, what is pending. -/
def handleCall {V : Type} (env : Env V) (ex : Exports) (k : Nat) (c : Call V)
    (behav : Nat → Outcome V) : List (Event V) × Option Pending :=
  -- if msg.interface == 'org.freedesktop.DBus.Peer' and msg.member == 'Ping'
  if c.iface = some peerPair.1 ∧ c.member = peerPair.2 then
    ([.sent (.ret c.serial c.sender none .empty)], none)
  -- if msg.interface == '...Introspectable' and msg.member == 'Introspect': xml = ...; if xml is not None
  else if (c.iface = some introspectPair.1 ∧ c.member = introspectPair.2) ∧ introspectable ex c.path = true then
    ([.sent (.ret c.serial c.sender (some introspectSig) (.xml c.path))], none)
  else
    -- o = self.exports.get(msg.path, None)
    match dictGet ex c.path with
    | none =>
      ([unknownObjectErr c], none)
    | some o =>
      -- if msg.interface == '...ObjectManager' and msg.member == 'GetManagedObjects'
      if c.iface = some managedPair.1 ∧ c.member = managedPair.2 then
        -- try: i_and_p = self.getManagedObjects(...); r = MethodReturnMessage(...)
        -- except Exception as e: self._send_err(msg, '...Failed', '... %s' % (e,))      (repair C10-02)
        match env.managedErr c.path with
        | none => ([.sent (.ret c.serial c.sender (some managedSig) (.managed c.path))], none)
        | some e => ([managedFailedErr c e], none)
      else
        match lookupMethod o c.iface c.member with
        | none =>
          ([unknownMethodErr c], none)
        | some (i, m) => dispatchMethod env o k c behav i m

/-! ### Histories -/

inductive Op (V : Type) where
  | call (c : Call V) (behav : Nat → Outcome V)
  | resolve (k : Nat) (r : Resolution V)
  /-- `exportObject(obj)` with `obj.getObjectPath() == path` -/
  | exportObj (path : Str) (o : Obj)
  /-- `unexportObject(path)` -/
  | unexportObj (path : Str)

/-- `del d[k]` (a missing key raises KeyError to the application: nothing changes). -/
def dictErase {α : Type} (d : List (Str × α)) (k : Str) : List (Str × α) :=
  d.filter fun e => e.1 ≠ k

/-- `next` is the number of operations processed so far. -/
structure State where
  next : Nat
  pending : List Pending
  exports : Exports
  deriving Repr

def State.init (ex : Exports) : State := { next := 0, pending := [], exports := ex }

/-- One operation: the new state and the events, each tagged with the call it belongs to.  A
Deferred fires at most once (`resolve` of a call that is not pending does nothing here; Twisted
raises `AlreadyCalledError` to the user code that fires it twice).  The InterfacesAdded /
InterfacesRemoved signals of export / unexport are not replies to any call (C16's). -/
def step {V : Type} (env : Env V) (s : State) : Op V → State × List (Nat × Event V)
  | .call c behav =>
    let r := handleCall env s.exports s.next c behav
    ({ next := s.next + 1,
       pending := match r.2 with
         | some p => p :: s.pending
         | none => s.pending,
       exports := s.exports },
     r.1.map fun e => (s.next, e))
  | .resolve k r =>
    match s.pending.find? (fun p => p.id = k) with
    | some p =>
      ({ next := s.next + 1, pending := s.pending.filter (fun q => q.id ≠ k), exports := s.exports },
       (fire env p r).map fun e => (k, e))
    | none => ({ next := s.next + 1, pending := s.pending, exports := s.exports }, [])
  | .exportObj path o =>
    ({ next := s.next + 1, pending := s.pending, exports := dictSet s.exports path o }, [])
  | .unexportObj path =>
    ({ next := s.next + 1, pending := s.pending, exports := dictErase s.exports path }, [])

/-- A whole history from `s`: final state and all tagged events in order. -/
def runFrom {V : Type} (env : Env V) (s : State) : List (Op V) → State × List (Nat × Event V)
  | [] => (s, [])
  | op :: rest =>
    let r := step env s op
    let r' := runFrom env r.1 rest
    (r'.1, r.2 ++ r'.2)

/-- A history starting with exports `ex`. -/
def run {V : Type} (env : Env V) (ex : Exports) (ops : List (Op V)) : State × List (Nat × Event V) :=
  runFrom env (State.init ex) ops

end Txdbus.Obj.Dispatch
