/-
C16 x C17 - the exported-object table over objects that HAVE properties.

Code model of `DBusObjectHandler.exportObject / unexportObject / getManagedObjects` (objects.py) where the
exported objects are instances of a declared class chain in the sense of the C17 model
(`Txdbus.Obj.Props`: `World`, `St`, `getAllProperties`, `encodeVariant`, `exportOk`, `step`), instead of
the abstract objects of `Obj/Tree.lean`:

* `self.exports` maps a path to an INSTANCE (a number); an instance has a fixed path (`Env.pathOf`:
  `DBusObject._objectPath`, given at construction);
* what an object contributes to InterfacesAdded and to the GetManagedObjects reply is computed at that
  moment, as the code does:  `i = {}; for iface in o.getInterfaces(): i[iface.name] =
  o.getAllProperties(iface.name)` - every interface `getInterfaces()` yields (the class chain's and
  DBusObject's own `org.freedesktop.DBus.Properties`, which gets an empty dict), per interface the dict
  of `Props.getAllProperties` (write-only properties excluded, values wrapped per declared type), each
  value marshalled as a variant (`Props.encodeVariant`: signature + plain value).  Any failure in there
  raises: out of `exportObject` (nothing changes - repair C16-03), resp. into the `except Exception`
  of the GetManagedObjects branch (`Error.Failed`);
* property values change by local assignment (`Props.step (.assign …)`) and by a remote
  `Properties.Set` addressed to a path (looked up in the table like every other call);
* the selection of the objects beneath a path is `Tree.managedKeys` (shared with the abstract model).

Scope: that of C17 - one class chain, any number of instances of it.  Core Lean only.
-/
import TxdbusModel.Obj.Tree
import TxdbusModel.Obj.Props

namespace Txdbus.Obj.TreeProps
open Txdbus.Obj Txdbus.Obj.Tree

/-- The declarations and the instances' paths. -/
structure Env where
  cfg : Props.Cfg
  W : Props.World
  pathOf : Nat → Str

/-- `self.exports` (path -> instance) and the property slots of all instances. -/
structure State where
  exports : Table Nat
  pst : Props.St

def State.init : State := ⟨[], Props.St.init⟩

/-- A marshalled `a{sv}`: property name, signature of the variant, plain value. -/
abbrev PropDict := List (Str × Str × Props.PVal)

instance : DecidableEq PropDict := inferInstanceAs (DecidableEq (List (List Char × List Char × Props.PVal)))
instance : DecidableEq (Table PropDict) :=
  inferInstanceAs (DecidableEq (List (List Char × List (List Char × List Char × Props.PVal))))

/-- `o.getAllProperties(name)`, then every value marshalled as a variant (`none`: something raised). -/
def ifaceDict (E : Env) (st : Props.St) (n : Nat) (name : Str) : Option PropDict :=
  (Props.getAllProperties E.cfg E.W st n name).bind fun r =>
    r.mapM fun e => (Props.encodeVariant e.2).map fun sw => (e.1, sw.1, sw.2)

/-- `i = {}; for iface in o.getInterfaces(): i[iface.name] = o.getAllProperties(iface.name)`. -/
def objDictFrom (E : Env) (st : Props.St) (n : Nat) : List Props.IfaceDef → Table PropDict → Option (Table PropDict)
  | [], d => some d
  | f :: fs, d =>
    match ifaceDict E st n f.name with
    | none => none
    | some l => objDictFrom E st n fs (setItem d f.name l)

def objDict (E : Env) (st : Props.St) (n : Nat) : Option (Table PropDict) :=
  objDictFrom E st n E.W.ifaces []

inductive Op where
  | export (n : Nat)
  | unexport (p : Str)
  /-- `instance.attr = v` in the exporting process -/
  | assign (n : Nat) (attr : Str) (v : Props.PVal)
  /-- a remote `org.freedesktop.DBus.Properties.Set(iface, pname, v)` addressed to path `p` -/
  | set (p : Str) (iface pname : Str) (v : Props.PVal)

inductive Signal where
  | interfacesAdded (hdrPath argPath : Str) (ifaces : Table PropDict)
  | interfacesRemoved (hdrPath argPath : Str) (ifaces : List Str)
  deriving DecidableEq, Repr

structure StepResult where
  state : State
  sent : List Signal
  raised : Bool
  /-- what the property layer produced (replies / PropertiesChanged of C17), not looked at by C16 -/
  outs : List Props.Out

def step (E : Env) (s : State) : Op → StepResult
  | .export n =>
    match objDict E s.pst n with
    | none => ⟨⟨s.exports, (Props.step E.cfg E.W s.pst (.export n)).1⟩, [], true, []⟩   -- C17: `raised`, no change
    | some d =>
      ⟨⟨setItem s.exports (E.pathOf n) n, (Props.step E.cfg E.W s.pst (.export n)).1⟩,
        [.interfacesAdded (E.pathOf n) (E.pathOf n) d], false, []⟩
  | .unexport p =>
    match lookup s.exports p with
    | none => ⟨s, [], true, []⟩
    | some n =>
      ⟨⟨delItem s.exports p, s.pst⟩,
        [.interfacesRemoved (E.pathOf n) (E.pathOf n) (E.W.ifaces.map fun f => f.name)], false, []⟩
  | .assign n a v =>
    let r := Props.step E.cfg E.W s.pst (.assign n a v)
    ⟨⟨s.exports, r.1⟩, [], r.2 == [.raised], r.2⟩
  | .set p i pn v =>
    match lookup s.exports p with
    | none => ⟨s, [], false, [.err .unknownObject]⟩
    | some n =>
      let r := Props.step E.cfg E.W s.pst (.set n i pn v)
      ⟨⟨s.exports, r.1⟩, [], false, r.2⟩

def runFrom (E : Env) (s : State) : List Op → State
  | [] => s
  | op :: h => runFrom E (step E s op).state h

def run (E : Env) (h : List Op) : State := runFrom E State.init h

/-! ### GetManagedObjects -/

/-- One entry of the reply: path, and interface name -> marshalled properties. -/
abbrev Entry := Str × Table PropDict

instance : DecidableEq (List Entry) :=
  inferInstanceAs (DecidableEq (List (List Char × List (List Char × List (List Char × List Char × Props.PVal)))))

/-- `getManagedObjects(objectPath)`; `none`: collecting or marshalling raised. -/
def managedReply (E : Env) (s : State) (p : Str) : Option (List Entry) :=
  (managedKeys p s.exports).mapM fun k =>
    (lookup s.exports k).bind fun n => (objDict E s.pst n).map fun d => (k, d)

inductive Reply where
  | managed (entries : List Entry)
  | unknownObject (path : Str)
  | managedFailed
  deriving DecidableEq, Repr

/-- The GetManagedObjects branch of `handleMethodCallMessage` (after Ping / Introspect were ruled out). -/
def handleManaged (E : Env) (s : State) (p : Str) : Reply :=
  match lookup s.exports p with
  | none => .unknownObject p
  | some n =>
    match managedReply E s (E.pathOf n) with
    | some ents => .managed ents
    | none => .managedFailed

/-! ### How this model is read against `Obj/Tree.lean` and against C17 -/

/-- The abstract object an instance is in `Obj/Tree.lean`: its path, the interfaces of the class chain
each with the token "this instance" (what `getAllProperties` returns for it is evaluated when asked, on
the property state of that moment), and whether its announcement can be built now. -/
def absObj (E : Env) (st : Props.St) (n : Nat) : Obj :=
  { path := E.pathOf n, ifaces := E.W.ifaces.map fun f => (f.name, n), sendable := (objDict E st n).isSome }

/-- The export / unexport calls of a history, as the abstract model sees them. -/
def absHistFrom (E : Env) (s : State) : List Op → List Txdbus.Obj.Op
  | [] => []
  | .export n :: h => .export (absObj E s.pst n) :: absHistFrom E (step E s (.export n)).state h
  | .unexport p :: h => .unexport p :: absHistFrom E (step E s (.unexport p)).state h
  | op :: h => absHistFrom E (step E s op).state h

def absHist (E : Env) (h : List Op) : List Txdbus.Obj.Op := absHistFrom E State.init h

/-- The operations of a history that concern the property layer, as a C17 history. -/
def propHistFrom (E : Env) (s : State) : List Op → List Props.Op
  | [] => []
  | .export n :: h => .export n :: propHistFrom E (step E s (.export n)).state h
  | .unexport p :: h => propHistFrom E (step E s (.unexport p)).state h
  | .assign n a v :: h => .assign n a v :: propHistFrom E (step E s (.assign n a v)).state h
  | .set p i pn v :: h =>
    (match lookup s.exports p with
      | some n => [Props.Op.set n i pn v]
      | none => []) ++ propHistFrom E (step E s (.set p i pn v)).state h

def propHist (E : Env) (h : List Op) : List Props.Op := propHistFrom E State.init h

end Txdbus.Obj.TreeProps
