/-
C16 x C17 - the exported-object table over objects that HAVE properties.

Code model of `DBusObjectHandler.exportObject / unexportObject / getManagedObjects` (objects.py) where the
exported objects are instances of a declared class chain in the sense of the C17 model
(`Txdbus.Obj.Props`: `World`, `St`, `getAllProperties`, `encodeVariant`, `exportOk`, `step`), instead of
the abstract objects of `Obj/Tree.lean`:

* `self.exports` maps a path to an INSTANCE (a number); an instance has a fixed path (`Env.pathOf`:
  `DBusObject._objectPath`, given at construction);
* what an object contributes to InterfacesAdded and to the GetManagedObjects reply is computed at that
  moment, as the code does:  `i = {}; for iface in o.getInterfaces(): i[iface.name] =
  o.getAllProperties(iface.name)` - every interface `getInterfaces()` yields (the class chain's and
  DBusObject's own `org.freedesktop.DBus.Properties`, which gets an empty dict), per interface the dict
  of `Props.getAllProperties` (write-only properties excluded, values wrapped per declared type), each
  value marshalled as a variant (`Props.encodeVariant`: signature + plain value).  Any failure in there
  raises: out of `exportObject` (nothing changes - repair C16-03), resp. into the `except Exception`
  of the GetManagedObjects branch (`Error.Failed`);
* property values change by local assignment (`Props.step (.assign …)`) and by a remote
  `Properties.Set` addressed to a path (looked up in the table like every other call);
* the selection of the objects beneath a path is `Tree.managedKeys` (shared with the abstract model).

Scope: every instance belongs to one of any number of declared class chains (`Env.cls`, `Env.W`), each chain
within the scope of C17 (single inheritance); the property slots are kept per class (in Python they live in
the instance, `instance._dbusProperties`, so any partition by instance is the same thing), which makes the
property state of class `c` literally C17's state after the operations on instances of `c`.  Core Lean only.
-/
import TxdbusModel.Obj.Tree
import TxdbusModel.Obj.Props

namespace Txdbus.Obj.TreeProps
open Txdbus.Obj Txdbus.Obj.Tree

/-- The declarations (one elaborated class chain per class id), each instance's class and path. -/
structure Env where
  cfg : Props.Cfg
  W : Nat → Props.World
  cls : Nat → Nat
  pathOf : Nat → Str

/-- The class chain of instance `n`. -/
def Env.wOf (E : Env) (n : Nat) : Props.World := E.W (E.cls n)

/-- `self.exports` (path -> instance) and, per class, the property slots of its instances. -/
structure State where
  exports : Table Nat
  pst : Nat → Props.St

def State.init : State := ⟨[], fun _ => Props.St.init⟩

/-- The slots of the class of instance `n`. -/
def State.stOf (E : Env) (s : State) (n : Nat) : Props.St := s.pst (E.cls n)

def upd (f : Nat → Props.St) (c : Nat) (v : Props.St) : Nat → Props.St := fun c' => if c' = c then v else f c'

/-- One operation of the property layer on instance `n`: C17's `step` on the state of its class. -/
def propStep (E : Env) (s : State) (n : Nat) (op : Props.Op) : (Nat → Props.St) × List Props.Out :=
  let r := Props.step E.cfg (E.wOf n) (s.stOf E n) op
  (upd s.pst (E.cls n) r.1, r.2)

/-- A marshalled `a{sv}`: property name, signature of the variant, plain value. -/
abbrev PropDict := List (Str × Str × Props.PVal)

instance : DecidableEq PropDict := inferInstanceAs (DecidableEq (List (List Char × List Char × Props.PVal)))
instance : DecidableEq (Table PropDict) :=
  inferInstanceAs (DecidableEq (List (List Char × List (List Char × List Char × Props.PVal))))

/-- `o.getAllProperties(name)`, then every value marshalled as a variant (`none`: something raised). -/
def ifaceDict (E : Env) (st : Props.St) (n : Nat) (name : Str) : Option PropDict :=
  (Props.getAllProperties E.cfg (E.wOf n) st n name).bind fun r =>
    r.mapM fun e => (Props.encodeVariant e.2).map fun sw => (e.1, sw.1, sw.2)

/-- `i = {}; for iface in o.getInterfaces(): i[iface.name] = o.getAllProperties(iface.name)`. -/
def objDictFrom (E : Env) (st : Props.St) (n : Nat) : List Props.IfaceDef → Table PropDict → Option (Table PropDict)
  | [], d => some d
  | f :: fs, d =>
    match ifaceDict E st n f.name with
    | none => none
    | some l => objDictFrom E st n fs (setItem d f.name l)

def objDict (E : Env) (st : Props.St) (n : Nat) : Option (Table PropDict) :=
  objDictFrom E st n (E.wOf n).ifaces []

inductive Op where
  | export (n : Nat)
  | unexport (p : Str)
  /-- `instance.attr = v` in the exporting process -/
  | assign (n : Nat) (attr : Str) (v : Props.PVal)
  /-- a remote `org.freedesktop.DBus.Properties.Set(iface, pname, v)` addressed to path `p` -/
  | set (p : Str) (iface pname : Str) (v : Props.PVal)

inductive Signal where
  | interfacesAdded (hdrPath argPath : Str) (ifaces : Table PropDict)
  | interfacesRemoved (hdrPath argPath : Str) (ifaces : List Str)
  deriving DecidableEq, Repr

structure StepResult where
  state : State
  sent : List Signal
  raised : Bool
  /-- what the property layer produced (replies / PropertiesChanged of C17), not looked at by C16 -/
  outs : List Props.Out

def step (E : Env) (s : State) : Op → StepResult
  | .export n =>
    match objDict E (s.stOf E n) n with
    | none => ⟨⟨s.exports, (propStep E s n (.export n)).1⟩, [], true, []⟩   -- C17: `raised`, no change
    | some d =>
      ⟨⟨setItem s.exports (E.pathOf n) n, (propStep E s n (.export n)).1⟩,
        [.interfacesAdded (E.pathOf n) (E.pathOf n) d], false, []⟩
  | .unexport p =>
    match lookup s.exports p with
    | none => ⟨s, [], true, []⟩
    | some n =>
      ⟨⟨delItem s.exports p, s.pst⟩,
        [.interfacesRemoved (E.pathOf n) (E.pathOf n) ((E.wOf n).ifaces.map fun f => f.name)], false, []⟩
  | .assign n a v =>
    let r := propStep E s n (.assign n a v)
    ⟨⟨s.exports, r.1⟩, [], r.2 == [.raised], r.2⟩
  | .set p i pn v =>
    match lookup s.exports p with
    | none => ⟨s, [], false, [.err .unknownObject]⟩
    | some n =>
      let r := propStep E s n (.set n i pn v)
      ⟨⟨s.exports, r.1⟩, [], false, r.2⟩

def runFrom (E : Env) (s : State) : List Op → State
  | [] => s
  | op :: h => runFrom E (step E s op).state h

def run (E : Env) (h : List Op) : State := runFrom E State.init h

/-! ### GetManagedObjects -/

/-- One entry of the reply: path, and interface name -> marshalled properties. -/
abbrev Entry := Str × Table PropDict

instance : DecidableEq (List Entry) :=
  inferInstanceAs (DecidableEq (List (List Char × List (List Char × List (List Char × List Char × Props.PVal)))))

/-- `getManagedObjects(objectPath)`; `none`: collecting or marshalling raised. -/
def managedReply (E : Env) (s : State) (p : Str) : Option (List Entry) :=
  (managedKeys p s.exports).mapM fun k =>
    (lookup s.exports k).bind fun n => (objDict E (s.stOf E n) n).map fun d => (k, d)

inductive Reply where
  | managed (entries : List Entry)
  | unknownObject (path : Str)
  | managedFailed
  deriving DecidableEq, Repr

/-- The GetManagedObjects branch of `handleMethodCallMessage` (after Ping / Introspect were ruled out). -/
def handleManaged (E : Env) (s : State) (p : Str) : Reply :=
  match lookup s.exports p with
  | none => .unknownObject p
  | some n =>
    match managedReply E s (E.pathOf n) with
    | some ents => .managed ents
    | none => .managedFailed

/-! ### How this model is read against `Obj/Tree.lean` and against C17 -/

/-- The abstract object an instance is in `Obj/Tree.lean`: its path, the interfaces of the class chain
each with the token "this instance" (what `getAllProperties` returns for it is evaluated when asked, on
the property state of that moment), and whether its announcement can be built now. -/
def absObj (E : Env) (st : Props.St) (n : Nat) : Obj :=
  { path := E.pathOf n, ifaces := (E.wOf n).ifaces.map fun f => (f.name, n), sendable := (objDict E st n).isSome }

/-- The export / unexport calls of a history, as the abstract model sees them. -/
def absHistFrom (E : Env) (s : State) : List Op → List Txdbus.Obj.Op
  | [] => []
  | .export n :: h => .export (absObj E (s.stOf E n) n) :: absHistFrom E (step E s (.export n)).state h
  | .unexport p :: h => .unexport p :: absHistFrom E (step E s (.unexport p)).state h
  | op :: h => absHistFrom E (step E s op).state h

def absHist (E : Env) (h : List Op) : List Txdbus.Obj.Op := absHistFrom E State.init h

/-- The operations of a history that concern the property layer of class `c`, as a C17 history. -/
def propHistFrom (E : Env) (c : Nat) (s : State) : List Op → List Props.Op
  | [] => []
  | .export n :: h =>
    (if E.cls n = c then [Props.Op.export n] else []) ++ propHistFrom E c (step E s (.export n)).state h
  | .unexport p :: h => propHistFrom E c (step E s (.unexport p)).state h
  | .assign n a v :: h =>
    (if E.cls n = c then [Props.Op.assign n a v] else []) ++ propHistFrom E c (step E s (.assign n a v)).state h
  | .set p i pn v :: h =>
    (match lookup s.exports p with
      | some n => if E.cls n = c then [Props.Op.set n i pn v] else []
      | none => []) ++ propHistFrom E c (step E s (.set p i pn v)).state h

def propHist (E : Env) (c : Nat) (h : List Op) : List Props.Op := propHistFrom E c State.init h

end Txdbus.Obj.TreeProps
