/-
C10 x C17 COMPOSITION (extension 2026-09-30): calls to `org.freedesktop.DBus.Properties` as
`DBusObjectHandler.handleMethodCallMessage` dispatches them.

The dispatcher has no special case for the Properties interface: `DBusObject` - the class every
exported object derives from - declares it in its own `dbusInterfaces` and implements Get / Set /
GetAll with three `@dbusMethod`-decorated functions (`_dbus_PropertyGet`, ...).  A Properties
call therefore takes the ordinary road of `Obj/Dispatch.lean`: object lookup (UnknownObject),
interface and member lookup along `getInterfaces()` (DBusObject's interface comes LAST),
signature check (InvalidArgs), `executeMethod` (`dbus_<member>` first, then the decorator
cache), `send_reply` / `send_error`.  This file supplies the two things `Obj/Dispatch.lean`
leaves open for such a call:

  * `baseClass`   - `DBusObject` as one more `Class` at the end of every class chain, read off
                    the generated table `Gen/DispatchBuiltin.lean`;
  * `libBehav`    - what the three library functions DO when the dispatcher invokes them: no
                    longer a parameter but C17's model (`Obj/Props.lean`, imported read-only):
                    `Props.opGet` / `opSet` / `opGetAll` on C17's world and state.  C17's `Out`
                    is what a peer decodes from the reply; `outcomeOf` turns it back into what
                    the dispatcher sees: a returned value, or a raised exception - the exception
                    the code raises where the code decides (`Invalid Property`, ..., from the
                    table), the parameter `vexc` where Python decides (ValueError / TypeError /
                    OverflowError of a conversion, MarshallingError of the trial marshalling or of
                    `MethodReturnMessage` itself: C17's category `value`).  A reply that cannot be
                    marshalled is folded into `raise`: both reach `send_error` with the exception
                    (`Dispatch.sendReply`: `encErr = some e` IS `sendError env p e`).

`obsMsg` is the observation C17 makes of a reply (harness/c17.py `show_obs` / `err_cat`); the
theorem `properties_call_reply_is_c17` (Properties/C10.lean) says that the dispatcher's reply to
a Properties call, observed that way, is C17's outcome, and C10's theorems give the rest (exactly
one, addressed to the caller, none for a no-reply call).

SEAM between the two models, now explicit: C17's `St.attached` means "has an object handler"
(`setObjectHandler`: PropertiesChanged signals are emitted) and is never undone; whether a call
REACHES the object is decided here by the dispatcher's `exports` at the moment the call arrives.
After `unexportObject` the two differ: calls are answered UnknownObject, local assignments still
emit signals.
Core Lean only.
-/
import TxdbusModel.Obj.Dispatch
import TxdbusModel.Obj.Props
import TxdbusModel.Gen.DispatchBuiltin

namespace Txdbus.Obj.DispatchProps

open Txdbus.Obj.Dispatch

abbrev PVal := Txdbus.Obj.Props.PVal

/-- Python values that travel through the dispatcher in a history with Properties calls. -/
inductive PV where
  /-- a `str` (interface name, property name) -/
  | str (s : Str)
  /-- a Python value: the content of Set's variant argument as decoded; `None` -/
  | val (v : PVal)
  /-- Get's result as a peer decodes it: the signature the variant carries and the value -/
  | variant (sig : Str) (w : PVal)
  /-- GetAll's result as a peer decodes it: name -> variant, in wire order -/
  | dict (l : List (Str × Str × PVal))
  /-- anything else (arguments and results of user methods): a token -/
  | other (n : Nat)
  deriving DecidableEq, Repr

/-! ### `DBusObject` as the dispatcher sees it (generated table) -/

def mkMethod (m : String × String × String × Nat) : Str × Method :=
  (m.1.toList, { name := m.1.toList, sigIn := m.2.1.toList, sigOut := m.2.2.1.toList, nret := m.2.2.2 })

def mkFunc (f : String × Nat × Option (String × String) × List String) : Str × Func :=
  (f.1.toList, { id := f.2.1, deco := f.2.2.1.map pairOf, params := f.2.2.2.map String.toList })

/-- `DBusObject`: the last class (before `object`) of the `__mro__` of every exported object. -/
def baseClass : Class :=
  { ifaces := some (Gen.DispatchBuiltin.baseIfaces.map fun i =>
      { name := i.1.toList, methods := i.2.map mkMethod }),
    attrs := Gen.DispatchBuiltin.baseFuncs.map mkFunc }

def propsName : Str := Gen.DispatchBuiltin.propsIface.toList
def getMember : Str := Gen.DispatchBuiltin.getMember.toList
def setMember : Str := Gen.DispatchBuiltin.setMember.toList
def getAllMember : Str := Gen.DispatchBuiltin.getAllMember.toList
def getId : Nat := Gen.DispatchBuiltin.getFunc.2
def setId : Nat := Gen.DispatchBuiltin.setFunc.2
def getAllId : Nat := Gen.DispatchBuiltin.getAllFunc.2

def excOfTable (e : String × String) : Exc := { cls := e.1.toList, errName := none, text := e.2.toList }

/-- `raise Exception('Invalid Property')` etc.: the exceptions the library methods raise where the code decides. -/
def invalidProperty : Exc := excOfTable Gen.DispatchBuiltin.invalidProperty
def notReadable : Exc := excOfTable Gen.DispatchBuiltin.notReadable
def notWritable : Exc := excOfTable Gen.DispatchBuiltin.notWritable
def invalidInterface : Exc := excOfTable Gen.DispatchBuiltin.invalidInterface

/-! ### The library functions, from C17's model -/

/-- The C17 side of the object a call addresses: C17's configuration and world (the class chain with
every interface cache built), which instance it is, and the exception Python raises where C17's
model only says "the value cannot be converted / marshalled" (`ErrCat.value`, `ErrCat.noAttr`). -/
structure Lib where
  cfg : Props.Cfg
  W : Props.World
  o : Nat
  vexc : Exc

def excOfCat (L : Lib) : Props.ErrCat → Exc
  | .unknownProp => invalidProperty
  | .notReadable => notReadable
  | .notWritable => notWritable
  | .unknownIface => invalidInterface
  | .value => L.vexc
  | .noAttr => L.vexc
  | .unknownObject => L.vexc      -- never an outcome of opGet / opSet / opGetAll (C17's `step` produces it)

/-- What the dispatcher sees of a library call whose wire-level outcome is `out`. -/
def outcomeOf (L : Lib) : Props.Out → Outcome PV
  | .ret => .value (.single (.val .none))            -- `return setattr(...)`: None
  | .retV s w => .value (.single (.variant s w))
  | .retD l => .value (.single (.dict l))
  | .err cat => .raise (excOfCat L cat)
  | _ => .raise L.vexc                               -- signals / local results are not call outcomes

/-- The reply-part and the signal-part of what C17's `opSet` puts out. -/
def replyOut (outs : List Props.Out) : Props.Out := outs.getLast?.getD .raised
def signalsOf (outs : List Props.Out) : List Props.Out := outs.dropLast

/-- `_dbus_PropertyGet(interfaceName, propertyName)` -/
def libGet (L : Lib) (st : Props.St) : List PV → Outcome PV
  | [.str i, .str p] => outcomeOf L (Props.opGet L.cfg L.W st L.o i p)
  | _ => .raise L.vexc      -- other argument lists do not pass the signature check `ss`

/-- `_dbus_PropertySet(interfaceName, propertyName, value)`: outcome, state afterwards, signals sent meanwhile. -/
def libSet (L : Lib) (st : Props.St) : List PV → Outcome PV × Props.St × List Props.Out
  | [.str i, .str p, .val v] =>
    let r := Props.opSet L.cfg L.W st L.o i p v
    (outcomeOf L (replyOut r.2), r.1, signalsOf r.2)
  | _ => (.raise L.vexc, st, [])

/-- `_dbus_PropertyGetAll(interfaceName)` -/
def libGetAll (L : Lib) (st : Props.St) : List PV → Outcome PV
  | [.str i] => outcomeOf L (Props.opGetAll L.cfg L.W st L.o i)
  | _ => .raise L.vexc

/-- The behaviour of every function the dispatcher may invoke for call `c`: the three library
functions behave as C17's model says in state `st`, user functions as `user` says. -/
def libBehav (L : Lib) (st : Props.St) (c : Call PV) (user : Nat → Outcome PV) : Nat → Outcome PV :=
  fun id =>
    if id = getId then libGet L st c.body
    else if id = setId then (libSet L st c.body).1
    else if id = getAllId then libGetAll L st c.body
    else user id

/-- Did the dispatcher invoke function `id` among these events. -/
def invokedIn (id : Nat) (evs : List (Nat × Event PV)) : Bool :=
  evs.any fun e => match e.2 with
    | .invoked f _ _ => f == id
    | .sent _ => false

/-- One call in a history with Properties: the dispatcher's step with the library behaviours;
C17's state moves (and the signals of `DBusProperty.__set__` go out) exactly when the dispatcher
invoked `_dbus_PropertySet`.  Returns the dispatcher's state, C17's state, the tagged events and
the signals sent during the call (they precede the reply on the connection). -/
def callStep (env : Env PV) (L : Lib) (s : State) (st : Props.St) (c : Call PV) (user : Nat → Outcome PV) :
    State × Props.St × List (Nat × Event PV) × List Props.Out :=
  let r := step env s (.call c (libBehav L st c user))
  if invokedIn setId r.2 then
    let w := libSet L st c.body
    (r.1, w.2.1, r.2, w.2.2)
  else (r.1, st, r.2, [])

/-! ### The observation C17 makes of a reply (harness/c17.py `show_obs`, `err_cat`) -/

def unknownObjectName : Str := Gen.Dispatch.unknownObject.1.toList

def excMatches (e : Exc) (name text : Str) : Bool :=
  name == pyExceptionPrefix ++ e.cls && text == e.text

/-- `err_cat`: the category of an error reply by its name (and, for `Exception`, its text). -/
def errCat (name text : Str) : Option Props.ErrCat :=
  if name = unknownObjectName then some .unknownObject
  else if excMatches invalidProperty name text then some .unknownProp
  else if excMatches notReadable name text then some .notReadable
  else if excMatches notWritable name text then some .notWritable
  else if excMatches invalidInterface name text then some .unknownIface
  else if name = pyExceptionPrefix ++ invalidProperty.cls then none      -- that class with another text
  else if pyExceptionPrefix.isPrefixOf name then some .value
  else none

/-- `show_obs`: what a reply is in C17's vocabulary (`none`: nothing C17 knows). -/
def obsMsg : Msg PV → Option Props.Out
  | .ret _ _ sig (.vals [.variant s w]) =>
    if sig = some Gen.DispatchBuiltin.getReplySig.toList then some (.retV s w) else none
  | .ret _ _ sig (.vals [.dict l]) =>
    if sig = some Gen.DispatchBuiltin.getAllReplySig.toList then some (.retD l) else none
  | .ret _ _ sig (.vals _) =>
    if sig = some Gen.DispatchBuiltin.setReplySig.toList then some .ret else none
  | .err n _ _ t => (errCat n t).map .err
  | _ => none

end Txdbus.Obj.DispatchProps
