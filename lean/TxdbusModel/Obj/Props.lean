/-
C17 - code model of remote property access in txdbus/objects.py (+ interface.Property, marshal.variantClassMap).

Mirrors, as written (after the repairs fixes/C17-*.patch; the pre-repair behaviour is kept selectable
through `Cfg` so that the witnesses of the defects stay checkable):

  * `interface.Property.__init__`      -> `normAccess`, `normEmits`, `mkProp`, `mkIface`
  * `DBusObject.getInterfaces`         -> `getInterfaces` (MRO order, DBusObject's own Properties interface last)
  * `DBusObject._cacheInterfaces`      -> `bindDesc` (interface=None resolution, iprop lookup), `cacheAdd`
  * `DBusObject._iterIFaceCaches`      -> `elaborate` (one cache per class of the chain, most derived first,
                                          then DBusObject's own cache)
  * `DBusObject._searchCache/_getProperty` -> `searchNamed`, `searchAny`, `getProperty`
  * `DBusProperty.__get__/__set__`     -> `descGet`, `descSet` (storage key `Cfg.key`, PropertiesChanged emission)
  * `getAllProperties`, `_dbus_PropertyGet/Set/GetAll` -> `getAllProperties`, `opGet`, `opSet`, `opGetAll`
  * typing of replies: `variantClassMap[sig](v)`, `sigFromPy`, the marshallers' acceptance tests
                                        -> `castClass`, `sigFromPy`, `marshalAs`, `encodeVariant`

Scope (see notes/C17.md): one single-inheritance class chain, any number of instances of the most derived
class; the interface caches are built (the harness warms them up the way `exportObject` does), so the lazy
binding window of `DBusProperty.__get__/__set__` is not modelled; Python values are the universe `PVal`.
Core Lean only.
-/
import TxdbusModel.Gen.C17Props
import TxdbusModel.Wire.Code

namespace Txdbus.Obj.Props

abbrev Str := List Char

/-! ### Python `dict` with `str`/tuple keys as an association list (insertion order, overwrite in place) -/

def dget {κ α : Type} [DecidableEq κ] : List (κ × α) → κ → Option α
  | [], _ => none
  | (k', v) :: t, k => if k' = k then some v else dget t k

def dset {κ α : Type} [DecidableEq κ] : List (κ × α) → κ → α → List (κ × α)
  | [], k, v => [(k, v)]
  | (k', v') :: t, k, v => if k' = k then (k', v) :: t else (k', v') :: dset t k v

/-! ### Python values that travel through properties -/

/-- The value universe of the model: `None`, `int` (not `bool`), `bool`, `str`, `float` (as its 64-bit
pattern, opaque), `list` of `str`, and instances of marshal's wrapper classes: `wint tag n` an instance of
the `int` subclass whose `dbusSignature` is `tag` (Byte, Int16, ... , Boolean), `wstr tag s` of the `str`
subclass (ObjectPath, Signature). -/
inductive Scalar where
  | int (n : Int)
  | bool (b : Bool)
  | str (s : Str)
  | dbl (bits : Nat)
  deriving DecidableEq, Repr, Inhabited

inductive PVal where
  | none
  | int (n : Int)
  | bool (b : Bool)
  | str (s : Str)
  | dbl (bits : Nat)
  | strs (l : List Str)
  | wint (tag : Char) (n : Int)
  | wstr (tag : Char) (s : Str)
  /-- further containers (one level): a `list` / `tuple` of scalars, a `dict` from `str` to scalars, a `list`
  of lists of `str`.  They are outside the theorems' universe (`wireOk`, `HasType` are false for them); the
  model handles them by running the shared codec model `Txdbus.Code` (C01/C02) on them, so that properties
  of container type are covered by the correspondence streams. -/
  | list (l : List Scalar)
  | tuple (l : List Scalar)
  | dict (l : List (Str × Scalar))
  | lists (l : List (List Str))
  deriving DecidableEq, Repr, Inhabited

def PVal.isContainer : PVal → Bool
  | .list _ | .tuple _ | .dict _ | .lists _ => true
  | _ => false

/-- The plain Python value a peer decodes for a wrapper instance (a Boolean decodes as `bool`). -/
def PVal.plain : PVal → PVal
  | .wint tag n => if tag = 'b' then .bool (n ≠ 0) else .int n
  | .wstr _ s => .str s
  | .none => .none
  | .int n => .int n
  | .bool b => .bool b
  | .str s => .str s
  | .dbl b => .dbl b
  | .strs l => .strs l
  | .list l => .list l
  | .tuple l => .tuple l
  | .dict l => .dict l
  | .lists l => .lists l

/-- A Python value that may be an instance of one of marshal's wrapper classes (`tag` = its
`dbusSignature`). -/
structure Typed where
  tag : Option Char
  val : PVal
  deriving DecidableEq, Repr

/-- `int(x)` for a float given by its IEEE-754 binary64 pattern: truncation toward zero; NaN (ValueError)
and the infinities (OverflowError) answer `none`. -/
def dblTrunc (bits : Nat) : Option Int :=
  let neg := bits / 9223372036854775808 % 2 = 1
  let e := bits / 4503599627370496 % 2048
  let m := bits % 4503599627370496
  if e = 2047 then none
  else
    let mant := if e = 0 then m else m + 4503599627370496
    let e' := if e = 0 then 1 else e
    let mag : Nat := if e' ≥ 1075 then mant * 2 ^ (e' - 1075) else mant / 2 ^ (1075 - e')
    some (if neg then -(Int.ofNat mag) else Int.ofNat mag)

/-- `int(v)` on the generated domain (a `str` argument: non-empty ASCII digits only, anything else is the
`ValueError` branch). -/
def pyInt : PVal → Option Int
  | .int n => some n
  | .bool b => some (if b then 1 else 0)
  | .str s =>
    if s ≠ [] ∧ s.all (fun c => '0' ≤ c ∧ c ≤ '9') then
      some (Int.ofNat (s.foldl (fun acc c => acc * 10 + (c.toNat - '0'.toNat)) 0))
    else none
  | .dbl b => dblTrunc b
  | .wint _ n => some n
  | .wstr _ s =>
    if s ≠ [] ∧ s.all (fun c => '0' ≤ c ∧ c ≤ '9') then
      some (Int.ofNat (s.foldl (fun acc c => acc * 10 + (c.toNat - '0'.toNat)) 0))
    else none
  | _ => none

def natRepr (n : Nat) : Str := (Nat.repr n).toList

/-- `repr(s)` is `'` ++ s ++ `'` for these strings (printable ASCII without quote or backslash). -/
def simpleStr (s : Str) : Bool :=
  s.all fun c => 32 ≤ c.toNat ∧ c.toNat < 127 ∧ c ≠ '\'' ∧ c ≠ '"' ∧ c ≠ '\\'

/-- `str(v)` on the generated domain (`float` arguments are not generated; a list only of simple strings). -/
def pyStr : PVal → Option Str
  | .str s => some s
  | .int n => some (if n < 0 then '-' :: natRepr n.natAbs else natRepr n.natAbs)
  | .bool b => some (if b then "True".toList else "False".toList)
  | .none => some "None".toList
  | .strs l =>
    if l.all simpleStr then
      some ('[' :: (", ".toList.intercalate (l.map fun s => '\'' :: (s ++ ['\'']))) ++ [']'])
    else none
  | .dbl _ => none
  | .wint _ n => some (if n < 0 then '-' :: natRepr n.natAbs else natRepr n.natAbs)
  | .wstr _ s => some s
  | _ => none     -- str() of the further containers is not modelled (not generated for 'o' / 'g' slots)

def classOf (c : Char) : Option (String × Char) := dget Gen.C17Props.classMap c

/-- `marshal.variantClassMap[sig](v)` when `sig in marshal.variantClassMap`, else `v` unchanged. -/
def castClass (sig : Str) (v : PVal) : Option Typed :=
  match sig with
  | [c] =>
    match classOf c with
    | some (base, tag) =>
      if base = "int" then (pyInt v).map fun n => ⟨some tag, .int n⟩
      else if base = "str" then (pyStr v).map fun s => ⟨some tag, .str s⟩
      else none
    | none =>
      -- repaired (fixes/C17-05): a `str` subclass held by an 's' property is sent as a plain `str`
      if c = 's' then
        match v with
        | .wstr _ s => some ⟨none, .str s⟩
        | _ => some ⟨none, v⟩
      else some ⟨none, v⟩
  | _ => some ⟨none, v⟩

/-! ### delegation to the shared codec model for everything outside the 15 modelled signatures -/

def Scalar.toShared : Scalar → Txdbus.PyVal
  | .int n => .int .plain n
  | .bool b => .bool b
  | .str s => .str .plain s
  | .dbl b => .float (UInt64.ofNat b)

def intClsOf (c : Char) : Txdbus.IntCls :=
  if c = 'y' then .byte else if c = 'b' then .boolean else if c = 'n' then .int16 else if c = 'q' then .uint16
  else if c = 'i' then .int32 else if c = 'u' then .uint32 else if c = 'x' then .int64
  else if c = 't' then .uint64 else .plain

def strClsOf (c : Char) : Txdbus.StrCls :=
  if c = 'g' then .signature else if c = 'o' then .objectPath else .plain

def PVal.toShared : PVal → Txdbus.PyVal
  | .none => .none
  | .int n => .int .plain n
  | .bool b => .bool b
  | .str s => .str .plain s
  | .dbl b => .float (UInt64.ofNat b)
  | .strs l => .list (l.map fun s => .str .plain s)
  | .wint c n => .int (intClsOf c) n
  | .wstr c s => .str (strClsOf c) s
  | .list l => .list (l.map Scalar.toShared)
  | .tuple l => .tuple (l.map Scalar.toShared)
  | .dict l => .dict (l.map fun e => (.str .plain e.1, e.2.toShared))
  | .lists l => .list (l.map fun x => .list (x.map fun s => .str .plain s))

def scalarOfShared : Txdbus.PyVal → Option Scalar
  | .int _ n => some (.int n)
  | .bool b => some (.bool b)
  | .str _ s => some (.str s)
  | .float b => some (.dbl b.toNat)
  | _ => none

def strOfShared : Txdbus.PyVal → Option Str
  | .str _ s => some s
  | _ => none

def strsOfShared : Txdbus.PyVal → Option (List Str)
  | .list xs => xs.mapM strOfShared
  | _ => none

/-- A decoded value back in the model's universe (`none`: outside it). -/
def ofShared : Txdbus.PyVal → Option PVal
  | .int _ n => some (.int n)
  | .bool b => some (.bool b)
  | .str _ s => some (.str s)
  | .float b => some (.dbl b.toNat)
  | .list xs =>
    match xs.mapM strOfShared with
    | some l => some (.strs l)
    | none =>
      match xs.mapM scalarOfShared with
      | some l => some (.list l)
      | none => (xs.mapM strsOfShared).map .lists
  | .dict kvs =>
    (kvs.mapM fun (kv : Txdbus.PyVal × Txdbus.PyVal) => match strOfShared kv.1, scalarOfShared kv.2 with
      | some k, some v => some (k, v)
      | _, _ => none).map .dict
  | _ => none

def extFuel : Nat := 64

/-- `marshal.marshal(sig, [v])` through the shared codec model, then what a peer decodes from the bytes. -/
def extMarshal (sig : Str) (v : PVal) : Option PVal :=
  match Txdbus.Code.marshal extFuel sig (.list [v.toShared]) 0 true (some []) with
  | .ok (_, bytes, _) =>
    match Txdbus.Code.unmarshal extFuel sig bytes 0 true (some []) with
    | .ok (_, [w]) => ofShared w
    | _ => none
  | .error _ => none

/-- `marshal.marshal(sig, [v])` does not raise (shared codec model). -/
def extMarshalOk (sig : Str) (v : PVal) : Bool :=
  match Txdbus.Code.marshal extFuel sig (.list [v.toShared]) 0 true (some []) with
  | .ok _ => true
  | .error _ => false

/-- `marshal.sigFromPy` through the shared inference model. -/
def extSigFromPy (v : PVal) : Option Str :=
  match Txdbus.sigFromPy v.toShared with
  | .ok s => some s
  | .error _ => none

/-- `marshal.sigFromPy` (after the repair of F28): wrapper instances answer their `dbusSignature`. -/
def sigFromPy (t : Typed) : Option Str :=
  match t.tag with
  | some c => some [c]
  | none =>
    match t.val with
    | .none => none
    | .bool _ => some ['b']
    | .int n =>
      if -2147483648 ≤ n ∧ n < 2147483648 then some ['i']
      else if -9223372036854775808 ≤ n ∧ n < 9223372036854775808 then some ['x']
      else some ['t']
    | .dbl _ => some ['d']
    | .str _ => some ['s']
    | .strs [] => some ['a', 'v']
    | .strs (_ :: _) => some ['a', 's']
    | .wint c _ => some [c]
    | .wstr c _ => some [c]
    | v => extSigFromPy v

/-- The DBus types the model knows how to marshal (the keys of `marshal.marshallers` it mirrors). -/
inductive DTy where
  | y | n | q | i | u | x | t | b | d | s | o | g | as | av | v
  deriving DecidableEq, Repr

/-- Dispatch on the signature (`marshallers[ct[0]]` with the element type for arrays). -/
def DTy.ofSig : Str → Option DTy
  | ['y'] => some .y | ['n'] => some .n | ['q'] => some .q | ['i'] => some .i | ['u'] => some .u
  | ['x'] => some .x | ['t'] => some .t | ['b'] => some .b | ['d'] => some .d | ['s'] => some .s
  | ['o'] => some .o | ['g'] => some .g | ['a', 's'] => some .as | ['a', 'v'] => some .av
  | ['v'] => some .v
  | _ => none

def DTy.render : DTy → Str
  | .y => ['y'] | .n => ['n'] | .q => ['q'] | .i => ['i'] | .u => ['u'] | .x => ['x'] | .t => ['t']
  | .b => ['b'] | .d => ['d'] | .s => ['s'] | .o => ['o'] | .g => ['g'] | .as => ['a', 's']
  | .av => ['a', 'v'] | .v => ['v']

/-- The signatures a property can be declared with inside the theorems' scope: the 12 basic types, `as`, `v`
(`av` is in `DTy` only because `sigFromPy([])` answers it; as a declared type it is left to the shared codec
model like every other container type). -/
def declarable (sig : Str) : Bool :=
  match DTy.ofSig sig with
  | some .av => false
  | some _ => true
  | none => false

/-- Range accepted by `struct.pack` for the integer formats. -/
def DTy.intRange : DTy → Option (Int × Int)
  | .y => some (0, 255)
  | .n => some (-32768, 32767)
  | .q => some (0, 65535)
  | .i => some (-2147483648, 2147483647)
  | .u => some (0, 4294967295)
  | .x => some (-9223372036854775808, 9223372036854775807)
  | .t => some (0, 18446744073709551615)
  | _ => none

def inRanges (rs : List (Nat × Nat)) (n : Nat) : Bool := rs.any fun r => r.1 ≤ n ∧ n ≤ r.2

def hasDoubleSlash : Str → Bool
  | '/' :: '/' :: _ => true
  | _ :: t => hasDoubleSlash t
  | [] => false

/-- `marshal.validateObjectPath` accepts. -/
def pathOk (p : Str) : Bool :=
  p.head? = some '/' &&
  !(p.length > 1 && p.getLast? = some '/') &&
  !hasDoubleSlash p &&
  p.all (fun c => inRanges Gen.C17Props.objPathAllowed c.toNat)

def noNul (s : Str) : Bool := !s.contains (Char.ofNat 0)

/-- Python truthiness (`1 if var else 0` in `marshal_boolean`). -/
def truthy : PVal → Bool
  | .none => false
  | .int n => n ≠ 0
  | .bool b => b
  | .str s => s ≠ []
  | .dbl bits => bits % 9223372036854775808 ≠ 0
  | .strs l => l ≠ []
  | .wint _ n => n ≠ 0
  | .wstr _ s => s ≠ []
  | .list l => l ≠ []
  | .tuple l => l ≠ []
  | .dict l => l ≠ []
  | .lists l => l ≠ []

/-- One marshaller applied to a value, answering the value a peer decodes (`none`: it raises).
`struct.pack` accepts a `bool` for the integer formats; a `float` only for 'd' (an `int` for 'd' is never
reached: inference never picks 'd' for it and the Set check tests the Python type first).  The variant
marshaller is `encodeVariant` below. -/
def marshalTy (ty : DTy) (v : PVal) : Option PVal :=
  match ty with
  | .b => some (.bool (truthy v))
  | .d => match v with
    | .dbl b => some (.dbl b)
    | _ => none
  | .s => match v with
    | .str s => if noNul s then some (.str s) else none
    | .wstr _ s => if noNul s then some (.str s) else none
    | _ => none
  | .o => match v with
    | .str s => if pathOk s && noNul s then some (.str s) else none
    | .wstr _ s => if pathOk s && noNul s then some (.str s) else none
    | _ => none
  | .g => match v with
    | .str s => if s.all (fun c => c.toNat < 128) && s.length ≤ 255 then some (.str s) else none
    | .wstr _ s => if s.all (fun c => c.toNat < 128) && s.length ≤ 255 then some (.str s) else none
    | _ => none
  | .as => match v with
    | .strs l => if l.all noNul then some (.strs l) else none
    | _ => none
  | .av => match v with
    | .strs [] => some (.strs [])       -- what `sigFromPy([])` leads to
    | v => extMarshal ['a', 'v'] v
  | .v => none
  | ty =>
    match ty.intRange with
    | some (lo, hi) =>
      match v with
      | .int n => if lo ≤ n ∧ n ≤ hi then some (.int n) else none
      | .wint _ n => if lo ≤ n ∧ n ≤ hi then some (.int n) else none
      | .bool b => some (.int (if b then 1 else 0))
      | _ => none
    | none => none

/-- `marshal.marshal(sig, [v])` for the non-variant signatures of the model (`none`: the marshaller
raises, or the signature is outside the model). -/
def marshalPlain (sig : Str) (v : PVal) : Option PVal :=
  match DTy.ofSig sig with
  | some ty => if v.isContainer then extMarshal sig v else marshalTy ty v
  | none => extMarshal sig v

/-- `marshal_variant`: the signature is inferred from the Python value, then the value is marshalled
with it.  Answers (signature carried by the variant, decoded value). -/
def encodeVariant (t : Typed) : Option (Str × PVal) :=
  (sigFromPy t).bind fun s => (marshalPlain s t.val).map fun w => (s, w)

/-- `marshal.marshal(sig, [v])` including the declared signature 'v'. -/
def marshalAs (sig : Str) (v : PVal) : Option PVal :=
  if sig = ['v'] then (encodeVariant ⟨none, v⟩).map (·.2) else marshalPlain sig v

/-- What Get answers for a stored value: `variantClassMap[sig](v)` if the declared signature is a key of
the map, then the reply body of signature 'v' is marshalled. -/
def getReply (sig : Str) (v : PVal) : Option (Str × PVal) :=
  (castClass sig v).bind encodeVariant

/-- The Python-type test of the repaired `_dbus_PropertySet` for one-character signatures. -/
def kindOk (sig : Str) (v : PVal) : Bool :=
  match sig with
  | [c] =>
    if c = 'v' then true
    else if c = 'b' then (match v with | .bool _ => true | _ => false)
    else if c = 'd' then (match v with | .dbl _ => true | _ => false)
    else if c = 's' ∨ c = 'o' ∨ c = 'g' then (match v with | .str _ => true | .wstr _ _ => true | _ => false)
    else (match v with | .int _ => true | .wint _ _ => true | _ => false)
  | _ => true

/-- `marshal.marshal(sig, [v])` does not raise (the trial marshalling of the repaired `_dbus_PropertySet`;
outside the 15 modelled signatures / for the further containers: the shared codec model, where success of the
marshaller is all that counts - e.g. a `str` is accepted as a dict entry by `zip` truncation). -/
def marshalOk (sig : Str) (v : PVal) : Bool :=
  match DTy.ofSig sig with
  | some _ => if v.isContainer then extMarshalOk sig v else (marshalAs sig v).isSome
  | none => extMarshalOk sig v

/-- The repaired `_dbus_PropertySet` accepts the value for a property of signature `sig`. -/
def conforms (sig : Str) (v : PVal) : Bool := kindOk sig v && marshalOk sig v

/-! ### Declarations -/

inductive Access where
  | read | write | readwrite
  deriving DecidableEq, Repr

inductive Emits where
  | yes | no | invalidates
  deriving DecidableEq, Repr

/-- The `emitsOnChange` argument of `interface.Property`. -/
inductive EmitsArg where
  | true_ | false_ | invalidates | const
  deriving DecidableEq, Repr

def Access.name : Access → String
  | .read => "read" | .write => "write" | .readwrite => "readwrite"

def Emits.name : Emits → String
  | .yes => "true" | .no => "false" | .invalidates => "invalidates"

def EmitsArg.label : EmitsArg → String
  | .true_ => "True" | .false_ => "False" | .invalidates => "invalidates" | .const => "const"

/-- `interface.Property.__init__`: the access string. -/
def normAccess (readable writeable : Bool) : Access :=
  if writeable && !readable then .write
  else if writeable && readable then .readwrite
  else .read

/-- `interface.Property.__init__`: the emits string (`none`: TypeError). -/
def normEmits : EmitsArg → Option Emits
  | .true_ => some .yes
  | .false_ => some .no
  | .invalidates => some .invalidates
  | .const => none

structure RawProp where
  name : Str
  sig : Str
  readable : Bool
  writeable : Bool
  emits : EmitsArg
  deriving Repr

/-- An `interface.Property` instance. -/
structure PropDef where
  name : Str
  sig : Str
  access : Access
  emits : Emits
  deriving DecidableEq, Repr

def mkProp (r : RawProp) : Option PropDef :=
  (normEmits r.emits).map fun e => ⟨r.name, r.sig, normAccess r.readable r.writeable, e⟩

/-- An `interface.DBusInterface` instance: its name and its `properties` dict. -/
structure IfaceDef where
  name : Str
  props : List (Str × PropDef)
  deriving DecidableEq, Repr

/-- `DBusInterface(name, *properties)` (`addProperty` in argument order); `none`: a Property constructor
raised TypeError. -/
def mkIface (name : Str) (raw : List RawProp) : Option IfaceDef :=
  (raw.mapM mkProp).map fun ps => ⟨name, ps.foldl (fun d p => dset d p.name p) []⟩

/-- A `DBusProperty(pname, interface)` class attribute. -/
structure Desc where
  attr : Str
  pname : Str
  iface : Option Str
  deriving Repr

/-- One class of the chain: its own `dbusInterfaces` list (empty when the class does not define the
attribute) and its `DBusProperty` attributes in class-dict order. -/
structure ClassDef where
  ifaces : List IfaceDef
  descs : List Desc
  deriving Repr

/-- The class chain, most derived class first; `DBusObject` (the root of every chain) is implicit. -/
abbrev Decls := List ClassDef

def propsIfaceName : Str := Gen.C17Props.propsIface.toList

/-- `DBusObject.getInterfaces`. -/
def getInterfaces (D : Decls) : List IfaceDef :=
  D.flatMap (·.ifaces) ++ [⟨propsIfaceName, []⟩]

/-- A `DBusProperty` after `_cacheInterfaces` bound it. -/
structure Bound where
  attr : Str
  pname : Str
  iface : Str
  iprop : PropDef
  deriving DecidableEq, Repr

/-- `iface.properties[pname]` of the first interface called `i`. -/
def lookupProp (ifs : List IfaceDef) (i p : Str) : Option PropDef :=
  (ifs.find? fun f => f.name = i).bind fun f => dget f.props p

/-- The `DBusProperty` branch of `_cacheInterfaces`.  `none`: the AttributeError ("No supported DBus
interfaces contain a property named ..."), the KeyError of `iface.properties[obj.pname]`, or a named
interface the object does not have (iprop stays None) - declarations outside the model. -/
def bindDesc (ifs : List IfaceDef) (d : Desc) : Option Bound :=
  (match d.iface with
    | some i => some i
    | none => (ifs.find? fun (f : IfaceDef) => (dget f.props d.pname).isSome).map
        fun (f : IfaceDef) => f.name).bind fun iname =>
  (lookupProp ifs iname d.pname).map fun ip => ⟨d.attr, d.pname, iname, ip⟩

/-- One class's `_dbusIfaceCache`, properties only: interface name -> (`_IfaceCache.properties`). -/
abbrev IfCache := List (Str × List (Str × Bound))

/-- `get_ic(obj.interface).properties[obj.pname] = obj`. -/
def cacheAdd (c : IfCache) (b : Bound) : IfCache :=
  dset c b.iface (dset ((dget c b.iface).getD []) b.pname b)

def buildCache (bs : List Bound) : IfCache := bs.foldl cacheAdd []

/-- `DBusObject`'s own cache: the Properties interface (methods only). -/
def baseCache : IfCache := [(propsIfaceName, [])]

/-- The declarations after every class cache was built. -/
structure World where
  ifaces : List IfaceDef
  levels : List (List Bound)
  caches : List IfCache
  deriving DecidableEq, Repr

def elaborate (D : Decls) : Option World :=
  (D.mapM fun (c : ClassDef) => c.descs.mapM (bindDesc (getInterfaces D))).map fun lv =>
    ⟨getInterfaces D, lv, lv.map buildCache ++ [baseCache]⟩

/-- `cache[i].properties[p]` when both keys are present. -/
def look (c : IfCache) (i p : Str) : Option Bound := (dget c i).bind fun ic => dget ic p

/-- `_searchCache(interfaceName, 'properties', key)` with a non-empty interface name. -/
def searchNamed (cs : List IfCache) (i p : Str) : Option Bound :=
  cs.findSome? fun c => look c i p

/-- `_searchCache('', 'properties', key)`. -/
def searchAny (cs : List IfCache) (p : Str) : Option Bound :=
  cs.findSome? fun c => c.findSome? fun e => dget e.2 p

def getProperty (W : World) (i p : Str) : Option Bound :=
  if i = [] then searchAny W.caches p else searchNamed W.caches i p

/-- `getattr(type(self), attr)` along the MRO: the first class whose dict has the attribute. -/
def resolveAttr (W : World) (a : Str) : Option Bound :=
  W.levels.findSome? fun bs => bs.find? fun b => b.attr = a

/-! ### State, configuration, outputs -/

abbrev Key := Str × Str

/-- Which of the repairs are in effect.  `repaired` is the code as it stands after fixes/C17-*.patch. -/
structure Cfg where
  /-- `DBusProperty.key` -/
  key : Str → Str → Key
  /-- `getAllProperties(name)` walks every class of the MRO (pre-repair: stops at the first that has `name`) -/
  getAllAllLevels : Bool
  /-- `GetAll` of an interface the object does not have is an error (pre-repair: empty dictionary) -/
  getAllUnknownErr : Bool
  /-- `Set` checks the value against the declared signature (pre-repair: stores anything) -/
  setChecks : Bool

/-- Repaired key: the tuple `(interface, pname)`. -/
def keyPair (i p : Str) : Key := (i, p)
/-- Pre-repair key: `interface + pname` (embedded in `Key` with an empty second component). -/
def keyConcat (i p : Str) : Key := (i ++ p, [])

def Cfg.repaired : Cfg := ⟨keyPair, true, true, true⟩
def Cfg.original : Cfg := ⟨keyConcat, false, false, false⟩

structure St where
  /-- objects registered with a DBusObjectHandler (`exportObject`) -/
  attached : List Nat
  /-- `instance._dbusProperties` of every instance: (instance, key) -> value -/
  store : List ((Nat × Key) × PVal)
  deriving Repr

def St.init : St := ⟨[], []⟩

inductive ErrCat where
  | unknownObject | unknownProp | notReadable | notWritable | unknownIface | value | noAttr
  deriving DecidableEq, Repr

inductive Out where
  /-- empty method return (Set) -/
  | ret
  /-- method return carrying one variant (Get) -/
  | retV (sig : Str) (w : PVal)
  /-- method return carrying a{sv} (GetAll), in wire order -/
  | retD (l : List (Str × Str × PVal))
  /-- error reply -/
  | err (e : ErrCat)
  /-- PropertiesChanged(iface, {pname: variant}, []) emitted by object `o` -/
  | signal (o : Nat) (iface pname : Str) (sig : Str) (w : PVal)
  /-- a local statement raised -/
  | raised
  /-- a local statement completed -/
  | done
  deriving DecidableEq, Repr

inductive Op where
  | export (o : Nat)
  | assign (o : Nat) (attr : Str) (v : PVal)
  | get (o : Nat) (iface pname : Str)
  | set (o : Nat) (iface pname : Str) (v : PVal)
  | getAll (o : Nat) (iface : Str)
  deriving DecidableEq, Repr

/-! ### The descriptor -/

/-- `DBusProperty.__get__`: `instance._dbusProperties.get(self.key, None)`. -/
def descGet (cfg : Cfg) (st : St) (o : Nat) (b : Bound) : PVal :=
  (dget st.store (o, cfg.key b.iface b.pname)).getD .none

/-- `getattr(self, attr)` for a property attribute (`none`: no such descriptor). -/
def getattrProp (cfg : Cfg) (W : World) (st : St) (o : Nat) (a : Str) : Option PVal :=
  (resolveAttr W a).map (descGet cfg st o)

/-- `DBusProperty.__set__`: store, then `emitSignal('PropertiesChanged', iface, {pname: value}, [])` when
the mode is 'true' (a no-op without an object handler).  The Boolean says whether it raised (the value is
stored before the signal is built). -/
def descSet (cfg : Cfg) (st : St) (o : Nat) (b : Bound) (v : PVal) : St × List Out × Bool :=
  let st' : St := { st with store := dset st.store (o, cfg.key b.iface b.pname) v }
  if b.iprop.emits = .yes ∧ o ∈ st.attached then
    match encodeVariant ⟨none, v⟩ with
    | some (s, w) => (st', [.signal o b.iface b.pname s w], false)
    | none => (st', [], true)
  else (st', [], false)

/-! ### getAllProperties -/

/-- `addp(p)` of `getAllProperties` (`none`: it raised). -/
def addp (cfg : Cfg) (W : World) (st : St) (o : Nat) (r : List (Str × Typed)) (b : Bound) :
    Option (List (Str × Typed)) :=
  if b.iprop.access = .write then some r
  else
    (getattrProp cfg W st o b.attr).bind fun v =>
      (castClass b.iprop.sig v).map fun t => dset r b.pname t

/-- The repaired loop body: `if p.pname not in r: addp(p)`. -/
def addpNew (cfg : Cfg) (W : World) (st : St) (o : Nat) (r : List (Str × Typed)) (e : Str × Bound) :
    Option (List (Str × Typed)) :=
  if (dget r e.2.pname).isSome then some r else addp cfg W st o r e.2

/-- The `properties.values()` visited by `getAllProperties(name)`, name non-empty. -/
def namedEntries (cfg : Cfg) (W : World) (i : Str) : List (Str × Bound) :=
  if cfg.getAllAllLevels then W.caches.flatMap fun c => (dget c i).getD []
  else ((W.caches.findSome? fun c => dget c i).getD [])

def getAllProperties (cfg : Cfg) (W : World) (st : St) (o : Nat) (i : Str) : Option (List (Str × Typed)) :=
  if i ≠ [] then (namedEntries cfg W i).foldlM (addpNew cfg W st o) []
  else (W.caches.flatMap fun c => c.flatMap fun e => e.2).foldlM (fun r e => addp cfg W st o r e.2) []

/-! ### The three remote methods and local assignment -/

def opGet (cfg : Cfg) (W : World) (st : St) (o : Nat) (i p : Str) : Out :=
  match getProperty W i p with
  | none => .err .unknownProp
  | some b =>
    if b.iprop.access = .write then .err .notReadable
    else
      match getattrProp cfg W st o b.attr with
      | none => .err .noAttr
      | some v =>
        match getReply b.iprop.sig v with
        | some (s, w) => .retV s w
        | none => .err .value

def opSet (cfg : Cfg) (W : World) (st : St) (o : Nat) (i p : Str) (v : PVal) : St × List Out :=
  match getProperty W i p with
  | none => (st, [.err .unknownProp])
  | some b =>
    if b.iprop.access = .read then (st, [.err .notWritable])
    else if cfg.setChecks ∧ conforms b.iprop.sig v = false then (st, [.err .value])
    else
      match resolveAttr W b.attr with
      | none => (st, [.err .noAttr])
      | some b' =>
        match descSet cfg st o b' v with
        | (st', outs, false) => (st', outs ++ [.ret])
        | (st', _, true) => (st', [.err .value])

def opGetAll (cfg : Cfg) (W : World) (st : St) (o : Nat) (i : Str) : Out :=
  if cfg.getAllUnknownErr ∧ i ≠ [] ∧ (W.ifaces.all fun f => f.name ≠ i) then .err .unknownIface
  else
    match getAllProperties cfg W st o i with
    | none => .err .value
    | some r =>
      match r.mapM (fun e => (encodeVariant e.2).map fun sw => (e.1, sw.1, sw.2)) with
      | some l => .retD l
      | none => .err .value

/-- `exportObject` can build its InterfacesAdded signal: `getAllProperties(iface.name)` succeeds for every
interface of `getInterfaces()` and every collected value marshals as a variant (only then does the repaired
`exportObject` register the object and give it its handler). -/
def exportOk (cfg : Cfg) (W : World) (st : St) (o : Nat) : Bool :=
  W.ifaces.all fun f =>
    match getAllProperties cfg W st o f.name with
    | some r => r.all fun e => (encodeVariant e.2).isSome
    | none => false

def step (cfg : Cfg) (W : World) (st : St) : Op → St × List Out
  | .export o =>
    if exportOk cfg W st o then
      ({ st with attached := if o ∈ st.attached then st.attached else o :: st.attached }, [.done])
    else (st, [.raised])
  | .assign o a v =>
    match resolveAttr W a with
    | none => (st, [.done])     -- an ordinary instance attribute
    | some b =>
      match descSet cfg st o b v with
      | (st', outs, false) => (st', outs ++ [.done])
      | (st', _, true) => (st', [.raised])
  | .get o i p => if o ∈ st.attached then (st, [opGet cfg W st o i p]) else (st, [.err .unknownObject])
  | .set o i p v => if o ∈ st.attached then opSet cfg W st o i p v else (st, [.err .unknownObject])
  | .getAll o i => if o ∈ st.attached then (st, [opGetAll cfg W st o i]) else (st, [.err .unknownObject])

/-- State after a history. -/
def runFrom (cfg : Cfg) (W : World) (st : St) : List Op → St
  | [] => st
  | op :: h => runFrom cfg W (step cfg W st op).1 h

def run (cfg : Cfg) (W : World) (h : List Op) : St := runFrom cfg W St.init h

/-- A history with what every operation produced (the specification needs to know which `exportObject`
calls returned). -/
def annotate (cfg : Cfg) (W : World) (st : St) : List Op → List (Op × List Out)
  | [] => []
  | op :: h => (op, (step cfg W st op).2) :: annotate cfg W (step cfg W st op).1 h

/-- All outputs of a history, one list per operation. -/
def trace (cfg : Cfg) (W : World) (st : St) : List Op → List (List Out)
  | [] => []
  | op :: h => (step cfg W st op).2 :: trace cfg W (step cfg W st op).1 h

end Txdbus.Obj.Props
