/-
C17 - specification of remote property access, written from the property statement and the DBus
specification only.  It shares the vocabulary of operations, outputs and Python values with the code model
(`Op`, `Out`, `PVal`, the signature dispatch `DTy`), nothing of its logic.

State: the map (instance, interface, property) -> value, plus which instances are exported.
Declarations: the set of declared properties, each with the Python attribute it is assigned through, its
type, readable / writeable, and whether it is declared to emit change notifications; and the interfaces
the object has.

  * a local assignment writes the map;
  * Set writes the map iff the instance is exported, the (interface, property) is declared, writeable, and
    the value is a value of the declared type; otherwise nothing changes;
  * Get / GetAll never change the map.

The values the statement prescribes for the replies are given as the predicates of section "What the
statement allows" below; the property theorems (Properties/C17.lean) show that the code model's outputs
satisfy them after every history.
-/
import TxdbusModel.Obj.Props

namespace Txdbus.Obj.PropsSpec
open Txdbus.Obj.Props

/-- A declared property. -/
structure SProp where
  attr : Str
  iface : Str
  name : Str
  sig : Str
  readable : Bool
  writable : Bool
  /-- declared to emit change notifications (mode `true`; `false` and `invalidates` are "any other") -/
  emits : Bool
  deriving DecidableEq, Repr

structure SDecl where
  props : List SProp
  /-- names of the interfaces the object has -/
  ifaces : List Str
  deriving Repr

def SDecl.find (d : SDecl) (i p : Str) : Option SProp :=
  d.props.find? fun sp => sp.iface = i ∧ sp.name = p

def SDecl.byAttr (d : SDecl) (a : Str) : Option SProp :=
  d.props.find? fun sp => sp.attr = a

structure SSt where
  val : Nat → Str → Str → Option PVal
  attached : Nat → Bool

def SSt.init : SSt := ⟨fun _ _ _ => none, fun _ => false⟩

def SSt.write (s : SSt) (o : Nat) (i p : Str) (v : PVal) : SSt :=
  { s with val := fun o' i' p' => if o' = o ∧ i' = i ∧ p' = p then some v else s.val o' i' p' }

/-! ### Values of a DBus type (DBus specification, "Type system") -/

/-- The characters of an object path, by code point: `a-z` (97-122), `A-Z` (65-90), `0-9` (48-57),
`_` (95), `/` (47). -/
def pathChar (c : Char) : Bool :=
  (97 ≤ c.toNat ∧ c.toNat ≤ 122) ∨ (65 ≤ c.toNat ∧ c.toNat ≤ 90) ∨ (48 ≤ c.toNat ∧ c.toNat ≤ 57) ∨
    c.toNat = 95 ∨ c.toNat = 47

/-- DBus object path: "/" or "/"-separated non-empty elements of [A-Za-z0-9_]; stated as the four tests
that are equivalent to that grammar (C18 proves the equivalence for the validator). -/
def validPath (p : Str) : Bool :=
  p.head? = some '/' &&
  !(p.length > 1 && p.getLast? = some '/') &&
  !hasDoubleSlash p &&
  p.all pathChar

def strOk (s : Str) : Bool := !s.contains (Char.ofNat 0)

/-- The plain Python value `v` is a value of the DBus type `t`.  Integers by range, BOOLEAN a `bool`, DOUBLE a `float`, STRING
without NUL, OBJECT_PATH a valid path, SIGNATURE ASCII of at most 255 bytes (txdbus does not check the
signature grammar - that is C19's subject), ARRAY of STRING a list of NUL-free strings, VARIANT any value
that has a DBus type at all. -/
def HasTypeP (ty : DTy) (v : PVal) : Bool :=
  match ty, v with
  | .y, .int n => 0 ≤ n ∧ n ≤ 255
  | .n, .int n => -32768 ≤ n ∧ n ≤ 32767
  | .q, .int n => 0 ≤ n ∧ n ≤ 65535
  | .i, .int n => -2147483648 ≤ n ∧ n ≤ 2147483647
  | .u, .int n => 0 ≤ n ∧ n ≤ 4294967295
  | .x, .int n => -9223372036854775808 ≤ n ∧ n ≤ 9223372036854775807
  | .t, .int n => 0 ≤ n ∧ n ≤ 18446744073709551615
  | .b, .bool _ => true
  | .d, .dbl _ => true
  | .s, .str s => strOk s
  | .o, .str s => validPath s
  | .g, .str s => strOk s && s.all (fun c => c.toNat < 128) && s.length ≤ 255
  | .as, .strs l => l.all strOk
  | .av, .strs [] => true
  | .v, .int n => -9223372036854775808 ≤ n ∧ n ≤ 18446744073709551615
  | .v, .bool _ => true
  | .v, .dbl _ => true
  | .v, .str s => strOk s
  | .v, .strs l => l.all strOk
  | _, _ => false

/-- The twelve basic types a property can be declared with (UNIX_FD is outside the model). -/
def IsBasic (sig : Str) : Bool :=
  match sig with
  | [c] => c ∈ ['y', 'b', 'n', 'q', 'i', 'u', 'x', 't', 'd', 's', 'o', 'g']
  | _ => false

/-- An instance of one of marshal's wrapper classes is a valid instance of its own type (Byte(300) is not). -/
def wrapperOk : PVal → Bool
  | .wint c n =>
    IsBasic [c] &&
    match DTy.ofSig [c] with
    | some ty => HasTypeP ty (PVal.wint c n).plain
    | none => false
  | .wstr c s =>
    IsBasic [c] &&
    match DTy.ofSig [c] with
    | some ty => HasTypeP ty (.str s)
    | none => false
  | _ => true

/-- `v` is a value of the DBus type `t`: a plain value of that type, or a valid wrapper instance whose plain
value is (`Byte(7)` is a value of UINT32, `ObjectPath('/a')` of STRING). -/
def HasType (ty : DTy) (v : PVal) : Bool := wrapperOk v && HasTypeP ty v.plain

/-- `v` is a value of the type written `sig` (signatures outside the model's types have no values). -/
def HasTypeSig (sig : Str) (v : PVal) : Bool :=
  match DTy.ofSig sig with
  | some ty => HasType ty v
  | none => false

/-- A value of the theorems' universe that can have been decoded from a DBus message: no `None`, 64-bit
integers, NUL-free strings, lists of such strings (the further containers of `PVal` are outside). -/
def wireOk : PVal → Bool
  | .none => false
  | .int n => -9223372036854775808 ≤ n ∧ n ≤ 18446744073709551615
  | .bool _ => true
  | .dbl _ => true
  | .str s => strOk s
  | .strs l => l.all strOk
  | .wint _ _ => false
  | .wstr _ _ => false
  | .list _ => false
  | .tuple _ => false
  | .dict _ => false
  | .lists _ => false

/-- A value that can be sent inside a variant as it is: a wire value, or a valid wrapper instance. -/
def Sendable (v : PVal) : Bool := wrapperOk v && wireOk v.plain

/-! ### State evolution -/

/-- `outs` is what the operation was observed to produce; it matters only for `export`: an instance counts as
exported once an `exportObject` call for it returned (the call may raise, e.g. for an object with a property
that cannot be sent yet - then nothing changes). -/
def next (d : SDecl) (s : SSt) (op : Op) (outs : List Out) : SSt :=
  match op with
  | .export o => if outs = [.done] then { s with attached := fun o' => o' = o || s.attached o' } else s
  | .assign o a v =>
    match d.byAttr a with
    | some sp => s.write o sp.iface sp.name v
    | none => s
  | .set o i p v =>
    match d.find i p with
    | some sp => if s.attached o ∧ sp.writable ∧ HasTypeSig sp.sig v then s.write o i p v else s
    | none => s
  | .get _ _ _ => s
  | .getAll _ _ => s

def runFrom (d : SDecl) (s : SSt) : List (Op × List Out) → SSt
  | [] => s
  | (op, outs) :: h => runFrom d (next d s op outs) h

/-- The map after a history: `(run d h).val o i p` is the value most recently assigned to (i, p) of instance
`o`, locally or by a successful remote Set. -/
def run (d : SDecl) (h : List (Op × List Out)) : SSt := runFrom d SSt.init h

/-! ### What the statement allows -/

def IsErr (outs : List Out) : Prop := ∃ e, outs = [.err e]

/-- Get of (i, p) on an exported instance. -/
def GetAllowed (d : SDecl) (s : SSt) (o : Nat) (i p : Str) (outs : List Out) : Prop :=
  match d.find i p with
  | none => IsErr outs
  | some sp =>
    if sp.readable then
      ∀ v, s.val o i p = some v → HasTypeSig sp.sig v →
        ∃ sg, outs = [.retV sg v.plain] ∧ (IsBasic sp.sig → sg = sp.sig)
    else IsErr outs

/-- Set of (i, p) on an exported instance: an error unless declared, writeable and well typed; on success
an empty method return preceded by exactly one PropertiesChanged iff the property emits. -/
def SetAllowed (d : SDecl) (o : Nat) (i p : Str) (v : PVal) (outs : List Out) : Prop :=
  match d.find i p with
  | none => IsErr outs
  | some sp =>
    if sp.writable ∧ HasTypeSig sp.sig v then
      if sp.emits then ∃ sg, outs = [.signal o i p sg v.plain, .ret] else outs = [.ret]
    else IsErr outs

/-- GetAll of interface `i` on an exported instance.
* an interface the object does not have: an error;
* otherwise the reply is an error or one dictionary, and ANY dictionary returned lists exactly the readable
  declared properties of `i`, each once (never a write-only one, never one twice, none missing), every entry
  whose property holds a value of its type carrying that value, typed as for Get (soundness, unconditional);
* and when all readable properties of `i` hold values of their types the reply IS a dictionary (completeness). -/
def GetAllAllowed (d : SDecl) (s : SSt) (o : Nat) (i : Str) (outs : List Out) : Prop :=
  if i ∈ d.ifaces then
    (IsErr outs ∨ ∃ l, outs = [.retD l]) ∧
    (∀ l, outs = [.retD l] →
      (l.map (·.1)).Nodup ∧
      (∀ p, p ∈ l.map (·.1) ↔ ∃ sp, d.find i p = some sp ∧ sp.readable) ∧
      (∀ p sg w, (p, sg, w) ∈ l → ∃ sp, d.find i p = some sp ∧
        ∀ v, s.val o i p = some v → HasTypeSig sp.sig v → w = v.plain ∧ (IsBasic sp.sig → sg = sp.sig))) ∧
    ((∀ sp ∈ d.props, sp.iface = i → sp.readable → ∃ v, s.val o i sp.name = some v ∧ HasTypeSig sp.sig v) →
      ∃ l, outs = [.retD l])
  else IsErr outs

def isSignal : Out → Bool
  | .signal _ _ _ _ _ => true
  | _ => false

/-- Local assignment through attribute `a`: exactly one PropertiesChanged naming interface, property and the
new value when the property emits (the instance being exported and the value one that can be sent); nothing
but completion when the property does not emit or the instance is not exported. -/
def AssignAllowed (d : SDecl) (s : SSt) (o : Nat) (a : Str) (v : PVal) (outs : List Out) : Prop :=
  match d.byAttr a with
  | none => outs = [.done]
  | some sp =>
    if sp.emits ∧ s.attached o then
      Sendable v → ∃ sg, outs = [.signal o sp.iface sp.name sg v.plain, .done]
    else outs = [.done]

end Txdbus.Obj.PropsSpec
