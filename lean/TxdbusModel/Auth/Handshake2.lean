/-
C07 x C06 - COMPOSED CODE MODEL: txdbus's client talking to txdbus's own bus.

  client  `AuthClient.Proto`   (Auth/Client.lean: ClientAuthenticator + client line mode of BasicDBusProtocol)
  bus     `AuthServer.Proto RealWorld Inst` over `AuthServer.real`
                               (Auth/ServerLines.lean + Auth/Server.lean + Auth/Mechs.lean: BusProtocol line mode,
                                BusAuthenticator, the three real mechanisms)

joined by two byte queues.  Nothing moves by itself: a `Move` hands a non-empty prefix of what is queued in one
direction to the receiver as ONE read (`dataReceived`); whatever the receiver writes during that read is appended
to the other queue.  The adversary chooses direction and cut; a list of moves is a schedule.

What each side writes is read off its own model: the client's trace (`N` = the NUL byte of connectionMade,
`S:line` = line + CRLF, `A` = connectionAuthenticated(), which writes the Hello call: `Cfg.hello`), the bus's
`sent` lines (line + CRLF).

Both processes live on one machine (one passwd, one file system: the `RealWorld` of the bus model).  What the
client's cookie step takes from its environment (`AuthClient.Env`) is therefore derived from the bus's world at the
moment the client handles the line (`envOf`):
  user       `getpass.getuser()` (`Cfg.user`)
  dirStat    `os.stat(<client home>/.dbus-keyrings)`: absent -> raises; a directory the bus created during this
             connection (absent before) has mode 0o40700 and belongs to the bus's euid - or, when the bus runs as
             root, to the user (`os.chown(dk, self.uid, self.gid)`, not part of the C06 model): the client's
             ownership test passes iff `createdOwned`; a directory that existed before has `Cfg.initStat`
  file ctx   the cookie file `<client home>/.dbus-keyrings/<ctx>` exists only for the bus's own context; its
             content is the bus's entries written as `_create_cookie` / `_delete_cookie` write them:
             `b' '.join((id, time, cookie)) + b'\n'` per entry (`renderFile`)
  rnd        `os.urandom(8)`: both sides use `txdbus.authentication.os.urandom`; the client's call is the next
             call after the bus's two (the call counter is not advanced: the bus draws nothing afterwards in the
             same handshake)
  sha1       the same function on both sides
Core Lean only; total; executable (linked into drv_c07).
-/
import TxdbusModel.Auth.Client
import TxdbusModel.Auth.ServerLines
import TxdbusModel.Auth.Mechs

namespace Txdbus.Handshake2

open Txdbus.AuthServer (RealWorld Inst PwEnt DirState CookieEnt EnvCfg real lookupDir lookupFile natToDec)

abbrev Bytes := List UInt8
abbrev CProto := AuthClient.Proto
abbrev SProto := AuthServer.Proto RealWorld Inst

/-- What is fixed during one connection. -/
structure Cfg where
  /-- the client's transport provides `IUNIXTransport` -/
  unix : Bool
  /-- `factory.bus.uuid`: the `server_guid` of `BusAuthenticator` (hex text) -/
  guid : Bytes
  /-- what the client's `connectionAuthenticated()` writes (the marshalled Hello call) -/
  hello : Bytes
  /-- `getpass.getuser().encode('ascii')` in the client process -/
  user : Bytes
  /-- `os.path.expanduser('~')` in the client process -/
  clientHome : Bytes
  /-- `os.stat` of the client's keyring directory when it existed before the connection:
  (`st_mode`, `st_uid == pwd.getpwuid(os.geteuid()).pw_uid`) -/
  initStat : Nat × Bool
  /-- `os.geteuid()` in the BUS process (0: it chowns a keyring directory it creates to the user) -/
  busEuid : Nat
  /-- `pwd.getpwuid(os.geteuid()).pw_uid` in the CLIENT process -/
  euid : Nat
  /-- `str(e).encode('unicode-escape')` of the exception the client's cookie step caught -/
  errText : AuthClient.CookieErr → Bytes
  /-- the world (credentials, passwd, keyrings, clock, randomness, hash) before the connection -/
  w0 : RealWorld

/-! ## the client's view of the shared file system -/

/-- One line of the cookie file: `b' '.join((str(id), str(time), cookie)) + b'\n'`. -/
def renderEnt (e : CookieEnt) : Bytes :=
  natToDec e.id ++ 32 :: (natToDec e.time ++ 32 :: (e.cookie ++ [10]))

def renderFile (es : List CookieEnt) : Bytes := (es.map renderEnt).flatten

/-- The passwd entry the bus's DBUS_COOKIE_SHA1 step resolves the client's user name to. -/
def busUserEntry (cfg : Cfg) : Option PwEnt :=
  (AuthServer.resolveUser cfg.w0.cfg cfg.user).bind (AuthServer.getpwnam cfg.w0.cfg)

/-- A keyring directory the bus creates (`os.mkdir`) belongs to the bus's euid, or - when the bus is root
(`os.chown(dk, self.uid, self.gid)`) - to the user it was created for.  Does the client's ownership test
(`st_uid == pw_uid of the client's euid`) pass? -/
def createdOwned (cfg : Cfg) : Bool :=
  match busUserEntry cfg with
  | some e => (if cfg.busEuid = 0 then e.uid else cfg.busEuid) == cfg.euid
  | none => true

/-- `os.stat(<client home>/.dbus-keyrings)` as the client sees it in world `w`. -/
def clientStat (cfg : Cfg) (w : RealWorld) : Option (Nat × Bool) :=
  match lookupDir w cfg.clientHome with
  | .absent => none
  | _ =>
    if lookupDir cfg.w0 cfg.clientHome = .absent then some (0o40700, createdOwned cfg) else some cfg.initStat

/-- The environment of the client's cookie step when the bus's world is `w`. -/
def envOf (cfg : Cfg) (w : RealWorld) : AuthClient.Env :=
  { user := cfg.user,
    dirStat := clientStat cfg w,
    file := fun c => if c = w.cfg.ctx then (lookupFile w cfg.clientHome).map renderFile else none,
    rnd := w.cfg.rnd w.rndCalls 8,
    sha1 := w.cfg.sha1,
    errText := cfg.errText }

/-! ## bytes on the wire -/

/-- The bytes the client wrote for a piece of its trace. -/
def wireC (hello : Bytes) : List AuthClient.Ev → Bytes
  | [] => []
  | .nul :: t => 0 :: wireC hello t
  | .send l :: t => l ++ (13 :: 10 :: wireC hello t)
  | .authenticated :: t => hello ++ wireC hello t
  | .recv _ :: t => wireC hello t
  | .close :: t => wireC hello t

/-- The bytes the bus wrote for the lines it sent (`writeSequence((line, b'\r\n'))`). -/
def wireS : List Bytes → Bytes
  | [] => []
  | l :: t => l ++ (13 :: 10 :: wireS t)

/-! ## the composition -/

structure State where
  c : CProto
  s : SProto
  /-- written by the client, not yet delivered to the bus -/
  c2s : Bytes
  /-- written by the bus, not yet delivered to the client -/
  s2c : Bytes

/-- Both `connectionMade`s: the client writes NUL and its first AUTH line. -/
def init (cfg : Cfg) : State :=
  let c := AuthClient.connectionMade Gen.ClientAuth.preference cfg.unix (envOf cfg cfg.w0)
  { c := c, s := AuthServer.Proto.init cfg.guid cfg.w0, c2s := wireC cfg.hello c.trace, s2c := [] }

/-- The bus reads `d`; `rest` stays queued. -/
def feedS (st : State) (d rest : Bytes) : State :=
  let s' := AuthServer.recv real st.s d
  { st with s := s', c2s := rest, s2c := st.s2c ++ wireS (s'.sent.drop st.s.sent.length) }

/-- The client reads `d`; `rest` stays queued.  The environment of its cookie step is the bus's world now. -/
def feedC (cfg : Cfg) (st : State) (d rest : Bytes) : State :=
  let c' := AuthClient.dataReceived (fun _ => envOf cfg st.s.srv.world) st.c d
  { st with c := c', s2c := rest, c2s := st.c2s ++ wireC cfg.hello (c'.trace.drop st.c.trace.length) }

/-- One read of the bus: the first `n + 1` queued bytes (all of them when fewer are queued). -/
def toServer (n : Nat) (st : State) : State :=
  match st.c2s with
  | [] => st
  | _ :: _ => feedS st (st.c2s.take (n + 1)) (st.c2s.drop (n + 1))

/-- One read of the client: the first `n + 1` queued bytes (all of them when fewer are queued). -/
def toClient (cfg : Cfg) (n : Nat) (st : State) : State :=
  match st.s2c with
  | [] => st
  | _ :: _ => feedC cfg st (st.s2c.take (n + 1)) (st.s2c.drop (n + 1))

/-- The adversary's choice: direction and cut. -/
inductive Move where
  | toServer (n : Nat)
  | toClient (n : Nat)
  deriving DecidableEq, Repr

def step (cfg : Cfg) (st : State) : Move → State
  | .toServer n => toServer n st
  | .toClient n => toClient cfg n st

/-- A schedule. -/
def run (cfg : Cfg) (st : State) (ms : List Move) : State := ms.foldl (step cfg) st

/-- Nothing is in flight. -/
def State.quiescent (st : State) : Bool := st.c2s.isEmpty && st.s2c.isEmpty

/-- The schedule that `k` times delivers everything that is queued, to the bus and then to the client, each
in one read (used for progress: every queued byte can be delivered, and then the handshake is over). -/
def flushSched (cfg : Cfg) : Nat → State → List Move
  | 0, _ => []
  | k + 1, st =>
    let m1 := Move.toServer st.c2s.length
    let st1 := step cfg st m1
    let m2 := Move.toClient st1.s2c.length
    m1 :: m2 :: flushSched cfg k (step cfg st1 m2)

end Txdbus.Handshake2
