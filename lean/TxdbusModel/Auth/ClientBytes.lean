/-
Byte-string helpers used by the client authenticator model (C07) and its reference server:
mirrors of the few `bytes` / `binascii` operations the code uses.  Core Lean only.

  b!"AUTH "                  a byte-string literal as an explicit `List UInt8`
  hexlify / unhexlify        binascii.hexlify / binascii.unhexlify (odd length is checked first)
  strip                      bytes.strip()      (ASCII whitespace: space \t \n \v \f \r)
  splitWs                    bytes.split()      (no argument: runs of ASCII whitespace)
  splitNl                    iteration over a binary file: pieces ending at b'\n'
  splitCmd                   `cmd, args = line.split(b' ', 1)` with the `b' ' not in line` case
-/
namespace Txdbus.AuthClient

abbrev Bytes := List UInt8

open Lean in
/-- `b!"OK"` is the list of the UTF-8 bytes of the literal, written out as numerals (so that the
kernel can compare it without unfolding `String`). -/
macro "b!" s:str : term => do
  let bs := s.getString.toUTF8.toList
  let elems ← bs.mapM fun b => `(($(quote b.toNat) : UInt8))
  `(([$(elems.toArray),*] : List UInt8))

/-- ASCII whitespace as used by `bytes.strip()` / `bytes.split()`: space, \t, \n, \v, \f, \r. -/
def isSpace (b : UInt8) : Bool :=
  b == 32 || b == 9 || b == 10 || b == 11 || b == 12 || b == 13

def lstrip (bs : Bytes) : Bytes := bs.dropWhile isSpace
def rstrip (bs : Bytes) : Bytes := (bs.reverse.dropWhile isSpace).reverse
/-- `bytes.strip()` -/
def strip (bs : Bytes) : Bytes := rstrip (lstrip bs)

/-- `bytes.split()` without argument: maximal runs of non-whitespace bytes. `cur` is the token
being collected (reversed). -/
def splitWsAux : Bytes → Bytes → List Bytes
  | cur, [] => if cur.isEmpty then [] else [cur.reverse]
  | cur, b :: t =>
    if isSpace b then
      (if cur.isEmpty then splitWsAux [] t else cur.reverse :: splitWsAux [] t)
    else splitWsAux (b :: cur) t

def splitWs (bs : Bytes) : List Bytes := splitWsAux [] bs

/-- `for line in f` on a binary file: pieces terminated by `\n` (kept), last piece possibly
unterminated; no empty trailing piece. -/
def splitNlAux : Bytes → Bytes → List Bytes
  | cur, [] => if cur.isEmpty then [] else [cur.reverse]
  | cur, b :: t =>
    if b == 10 then (b :: cur).reverse :: splitNlAux [] t else splitNlAux (b :: cur) t

def splitNl (bs : Bytes) : List Bytes := splitNlAux [] bs

def hexChar (n : Nat) : UInt8 :=
  if n < 10 then UInt8.ofNat (48 + n) else UInt8.ofNat (87 + n)

/-- `binascii.hexlify`: two lowercase hex digits per byte. -/
def hexlify : Bytes → Bytes
  | [] => []
  | b :: t => hexChar (b.toNat / 16) :: hexChar (b.toNat % 16) :: hexlify t

def hexVal? (c : UInt8) : Option Nat :=
  if 48 ≤ c ∧ c ≤ 57 then some (c.toNat - 48)
  else if 97 ≤ c ∧ c ≤ 102 then some (c.toNat - 87)
  else if 65 ≤ c ∧ c ≤ 70 then some (c.toNat - 55)
  else none

inductive HexErr | oddLength | nonHex
  deriving DecidableEq, Repr

def unhexPairs : Bytes → Except HexErr Bytes
  | [] => .ok []
  | [_] => .error .oddLength
  | a :: b :: t =>
    match hexVal? a, hexVal? b with
    | some x, some y =>
      match unhexPairs t with
      | .ok r => .ok (UInt8.ofNat (x * 16 + y) :: r)
      | .error e => .error e
    | _, _ => .error .nonHex

/-- `binascii.unhexlify`: "Odd-length string" is reported before "Non-hexadecimal digit found". -/
def unhexlify (bs : Bytes) : Except HexErr Bytes :=
  if bs.length % 2 = 1 then .error .oddLength else unhexPairs bs

/-- `if b' ' not in line: cmd, args = line, b''  else: cmd, args = line.split(b' ', 1)` -/
def splitCmd (line : Bytes) : Bytes × Bytes :=
  (line.takeWhile (· != 32), (line.dropWhile (· != 32)).drop 1)

/-- `sep.join(parts)` -/
def joinWith (sep : Bytes) : List Bytes → Bytes
  | [] => []
  | [a] => a
  | a :: t => a ++ sep ++ joinWith sep t

end Txdbus.AuthClient
