import TxdbusModel.Auth.ServerLines
import TxdbusModel.Auth.Mechs
/-
CODE MODEL for C06, several connections of ONE bus process (state-leak round 2026-09-30).

`Auth/ServerLines.lean` models one `BusProtocol` instance.  A bus process serves many of them at once:
every `makeConnection` builds a fresh `BusProtocol` with a fresh `BusAuthenticator` (protocol.py:88-101),
the reactor delivers reads to them in any interleaving, and everything a connection keeps between two reads
(`_buffer`, `_firstByte`, `_authenticated`, `_unix_creds`, `guid`, the authenticator's `state`,
`reject_count`, `current_mech`, the mechanism instance) is an INSTANCE attribute.  What the connections do
share is what lives outside the objects: the keyring directories and cookie files, `os.urandom`, the clock.

Here: `Bus` = the state outside the connections (`G`) + the connections in the order they were made.  A
`View` says how one connection sees its world inside `G` when it runs:
  * scripted mechanisms: every connection has its own outcome script and counters (`scriptedView`, private);
  * real mechanisms: one `RealWorld` for all (`realView`); the only private part is the peer's credentials,
    which `dataReceived` reads from THIS connection's socket (`SO_PEERCRED`) into THIS protocol's
    `_unix_creds` - modelled by showing connection `k` the shared world with `cfg.creds := creds k`.
Events: a new connection, a read delivered to connection `k`, connection `k` lost (`connectionLost` touches
nothing of the authentication state - bus.py:50 - in particular a pending DBUS_COOKIE_SHA1 exchange is NOT
cancelled: its cookie stays in the file until it expires), and a change of the outside (time passes).
Core Lean only.
-/
namespace Txdbus.AuthServer.Multi

open Txdbus.AuthServer

/-- How connection `k` finds its world in the state of the process, and writes it back. -/
structure View (G W : Type) where
  get : G → Nat → W
  put : G → Nat → W → G

/-- One connection: the protocol object and whether `connectionLost` ran. -/
structure Conn (W I : Type) where
  proto : Proto W I
  lost : Bool

structure Bus (G W I : Type) where
  global : G
  conns : List (Conn W I)

inductive Event (G : Type) where
  /-- `makeConnection` on a new `BusProtocol` (it gets the next index) -/
  | connect
  /-- `dataReceived(data)` on connection `k` -/
  | read (k : Nat) (data : Bytes)
  /-- `connectionLost(reason)` on connection `k`; no read is delivered to it afterwards -/
  | lose (k : Nat)
  /-- something outside the connections changes (the clock advances, a connection's peer is registered) -/
  | env (f : G → G)

/-- The protocol object seeing `w` as its world. -/
def withWorld {W I : Type} (p : Proto W I) (w : W) : Proto W I := { p with srv := { p.srv with world := w } }

section
variable {G W I : Type} (S : MechSys W I) (V : View G W) (guid : Bytes)

def Bus.init (g : G) : Bus G W I := ⟨g, []⟩

/-- `dataReceived` on connection `k`: it runs on the world the process is in now and leaves it changed. -/
def deliver (b : Bus G W I) (k : Nat) (data : Bytes) : Bus G W I :=
  match b.conns[k]? with
  | none => b
  | some c =>
    if c.lost then b
    else
      let q := recv S (withWorld c.proto (V.get b.global k)) data
      { global := V.put b.global k q.srv.world, conns := b.conns.set k ⟨q, false⟩ }

def markLost (b : Bus G W I) (k : Nat) : Bus G W I :=
  match b.conns[k]? with
  | none => b
  | some c => { b with conns := b.conns.set k { c with lost := true } }

def step (b : Bus G W I) : Event G → Bus G W I
  | .connect => { b with conns := b.conns ++ [⟨Proto.init guid (V.get b.global b.conns.length), false⟩] }
  | .read k d => deliver S V b k d
  | .lose k => markLost b k
  | .env f => { b with global := f b.global }

def run (b : Bus G W I) : List (Event G) → Bus G W I
  | [] => b
  | e :: es => run (step S V guid b e) es

/-- The reads connection `k` receives in a history (nothing after it was lost). -/
def readsOf (k : Nat) : List (Event G) → List Bytes
  | [] => []
  | .read j d :: es => if j = k then d :: readsOf k es else readsOf k es
  | .lose j :: es => if j = k then [] else readsOf k es
  | _ :: es => readsOf k es

end

/-! ## the two instances -/

/-- Scripted mechanisms: connection `k` pops its own script. -/
def scriptedView : View (Nat → ScriptWorld) ScriptWorld where
  get g k := g k
  put g k w := fun j => if j = k then w else g j

/-- A bus process running the real mechanisms: one environment, the peer credentials of every connection. -/
structure RealBus where
  world : RealWorld
  /-- `_unix_creds` of connection `k` as `dataReceived` obtained it from that connection's socket -/
  creds : Nat → Option Int

/-- The world with the credentials of the connection that is running. -/
def focusCreds (w : RealWorld) (c : Option Int) : RealWorld := { w with cfg := { w.cfg with creds := c } }

def realView : View RealBus RealWorld where
  get g k := focusCreds g.world (g.creds k)
  put g _ w := { g with world := w }

/-- The clock advances by `n` seconds. -/
def tick (n : Nat) (g : RealBus) : RealBus :=
  { g with world := { g.world with cfg := { g.world.cfg with now := g.world.cfg.now + n } } }

end Txdbus.AuthServer.Multi
