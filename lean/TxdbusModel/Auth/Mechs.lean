import TxdbusModel.Auth.Server
/-
CODE MODEL for C06: the mechanisms behind `BusAuthenticator` (txdbus/authentication.py:252-529).

1. `scripted`: the quantifier's "scripts of mechanism outcomes".  Every offered name maps to a
   mechanism whose `step` pops the next outcome of a shared script (exhausted: reject); the world
   also counts `cancel()` calls.  The harness installs exactly this through the `authenticators`
   table of a `BusAuthenticator` subclass.

2. `real`: `BusExternalAuthenticator`, `BusCookieAuthenticator`, `BusAnonymousAuthenticator` as step
   machines over an explicit environment:
     creds      `protocol._unix_creds` (only its uid matters, an `int`, -1 when the kernel has no credentials
                for the peer; `None` = not available)
     passwd     the entries `pwd.getpwnam` / `pwd.getpwuid` answer from (first match)
     dirs       state of `<home>/.dbus-keyrings` per home directory: absent / good (a directory without
                group/other bits) / bad (anything else that exists)
     files      content of the cookie file per home directory (absent key = no file): (id, time, cookie)
     now        `int(time.time())` (constant during one handshake - assumption); `nowFrac`: `time.time()` is not a
                whole number (matters only for entries dated 30 s in the future)
     rnd        `os.urandom`: the k-th call with length n returns `rnd k n`
     sha1       `hashlib.sha1(x).digest()`
     ctx        `BusCookieAuthenticator.cookieContext`
   Not modelled: the lock file (`_get_lock`; Twisted is single-threaded and the context name holds the
   pid), malformed lines in an existing cookie file, `chown` (root only), errors of `mkdir`/`rename`.
Core Lean only.
-/
namespace Txdbus.AuthServer

open Txdbus.Gen.ServerAuth

/-! ## 1. scripted mechanisms -/

structure ScriptWorld where
  script : List Outcome
  cancels : Nat
  steps : Nat
  deriving Repr

def scriptedUser : Bytes := lit "scripted"

/-- All offered names behave alike: `step` pops the script. -/
def scripted (offered : List Bytes) : MechSys ScriptWorld Unit where
  offered := offered
  start w _ := (w, ())
  step w _ _ :=
    match w.script with
    | [] => ({ w with steps := w.steps + 1 }, (), .reject)
    | o :: t => ({ w with script := t, steps := w.steps + 1 }, (), o)
  cancel w _ := some { w with cancels := w.cancels + 1 }
  userName _ _ := some scriptedUser

/-! ## 2. the real mechanisms -/

structure PwEnt where
  name : Bytes
  uid : Nat
  gid : Nat
  home : Bytes
  deriving Repr

inductive DirState where
  | absent | good | bad
  deriving DecidableEq, Repr

structure CookieEnt where
  id : Nat
  time : Nat
  cookie : Bytes
  deriving Repr

/-- The fixed part of the environment. -/
structure EnvCfg where
  creds : Option Int
  passwd : List PwEnt
  now : Nat
  nowFrac : Bool
  rnd : Nat → Nat → Bytes
  sha1 : Bytes → Bytes
  ctx : Bytes

/-- The part the mechanisms change. -/
structure RealWorld where
  cfg : EnvCfg
  dirs : List (Bytes × DirState)
  files : List (Bytes × List CookieEnt)
  rndCalls : Nat

def lookupDir (w : RealWorld) (home : Bytes) : DirState :=
  match w.dirs.find? (fun p => p.1 = home) with
  | some p => p.2
  | none => .absent

def setDir (w : RealWorld) (home : Bytes) (d : DirState) : RealWorld :=
  { w with dirs := (home, d) :: w.dirs.filter (fun p => p.1 ≠ home) }

def lookupFile (w : RealWorld) (home : Bytes) : Option (List CookieEnt) :=
  (w.files.find? (fun p => p.1 = home)).map (·.2)

def setFile (w : RealWorld) (home : Bytes) (f : Option (List CookieEnt)) : RealWorld :=
  let rest := w.files.filter (fun p => p.1 ≠ home)
  match f with
  | some c => { w with files := (home, c) :: rest }
  | none => { w with files := rest }

/-- `os.urandom(n)` -/
def urandom (w : RealWorld) (n : Nat) : RealWorld × Bytes :=
  ({ w with rndCalls := w.rndCalls + 1 }, w.cfg.rnd w.rndCalls n)

def getpwnam (cfg : EnvCfg) (name : Bytes) : Option PwEnt := cfg.passwd.find? (fun e => e.name = name)
def getpwuid (cfg : EnvCfg) (uid : Nat) : Option PwEnt := cfg.passwd.find? (fun e => e.uid = uid)
/-- `pwd.getpwuid` of a Python int (negative: KeyError) -/
def getpwuidI (cfg : EnvCfg) (uid : Int) : Option PwEnt := if uid < 0 then none else getpwuid cfg uid.toNat

/-- `abs(timefunc() - int(k_time)) < 30` for a float `timefunc()` = `now` (+ a fraction when `nowFrac`). -/
def unexpired (cfg : EnvCfg) (t : Nat) : Bool :=
  if cfg.now ≥ t then cfg.now - t < cookieExpiry
  else if cfg.nowFrac then t - cfg.now ≤ cookieExpiry else t - cfg.now < cookieExpiry

/-- `_get_cookies()`: the unexpired entries; no file: none. -/
def getCookies (w : RealWorld) (home : Bytes) : List CookieEnt :=
  match lookupFile w home with
  | none => []
  | some es => es.filter (fun e => unexpired w.cfg e.time)

/-- The loop computing `cookie_id` in `_create_cookie`. -/
def nextCookieId (es : List CookieEnt) : Nat :=
  es.foldl (fun acc e => if e.id ≥ acc then e.id + 1 else acc) 1

/-- `del cookies[i]` for the first entry with that id. -/
def removeFirst (id : Nat) : List CookieEnt → List CookieEnt
  | [] => []
  | e :: t => if e.id = id then t else e :: removeFirst id t

/-- `_delete_cookie()`; `none`: `os.unlink(self.cookie_file)` raises FileNotFoundError. -/
def deleteCookie (w : RealWorld) (home : Bytes) (id : Option Nat) : Option RealWorld :=
  let cs := getCookies w home
  let cs' := match id with
    | some i => removeFirst i cs
    | none => cs
  if cs'.isEmpty then
    match lookupFile w home with
    | none => none
    | some _ => some (setFile w home none)
  else some (setFile w home (some cs'))

/-- Attributes of a `BusCookieAuthenticator`. -/
structure CookieSt where
  stepNum : Nat
  username : Option Bytes
  cookieId : Option Nat
  home : Bytes
  cookie : Bytes
  challenge : Bytes
  deriving Repr

def CookieSt.init : CookieSt := ⟨0, none, none, [], [], []⟩

inductive Inst where
  | ext (ok : Bool) (creds : Option Int)
  | cookie (c : CookieSt)
  | anon
  deriving Repr

/-- `uid = int(username)` -> `pwd.getpwuid(uid).pw_name`; on ValueError the text is kept.
`none`: the uid has no entry (REJECTED). -/
def resolveUser (cfg : EnvCfg) (username : Bytes) : Option Bytes :=
  match parseInt username with
  | some n =>
    if n < 0 then none
    else match getpwuid cfg n.toNat with
      | some e => some e.name
      | none => none
  | none => some username

/-- `_create_cookie()`: the new world, the cookie id and the cookie. -/
def createCookie (w : RealWorld) (home : Bytes) : RealWorld × Nat × Bytes :=
  let cs := getCookies w home
  let cid := nextCookieId cs
  let r := urandom w cookieRandomBytes
  let cookie := hexlify r.2
  (setFile r.1 home (some (cs ++ [⟨cid, w.cfg.now, cookie⟩])), cid, cookie)

/-- The part of `_step_one` after the keyring directory was accepted (created when absent):
cookie, challenge, message. -/
def cookieChallenge (w : RealWorld) (c : CookieSt) (home : Bytes) : RealWorld × CookieSt × Outcome :=
  let k := createCookie w home
  let r := urandom k.1 challengeRandomBytes
  let chal := hexlify (w.cfg.sha1 r.2)
  (r.1, { c with cookieId := some k.2.1, cookie := k.2.2, challenge := chal },
   .challenge (w.cfg.ctx ++ 32 :: natToDec k.2.1 ++ 32 :: chal))

/-- `_step_one(username)` -/
def cookieStepOne (w : RealWorld) (c : CookieSt) (username : Bytes) : RealWorld × CookieSt × Outcome :=
  match resolveUser w.cfg username with
  | none => (w, c, .reject)
  | some uname =>
    match getpwnam w.cfg uname with
    | none => (w, { c with username := some uname }, .reject)
    | some e =>
      match lookupDir w e.home with
      | .bad => (w, { c with username := some uname, home := e.home }, .reject)
      | .absent => cookieChallenge (setDir w e.home .good) { c with username := some uname, home := e.home } e.home
      | .good => cookieChallenge w { c with username := some uname, home := e.home } e.home

/-- The hash a right response carries: `hexlify(sha1(challenge + b':' + client_challenge + b':' + cookie))` -/
def cookieHash (sha1 : Bytes → Bytes) (chal cc cookie : Bytes) : Bytes :=
  hexlify (sha1 (chal ++ 58 :: cc ++ 58 :: cookie))

/-- `_step_two(response)` (after repairs C06-03, C06-04) -/
def cookieStepTwo (w : RealWorld) (c : CookieSt) (response : Bytes) : RealWorld × CookieSt × Outcome :=
  match deleteCookie w c.home c.cookieId with
  | none => (w, c, .reject)                 -- the exception is swallowed by `step`
  | some w1 =>
    let c1 := { c with cookieId := none }
    match splitWs response with
    | [cc, h] => if cookieHash w.cfg.sha1 c.challenge cc c.cookie = h then (w1, c1, .accept) else (w1, c1, .reject)
    | _ => (w1, c1, .reject)

/-- `BusCookieAuthenticator.step(arg)` -/
def cookieStep (w : RealWorld) (c : CookieSt) (arg : Option Bytes) : RealWorld × CookieSt × Outcome :=
  let s := c.stepNum
  let c := { c with stepNum := s + 1 }
  match arg with
  | none => (w, c, .reject)
  | some a =>
    if s = 0 then cookieStepOne w c a
    else if s = 1 then cookieStepTwo w c a
    else (w, c, .reject)

def kindOf (name : Bytes) : Option MechKind := (mechTable.find? (fun p => p.1 = name)).map (·.2)

def anonymousUser : Bytes := lit "anonymous"

def real : MechSys RealWorld Inst where
  offered := mechTable.map (·.1)
  start w name :=
    match kindOf name with
    | some .external => (w, .ext false w.cfg.creds)
    | some .cookie => (w, .cookie CookieSt.init)
    | _ => (w, .anon)
  step w i arg :=
    match i with
    | .ext ok creds =>
      match creds with
      | none => (w, i, .reject)
      | some uid =>
        -- repair C06-05: an unknown peer uid is rejected here (getUserName() would raise at BEGIN)
        match getpwuidI w.cfg uid with
        | none => (w, i, .reject)
        | some _ => if !ok then (w, .ext true creds, .challenge []) else (w, i, .accept)
    | .cookie c => let r := cookieStep w c arg; (r.1, .cookie r.2.1, r.2.2)
    | .anon => (w, i, .accept)
  cancel w i :=
    match i with
    | .cookie c =>
      match c.cookieId with
      | some id => deleteCookie w c.home (some id)
      | none => some w
    | _ => some w
  userName w i :=
    match i with
    | .ext _ creds =>
      match creds with
      | some uid => (getpwuidI w.cfg uid).map (·.name)
      | none => none
    | .cookie c => c.username
    | .anon => some anonymousUser

end Txdbus.AuthServer
