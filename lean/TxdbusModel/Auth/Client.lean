/-
C07 - code model of the client side of the DBus authentication handshake.

Mirrors, as written (after the repairs fixes/C07-01..05):

  txdbus/authentication.py  class ClientAuthenticator
      beginAuthentication, handleAuthMessage, authTryNextMethod,
      _auth_REJECTED / _auth_OK / _auth_AGREE_UNIX_FD / _auth_DATA / _auth_ERROR,
      _authGetDBusCookie
  txdbus/protocol.py        BasicDBusProtocol, client side of the line mode
      connectionMade, dataReceived (not yet authenticated), sendAuthMessage,
      authMessageLengthExceeded, setAuthenticationSucceeded

What the code takes from its environment is an explicit input (`Env`): the user name, the result of
`os.stat` on the keyring directory, the content of the cookie file of a context, `os.urandom(8)`,
SHA-1, and the text of the exception that the cookie step reports.

Core Lean only; total; executable (the driver links this file).
-/
import TxdbusModel.Auth.ClientBytes
import TxdbusModel.Gen.ClientAuth

namespace Txdbus.AuthClient

/-! ## Environment -/

/-- Why the DBUS_COOKIE_SHA1 step answered `ERROR` (which Python exception was caught by the
`except Exception` of `_auth_DATA`), in the order in which the code can raise them. -/
inductive CookieErr where
  | oddLength   -- binascii.Error('Odd-length string')
  | nonHex      -- binascii.Error('Non-hexadecimal digit found')
  | arity       -- ValueError: `cookie_context, cookie_id, server_challenge = data.split()`
  | badContext  -- 'Invalid cookie context name' (a character the DBus specification forbids)
  | stat        -- OSError from os.stat(cookie_dir)
  | perms       -- 'User keyrings directory is writeable by other users. Aborting authentication'
  | owner       -- 'Keyrings directory is not owned by the current user. Aborting authentication!'
  | ctxAscii    -- UnicodeDecodeError from cookie_context.decode('ascii')
  | openFile    -- OSError / ValueError from open(path, 'rb')
  | noCookie    -- _authGetDBusCookie returned None: TypeError in b':'.join([..., None])
  deriving DecidableEq, Repr

structure Env where
  /-- `getpass.getuser().encode('ascii')` (assumed to succeed: ASCII user name) -/
  user : Bytes
  /-- `os.stat(cookie_dir)`: `none` = raises; `some (st_mode, st_uid == pwd.getpwuid(os.geteuid()).pw_uid)` -/
  dirStat : Option (Nat × Bool)
  /-- content of `os.path.join(cookie_dir, context)` read in binary mode; `none` = `open` raises -/
  file : Bytes → Option Bytes
  /-- `os.urandom(8)` -/
  rnd : Bytes
  /-- `hashlib.sha1(x).digest()` -/
  sha1 : Bytes → Bytes
  /-- `str(e).encode('unicode-escape')` of the exception caught in `_auth_DATA` -/
  errText : CookieErr → Bytes

/-! ## ClientAuthenticator -/

def mEXTERNAL : Bytes := b!"EXTERNAL"
def mCOOKIE : Bytes := b!"DBUS_COOKIE_SHA1"
def mANONYMOUS : Bytes := b!"ANONYMOUS"

def lBEGIN : Bytes := b!"BEGIN"
def lNEGOTIATE : Bytes := b!"NEGOTIATE_UNIX_FD"
def lDATA : Bytes := b!"DATA"
def lCANCEL : Bytes := b!"CANCEL"

def cREJECTED : Bytes := b!"REJECTED"
def cOK : Bytes := b!"OK"
def cAGREE : Bytes := b!"AGREE_UNIX_FD"
def cDATA : Bytes := b!"DATA"
def cERROR : Bytes := b!"ERROR"

/-- The attributes of a `ClientAuthenticator` after `beginAuthentication`. -/
structure Auth where
  /-- mechanisms not tried yet, next one first (the code keeps the reversed list and pops its end) -/
  authOrder : List Bytes
  /-- `self.authMech`; `none` only if no mechanism was ever selected -/
  authMech : Option Bytes
  /-- `self.unixFDSupport`: the transport provides `IUNIXTransport` -/
  unixFD : Bool
  /-- `self.negotiatingUnixFD`: NEGOTIATE_UNIX_FD was sent for the current mechanism and not answered -/
  negotiating : Bool
  /-- `self.authenticated` -/
  authenticated : Bool
  /-- `self.guid` -/
  guid : Option Bytes
  deriving DecidableEq

/-- `DBusAuthenticationFailed` raised out of `handleAuthMessage`. -/
inductive Fail where
  | authFailed
  deriving DecidableEq, Repr

abbrev Reply := Except Fail (Auth × List Bytes)

/-- The line `authTryNextMethod` sends for a mechanism. -/
def authLine (env : Env) (mech : Bytes) : Bytes :=
  if mech = mCOOKIE then b!"AUTH " ++ mech ++ b!" " ++ hexlify env.user
  else if mech = mANONYMOUS then b!"AUTH " ++ mech ++ b!" " ++ hexlify (b!"txdbus")
  else b!"AUTH " ++ mech

/-- `authTryNextMethod` -/
def authTryNextMethod (env : Env) (a : Auth) : Reply :=
  match a.authOrder with
  | [] => .error .authFailed
  | m :: rest =>
    .ok ({ a with authOrder := rest, authMech := some m, negotiating := false }, [authLine env m])

/-- `_auth_REJECTED` -/
def authREJECTED (env : Env) (a : Auth) (_args : Bytes) : Reply :=
  authTryNextMethod env a

/-- `_auth_OK` -/
def authOK (a : Auth) (args : Bytes) : Reply :=
  let line := strip args
  if line.isEmpty then .error .authFailed
  else
    match unhexlify line with
    | .error _ => .error .authFailed
    | .ok g =>
      if a.unixFD then
        .ok ({ a with guid := some g, negotiating := true }, [lNEGOTIATE])
      else
        .ok ({ a with guid := some g, authenticated := true }, [lBEGIN])

/-- `_auth_AGREE_UNIX_FD` -/
def authAGREE (a : Auth) (_args : Bytes) : Reply :=
  if a.unixFD && a.negotiating then
    .ok ({ a with authenticated := true }, [lBEGIN])
  else .error .authFailed

/-- The loop of `_authGetDBusCookie` over the lines of the cookie file: the first line with exactly
three fields whose first field is the id (other lines raise inside `try … except BaseException: pass`). -/
def findCookie (cookieId : Bytes) : List Bytes → Option Bytes
  | [] => none
  | l :: ls =>
    match splitWs l with
    | [kId, _kTime, kCookie] => if kId = cookieId then some kCookie else findCookie cookieId ls
    | _ => findCookie cookieId ls

/-- The characters the DBus specification forbids in a cookie context name:
`/`, `\`, space, newline, carriage return, tab, `.` -/
def forbiddenInContext : Bytes := [47, 92, 32, 10, 13, 9, 46]

/-- The test at the top of `_authGetDBusCookie`: the name comes from the server and is joined to the
keyring path, so it is refused before the file system is touched. -/
def contextOk (ctx : Bytes) : Bool :=
  !ctx.isEmpty && ctx.all (fun b => !forbiddenInContext.contains b)

/-- `_authGetDBusCookie` -/
def getCookie (env : Env) (ctx cookieId : Bytes) : Except CookieErr (Option Bytes) :=
  if !contextOk ctx then .error .badContext else
  match env.dirStat with
  | none => .error .stat
  | some (mode, owned) =>
    if mode &&& 0o066 ≠ 0 then .error .perms
    else if !owned then .error .owner
    else if !(ctx.all (· < 128)) then .error .ctxAscii
    else
      match env.file ctx with
      | none => .error .openFile
      | some content => .ok (findCookie cookieId (splitNl content))

/-- The `try` block of `_auth_DATA` for DBUS_COOKIE_SHA1: the line to send, or the exception. -/
def cookieResponse (env : Env) (args : Bytes) : Except CookieErr Bytes :=
  match unhexlify (strip args) with
  | .error .oddLength => .error .oddLength
  | .error .nonHex => .error .nonHex
  | .ok data =>
    match splitWs data with
    | [ctx, cookieId, serverChallenge] =>
      match getCookie env ctx cookieId with
      | .error e => .error e
      | .ok none => .error .noCookie
      | .ok (some cookie) =>
        let clientChallenge := hexlify (env.sha1 env.rnd)
        let response := hexlify (env.sha1 (joinWith (b!":") [serverChallenge, clientChallenge, cookie]))
        .ok (b!"DATA " ++ hexlify (clientChallenge ++ b!" " ++ response))
    | _ => .error .arity

/-- `_auth_DATA` -/
def authDATA (env : Env) (a : Auth) (args : Bytes) : Reply :=
  if a.authMech = some mEXTERNAL then .ok (a, [lDATA])
  else if a.authMech = some mCOOKIE then
    match cookieResponse env args with
    | .ok l => .ok (a, [l])
    | .error e => .ok (a, [b!"ERROR " ++ env.errText e])
  else .ok (a, [lCANCEL])

/-- `_auth_ERROR` -/
def authERROR (env : Env) (a : Auth) (_args : Bytes) : Reply :=
  if a.negotiating then
    .ok ({ a with authenticated := true }, [lBEGIN])
  else authTryNextMethod env a

/-- `handleAuthMessage`: `getattr(self, '_auth_' + cmd.decode(), None)` finds a method exactly for
the five command words below (a command that is not valid UTF-8 raises `UnicodeDecodeError`
instead of `DBusAuthenticationFailed`; both end the connection, see `Proto`). -/
def handleAuthMessage (env : Env) (a : Auth) (line : Bytes) : Reply :=
  let (cmd, args) := splitCmd line
  if cmd = cREJECTED then authREJECTED env a args
  else if cmd = cOK then authOK a args
  else if cmd = cAGREE then authAGREE a args
  else if cmd = cDATA then authDATA env a args
  else if cmd = cERROR then authERROR env a args
  else .error .authFailed

/-! ## BasicDBusProtocol, client side, line mode -/

/-- What can be observed at the transport and at the protocol object, in order. -/
inductive Ev where
  | nul                      -- transport.write(b'\0')
  | recv (line : Bytes)      -- a server line handed to handleAuthMessage
  | send (line : Bytes)      -- sendAuthMessage(line): writeSequence((line, b'\r\n'))
  | close                    -- transport.loseConnection()
  | authenticated            -- setAuthenticationSucceeded() -> connectionAuthenticated()
  deriving DecidableEq

/-- The lines written by the client, in order. -/
def sends : List Ev → List Bytes
  | [] => []
  | .send l :: t => l :: sends t
  | _ :: t => sends t

structure Proto where
  auth : Auth
  /-- `self._buffer` while in line mode -/
  buffer : Bytes
  /-- `self.transport.disconnecting` -/
  disconnecting : Bool
  /-- `self._authenticated` -/
  authenticated : Bool
  /-- bytes handed to the binary message mode after the handshake -/
  binary : Bytes
  /-- number of lines handed to `handleAuthMessage` so far (index into the environment) -/
  seen : Nat
  trace : List Ev

def maxAuth : Nat := Gen.ClientAuth.maxAuthLength
def CRLF : Bytes := [13, 10]

/-- `bs.split(b'\r\n')` as (all pieces but the last, last piece). -/
def splitCRLF : Bytes → List Bytes × Bytes
  | [] => ([], [])
  | 13 :: 10 :: t => let p := splitCRLF t; ([] :: p.1, p.2)
  | b :: t =>
    let p := splitCRLF t
    match p.1 with
    | [] => ([], b :: p.2)
    | l :: ls => ((b :: l) :: ls, p.2)

def Proto.close (p : Proto) : Proto :=
  { p with disconnecting := true, trace := p.trace ++ [Ev.close] }

/-- The `for lineno, line in enumerate(lines): … else: …` of `dataReceived`. -/
def processLines (envAt : Nat → Env) (p : Proto) : List Bytes → Proto
  | [] =>
    if p.buffer.length > maxAuth + CRLF.length - 1 then p.close else p
  | l :: ls =>
    if p.disconnecting then p
    else if l.length > maxAuth then p.close
    else
      let k := p.seen
      let p := { p with seen := k + 1, trace := p.trace ++ [Ev.recv l] }
      match handleAuthMessage (envAt k) p.auth l with
      | .error _ => processLines envAt p.close ls
      | .ok (a, out) =>
        let p := { p with auth := a, trace := p.trace ++ out.map Ev.send }
        if a.authenticated then
          { p with authenticated := true, trace := p.trace ++ [Ev.authenticated],
                   buffer := [], binary := joinWith CRLF (ls ++ [p.buffer]) }
        else processLines envAt p ls

/-- `dataReceived` -/
def dataReceived (envAt : Nat → Env) (p : Proto) (data : Bytes) : Proto :=
  if p.authenticated then { p with binary := p.binary ++ data }
  else
    let sp := splitCRLF (p.buffer ++ data)
    processLines envAt { p with buffer := sp.2 } sp.1

/-- One complete server line arriving in one read (line + delimiter) at a connection whose line
buffer is empty: `dataReceived envAt p (l ++ CRLF)` for a line without delimiter inside
(`lineReceived_eq_dataReceived`). -/
def lineReceived (envAt : Nat → Env) (p : Proto) (l : Bytes) : Proto :=
  if p.authenticated then { p with binary := p.binary ++ (l ++ CRLF) }
  else processLines envAt p [l]

/-- `connectionMade` followed by `beginAuthentication`.  With an empty preference list
`authTryNextMethod` raises out of `connectionMade`; recorded as a closed connection. -/
def connectionMade (pref : List Bytes) (unix : Bool) (env : Env) : Proto :=
  let a : Auth := { authOrder := pref, authMech := none, unixFD := unix, negotiating := false,
                    authenticated := false, guid := none }
  let p : Proto := { auth := a, buffer := [], disconnecting := false, authenticated := false,
                     binary := [], seen := 0, trace := [Ev.nul] }
  match authTryNextMethod env a with
  | .error _ => p.close
  | .ok (a', out) => { p with auth := a', trace := p.trace ++ out.map Ev.send }

/-- A whole connection: the reads `chunks` arrive in this order. -/
def clientRun (pref : List Bytes) (unix : Bool) (envAt : Nat → Env) (chunks : List Bytes) : Proto :=
  chunks.foldl (dataReceived envAt) (connectionMade pref unix (envAt 0))

end Txdbus.AuthClient
