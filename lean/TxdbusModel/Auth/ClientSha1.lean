/-
SHA-1 (FIPS 180-4), executable, used by the C07 driver to instantiate the `sha1` field of the
client model's environment (the theorems treat the hash as an arbitrary function).  Validated
against `hashlib.sha1` by the correspondence streams that reach the cookie step.  Core Lean only.
-/
import TxdbusModel.Auth.ClientBytes

namespace Txdbus.AuthClient.Sha1

def rotl (x : UInt32) (n : UInt32) : UInt32 := (x <<< n) ||| (x >>> (32 - n))

def be32 (a b c d : UInt8) : UInt32 :=
  (a.toUInt32 <<< 24) ||| (b.toUInt32 <<< 16) ||| (c.toUInt32 <<< 8) ||| d.toUInt32

def toBytes32 (x : UInt32) : Bytes :=
  [(x >>> 24).toUInt8, (x >>> 16).toUInt8, (x >>> 8).toUInt8, x.toUInt8]

def toBytes64 (n : Nat) : Bytes :=
  [56, 48, 40, 32, 24, 16, 8, 0].map fun s => UInt8.ofNat ((n >>> s) % 256)

/-- message ++ 0x80 ++ zeros ++ 64-bit big-endian bit length, a multiple of 64 bytes -/
def pad (msg : Bytes) : Bytes :=
  let l := msg.length
  let k := (55 + 64 - l % 64) % 64
  msg ++ [0x80] ++ List.replicate k 0 ++ toBytes64 (8 * l)

def words : Bytes → List UInt32
  | a :: b :: c :: d :: t => be32 a b c d :: words t
  | _ => []

/-- Extend the 16 words of a block to 80; `w` holds the schedule reversed (newest first). -/
def schedule : Nat → List UInt32 → List UInt32
  | 0, w => w
  | n + 1, w =>
    let g (i : Nat) : UInt32 := w.getD i 0
    schedule n (rotl (g 2 ^^^ g 7 ^^^ g 13 ^^^ g 15) 1 :: w)

structure H5 where
  (a b c d e : UInt32)

def round (t : Nat) (s : H5) (w : UInt32) : H5 :=
  let (f, k) : UInt32 × UInt32 :=
    if t < 20 then ((s.b &&& s.c) ||| ((~~~ s.b) &&& s.d), 0x5A827999)
    else if t < 40 then (s.b ^^^ s.c ^^^ s.d, 0x6ED9EBA1)
    else if t < 60 then ((s.b &&& s.c) ||| (s.b &&& s.d) ||| (s.c &&& s.d), 0x8F1BBCDC)
    else (s.b ^^^ s.c ^^^ s.d, 0xCA62C1D6)
  { a := rotl s.a 5 + f + s.e + k + w, b := s.a, c := rotl s.b 30, d := s.c, e := s.d }

def rounds : Nat → H5 → List UInt32 → H5
  | _, s, [] => s
  | t, s, w :: ws => rounds (t + 1) (round t s w) ws

def block (h : H5) (ws16 : List UInt32) : H5 :=
  let w80 := (schedule 64 ws16.reverse).reverse
  let r := rounds 0 h w80
  { a := h.a + r.a, b := h.b + r.b, c := h.c + r.c, d := h.d + r.d, e := h.e + r.e }

def blocks : Nat → H5 → List UInt32 → H5
  | 0, h, _ => h
  | n + 1, h, ws => blocks n (block h (ws.take 16)) (ws.drop 16)

/-- `hashlib.sha1(msg).digest()` -/
def sha1 (msg : Bytes) : Bytes :=
  let p := pad msg
  let h0 : H5 := { a := 0x67452301, b := 0xEFCDAB89, c := 0x98BADCFE, d := 0x10325476, e := 0xC3D2E1F0 }
  let h := blocks (p.length / 64) h0 (words p)
  toBytes32 h.a ++ toBytes32 h.b ++ toBytes32 h.c ++ toBytes32 h.d ++ toBytes32 h.e

end Txdbus.AuthClient.Sha1
