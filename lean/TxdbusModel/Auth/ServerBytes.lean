/-
Python `bytes` / `str` helpers mirrored for the bus side of authentication (C06):
`bytes.split()`, `bytes.strip()`, `bytes.split(b' ', 1)`, `(a + b).split(b'\r\n')`, `b'\r\n'.join`,
`binascii.hexlify / unhexlify`, `.decode('ascii')`, `.decode()` (strict UTF-8, validity only),
`int(str)` for ASCII text, `str(int)`.
Core Lean only; total; structurally recursive.  Validated against CPython by the C06 harness
(stream `bytes-helpers`).
-/
namespace Txdbus.AuthServer

abbrev Bytes := List UInt8

/-- ASCII text literal as bytes (all our literals are ASCII). -/
def lit (s : String) : Bytes := s.toList.map (fun c => UInt8.ofNat c.toNat)

/-! ## whitespace, strip, split -/

/-- What `bytes.split()` / `bytes.strip()` treat as whitespace: space, \t \n \v \f \r. -/
def isSpace (b : UInt8) : Bool := b = 32 || (9 ≤ b && b ≤ 13)

/-- `b.strip()` -/
def strip (bs : Bytes) : Bytes := ((bs.dropWhile isSpace).reverse.dropWhile isSpace).reverse

/-- `b.split()`: maximal runs of non-whitespace. `cur` is the run being collected (reversed). -/
def splitWsAux : Bytes → Bytes → List Bytes
  | cur, [] => if cur.isEmpty then [] else [cur.reverse]
  | cur, b :: t =>
    if isSpace b then
      (if cur.isEmpty then splitWsAux [] t else cur.reverse :: splitWsAux [] t)
    else splitWsAux (b :: cur) t

def splitWs (bs : Bytes) : List Bytes := splitWsAux [] bs

/-- `line.split(b' ', 1)` when `b' ' in line`, and `(line, b'')` otherwise: the command word and its
arguments. -/
def splitCmd : Bytes → Bytes × Bytes
  | [] => ([], [])
  | b :: t => if b = 32 then ([], t) else let r := splitCmd t; (b :: r.1, r.2)

/-- `sep.join(parts)` for a one-byte separator. -/
def joinSp : List Bytes → Bytes
  | [] => []
  | [x] => x
  | x :: y :: t => x ++ 32 :: joinSp (y :: t)

/-! ## CRLF framing -/

/-- Put a byte in front of a split result: it extends the first line, or the remainder when there is
no complete line. -/
def pushFront (x : UInt8) (r : List Bytes × Bytes) : List Bytes × Bytes :=
  match r.1 with
  | [] => ([], x :: r.2)
  | l :: ls => ((x :: l) :: ls, r.2)

/-- `(buffer + data).split(b'\r\n')` followed by `lines.pop(-1)`: the complete lines and the
unterminated remainder (left-to-right, non-overlapping occurrences). -/
def splitCRLF : Bytes → List Bytes × Bytes
  | [] => ([], [])
  | [x] => ([], [x])
  | x :: y :: t =>
    if x = 13 ∧ y = 10 then ([] :: (splitCRLF t).1, (splitCRLF t).2)
    else pushFront x (splitCRLF (y :: t))

/-- `b'\r\n'.join(ls + [last])` -/
def joinCRLF : List Bytes → Bytes → Bytes
  | [], last => last
  | l :: t, last => l ++ 13 :: 10 :: joinCRLF t last

/-! ## hex -/

def hexChar (n : Nat) : UInt8 := if n < 10 then UInt8.ofNat (48 + n) else UInt8.ofNat (87 + n)

/-- `binascii.hexlify` (lowercase) -/
def hexlify : Bytes → Bytes
  | [] => []
  | b :: t => hexChar (b.toNat / 16) :: hexChar (b.toNat % 16) :: hexlify t

def hexVal? (c : UInt8) : Option Nat :=
  if 48 ≤ c ∧ c ≤ 57 then some (c.toNat - 48)
  else if 97 ≤ c ∧ c ≤ 102 then some (c.toNat - 87)
  else if 65 ≤ c ∧ c ≤ 70 then some (c.toNat - 55)
  else none

/-- `binascii.unhexlify(bytes)`: `none` = `binascii.Error` (odd length or a non-hex digit). -/
def unhexlify : Bytes → Option Bytes
  | [] => some []
  | [_] => none
  | a :: b :: t =>
    match hexVal? a, hexVal? b, unhexlify t with
    | some x, some y, some r => some (UInt8.ofNat (x * 16 + y) :: r)
    | _, _, _ => none

/-- `.decode('ascii')` succeeds. -/
def isAscii (bs : Bytes) : Bool := bs.all (fun b => b < 128)

/-! ## strict UTF-8 validity (`cmd.decode()` raises UnicodeDecodeError or not) -/

def isCont (b : UInt8) : Bool := 0x80 ≤ b && b ≤ 0xBF

def utf8Valid : Bytes → Bool
  | [] => true
  | b0 :: t =>
    if b0 < 0x80 then utf8Valid t
    else match t with
      | [] => false
      | b1 :: t1 =>
        if 0xC2 ≤ b0 && b0 ≤ 0xDF then isCont b1 && utf8Valid t1
        else match t1 with
          | [] => false
          | b2 :: t2 =>
            if b0 = 0xE0 then (0xA0 ≤ b1 && b1 ≤ 0xBF) && isCont b2 && utf8Valid t2
            else if b0 = 0xED then (0x80 ≤ b1 && b1 ≤ 0x9F) && isCont b2 && utf8Valid t2
            else if 0xE1 ≤ b0 && b0 ≤ 0xEF then isCont b1 && isCont b2 && utf8Valid t2
            else match t2 with
              | [] => false
              | b3 :: t3 =>
                if b0 = 0xF0 then (0x90 ≤ b1 && b1 ≤ 0xBF) && isCont b2 && isCont b3 && utf8Valid t3
                else if b0 = 0xF4 then (0x80 ≤ b1 && b1 ≤ 0x8F) && isCont b2 && isCont b3 && utf8Valid t3
                else if 0xF1 ≤ b0 && b0 ≤ 0xF3 then isCont b1 && isCont b2 && isCont b3 && utf8Valid t3
                else false

/-! ## `int(text)` for ASCII text, `str(n)` -/

/-- What `int()` strips from an ASCII `str`: for ASCII text `PyLong_FromString` uses `Py_ISSPACE`
(space, \t..\r; not \x1c..\x1f, which only `str.isspace` knows). -/
def isStrSpace (b : UInt8) : Bool := isSpace b

def isDigit (b : UInt8) : Bool := 48 ≤ b && b ≤ 57

/-- Digits with single underscores between them (`prevDigit`: the previous byte was a digit).
Returns the digit values, or `none` on a syntax error. -/
def digitsAux : Bool → Bytes → Option (List Nat)
  | prevDigit, [] => if prevDigit then some [] else none
  | prevDigit, b :: t =>
    if isDigit b then (digitsAux true t).map (fun r => (b.toNat - 48) :: r)
    else if b = 95 ∧ prevDigit then
      match t with
      | [] => none
      | c :: _ => if isDigit c then digitsAux false t else none
    else none

/-- `sys.int_info.default_max_str_digits` -/
def maxStrDigits : Nat := 4300

/-- `int(text)` for an ASCII `str` given as bytes: `none` = ValueError. -/
def parseInt (bs : Bytes) : Option Int :=
  let s := ((bs.dropWhile isStrSpace).reverse.dropWhile isStrSpace).reverse
  let (neg, body) : Bool × Bytes :=
    match s with
    | 45 :: t => (true, t)
    | 43 :: t => (false, t)
    | _ => (false, s)
  match digitsAux false body with
  | none => none
  | some ds =>
    if ds.length > maxStrDigits then none
    else
      let n : Nat := ds.foldl (fun acc d => acc * 10 + d) 0
      some (if neg then - (n : Int) else (n : Int))

/-- `str(n).encode('ascii')` for a natural number. -/
def natToDec (n : Nat) : Bytes := (Nat.toDigits 10 n).map (fun c => UInt8.ofNat c.toNat)

end Txdbus.AuthServer
