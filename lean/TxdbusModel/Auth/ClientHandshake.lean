/-
C07 - composition of the client model with the reference server: the two exchange lines in
rounds (all pending client lines to the server, its replies to the client) until nobody has
anything to say or the fuel runs out - at the level of lines (`handshake`) and of bytes cut into
arbitrary reads (`handshakeBytes`).  Core Lean only.
-/
import TxdbusModel.Auth.Client
import TxdbusModel.Auth.SpecServerRef

namespace Txdbus.AuthClient

structure Sys where
  client : Proto
  server : SpecServer.St
  /-- every line that travelled, in order: `(true, l)` client to server, `(false, l)` server to client -/
  transcript : List (Bool × Bytes)

/-- `pending`: client lines not yet delivered to the server. -/
def handshakeLoop (cfg : SpecServer.Cfg) (envAt : Nat → Env) : Nat → Sys → List Bytes → Sys
  | 0, sys, _ => sys
  | n + 1, sys, pending =>
    let r := SpecServer.feed cfg sys.server pending
    let c' := r.2.foldl (lineReceived envAt) sys.client
    let new := (sends c'.trace).drop (sends sys.client.trace).length
    let sys' : Sys := { client := c', server := r.1,
                        transcript := sys.transcript ++ pending.map (fun l => (true, l))
                                        ++ r.2.map (fun l => (false, l)) }
    if new.isEmpty then sys' else handshakeLoop cfg envAt n sys' new

/-- The same composition at the level of bytes: every answer of the server (line + delimiter) reaches
the client cut into reads by `cut` (any function with `(cut x).flatten = x`: one read, byte by byte,
a boundary inside the delimiter, empty reads in between ...). -/
def handshakeLoopBytes (cut : Bytes → List Bytes) (cfg : SpecServer.Cfg) (envAt : Nat → Env) :
    Nat → Sys → List Bytes → Sys
  | 0, sys, _ => sys
  | n + 1, sys, pending =>
    let r := SpecServer.feed cfg sys.server pending
    let c' := r.2.foldl (fun c l => (cut (l ++ CRLF)).foldl (dataReceived envAt) c) sys.client
    let new := (sends c'.trace).drop (sends sys.client.trace).length
    let sys' : Sys := { client := c', server := r.1,
                        transcript := sys.transcript ++ pending.map (fun l => (true, l))
                                        ++ r.2.map (fun l => (false, l)) }
    if new.isEmpty then sys' else handshakeLoopBytes cut cfg envAt n sys' new

def handshakeBytes (cut : Bytes → List Bytes) (pref : List Bytes) (unix : Bool) (cfg : SpecServer.Cfg)
    (envAt : Nat → Env) (fuel : Nat) : Sys :=
  let c := connectionMade pref unix (envAt 0)
  handshakeLoopBytes cut cfg envAt fuel { client := c, server := .waitingForAuth, transcript := [] }
    (sends c.trace)

def handshake (pref : List Bytes) (unix : Bool) (cfg : SpecServer.Cfg) (envAt : Nat → Env) (fuel : Nat) : Sys :=
  let c := connectionMade pref unix (envAt 0)
  handshakeLoop cfg envAt fuel { client := c, server := .waitingForAuth, transcript := [] } (sends c.trace)

end Txdbus.AuthClient
