import TxdbusModel.Auth.ServerBytes
/-
SPEC for C06: the server side of the DBus authentication protocol, transcribed from the state table
of the DBus specification ("Authentication state diagrams - Server states") plus the closing rule of
the property statement (more than `limit` rejections close the connection).  It never looks at txdbus.

  WaitingForAuth   AUTH (no mechanism)            -> REJECTED mechs, WaitingForAuth
                   AUTH MECH RESP, MECH not offered or RESP unusable -> REJECTED, WaitingForAuth
                   AUTH MECH RESP, mechanism: accept -> OK guid, WaitingForBegin
                                              more data -> DATA challenge, WaitingForData
                                              reject -> REJECTED, WaitingForAuth
                   BEGIN                          -> terminate, disconnect
                   ERROR                          -> REJECTED, WaitingForAuth
                   anything else                  -> ERROR, WaitingForAuth
  WaitingForData   DATA RESP (as for AUTH MECH RESP), BEGIN -> disconnect,
                   CANCEL, ERROR -> REJECTED, WaitingForAuth;   anything else -> ERROR, WaitingForData
  WaitingForBegin  BEGIN -> authenticated;  CANCEL, ERROR -> REJECTED, WaitingForAuth;
                   anything else -> ERROR, WaitingForBegin

A rejection that would be number `limit + 1` sends nothing and closes.  After `closed` or
`authenticated` no line is interpreted.

The mechanism's verdict on a response is an input of the table (`Verdict`): the specification leaves
the mechanisms abstract.  `parse` reads a line the way the specification's grammar does (command word
up to the first space; AUTH arguments separated by whitespace; responses hex-encoded text).
Core Lean only.
-/
namespace Txdbus.AuthServer.Spec

open Txdbus.AuthServer

inductive Phase where
  | waitingForAuth | waitingForData | waitingForBegin | authenticated | closed
  deriving DecidableEq, Repr

/-- What the mechanism in use says about the response it was handed. -/
inductive Verdict where
  | accept
  | moreData (challenge : Bytes)
  | reject
  deriving DecidableEq, Repr

/-- A client line as the specification's grammar reads it. -/
inductive Line where
  /-- `AUTH [MECH [RESP]]`; `respOk`: RESP is absent or decodes (hex of ASCII text) -/
  | auth (mech : Option Bytes) (respOk : Bool)
  /-- `DATA [RESP]` -/
  | data (respOk : Bool)
  | begin
  | cancel
  | error
  /-- anything else, including NEGOTIATE_UNIX_FD (this bus does not pass descriptors) -/
  | other
  deriving DecidableEq, Repr

inductive Reply where
  | rejected (mechs : List Bytes)
  | ok
  | data (challenge : Bytes)
  | error
  | nothing
  deriving DecidableEq, Repr

structure State where
  phase : Phase
  rejects : Nat
  deriving DecidableEq, Repr

def State.init : State := ⟨.waitingForAuth, 0⟩

/-- A rejection: REJECTED with the mechanism list, or close when the limit is exceeded. -/
def rej (offered : List Bytes) (limit : Nat) (s : State) : State × Reply :=
  if s.rejects + 1 > limit then (⟨.closed, s.rejects + 1⟩, .nothing)
  else (⟨.waitingForAuth, s.rejects + 1⟩, .rejected offered)

/-- The mechanism was handed a usable response. -/
def onVerdict (offered : List Bytes) (limit : Nat) (s : State) : Verdict → State × Reply
  | .accept => ({ s with phase := .waitingForBegin }, .ok)
  | .moreData c => ({ s with phase := .waitingForData }, .data c)
  | .reject => rej offered limit s

/-- Row `WaitingForAuth` of the table. -/
def stepWaitingForAuth (offered : List Bytes) (limit : Nat) (s : State) (l : Line) (v : Verdict) :
    State × Reply :=
  match l with
  | .auth none _ => rej offered limit s
  | .auth (some m) respOk =>
    if offered.contains m ∧ respOk then onVerdict offered limit s v else rej offered limit s
  | .begin => ({ s with phase := .closed }, .nothing)
  | .error => rej offered limit s
  | .data _ => (s, .error)
  | .cancel => (s, .error)
  | .other => (s, .error)

/-- Row `WaitingForData` of the table. -/
def stepWaitingForData (offered : List Bytes) (limit : Nat) (s : State) (l : Line) (v : Verdict) :
    State × Reply :=
  match l with
  | .data respOk => if respOk then onVerdict offered limit s v else rej offered limit s
  | .begin => ({ s with phase := .closed }, .nothing)
  | .cancel => rej offered limit s
  | .error => rej offered limit s
  | .auth _ _ => (s, .error)
  | .other => (s, .error)

/-- Row `WaitingForBegin` of the table. -/
def stepWaitingForBegin (offered : List Bytes) (limit : Nat) (s : State) (l : Line) : State × Reply :=
  match l with
  | .begin => ({ s with phase := .authenticated }, .nothing)
  | .cancel => rej offered limit s
  | .error => rej offered limit s
  | .auth _ _ => (s, .error)
  | .data _ => (s, .error)
  | .other => (s, .error)

/-- The server state table.  `v` is only consulted where a mechanism is asked. -/
def step (offered : List Bytes) (limit : Nat) (s : State) (l : Line) (v : Verdict) : State × Reply :=
  match s.phase with
  | .waitingForAuth => stepWaitingForAuth offered limit s l v
  | .waitingForData => stepWaitingForData offered limit s l v
  | .waitingForBegin => stepWaitingForBegin offered limit s l
  | .authenticated => (s, .nothing)
  | .closed => (s, .nothing)

/-! ## Reading a line -/

/-- RESP is usable: absent/empty, or the hex encoding of ASCII text (surrounding blanks ignored). -/
def respOk : Option Bytes → Bool
  | none => true
  | some [] => true
  | some r =>
    match unhexlify (strip r) with
    | some b => isAscii b
    | none => false

def parse (line : Bytes) : Line :=
  let ca := splitCmd line
  if ca.1 = lit "AUTH" then
    match splitWs ca.2 with
    | [] => .auth none true
    | m :: rest => .auth (some m) (respOk rest.head?)
  else if ca.1 = lit "DATA" then .data (respOk (some ca.2))
  else if ca.1 = lit "BEGIN" then .begin
  else if ca.1 = lit "CANCEL" then .cancel
  else if ca.1 = lit "ERROR" then .error
  else .other

/-! ## Replies on the wire -/

/-- The lines a reply may be written as (`guid`: this server's id).  ERROR may carry any explanation. -/
def Reply.matches (guid : Bytes) : Reply → List Bytes → Bool
  | .rejected ms, [l] => l = lit "REJECTED " ++ joinSp ms
  | .ok, [l] => l = lit "OK " ++ guid
  | .data c, [l] => l = lit "DATA " ++ hexlify c
  | .error, [l] => l = lit "ERROR" || (lit "ERROR ").isPrefixOf l
  | .nothing, [] => true
  | _, _ => false

end Txdbus.AuthServer.Spec
