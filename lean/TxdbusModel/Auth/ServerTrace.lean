import TxdbusModel.Auth.ServerLines
import TxdbusModel.Auth.SpecServer
/-
Vocabulary of the C06 theorems over the ghost log of a run (`Proto.log`, one `Ev` per line handed
to the authenticator): which events accept / are BEGIN / close the connection, and the run of the
specification's state table along the log.  Core Lean only (definitions, no proofs).
-/
namespace Txdbus.AuthServer

open Txdbus.Gen.ServerAuth

/-- The mechanism step of this line returned accept, for a mechanism of the offered table. -/
def Ev.accepts (offered : List Bytes) (e : Ev) : Prop :=
  ∃ n, e.mech = some (n, .accept) ∧ offered.contains n = true

/-- The line's command word is BEGIN. -/
def Ev.isBegin (e : Ev) : Prop := (splitCmd e.line).1 = lit "BEGIN"

/-- BEGIN while the authenticator was not in WaitingForBegin. -/
def Ev.beginOutOfTurn (e : Ev) : Prop := e.isBegin ∧ e.stateBefore ≠ .waitingForBegin

/-- A rejection when `MAX_REJECTS_ALLOWED` rejections had already happened. -/
def Ev.overLimit (e : Ev) : Prop := e.rejected = true ∧ e.rejectsBefore ≥ maxRejects ∧ e.res ≠ .crash

/-- An accept that no later rejection has cancelled: `log = pre ++ a :: mid`. -/
def AcceptedOpen (offered : List Bytes) (log : List Ev) : Prop :=
  ∃ pre a mid, log = pre ++ a :: mid ∧ a.accepts offered ∧ ∀ e ∈ mid, e.rejected = false

/-- `log = pre ++ a :: (mid ++ [b])`: `a` accepts, `b` is BEGIN and is the last line handled, nothing
between them rejected. -/
def AuthWitness (offered : List Bytes) (log : List Ev) : Prop :=
  ∃ pre a mid b, log = pre ++ a :: (mid ++ [b]) ∧ a.accepts offered ∧ b.isBegin ∧
    ∀ e ∈ mid, e.rejected = false

/-- The closing conditions of the property statement, read off the byte stream and the ghost log:
missing initial NUL; BEGIN out of turn or a rejection over the limit among the handled lines; a complete
line longer than `MAX_AUTH_LENGTH`; an unterminated remainder that cannot be a line of at most
`MAX_AUTH_LENGTH` bytes followed by the first byte of its delimiter. -/
def CloseCause (stream : Bytes) (log : List Ev) : Prop :=
  stream.head? ≠ some 0 ∨
  (∃ e ∈ log, e.beginOutOfTurn ∨ e.overLimit) ∨
  (∃ l ∈ (splitCRLF stream.tail).1, l.length > maxAuthLength) ∨
  (splitCRLF stream.tail).2.length > remainderLimit

/-- Rejections that were counted (those whose `cancel()` did not raise). -/
def countRejections (log : List Ev) : Nat :=
  (log.filter (fun e => e.rejected && e.res != .crash)).length

/-! ## the specification along the log -/

def phaseOf : St → Spec.Phase
  | .waitingForAuth => .waitingForAuth
  | .waitingForData => .waitingForData
  | .waitingForBegin => .waitingForBegin

/-- The mechanism's verdict as the specification sees it (`reject` when no step happened: the table
does not consult it then). -/
def verdictOf : Option (Bytes × Outcome) → Spec.Verdict
  | some (_, .accept) => .accept
  | some (_, .challenge c) => .moreData c
  | some (_, .reject) => .reject
  | none => .reject

structure SpecAcc where
  /-- every reply so far is the table's reply -/
  ok : Bool
  /-- the table's state -/
  st : Spec.State
  /-- an exception escaped (the table has no row for that); nothing may follow it -/
  crashSeen : Bool

/-- Feed one handled line to the specification's table and compare what was written. -/
def specFold (offered : List Bytes) (limit : Nat) (guid : Bytes) (acc : SpecAcc) (e : Ev) : SpecAcc :=
  if acc.crashSeen then { acc with ok := false }
  else if e.res = .crash then { acc with crashSeen := true }
  else
    let r := Spec.step offered limit acc.st (Spec.parse e.line) (verdictOf e.mech)
    ⟨acc.ok && r.2.matches guid e.sent, r.1, false⟩

def specRun (offered : List Bytes) (limit : Nat) (guid : Bytes) (log : List Ev) : SpecAcc :=
  log.foldl (specFold offered limit guid) ⟨true, Spec.State.init, false⟩

end Txdbus.AuthServer
