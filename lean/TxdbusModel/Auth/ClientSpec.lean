/-
C07 - the vocabulary of the property statement, written from the statement and the DBus
specification only (it does not look at the client model):

  OkLine l      the server line `OK <guid>` whose argument is a non-empty, even number of hex digits
  FdAnswer l    the server's answer to NEGOTIATE_UNIX_FD: AGREE_UNIX_FD or ERROR
  Justified     what must have happened before a BEGIN
  BeginsJustified / ReactsToEveryLine / SilentAfterClose …   predicates on a whole trace
-/
import TxdbusModel.Auth.Client

namespace Txdbus.AuthClient

def isHexDigit (c : UInt8) : Bool :=
  (48 ≤ c && c ≤ 57) || (97 ≤ c && c ≤ 102) || (65 ≤ c && c ≤ 70)

/-- `OK <guid>` with a valid hexadecimal GUID (blanks around the GUID are tolerated). -/
def OkLine (l : Bytes) : Prop :=
  (splitCmd l).1 = b!"OK" ∧
    strip (splitCmd l).2 ≠ [] ∧ (strip (splitCmd l).2).length % 2 = 0 ∧
    (strip (splitCmd l).2).all isHexDigit = true

/-- The server's answer to the descriptor-passing negotiation. -/
def FdAnswer (l : Bytes) : Prop :=
  (splitCmd l).1 = b!"AGREE_UNIX_FD" ∨ (splitCmd l).1 = b!"ERROR"

/-- What the statement requires to have happened before a BEGIN: the server's OK with a valid GUID
and, on a UNIX transport, after it the client's NEGOTIATE_UNIX_FD and after that the server's
AGREE_UNIX_FD or ERROR (in this order, not necessarily adjacent). -/
def Justified (unix : Bool) (pre : List Ev) : Prop :=
  ∃ okl, OkLine okl ∧
    (if unix then
      ∃ ans, FdAnswer ans ∧ List.Sublist [Ev.recv okl, Ev.send (b!"NEGOTIATE_UNIX_FD"), Ev.recv ans] pre
     else Ev.recv okl ∈ pre)

/-- Every BEGIN written by the client is justified by what precedes it. -/
def BeginsJustified (unix : Bool) (tr : List Ev) : Prop :=
  ∀ pre post, tr = pre ++ Ev.send (b!"BEGIN") :: post → Justified unix pre

/-- The lines `AUTH …` among the lines written. -/
def authLines : List Ev → List Bytes
  | [] => []
  | .send l :: t => if (b!"AUTH ").isPrefixOf l then l :: authLines t else authLines t
  | _ :: t => authLines t

/-- Strict form of `Justified`: the OK answers the mechanism in progress - between that OK and the BEGIN
the client wrote no AUTH line (a REJECTED after OK, answered by the next AUTH, voids the OK) - and on a
UNIX transport the NEGOTIATE_UNIX_FD and its answer lie after that OK. -/
def JustifiedCurrent (unix : Bool) (pre : List Ev) : Prop :=
  ∃ okl p1 p2, pre = p1 ++ Ev.recv okl :: p2 ∧ OkLine okl ∧ authLines p2 = [] ∧
    (unix = true → ∃ ans, FdAnswer ans ∧
      List.Sublist [Ev.send (b!"NEGOTIATE_UNIX_FD"), Ev.recv ans] p2)

def BeginsJustifiedCurrent (unix : Bool) (tr : List Ev) : Prop :=
  ∀ pre post, tr = pre ++ Ev.send (b!"BEGIN") :: post → JustifiedCurrent unix pre

def Ev.isReaction : Ev → Bool
  | .send _ => true
  | .close => true
  | .authenticated => true
  | _ => false

/-- No stall, on a whole trace: every server line handed to the authenticator is directly followed
by a reaction of the client - a line written, the connection closed - never by silence. -/
def ReactsToEveryLine (tr : List Ev) : Prop :=
  ∀ pre l post, tr = pre ++ Ev.recv l :: post → ∃ e rest, post = e :: rest ∧ e.isReaction = true

/-- After `loseConnection` the client writes no further line and does not authenticate. -/
def SilentAfterClose (tr : List Ev) : Prop :=
  ∀ pre post, tr = pre ++ Ev.close :: post → ∀ e ∈ post, e = Ev.close

/-- `l` offers mechanism `m`: `AUTH <m>` or `AUTH <m> <initial response>`. -/
def IsOfferOf (l m : Bytes) : Prop :=
  l = b!"AUTH " ++ m ∨ ∃ resp, l = b!"AUTH " ++ m ++ b!" " ++ resp

/-- The lines offer exactly these mechanisms, one line each, in this order. -/
inductive OfferedInOrder : List Bytes → List Bytes → Prop
  | nil : OfferedInOrder [] []
  | cons {l m : Bytes} {ls ms : List Bytes} : IsOfferOf l m → OfferedInOrder ls ms →
      OfferedInOrder (l :: ls) (m :: ms)

/-- The command words a server may send during the handshake. -/
def serverWords : List Bytes :=
  [b!"REJECTED", b!"OK", b!"DATA", b!"ERROR", b!"AGREE_UNIX_FD"]

end Txdbus.AuthClient
