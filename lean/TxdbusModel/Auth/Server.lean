import TxdbusModel.Auth.ServerBytes
import TxdbusModel.Gen.ServerAuth
/-
CODE MODEL for C06: `BusAuthenticator` of txdbus/authentication.py (lines 532-685, after the
repairs C06-01 .. C06-04 in /verif/fixes), one call of `handleAuthMessage(line)` as a function

    Server state × line  ->  new state, lines sent, {returned, raised DBusAuthenticationFailed,
                                                       another exception escaped}

The mechanisms are a parameter (`MechSys`): their classes are looked up in `self.mechanisms`,
instantiated, `init(protocol)`-ed, stepped and cancelled through five functions over an explicit
world `W` (everything outside the authenticator a mechanism reads or changes: peer credentials,
passwd, the keyring directory, the outcome script of the harness' scripted mechanisms) and an
instance state `I`.  `Auth/Mechs.lean` gives the two systems used: the scripted one (the
quantifier's "scripts of mechanism outcomes") and the three real mechanisms.

Same case analysis and order of checks as the code:
  handleAuthMessage  `b' ' not in line` / `line.split(b' ', 1)`; `cmd.decode()` (strict UTF-8, may
                     raise); `getattr(self, '_auth_' + cmd, None)`; unknown -> `ERROR "Unknown command"`
  _auth_AUTH         state test, `line.split()`, `len(tpl) == 0`, `tpl[0]`, `tpl[1]` if present,
                     `mech in self.mechanisms`, instantiate + init, `stepAuth(initial_response)`
  stepAuth           `current_mech is None` -> reject; `if response:` unhexlify(strip).decode('ascii'),
                     ValueError -> reject (repair C06-01); step; OK / CONTINUE / anything else
  reject             cancel + forget the mechanism, count, raise above MAX_REJECTS_ALLOWED (nothing is
                     sent and `state` is left as it was), otherwise REJECTED and WaitingForAuth
  _auth_BEGIN / _auth_ERROR / _auth_DATA / _auth_CANCEL / _auth_NEGOTIATE_UNIX_FD as written.

Ghost outputs (not in the code, used by the theorems): which mechanism step happened with which
outcome, and whether `reject()` ran.
Core Lean only.
-/
namespace Txdbus.AuthServer

open Txdbus.Gen.ServerAuth

/-- What `current_mech.step(arg)` answered: `('OK', _)`, `('CONTINUE', challenge)`, anything else. -/
inductive Outcome where
  | accept
  | challenge (c : Bytes)
  | reject
  deriving DecidableEq, Repr

/-- The mechanisms as seen by `BusAuthenticator`. -/
structure MechSys (W I : Type) where
  /-- keys of `self.mechanisms` in dictionary order -/
  offered : List Bytes
  /-- `m = self.mechanisms[mech]()`, `IBusAuthenticationMechanism(m)`, `m.init(self.protocol)`;
  only called for an offered name -/
  start : W → Bytes → W × I
  /-- `m.step(arg)`; `arg` is `None`, or the decoded response (`b''` when DATA has no argument) -/
  step : W → I → Option Bytes → W × I × Outcome
  /-- `m.cancel()`; `none`: an exception escapes -/
  cancel : W → I → Option W
  /-- `m.getUserName()`; `none`: an exception escapes -/
  userName : W → I → Option Bytes

inductive St where
  | waitingForAuth | waitingForData | waitingForBegin
  deriving DecidableEq, Repr

/-- Attributes of a `BusAuthenticator` (+ the world its mechanisms live in). -/
structure Server (W I : Type) where
  serverGuid : Bytes
  state : St
  /-- `current_mech` together with the name it was looked up under -/
  cur : Option (Bytes × I)
  rejects : Nat
  authenticated : Bool
  guid : Option Bytes
  world : W

/-- `BusAuthenticator(server_guid)` followed by `beginAuthentication(protocol)`. -/
def Server.init {W I : Type} (guid : Bytes) (w : W) : Server W I :=
  ⟨guid, .waitingForAuth, none, 0, false, none, w⟩

inductive Res where
  | ok       -- the method returned
  | failed   -- raise DBusAuthenticationFailed
  | crash    -- any other exception escapes handleAuthMessage
  deriving DecidableEq, Repr

/-- Result of one `handleAuthMessage`. -/
structure Out (W I : Type) where
  srv : Server W I
  sent : List Bytes
  res : Res
  /-- ghost: the mechanism step performed by this line (name, outcome) -/
  mech : Option (Bytes × Outcome)
  /-- ghost: `reject()` ran -/
  rejected : Bool

section
variable {W I : Type} (S : MechSys W I)

/-- `self.reject_msg = b'REJECTED ' + b' '.join(mechNames)` -/
def rejectLine : Bytes := wRejected ++ joinSp S.offered

/-- `reject()`; `m`: the ghost record of a mechanism step that led here. -/
def reject (s : Server W I) (m : Option (Bytes × Outcome)) : Out W I :=
  let cancelled : Option W :=
    match s.cur with
    | some (_, i) => S.cancel s.world i
    | none => some s.world
  match cancelled with
  | none => ⟨s, [], .crash, m, true⟩
  | some w =>
    let s1 : Server W I := { s with cur := none, world := w, rejects := s.rejects + 1 }
    if s1.rejects > maxRejects then ⟨s1, [], .failed, m, true⟩
    else ⟨{ s1 with state := .waitingForAuth }, [rejectLine S], .ok, m, true⟩

/-- `sendError(msg)` -/
def sendError (s : Server W I) (msg : Bytes) : Out W I :=
  ⟨s, [if msg.isEmpty then wError else wErrorSp ++ msg], .ok, none, false⟩

/-- The `if response:` block of `stepAuth`: `none` = ValueError (not hex / not ASCII), otherwise the
argument passed to `step`. -/
def decodeResponse : Option Bytes → Option (Option Bytes)
  | none => some none
  | some [] => some (some [])
  | some r =>
    match unhexlify (strip r) with
    | none => none
    | some b => if isAscii b then some (some b) else none

/-- `stepAuth(response)` -/
def stepAuth (s : Server W I) (response : Option Bytes) : Out W I :=
  match s.cur with
  | none => reject S s none
  | some (name, i) =>
    match decodeResponse response with
    | none => reject S s none
    | some arg =>
      let r := S.step s.world i arg
      let s1 : Server W I := { s with world := r.1, cur := some (name, r.2.1) }
      match r.2.2 with
      | .accept => ⟨{ s1 with state := .waitingForBegin }, [wOk ++ s.serverGuid], .ok, some (name, .accept), false⟩
      | .challenge c =>
        ⟨{ s1 with state := .waitingForData }, [wData ++ hexlify c], .ok, some (name, .challenge c), false⟩
      | .reject => reject S s1 (some (name, .reject))

/-- `_auth_AUTH(line)` -/
def authAUTH (s : Server W I) (args : Bytes) : Out W I :=
  if s.state = .waitingForAuth then
    match splitWs args with
    | [] => reject S s none
    | mech :: rest =>
      let initial : Option Bytes := rest.head?
      if S.offered.contains mech then
        let r := S.start s.world mech
        stepAuth S { s with world := r.1, cur := some (mech, r.2) } initial
      else reject S s none
  else sendError s []

/-- `_auth_BEGIN(line)` -/
def authBEGIN (s : Server W I) : Out W I :=
  if s.state = .waitingForBegin then
    match s.cur with
    | none => ⟨{ s with authenticated := true }, [], .crash, none, false⟩      -- None.getUserName()
    | some (_, i) =>
      match S.userName s.world i with
      | none => ⟨{ s with authenticated := true }, [], .crash, none, false⟩
      | some u => ⟨{ s with authenticated := true, guid := some u, cur := none }, [], .ok, none, false⟩
  else ⟨s, [], .failed, none, false⟩

/-- `_auth_ERROR(line)`: `self.state` is always one of the three names. -/
def authERROR (s : Server W I) : Out W I := reject S s none

/-- `_auth_DATA(line)` -/
def authDATA (s : Server W I) (args : Bytes) : Out W I :=
  if s.state = .waitingForData then stepAuth S s (some args) else sendError s []

/-- `_auth_CANCEL(line)` -/
def authCANCEL (s : Server W I) : Out W I :=
  if s.state = .waitingForData ∨ s.state = .waitingForBegin then reject S s none else sendError s []

/-- The commands `getattr(self, '_auth_' + cmd.decode(), None)` can find. -/
inductive Cmd where
  | auth | begin | cancel | data | error | negotiate | unknown
  deriving DecidableEq, Repr

/-- `getattr(self, '_auth_' + cmd.decode(), None)`: the attribute exists exactly for the six method names
(`Gen.ServerAuth.commands`, see `Properties/C06.lean: commands_table`). -/
def parseCmd (w : Bytes) : Cmd :=
  if w = lit "AUTH" then .auth
  else if w = lit "BEGIN" then .begin
  else if w = lit "CANCEL" then .cancel
  else if w = lit "DATA" then .data
  else if w = lit "ERROR" then .error
  else if w = lit "NEGOTIATE_UNIX_FD" then .negotiate
  else .unknown

/-- `handleAuthMessage(line)` -/
def handle (s : Server W I) (line : Bytes) : Out W I :=
  let ca := splitCmd line
  if !utf8Valid ca.1 then ⟨s, [], .crash, none, false⟩           -- cmd.decode() raises
  else
    match parseCmd ca.1 with
    | .auth => authAUTH S s ca.2
    | .begin => authBEGIN S s
    | .cancel => authCANCEL S s
    | .data => authDATA S s ca.2
    | .error => authERROR S s
    | .negotiate => sendError s []
    | .unknown => sendError s wUnknown

end

end Txdbus.AuthServer
