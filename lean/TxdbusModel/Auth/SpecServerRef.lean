/-
C07 - a small reference *server* for the authentication handshake, written from the DBus
specification ("Authentication protocol", server states WaitingForAuth / WaitingForData /
WaitingForBegin), not from txdbus.  It is the partner of the client model in the completion theorem
`completes_against_spec_server`, and the harness runs the same server (re-written in Python) against
the real client.

Configuration: which of EXTERNAL / DBUS_COOKIE_SHA1 / ANONYMOUS it accepts, whether it answers
NEGOTIATE_UNIX_FD with AGREE_UNIX_FD or with ERROR, its GUID, and the cookie it has stored for the
client's user (context, id, cookie, its challenge).

  WaitingForAuth   AUTH (no mechanism)          -> REJECTED <mechs>
                   AUTH <unsupported> …         -> REJECTED <mechs>
                   AUTH <mech> [initial resp]   -> mechanism step: DATA … / OK <guid> / REJECTED <mechs>
                   BEGIN                        -> close
                   ERROR                        -> REJECTED <mechs>
                   anything else                -> ERROR
  WaitingForData   DATA <resp>                  -> mechanism step
                   BEGIN                        -> close
                   CANCEL, ERROR                -> REJECTED <mechs>, WaitingForAuth
                   anything else                -> ERROR
  WaitingForBegin  BEGIN                        -> authenticated
                   NEGOTIATE_UNIX_FD            -> AGREE_UNIX_FD or ERROR (stays)
                   CANCEL, ERROR                -> REJECTED <mechs>, WaitingForAuth
                   anything else                -> ERROR

Mechanisms: ANONYMOUS accepts any trace; EXTERNAL accepts the identity of the peer credentials
(an initial response, or after an empty challenge `DATA` an empty or non-empty reply);
DBUS_COOKIE_SHA1 sends `context id challenge` and accepts exactly
`<client challenge> <hex sha1(challenge:client challenge:cookie)>`.

Core Lean only.
-/
import TxdbusModel.Auth.ClientBytes

namespace Txdbus.AuthClient.SpecServer

open Txdbus.AuthClient

inductive Mech where
  | external | cookie | anonymous
  deriving DecidableEq, Repr

def Mech.name : Mech → Bytes
  | .external => b!"EXTERNAL"
  | .cookie => b!"DBUS_COOKIE_SHA1"
  | .anonymous => b!"ANONYMOUS"

def Mech.all : List Mech := [.external, .cookie, .anonymous]

structure Cfg where
  accepts : Mech → Bool
  /-- answer to NEGOTIATE_UNIX_FD: AGREE_UNIX_FD (`true`) or ERROR (`false`) -/
  fdAgree : Bool
  /-- the server GUID as sent after `OK ` (hex digits) -/
  guidHex : Bytes
  cookieCtx : Bytes
  cookieId : Bytes
  cookie : Bytes
  challenge : Bytes
  sha1 : Bytes → Bytes

inductive St where
  | waitingForAuth
  | waitingForData (m : Mech)
  | waitingForBegin
  | authenticated
  | closed
  deriving DecidableEq, Repr

def rejected (cfg : Cfg) : Bytes :=
  b!"REJECTED " ++ joinWith (b!" ") ((Mech.all.filter cfg.accepts).map Mech.name)

def lERROR : Bytes := b!"ERROR"

def okLine (cfg : Cfg) : Bytes := b!"OK " ++ cfg.guidHex

/-- First step of a mechanism; `resp` is the decoded initial response, if one was sent. -/
def mechStart (cfg : Cfg) (m : Mech) (resp : Option Bytes) : St × List Bytes :=
  match m with
  | .anonymous => (.waitingForBegin, [okLine cfg])
  | .external =>
    match resp with
    | some _ => (.waitingForBegin, [okLine cfg])
    | none => (.waitingForData .external, [b!"DATA"])
  | .cookie =>
    match resp with
    | some _user =>
      (.waitingForData .cookie,
       [b!"DATA " ++ hexlify (joinWith (b!" ") [cfg.cookieCtx, cfg.cookieId, cfg.challenge])])
    | none => (.waitingForAuth, [rejected cfg])

/-- A later step of a mechanism on the decoded content of a `DATA` line. -/
def mechData (cfg : Cfg) (m : Mech) (resp : Bytes) : St × List Bytes :=
  match m with
  | .anonymous => (.waitingForAuth, [rejected cfg])
  | .external => (.waitingForBegin, [okLine cfg])
  | .cookie =>
    match splitWs resp with
    | [clientChallenge, hash] =>
      if hash = hexlify (cfg.sha1 (joinWith (b!":") [cfg.challenge, clientChallenge, cfg.cookie])) then
        (.waitingForBegin, [okLine cfg])
      else (.waitingForAuth, [rejected cfg])
    | _ => (.waitingForAuth, [rejected cfg])

def findMech (name : Bytes) : Option Mech := Mech.all.find? (fun m => m.name = name)

def step (cfg : Cfg) (st : St) (line : Bytes) : St × List Bytes :=
  let (cmd, args) := splitCmd line
  match st with
  | .authenticated => (st, [])
  | .closed => (st, [])
  | .waitingForAuth =>
    if cmd = b!"AUTH" then
      match splitWs args with
      | [] => (.waitingForAuth, [rejected cfg])
      | name :: rest =>
        match findMech name with
        | none => (.waitingForAuth, [rejected cfg])
        | some m =>
          if cfg.accepts m then
            match rest with
            | [] => mechStart cfg m none
            | r :: _ =>
              match unhexlify r with
              | .ok resp => mechStart cfg m (some resp)
              | .error _ => (.waitingForAuth, [lERROR])
          else (.waitingForAuth, [rejected cfg])
    else if cmd = b!"BEGIN" then (.closed, [])
    else if cmd = b!"ERROR" then (.waitingForAuth, [rejected cfg])
    else (.waitingForAuth, [lERROR])
  | .waitingForData m =>
    if cmd = b!"DATA" then
      match unhexlify (strip args) with
      | .ok resp => mechData cfg m resp
      | .error _ => (.waitingForData m, [lERROR])
    else if cmd = b!"BEGIN" then (.closed, [])
    else if cmd = b!"CANCEL" ∨ cmd = b!"ERROR" then (.waitingForAuth, [rejected cfg])
    else (.waitingForData m, [lERROR])
  | .waitingForBegin =>
    if cmd = b!"BEGIN" then (.authenticated, [])
    else if cmd = b!"NEGOTIATE_UNIX_FD" then
      (.waitingForBegin, [if cfg.fdAgree then b!"AGREE_UNIX_FD" else lERROR])
    else if cmd = b!"CANCEL" ∨ cmd = b!"ERROR" then (.waitingForAuth, [rejected cfg])
    else (.waitingForBegin, [lERROR])

/-- Feed several client lines; the replies in order. -/
def feed (cfg : Cfg) : St → List Bytes → St × List Bytes
  | st, [] => (st, [])
  | st, l :: ls =>
    let r := step cfg st l
    let r' := feed cfg r.1 ls
    (r'.1, r.2 ++ r'.2)

end Txdbus.AuthClient.SpecServer
