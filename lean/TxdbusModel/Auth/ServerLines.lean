import TxdbusModel.Auth.Server
/-
CODE MODEL for C06: the line-mode branch of `BasicDBusProtocol.dataReceived` (txdbus/protocol.py
lines 145-198, after the repairs 4e9e31b and 839b5f3) for a server protocol (`_client = False`,
`BusProtocol`), composed with `BusAuthenticator` (`Auth/Server.lean`).  One read is one step:

  first read     `data[0] != 0` -> `loseConnection()`, return (`_firstByte` stays True);
                 otherwise drop the byte.  (`_is_linux` credential lookup not modelled: the world of
                 the mechanisms holds `_unix_creds`.)
  split          `lines = (self._buffer + data).split(b'\r\n')`, `self._buffer = lines.pop(-1)`
  loop           `transport.disconnecting` -> return;  `len(line) > MAX_AUTH_LENGTH` -> loseConnection,
                 return;  `handleAuthMessage(line)`: DBusAuthenticationFailed -> loseConnection and the
                 loop goes on; any other exception escapes `dataReceived` (the reactor drops the
                 connection: no further read is delivered); on `authenticationSucceeded()` -> `guid`,
                 `setAuthenticationSucceeded()` (`connectionAuthenticated()` runs), the rest of the read
                 re-joined and handed to the binary branch, return
  for .. else    `len(self._buffer) > MAX_AUTH_LENGTH + len(delimiter) - 1` -> loseConnection

The binary branch is outside C06: the bytes it receives are only collected (`binary`).
Ghost state: `log` (one entry per line handed to the authenticator).
Core Lean only.
-/
namespace Txdbus.AuthServer

open Txdbus.Gen.ServerAuth

/-- Ghost record of one handled line. -/
structure Ev where
  line : Bytes
  stateBefore : St
  rejectsBefore : Nat
  mech : Option (Bytes × Outcome)
  rejected : Bool
  res : Res
  sent : List Bytes
  deriving Repr

structure Proto (W I : Type) where
  firstByte : Bool
  buffer : Bytes
  /-- `transport.disconnecting` (set by `loseConnection`) -/
  closed : Bool
  /-- `_authenticated`: `connectionAuthenticated()` ran -/
  authenticated : Bool
  /-- an exception escaped `dataReceived` -/
  crashed : Bool
  srv : Server W I
  /-- `protocol.guid` -/
  guid : Option Bytes
  /-- lines written with `sendAuthMessage` (without the delimiter) -/
  sent : List Bytes
  log : List Ev
  /-- bytes handed to the binary branch -/
  binary : Bytes

def Proto.init {W I : Type} (guid : Bytes) (w : W) : Proto W I :=
  ⟨true, [], false, false, false, Server.init guid w, none, [], [], []⟩

inductive Kind where
  | done                        -- the loop ran to its end (`else:` clause next)
  | ret                         -- early return
  | success (rest : List Bytes) -- authenticated; `lines[lineno + 1:]`
  deriving Repr

section
variable {W I : Type} (S : MechSys W I)

def evOf (s : Server W I) (line : Bytes) (o : Out W I) : Ev :=
  ⟨line, s.state, s.rejects, o.mech, o.rejected, o.res, o.sent⟩

/-- `transport.loseConnection()` -/
def Proto.close (p : Proto W I) : Proto W I := { p with closed := true }

/-- an exception escapes `dataReceived` -/
def Proto.crash (p : Proto W I) : Proto W I := { p with crashed := true }

/-- The authenticator handled `l` with result `o`: its new state, what it wrote, the ghost log. -/
def Proto.handled (p : Proto W I) (l : Bytes) (o : Out W I) : Proto W I :=
  { p with srv := o.srv, sent := p.sent ++ o.sent, log := p.log ++ [evOf p.srv l o] }

/-- `for lineno, line in enumerate(lines):` -/
def lineLoop (p : Proto W I) : List Bytes → Proto W I × Kind
  | [] => (p, .done)
  | l :: ls =>
    if p.closed then (p, .ret)
    else if l.length > maxAuthLength then (p.close, .ret)
    else
      let o := handle S p.srv l
      match o.res with
      | .crash => ((p.handled l o).crash, .ret)
      | .failed => lineLoop (p.handled l o).close ls
      | .ok => if o.srv.authenticated then (p.handled l o, .success ls) else lineLoop (p.handled l o) ls

/-- The remainder limit of the `else:` clause. -/
def remainderLimit : Nat := maxAuthLength + authDelimiter.length - remainderSlack

/-- `self._firstByte = False` (the NUL byte is dropped from the read) -/
def Proto.dropFirst (p : Proto W I) : Proto W I := { p with firstByte := false }

/-- `self._buffer = ...` -/
def Proto.setBuf (p : Proto W I) (r : Bytes) : Proto W I := { p with buffer := r }

/-- The hand-off after the authenticator reported success: `guid`, `setAuthenticationSucceeded()`, and
the re-joined rest of the read goes to the binary branch. -/
def Proto.handOff (q : Proto W I) (rest : Bytes) : Proto W I :=
  { q with guid := q.srv.guid, authenticated := true, buffer := [], binary := q.binary ++ rest }

/-- Lines 162-198 of protocol.py. -/
def recvLines (p : Proto W I) (data : Bytes) : Proto W I :=
  match lineLoop S (p.setBuf (splitCRLF (p.buffer ++ data)).2) (splitCRLF (p.buffer ++ data)).1 with
  | (q, .done) => if q.buffer.length > remainderLimit then q.close else q
  | (q, .ret) => q
  | (q, .success rest) => q.handOff (joinCRLF rest (splitCRLF (p.buffer ++ data)).2)

/-- `dataReceived(data)` of a server protocol.  A crashed connection receives nothing more. -/
def recv (p : Proto W I) (data : Bytes) : Proto W I :=
  if p.crashed then p
  else if p.authenticated then { p with binary := p.binary ++ data }
  else if p.firstByte then
    match data with
    | [] => p.crash                                     -- data[0]: IndexError
    | b :: d => if b ≠ 0 then p.close else recvLines S p.dropFirst d
  else recvLines S p data

/-- A sequence of reads. -/
def runReads (p : Proto W I) : List Bytes → Proto W I
  | [] => p
  | d :: ds => runReads (recv S p d) ds

end

end Txdbus.AuthServer
