/-
C07 - the four handlers of `ClientAuthenticator` as they were BEFORE the repairs
fixes/C07-01..04 (commit 839b5f3 of /repo), kept only for the witness theorems in
Properties/C07.lean: each shows, on a concrete input, that the unrepaired code breaks the property.

  F9   _auth_AGREE_UNIX_FD   sends BEGIN whenever the transport is a UNIX socket, OK or not
  F10  _auth_ERROR           always tries the next mechanism, also as the answer to NEGOTIATE_UNIX_FD
  F11  _auth_DATA (cookie)   `self.cookie_dir` does not exist (`cookiedir` was assigned): always ERROR
  F12  _auth_DATA (other)    no branch: nothing is sent, nothing is closed
-/
import TxdbusModel.Auth.Client

namespace Txdbus.AuthClient.Orig

open Txdbus.AuthClient

def authOK (a : Auth) (args : Bytes) : Reply :=
  let line := strip args
  if line.isEmpty then .error .authFailed
  else
    match unhexlify line with
    | .error _ => .error .authFailed
    | .ok g =>
      if a.unixFD then .ok ({ a with guid := some g }, [lNEGOTIATE])
      else .ok ({ a with guid := some g, authenticated := true }, [lBEGIN])

def authAGREE (a : Auth) (_args : Bytes) : Reply :=
  if a.unixFD then .ok ({ a with authenticated := true }, [lBEGIN])
  else .error .authFailed

/-- `str(AttributeError)` of the missing attribute, as sent after `ERROR `. -/
def attrErrorText : Bytes := b!"'ClientAuthenticator' object has no attribute 'cookie_dir'"

def authDATA (_env : Env) (a : Auth) (_args : Bytes) : Reply :=
  if a.authMech = some mEXTERNAL then .ok (a, [lDATA])
  else if a.authMech = some mCOOKIE then .ok (a, [b!"ERROR " ++ attrErrorText])
  else .ok (a, [])

def authERROR (env : Env) (a : Auth) (_args : Bytes) : Reply :=
  authTryNextMethod env a

def handleAuthMessage (env : Env) (a : Auth) (line : Bytes) : Reply :=
  let (cmd, args) := splitCmd line
  if cmd = cREJECTED then authREJECTED env a args
  else if cmd = cOK then authOK a args
  else if cmd = cAGREE then authAGREE a args
  else if cmd = cDATA then authDATA env a args
  else if cmd = cERROR then authERROR env a args
  else .error .authFailed

/-- The authenticator alone on a list of server lines: what it writes for each line
(`none`: DBusAuthenticationFailed), and whether it ends authenticated.  `h` is the handler. -/
def replies (h : Env → Auth → Bytes → Reply) (env : Env) : Auth → List Bytes → List (Option (List Bytes)) × Bool
  | a, [] => ([], a.authenticated)
  | a, l :: ls =>
    match h env a l with
    | .error _ => ([none], a.authenticated)
    | .ok (a', out) =>
      let r := replies h env a' ls
      (some out :: r.1, r.2)

/-- The authenticator right after `beginAuthentication` with the real preference list. -/
def start (unix : Bool) : Auth :=
  { authOrder := [mCOOKIE, mANONYMOUS], authMech := some mEXTERNAL, unixFD := unix, negotiating := false,
    authenticated := false, guid := none }

/-- A fixed environment for the witnesses: user `root`, no keyring directory. -/
def env0 : Env :=
  { user := b!"root", dirStat := none, file := fun _ => none, rnd := [], sha1 := fun _ => [0],
    errText := fun _ => b!"x" }

end Txdbus.AuthClient.Orig
