/-
C18 CODE MODEL, second sentence of the property: which validators the four message
constructors of txdbus/message.py run on their name arguments, in the code's order
(the four `__init__` methods), followed by `_marshal`, which encodes the `path` header field
as type 'o' and thereby runs `validateObjectPath` (`marshal_object_path`).
Only the name-carrying arguments are modelled; the body is absent (`signature=None`), the
serial numbers are irrelevant here.  `sender` is not validated by any constructor and is not
in the property's list.  Core Lean only.
-/
import TxdbusModel.Valid.Names

namespace Txdbus.Valid

/-- Statement sequencing: the first raise wins. -/
def Outcome.andThen (a : Outcome) (k : Outcome) : Outcome :=
  match a with
  | .accept => k
  | r => r

/-- `if x is not None: validate(x)` -/
def ifNotNone (v : Str → Outcome) : Option Str → Outcome
  | none => .accept
  | some s => v s

/-- `'/org/freedesktop/DBus/Local'` -/
def reservedLocalPath : Str := "/org/freedesktop/DBus/Local".toList

/-- `MethodCallMessage(path, member, interface=None, destination=None)` -/
def constructMethodCall (na : Char → Bool) (path member : Str) (iface dest : Option Str) : Outcome :=
  (validateMemberName na member).andThen <|
  (ifNotNone (validateInterfaceName na) iface).andThen <|
  (ifNotNone (validateBusName na) dest).andThen <|
  (if path = reservedLocalPath then Outcome.reject else .accept).andThen <|
  validateObjectPath path            -- self._marshal(): header field 1 is marshalled as 'o'

/-- `MethodReturnMessage(reply_serial, destination=None)` -/
def constructMethodReturn (na : Char → Bool) (dest : Option Str) : Outcome :=
  ifNotNone (validateBusName na) dest

/-- `ErrorMessage(error_name, reply_serial, destination=None)`: note the error name is checked
with `validateInterfaceName` (same grammar, different wording of the message). -/
def constructError (na : Char → Bool) (errorName : Str) (dest : Option Str) : Outcome :=
  (ifNotNone (validateBusName na) dest).andThen <|
  validateInterfaceName na errorName

/-- `SignalMessage(path, member, interface, destination=None)` -/
def constructSignal (na : Char → Bool) (path member iface : Str) (dest : Option Str) : Outcome :=
  (validateMemberName na member).andThen <|
  (validateInterfaceName na iface).andThen <|
  (ifNotNone (validateBusName na) dest).andThen <|
  validateObjectPath path            -- self._marshal()

end Txdbus.Valid
