/-
C18 CODE MODEL of the validators BEFORE repairs C18-01 / C18-02 (txdbus/marshal.py at commit 839b5f3):
`validateInterfaceName` without the end-of-name check, `validateBusName` without the
end-of-name, inner-colon and empty-unique-element checks.  Kept only for the witness theorems
(`prefix_*` in Properties/C18.lean): the inputs on which the unrepaired code violates C18.
Core Lean only.
-/
import TxdbusModel.Valid.Names

namespace Txdbus.Valid.Pre

def interfaceNameChecks (na : Char → Bool) (n : Str) : Except PyErr Unit :=
  check (.ok (!n.contains '.')) <|
  check (.ok (containsDouble '.' n)) <|
  check (.ok (decide (n.length > 255))) <|
  check ((idx0 n).map (· == '.')) <|
  check ((idx0 n).map (pyIsDigit na)) <|
  check (.ok (searchOutside Gen.Validators.ifaceAllowed n)) <|
  check (.ok (searchDotDigit n)) <|
  .ok ()

def validateInterfaceName (na : Char → Bool) (n : Str) : Outcome :=
  exceptAsMarshalling (interfaceNameChecks na n)

def validateErrorName (na : Char → Bool) (n : Str) : Outcome :=
  match validateInterfaceName na n with
  | .accept => .accept
  | .raised .marshallingError => .raised .marshallingError
  | .raised e => .raised e

def busNameChecks (na : Char → Bool) (n : Str) : Except PyErr Unit :=
  check (.ok (!n.contains '.')) <|
  check (.ok (containsDouble '.' n)) <|
  check (.ok (decide (n.length > 255))) <|
  check ((idx0 n).map (· == '.')) <|
  check ((idx0 n).map (pyIsDigit na)) <|
  check (.ok (searchOutside Gen.Validators.busAllowed n)) <|
  check ((idx0 n).map fun c0 => !(c0 == ':') && searchDotDigit n) <|
  .ok ()

def validateBusName (na : Char → Bool) (n : Str) : Outcome :=
  exceptAsMarshalling (busNameChecks na n)

end Txdbus.Valid.Pre
