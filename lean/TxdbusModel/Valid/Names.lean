/-
C18 CODE MODEL: the five validators of txdbus/marshal.py (validateObjectPath ... validateMemberName)
as the code is written, after repairs C18-01 (/repo 1c17e0c) and C18-02 (/repo 2befdc5): each validator is its sequence of checks in the code's order
over `List Char`; a check that fires raises.  The character classes come from the generated
table `Gen/Validators.lean` (translated from the compiled regular expressions).

Python corner semantics kept explicit:
  * `n[0]` / `n[-1]` on the empty string raise IndexError (an `Exception`);
  * `try: ... except Exception as e: raise MarshallingError(...)` turns EVERY exception raised
    by the checks (the bare `Exception`s and a possible IndexError) into a MarshallingError;
    `validateObjectPath` has no `try` and raises MarshallingError directly;
  * `str.isdigit` is Unicode aware: on ASCII it is `[0-9]`; on every other character it is the
    opaque parameter `na` (nothing is assumed about it);
  * `re.search(<negated class>, n)` finds a character outside the listed set;
    `dot_digit_re.search(n)` finds two adjacent characters (first step, second step);
  * `'..' in n`, `'//' in p` are substring tests; `n[1:]` clamps; `len` counts code points.
Core Lean only.
-/
import TxdbusModel.Valid.Basic
import TxdbusModel.Gen.Validators

namespace Txdbus.Valid

/-- The Python exception classes that can leave a validator's checks. -/
inductive PyErr where
  | marshallingError   -- txdbus.error.MarshallingError
  | indexError         -- IndexError from n[0] / n[-1]
  | exception          -- the bare `Exception(...)` raised inside the `try` blocks
  deriving DecidableEq, Repr, Inhabited

/-- What a call of a validator does: return (`accept`) or raise. -/
inductive Outcome where
  | accept
  | raised (e : PyErr)
  deriving DecidableEq, Repr, Inhabited

/-- The rejection the property demands. -/
abbrev Outcome.reject : Outcome := .raised .marshallingError

/-! ### Python primitives -/

/-- Membership of a code point in a list of inclusive ranges (a regex character class). -/
def inRanges (rs : List (Nat × Nat)) (n : Nat) : Bool :=
  rs.any fun r => r.1 ≤ n && n ≤ r.2

/-- `c` is listed in the class. -/
def inClass (rs : List (Nat × Nat)) (c : Char) : Bool := inRanges rs c.toNat

/-- `re.search('[^...]', n)` is not None: some character lies outside the listed set. -/
def searchOutside (allowed : List (Nat × Nat)) (n : Str) : Bool :=
  n.any fun c => !inClass allowed c

/-- Two adjacent characters satisfying `p` then `q`:
`'..' in n`, `'//' in p`, and `re.search` of a two-step pattern. -/
def containsPair (p q : Char → Bool) : Str → Bool
  | a :: b :: t => (p a && q b) || containsPair p q (b :: t)
  | _ => false

/-- `re.search(dot_digit_re, n)` is not None (`\.\d`, both steps from the generated table). -/
def searchDotDigit (n : Str) : Bool :=
  containsPair (inClass Gen.Validators.dotDigitFirst) (inClass Gen.Validators.dotDigitSecond) n

/-- `x + x in n` for a one-character string `x`. -/
def containsDouble (x : Char) (n : Str) : Bool := containsPair (· == x) (· == x) n

/-- `n[0]` -/
def idx0 : Str → Except PyErr Char
  | [] => .error .indexError
  | c :: _ => .ok c

/-- `n[-1]` -/
def idxLast (n : Str) : Except PyErr Char :=
  match n.getLast? with
  | none => .error .indexError
  | some c => .ok c

/-- `str.isdigit` of a one-character string: fixed on ASCII, the opaque `na` elsewhere. -/
def pyIsDigit (na : Char → Bool) (c : Char) : Bool :=
  if c.toNat < 128 then decide (48 ≤ c.toNat ∧ c.toNat ≤ 57) else na c

/-- One `if <cond>: raise Exception(...)` statement followed by the rest of the block.  The
condition itself may raise (indexing). -/
def check (cond : Except PyErr Bool) (rest : Except PyErr Unit) : Except PyErr Unit :=
  match cond with
  | .error e => .error e
  | .ok true => .error .exception
  | .ok false => rest

/-- `try: <body> except Exception as e: raise MarshallingError(...)`. -/
def exceptAsMarshalling (body : Except PyErr Unit) : Outcome :=
  match body with
  | .ok () => .accept
  | .error _ => .raised .marshallingError

/-! ### validateObjectPath -/

def validateObjectPath (p : Str) : Outcome :=
  -- if not p.startswith('/'): raise MarshallingError
  if !(['/'].isPrefixOf p) then .raised .marshallingError
  -- if len(p) > 1 and p[-1] == '/': raise MarshallingError      (p[-1] is only evaluated when len(p) > 1)
  else if decide (p.length > 1) && (p.getLast? == some '/') then .raised .marshallingError
  -- if '//' in p: raise MarshallingError
  else if containsDouble '/' p then .raised .marshallingError
  -- if invalid_obj_path_re.search(p): raise MarshallingError
  else if searchOutside Gen.Validators.objPathAllowed p then .raised .marshallingError
  else .accept

/-! ### validateInterfaceName (with the end-of-name check of repair C18-01) -/

def interfaceNameChecks (na : Char → Bool) (n : Str) : Except PyErr Unit :=
  check (.ok (!n.contains '.')) <|                          -- if '.' not in n
  check (.ok (containsDouble '.' n)) <|                     -- if '..' in n
  check (.ok (decide (n.length > 255))) <|                  -- if len(n) > 255
  check ((idx0 n).map (· == '.')) <|                        -- if n[0] == '.'
  check ((idxLast n).map (· == '.')) <|                     -- if n[-1] == '.'            (C18-01)
  check ((idx0 n).map (pyIsDigit na)) <|                    -- if n[0].isdigit()
  check (.ok (searchOutside Gen.Validators.ifaceAllowed n)) <|   -- if if_re.search(n)
  check (.ok (searchDotDigit n)) <|                         -- if dot_digit_re.search(n)
  .ok ()

def validateInterfaceName (na : Char → Bool) (n : Str) : Outcome :=
  exceptAsMarshalling (interfaceNameChecks na n)

/-! ### validateErrorName

`try: validateInterfaceName(n) except MarshallingError as e: raise MarshallingError(...)`:
only a MarshallingError is caught and re-raised (with "interface" replaced in the text);
anything else would propagate unchanged. -/

def validateErrorName (na : Char → Bool) (n : Str) : Outcome :=
  match validateInterfaceName na n with
  | .accept => .accept
  | .raised .marshallingError => .raised .marshallingError
  | .raised e => .raised e

/-! ### validateBusName (with the three checks of repair C18-02) -/

def busNameChecks (na : Char → Bool) (n : Str) : Except PyErr Unit :=
  check (.ok (!n.contains '.')) <|                          -- if '.' not in n
  check (.ok (containsDouble '.' n)) <|                     -- if '..' in n
  check (.ok (decide (n.length > 255))) <|                  -- if len(n) > 255
  check ((idx0 n).map (· == '.')) <|                        -- if n[0] == '.'
  check ((idxLast n).map (· == '.')) <|                     -- if n[-1] == '.'            (C18-02)
  check ((idx0 n).map (pyIsDigit na)) <|                    -- if n[0].isdigit()
  check (.ok (searchOutside Gen.Validators.busAllowed n)) <|     -- if bus_re.search(n)
  check (.ok ((n.drop 1).contains ':')) <|                  -- if ':' in n[1:]            (C18-02)
  check (.ok ([':', '.'].isPrefixOf n)) <|                  -- if n.startswith(':.')      (C18-02)
  -- if not n[0] == ':' and dot_digit_re.search(n)
  check ((idx0 n).map fun c0 => !(c0 == ':') && searchDotDigit n) <|
  .ok ()

def validateBusName (na : Char → Bool) (n : Str) : Outcome :=
  exceptAsMarshalling (busNameChecks na n)

/-! ### validateMemberName -/

def memberNameChecks (na : Char → Bool) (n : Str) : Except PyErr Unit :=
  check (.ok (decide (n.length < 1))) <|                    -- if len(n) < 1
  check (.ok (decide (n.length > 255))) <|                  -- if len(n) > 255
  check ((idx0 n).map (pyIsDigit na)) <|                    -- if n[0].isdigit()
  check (.ok (searchOutside Gen.Validators.memberAllowed n)) <|  -- if mbr_re.search(n)
  .ok ()

def validateMemberName (na : Char → Bool) (n : Str) : Outcome :=
  exceptAsMarshalling (memberNameChecks na n)

end Txdbus.Valid
