/-
C18 SPEC: the grammar of DBus names, written from the DBus specification
("Valid Object Paths", "Valid Names": interface names, bus names, member names, error names),
independent of txdbus.  A name is split into its elements at the separator and each element
is judged on its own.  Core Lean only; every definition is executable.

  object path    "/"  or  "/" followed by elements separated by "/";
                 each element non-empty, over [A-Za-z0-9_]; no length limit.
  interface name two or more elements separated by "."; each element non-empty, over
                 [A-Za-z0-9_], not beginning with a digit; at most 255 bytes.
  error name     same restrictions as an interface name.
  bus name       unique connection name: ":" followed by two or more "."-separated elements,
                 each non-empty, over [A-Za-z0-9_-] (a digit may come first);
                 well-known name: two or more "."-separated elements, each non-empty, over
                 [A-Za-z0-9_-], not beginning with a digit.  At most 255 bytes.
  member name    one element: non-empty, over [A-Za-z0-9_], not beginning with a digit, no ".";
                 at most 255 bytes.
-/
import TxdbusModel.Valid.Basic

namespace Txdbus.Valid

namespace Grammar

/-! ### Splitting into elements -/

/-- First element and remaining elements of `s` split at every `sep`. -/
def splitAux (sep : Char) : Str → Str × List Str
  | [] => ([], [])
  | c :: t =>
    if c = sep then ([], (splitAux sep t).1 :: (splitAux sep t).2)
    else (c :: (splitAux sep t).1, (splitAux sep t).2)

/-- `splitOn '.' "a..b" = ["a", "", "b"]`; `k` separators give `k + 1` elements (never none). -/
def splitOn (sep : Char) (s : Str) : List Str :=
  (splitAux sep s).1 :: (splitAux sep s).2

/-! ### Character classes (ASCII only), on code points -/

def isUpper (n : Nat) : Bool := 'A'.toNat ≤ n && n ≤ 'Z'.toNat
def isLower (n : Nat) : Bool := 'a'.toNat ≤ n && n ≤ 'z'.toNat
/-- ASCII digit `[0-9]`. -/
def isDigit (n : Nat) : Bool := '0'.toNat ≤ n && n ≤ '9'.toNat

/-- `[A-Za-z0-9_]`: element alphabet of paths, interface, error and member names. -/
def elemChar (c : Char) : Bool :=
  isUpper c.toNat || isLower c.toNat || isDigit c.toNat || c == '_'

/-- `[A-Za-z0-9_-]`: element alphabet of bus names. -/
def busElemChar (c : Char) : Bool := elemChar c || c == '-'

/-- Does the element begin with an ASCII digit? (`false` for the empty element) -/
def startsWithDigit : Str → Bool
  | [] => false
  | c :: _ => isDigit c.toNat

/-! ### Length in bytes (UTF-8) -/

/-- Number of bytes of the UTF-8 encoding of a code point. -/
def utf8Size (n : Nat) : Nat :=
  if n < 0x80 then 1 else if n < 0x800 then 2 else if n < 0x10000 then 3 else 4

def utf8Len (s : Str) : Nat := (s.map fun c => utf8Size c.toNat).sum

/-- Maximum name length of the DBus specification, in bytes. -/
abbrev maxNameLen : Nat := 255

/-! ### Elements -/

/-- A path element: non-empty, over `[A-Za-z0-9_]`. -/
def pathElement (e : Str) : Bool := !e.isEmpty && e.all elemChar

/-- An interface/error/member element: non-empty, `[A-Za-z0-9_]`, no leading digit. -/
def nameElement (e : Str) : Bool := !e.isEmpty && e.all elemChar && !startsWithDigit e

/-- An element of a well-known bus name: non-empty, `[A-Za-z0-9_-]`, no leading digit. -/
def wellKnownElement (e : Str) : Bool := !e.isEmpty && e.all busElemChar && !startsWithDigit e

/-- An element of a unique connection name: non-empty, `[A-Za-z0-9_-]` (may begin with a digit). -/
def uniqueElement (e : Str) : Bool := !e.isEmpty && e.all busElemChar

/-! ### The five grammars -/

def objectPath : Str → Bool
  | '/' :: rest => rest.isEmpty || (splitOn '/' rest).all pathElement
  | _ => false

def interfaceName (s : Str) : Bool :=
  let es := splitOn '.' s
  decide (2 ≤ es.length) && es.all nameElement && decide (utf8Len s ≤ maxNameLen)

/-- "Error names have the same restrictions as interface names." -/
def errorName (s : Str) : Bool := interfaceName s

def busName (s : Str) : Bool :=
  decide (utf8Len s ≤ maxNameLen) &&
  match s with
  | ':' :: rest =>
    let es := splitOn '.' rest
    decide (2 ≤ es.length) && es.all uniqueElement
  | _ =>
    let es := splitOn '.' s
    decide (2 ≤ es.length) && es.all wellKnownElement

def memberName (s : Str) : Bool :=
  nameElement s && !s.contains '.' && decide (utf8Len s ≤ maxNameLen)

end Grammar

/-- The propositions used in the property theorems. -/
def GrammarObjectPath (s : Str) : Prop := Grammar.objectPath s = true
def GrammarInterfaceName (s : Str) : Prop := Grammar.interfaceName s = true
def GrammarErrorName (s : Str) : Prop := Grammar.errorName s = true
def GrammarBusName (s : Str) : Prop := Grammar.busName s = true
def GrammarMemberName (s : Str) : Prop := Grammar.memberName s = true

instance (s : Str) : Decidable (GrammarObjectPath s) := inferInstanceAs (Decidable (_ = true))
instance (s : Str) : Decidable (GrammarInterfaceName s) := inferInstanceAs (Decidable (_ = true))
instance (s : Str) : Decidable (GrammarErrorName s) := inferInstanceAs (Decidable (_ = true))
instance (s : Str) : Decidable (GrammarBusName s) := inferInstanceAs (Decidable (_ = true))
instance (s : Str) : Decidable (GrammarMemberName s) := inferInstanceAs (Decidable (_ = true))

end Txdbus.Valid
