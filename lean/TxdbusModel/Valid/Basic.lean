/-
C18, shared by the spec (Valid/Grammar) and the code model (Valid/Names): a Python `str` is the
list of its code points.  Core Lean only.
-/
namespace Txdbus.Valid

/-- A Python `str`: the list of its code points. -/
abbrev Str := List Char

end Txdbus.Valid
