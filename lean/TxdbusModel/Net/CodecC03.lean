import TxdbusModel.Net.Bytes
import TxdbusModel.Msg.General
import TxdbusModel.Gen.Message
/-
C11 - the wire codec of the byte-level network BUILT FROM C03's MODEL of message.py (`construct`, `parseMessage`,
`forward` - Msg/Message.lean, Msg/General.lean; tables extracted from the source: Gen/Message.lean).

  * a message WITHOUT a sender stamp (what a client writes) is serialised by the constructor call `R.call m` made when the
    serial counter stands at the message's serial: `MethodCallMessage(...)`, `MethodReturnMessage(...)`, `ErrorMessage(...)`;
  * a message WITH the stamp `s` (what the bus writes: bus.py `msg.sender = uniqueName; msg._marshal(False,
    rawBody=msg.rawBody)`) is what the bus makes of the unstamped frame: `parseMessage`, then `forward` with the unique
    name `R.name s`, little endian;
  * a frame is read by `parseMessage`, and its observable content (`Msg.View`: type, serial, flags, every header attribute
    as a plain value, the decoded body) is turned back into a `Msg V` by `R.back`.

`R : C03Rep V β` is the REPRESENTATION of C11's abstract messages in C03's constructor arguments (client index <-> unique
bus name, strings, the text of an error reply as a body value); the body codec `BC`, `str.isdigit` on non-ASCII (`na`) and
the size limit `maxLen` are C03's parameters.  Core Lean only.
-/
namespace Txdbus.Net

/-- how C11's messages are written as constructor arguments of message.py, and read back from a parsed message -/
structure C03Rep (V β : Type) where
  /-- the constructor call for the message without its sender stamp -/
  call : Msg V → Txdbus.Msg.Call β
  /-- the unique bus name of client `i` -/
  name : Nat → List Char
  /-- from the content of a parsed message back to the message -/
  back : Txdbus.Msg.View β → Option (Msg V)

def Msg.serialOf {V : Type} : Msg V → Nat
  | .call n _ _ _ _ _ _ _ => n
  | .reply n _ _ _ _ => n

def Msg.senderOf {V : Type} : Msg V → Option Nat
  | .call _ s _ _ _ _ _ _ => s
  | .reply _ _ s _ _ => s

/-- the message object whose `rawMessage` goes onto the wire for `m` -/
def c03Frame {V β : Type} (R : C03Rep V β) (BC : Txdbus.Msg.BodyCodec β) (na : Char → Bool) (maxLen : Nat) (m : Msg V) :
    Option (Txdbus.Msg.Msg β) :=
  match Txdbus.Msg.construct Gen.Message.tables BC na maxLen ⟨m.serialOf⟩ (R.call m) with
  | (_, .ok x) =>
    match m.senderOf with
    | none => some x
    | some s =>
      match Txdbus.Msg.parseMessage Gen.Message.tables BC x.raw none with
      | .ok p =>
        match Txdbus.Msg.forward Gen.Message.tables maxLen p 108 (R.name s) with
        | .ok m2 => some m2
        | .error _ => none
      | .error _ => none
  | (_, .error _) => none

def c03Codec {V β : Type} (R : C03Rep V β) (BC : Txdbus.Msg.BodyCodec β) (na : Char → Bool) (maxLen : Nat) : WireCodec V :=
  { enc := fun m => match c03Frame R BC na maxLen m with
      | some x => x.raw
      | none => [],
    dec := fun raw => match Txdbus.Msg.parseMessage Gen.Message.tables BC raw none with
      | .ok x => R.back (x.view Gen.Message.tables)
      | .error _ => none }

/-! ### a concrete representation (for the examples of Properties/C11.lean): values are bytes, the body is the argument list

`V = UInt8`, `β = Bytes`: the arguments of a call ARE its body bytes (body codec `rawBodyCodec`: the bytes travel as they
are).  Paths, names and signatures are the strings themselves; client `i` is the bus name `name i`. -/

/-- the body codec under which a body is its own encoding -/
def rawBodyCodec : Txdbus.Msg.BodyCodec Bytes where
  marshal := fun _ body fds => .ok (body.getD [], fds)
  unmarshal := fun _ raw _ _ => .ok raw

def optSig (sig : String) : Option (List Char) := if sig = "" then none else some sig.toList

def byteRep (name : Nat → List Char) (idx : List Char → Option Nat) : C03Rep UInt8 Bytes where
  name := name
  call := fun m =>
    match m with
    | .call _ _ dest path iface member sig args =>
      .methodCall { path := some path.toList, member := some member.toList, interface := iface.map String.toList,
                    destination := dest.map name, signature := optSig sig,
                    body := if sig = "" then none else some args }
    | .reply _ rs _ dest (.ret sig body) =>
      .methodReturn { replySerial := rs, destination := dest.map name, signature := optSig sig,
                      body := if sig = "" then none else some body }
    | .reply _ rs _ dest (.err nm text) =>
      .error { errorName := some nm.toList, replySerial := rs, destination := dest.map name,
               signature := some ['s'], body := some text.toUTF8.toList }
  back := fun v =>
    let idxOf : Txdbus.PyVal → Option Nat := fun a => match a with | .str _ s => idx s | _ => none
    let strOf : Txdbus.PyVal → Option String := fun a => match a with | .str _ s => some (String.ofList s) | _ => none
    let sig : String := (strOf (v.attrs .signature)).getD ""
    if v.messageType = 1 then
      match strOf (v.attrs .path), strOf (v.attrs .member) with
      | some p, some mem =>
        some (.call v.serial (idxOf (v.attrs .sender)) (idxOf (v.attrs .destination)) p (strOf (v.attrs .interface)) mem sig
          (v.body.getD []))
      | _, _ => none
    else if v.messageType = 2 then
      match v.attrs .replySerial with
      | .int _ n => some (.reply v.serial n.toNat (idxOf (v.attrs .sender)) (idxOf (v.attrs .destination))
                      (.ret sig (v.body.getD [])))
      | _ => none
    else none

end Txdbus.Net
