import TxdbusModel.Gen.Dispatch
import TxdbusModel.Gen.C08Client
/-
C11 - message-level model of the composition "proxy call -> bus -> exported method -> bus -> result".

N clients and the bus.  Per client one FIFO of messages in each direction (`up`: client -> bus,
`down`: bus -> client).  A nondeterministic scheduler is the list of `Step`s; nothing else moves.

What is mirrored (code as written, after the repairs committed in /repo):
  * `RemoteDBusObject.callRemote`            objects.py  -> `proxyResolve` (interface walk, `interface=` keyword,
                                                            argument-count check, signature / return signature choice)
  * `DBusClientConnection.callRemote`,
    `callRemoteMessage`                      client.py   -> `issue` (encode failure = local failure, serial allocation
                                                            by `DBusMessage._nextSerial`, `_pendingCalls`)
  * `methodReturnReceived`, `errorReceived`,
    `_cbCvtReply`                            client.py   -> `complete`, `cvtReply`
  * `BusProtocol.rawDBusMessageReceived`,
    `Bus.messageReceived`, `Bus.sendMessage` bus.py      -> `busStep` (sender := true unique name; the body is forwarded
                                                            exactly as received - repair 84eeaa3 = fixes/C11-01, the
                                                            unrepaired step is `busStepOld` in Net/OldBus.lean; a unicast
                                                            message goes to the destination's connection only - C14's
                                                            repair 8a90657; unknown destination: logged, dropped)
  * `DBusObjectHandler.handleMethodCallMessage`
    with `send_reply` / `send_error`         objects.py  -> `check`, `replyOf`, `dispatch`, `resolveStep`

What is NOT re-modelled here (owned by other properties, entering as explicit parameters `World`):
  * values are an abstract type `V` (values *up to the documented wire normalisation*: what
    `unmarshal (marshal v)` returns - tuples read back as lists, wrapper classes as plain values);
    whether a body encodes under a signature is the parameter `World.encErr` (C01/C02/C19),
  * validity of error names is `World.validErrorName` (C18),
  * introspection XML and GetManagedObjects results are opaque values `World.introspect`, `World.managed`
    (C15/C16),
  * the wire: framing, parsing, authentication (C01-C04, C06, C07).  The model works at message level.
    That this loses nothing is the LINK ASSUMPTION, stated and proved abstractly in
    `Proofs/Net/Link.lean` (`link_refinement`): a byte FIFO cut into arbitrary reads, framed and parsed,
    behaves as a FIFO of messages, given the laws proved for the real codec by C04
    (`binary_partition_independent`, `frames_of_messages`) and C03 (`parse_marshal`).
  * unique names are the client indices (client `i` is `:1.(i+1)` on a fresh bus; the harness maps names
    to indices); name ownership is C13, match rules are C12/C14.  Calls with `expectReply=False` and lost
    connections are outside C11 (C09, C10).  A deadline (`timeout=`) is the step `expire`; how the delayed call is
    scheduled and cancelled is C08's.

Constants that are tables in the source (the three built-in (interface, member) pairs, reply signatures,
error names and texts, the exception-name prefix, the invalid-name notice, the `dbus_` attribute prefix, the
NUL escape of `send_error`, the `'('` of `_cbCvtReply`) come from the generated modules `Gen/Dispatch.lean`
(C10's translator) and `Gen/C08Client.lean` (C08's): editing them in /repo re-checks this model.

A well-known bus name is identified with the connection that owns it for the whole run (the harness maps
names to indices; requesting/releasing names is C13): `Bus.sendMessage`'s `busNames` arm is exercised by the
streams, not distinguished in the model.  `World.exports` is static during a run (no export/unexport between
calls).  A method that issues a call *during* its invocation and returns synchronously is expressible only up
to the order of its two messages in `up` (the model appends the reply at `toClient`, the call at the
following `call` step); a method that returns a Deferred (the relay pattern) is exact.

Core Lean only.
-/
namespace Txdbus.Net

/-! ## Declarations (interface.py) -/

structure MethodDecl where
  name : String
  sigIn : String
  sigOut : String
  /-- number of complete types in `sigIn` (`Method.nargs`, computed by `addMethod` or by the XML reader) -/
  nargs : Nat
  nret : Nat
  deriving DecidableEq, Repr

structure Iface where
  name : String
  /-- `DBusInterface.methods`, a dict keyed by method name (first entry with the name wins here; the harness
  feeds dict contents, so names are distinct) -/
  methods : List MethodDecl
  deriving DecidableEq, Repr

/-- `i.methods.get(name)` -/
def Iface.method? (i : Iface) (name : String) : Option MethodDecl :=
  i.methods.find? (fun m => m.name == name)

/-- A function found in a class `__dict__`: `id` identifies the user function (what an invocation records);
`deco` is `(_dbusInterface, _dbusMethod)` when it carries `@dbusMethod`. -/
structure Func where
  id : Nat
  deco : Option (String × String)
  deriving DecidableEq, Repr

/-- One class of `type(obj).__mro__` (without `object`): `ifaces = some l` iff `'dbusInterfaces' in
cls.__dict__`; `attrs` = the functions of `cls.__dict__` under their attribute names, in definition order. -/
structure Class where
  ifaces : Option (List Iface)
  attrs : List (String × Func)
  deriving DecidableEq, Repr

/-- An exported object: its path and its class chain in `__mro__` order. -/
structure ExpObj where
  path : String
  classes : List Class
  deriving DecidableEq, Repr

/-- `o.getInterfaces()`: `dbusInterfaces` of every class that defines it, in `__mro__` order. -/
def ExpObj.ifaces (o : ExpObj) : List Iface := o.classes.flatMap (fun c => c.ifaces.getD [])

/-! ### `DBusObject.executeMethod`: which function serves (interface, member)

The twin, over `String`, of `Obj/Dispatch.lean`'s `resolveImpl` (C10's model, which is over `List Char`). -/

def assocGet {α : Type} (d : List (String × α)) (k : String) : Option α :=
  match d with
  | [] => none
  | (k', v) :: t => if k' = k then some v else assocGet t k

/-- `d[k] = v` on a dict kept in insertion order -/
def assocSet {α : Type} (d : List (String × α)) (k : String) (v : α) : List (String × α) :=
  match d with
  | [] => [(k, v)]
  | (k', v') :: t => if k' = k then (k, v) :: t else (k', v') :: assocSet t k v

def firstSome {α β : Type} (f : α → Option β) : List α → Option β
  | [] => none
  | a :: t => match f a with
    | some b => some b
    | none => firstSome f t

/-- `getattr(self, name, None)` restricted to functions defined in the classes -/
def ExpObj.getattr (o : ExpObj) (name : String) : Option Func :=
  firstSome (fun c => assocGet c.attrs name) o.classes

/-- the per-class `_dbusIfaceCache`, methods only: interface -> member -> attribute name -/
def classCache (c : Class) : List (String × List (String × String)) :=
  c.attrs.foldl (fun cache a =>
    match a.2.deco with
    | some (i, m) =>
      (match assocGet cache i with
       | some ms => assocSet cache i (assocSet ms m a.1)
       | none => assocSet cache i [(m, a.1)])
    | none => cache) []

/-- `_getDecoratedMethod(iname, member)`: `_searchCache` along the MRO, then `getattr(self, f.__name__)` -/
def ExpObj.decorated (o : ExpObj) (iname member : String) : Option Func :=
  let attr := firstSome (fun c =>
    let cache := classCache c
    if iname ≠ "" then (assocGet cache iname).bind (fun ms => assocGet ms member)
    else firstSome (fun ic => assocGet ic.2 member) cache) o.classes
  attr.bind o.getattr

/-- The function `executeMethod` ends up calling (`none` = `raise NotImplementedError`): `dbus_<member>`
first, for ANY interface unless it is decorated for a different one; else the decorated method. -/
def ExpObj.resolveImpl (o : ExpObj) (iname member : String) : Option Func :=
  let m1 := match o.getattr (Gen.Dispatch.attrPrefix ++ member) with
    | some f => some f
    | none => o.decorated iname member
  match m1 with
  | none => none
  | some f =>
    match f.deco with
    | some (i, _) => if i ≠ iname then o.decorated iname member else some f
    | none => some f

/-! ## What user methods do -/

/-- An exception raised by an exported method (or by the encoder on the reply path). -/
structure Exc where
  /-- `e.dbusErrorName` when the attribute exists and is not None -/
  dbusName : Option String
  /-- `e.__class__.__name__` -/
  cls : String
  /-- `err.getErrorMessage()` -/
  text : String
  deriving DecidableEq, Repr

/-- The Python object an exported method returned, as far as `send_reply` looks at it. -/
inductive PyRet (V : Type) where
  /-- not a list/tuple -/
  | obj (v : V)
  /-- `isinstance(r, (list, tuple))`: the object itself as one value, and its elements -/
  | seq (self : V) (elems : List V)
  deriving DecidableEq, Repr

inductive Result (V : Type) where
  | value (r : PyRet V)
  | raised (e : Exc)
  deriving DecidableEq, Repr

/-- What the exported method does when invoked: finishes now, or returns an unfired Deferred. -/
inductive Behaviour (V : Type) where
  | now (r : Result V)
  | deferred
  deriving DecidableEq, Repr

/-! ## Messages -/

inductive Reply (V : Type) where
  /-- METHOD_RETURN: signature ("" = absent/empty, no body is encoded then) and body -/
  | ret (sig : String) (body : List V)
  /-- ERROR: error name and the single string argument -/
  | err (name : String) (text : String)
  deriving DecidableEq, Repr

inductive Msg (V : Type) where
  | call (serial : Nat) (sender : Option Nat) (dest : Option Nat) (path : String) (iface : Option String)
      (member : String) (sig : String) (args : List V)
  | reply (serial : Nat) (replySerial : Nat) (sender : Option Nat) (dest : Option Nat) (content : Reply V)
  deriving DecidableEq, Repr

def Msg.dest {V : Type} : Msg V → Option Nat
  | .call _ _ d _ _ _ _ _ => d
  | .reply _ _ _ d _ => d

/-- `msg.sender = uniqueName` (bus.py:82) -/
def Msg.withSender {V : Type} (s : Nat) : Msg V → Msg V
  | .call n _ d p i m g a => .call n (some s) d p i m g a
  | .reply n r _ d c => .reply n r (some s) d c

/-! ## The environment -/

structure World (V : Type) where
  /-- `objHandler.exports` of client `j` (dict path -> object) -/
  exports : Nat → List ExpObj
  /-- `generateIntrospectionXML(path, exports)` of client `j` (None: nothing exported at or below the path) -/
  introspect : Nat → String → Option V
  /-- building the GetManagedObjects reply of client `j` for a path: the value, or the exception (C16; C10-02) -/
  managed : Nat → String → Except Exc V
  /-- `marshal.marshal(sig, body)` raising: the exception (None: the body encodes) -/
  encErr : String → List V → Option Exc
  /-- `marshal.validateErrorName` accepts -/
  validErrorName : String → Bool

/-! ## Caller side -/

/-- Result of a remote call as seen by the Deferred's callbacks. -/
inductive Outcome (V : Type) where
  /-- `callback(None)`: no body -/
  | none
  /-- `callback(body[0])` -/
  | single (v : V)
  /-- `callback(body)`: the list of values -/
  | many (vs : List V)
  /-- `errback(RemoteError(name))` with `.message = text` -/
  | remoteError (name : String) (text : String)
  /-- `errback(RemoteError('Unexpected return value signature…'))` raised by `_cbCvtReply` -/
  | sigMismatch
  /-- `errback(error.TimeOut('Method call timed out'))` from `_onMethodTimeout` -/
  | timedOut
  deriving DecidableEq, Repr

/-- `_cbCvtReply(msg, returnSignature)`; `retSig = none` is `_NO_CHECK_RETURN`. -/
def cvtReply {V : Type} (retSig : Option String) (sig : String) (body : List V) : Outcome V :=
  let bad : Bool :=
    match retSig with
    | none => false
    | some rs => if rs = "" then sig ≠ "" else (sig = "" || sig ≠ rs)
  if bad then .sigMismatch
  else match body with
    | [] => .none
    | [v] => if sig.toList.head? = some Gen.C08Client.structOpen then .many [v] else .single v
    | vs => .many vs

/-- What completes the caller's Deferred when a reply with this content is matched. -/
def outcomeOf {V : Type} (retSig : Option String) : Reply V → Outcome V
  | .ret sig body => cvtReply retSig sig body
  | .err name text => .remoteError name text

/-- A call as issued by a client (the observable record of `conn.callRemote`). -/
structure CallRec (V : Type) where
  serial : Nat
  dest : Nat
  path : String
  iface : Option String
  member : String
  sig : String
  args : List V
  /-- `returnSignature` (none = `_NO_CHECK_RETURN`) -/
  retSig : Option String
  deriving DecidableEq, Repr

def callMsg {V : Type} (sender : Option Nat) (r : CallRec V) : Msg V :=
  .call r.serial sender (some r.dest) r.path r.iface r.member r.sig r.args

/-- A proxy: `RemoteDBusObject(objHandler, busName, objectPath, interfaces)`. -/
structure Proxy where
  dest : Nat
  path : String
  ifaces : List Iface
  deriving DecidableEq, Repr

/-- What the application asks a client to do. -/
inductive CallReq (V : Type) where
  /-- `proxy.callRemote(member, *args, interface=kw)` -/
  | viaProxy (px : Proxy) (kw : Option String) (member : String) (args : List V)
  /-- `conn.callRemote(path, member, interface, destination, signature, body)` with the default
  `returnSignature` (used by `introspectRemoteObject`) -/
  | raw (dest : Nat) (path : String) (iface : Option String) (member : String) (sig : String) (args : List V)
  deriving Repr

inductive IssueResult where
  /-- `AttributeError`: the method is not a member of any (selected) interface of the proxy -/
  | attributeError
  /-- `TypeError`: wrong number of arguments -/
  | typeError
  /-- the MethodCallMessage could not be built: `defer.fail()`, nothing is sent, no serial is used -/
  | encodeError
  | sent (serial : Nat)
  | noSuchClient
  deriving DecidableEq, Repr

/-- `if interface and not interface == i.name: continue` -/
def proxySkip (kw : Option String) (i : Iface) : Bool :=
  match kw with
  | none => false
  | some k => k ≠ "" && k ≠ i.name

/-- The loop of `RemoteDBusObject.callRemote`: the first interface (among those named by a truthy
`interface=` keyword) that has the method. -/
def proxyLookup (kw : Option String) (member : String) : List Iface → Option (Iface × MethodDecl)
  | [] => none
  | i :: rest =>
    if proxySkip kw i then proxyLookup kw member rest
    else match i.method? member with
      | some m => some (i, m)
      | none => proxyLookup kw member rest

/-- From the request to the arguments of `conn.callRemote` (serial not yet chosen). -/
def proxyResolve {V : Type} : CallReq V → Except IssueResult (CallRec V)
  | .viaProxy px kw member args =>
    match proxyLookup kw member px.ifaces with
    | none => .error .attributeError
    | some (i, m) =>
      if args.length ≠ m.nargs then .error .typeError
      else .ok { serial := 0, dest := px.dest, path := px.path, iface := some i.name, member := member,
                 sig := m.sigIn, args := args, retSig := some m.sigOut }
  | .raw dest path iface member sig args =>
    .ok { serial := 0, dest := dest, path := path, iface := iface, member := member, sig := sig,
          args := args, retSig := none }

/-! ### `_pendingCalls` : dict serial -> (Deferred, …); here serial -> return signature to check -/

abbrev Pending := List (Nat × Option String)

def pLookup (p : Pending) (s : Nat) : Option (Option String) :=
  match p with
  | [] => none
  | (k, v) :: t => if k = s then some v else pLookup t s

def pErase (p : Pending) (s : Nat) : Pending := p.filter (fun e => e.1 ≠ s)

/-- `d[s] = v` -/
def pInsert (p : Pending) (s : Nat) (v : Option String) : Pending := pErase p s ++ [(s, v)]

/-! ## Callee side -/

/-- A method that returned a Deferred which has not fired yet (`send_reply`/`send_error` closures). -/
structure Exec where
  tok : Nat
  sender : Option Nat
  serial : Nat
  sigOut : String
  nret : Nat
  deriving DecidableEq, Repr

structure Invocation (V : Type) where
  sender : Option Nat
  serial : Nat
  path : String
  iface : String
  member : String
  args : List V
  /-- `Func.id` of the Python function that ran -/
  impl : Nat
  deriving DecidableEq, Repr

/-- Why a reply was sent: the verdict of `handleMethodCallMessage` for one call. -/
inductive Answer (V : Type) where
  /-- Peer.Ping, Introspect, GetManagedObjects: answered by the handler itself -/
  | builtin (sig : String) (body : List V)
  /-- UnknownObject / UnknownMethod / InvalidArgs -/
  | refused (name : String) (text : String)
  /-- the exported method finished (now, or its Deferred fired) -/
  | result (sigOut : String) (nret : Nat) (res : Result V)
  deriving DecidableEq, Repr

inductive Check (V : Type) where
  | builtin (sig : String) (body : List V)
  | refused (name : String) (text : String)
  | run (i : Iface) (m : MethodDecl) (f : Func)
  deriving Repr

/-- `str or ''` / truthiness of an optional string -/
def strOr (o : Option String) (dflt : String) : String :=
  match o with
  | some s => if s = "" then dflt else s
  | none => dflt

/-- The interface search loop of `handleMethodCallMessage`. -/
def findIface (iface : Option String) (member : String) : List Iface → Option Iface
  | [] => none
  | x :: rest =>
    if strOr iface "" ≠ "" then
      (if x.name = strOr iface "" then some x else findIface iface member rest)
    else
      (if (x.method? member).isSome then some x else findIface iface member rest)

def lookupObj (path : String) : List ExpObj → Option ExpObj
  | [] => none
  | o :: rest => if o.path = path then some o else lookupObj path rest

/-- The text of a `_send_err` call: literal pieces and slots (Gen/Dispatch.lean). -/
def renderPieces (path member sig : String) (iface : Option String) (sigIn excText : String) :
    List Gen.Dispatch.Piece → String
  | [] => ""
  | .lit s :: t => s ++ renderPieces path member sig iface sigIn excText t
  | .path :: t => path ++ renderPieces path member sig iface sigIn excText t
  | .member :: t => member ++ renderPieces path member sig iface sigIn excText t
  | .sigOr d :: t => (if sig = "" then d else sig) ++ renderPieces path member sig iface sigIn excText t
  | .ifaceOr d :: t => strOr iface d ++ renderPieces path member sig iface sigIn excText t
  | .sigInOr d :: t => (if sigIn = "" then d else sigIn) ++ renderPieces path member sig iface sigIn excText t
  | .excText :: t => excText ++ renderPieces path member sig iface sigIn excText t

/-- `errMsg.replace('\\0', '\\\\x00').encode('utf-8', 'backslashreplace').decode('utf-8')` (repair C10-01; the
second half is the identity on strings of Unicode scalar values, the only ones a Lean `String` holds). -/
def escapeText (t : String) : String :=
  match Gen.Dispatch.textEscape with
  | some (c, r) => t.replace (String.singleton (Char.ofNat c)) r
  | none => t

/-- `send_error(err)`: the error reply for an exception. -/
def errorReply {V : Type} (w : World V) (e : Exc) : Reply V :=
  let name := match e.dbusName with
    | some n => n
    | none => Gen.Dispatch.pyExceptionPrefix ++ e.cls
  if w.validErrorName name then .err name (escapeText e.text)
  else .err Gen.Dispatch.invalidErrorName
        (escapeText (Gen.Dispatch.invalidNameNotice.replace "%s" name ++ e.text))

/-- `raise NotImplementedError` in `executeMethod` -/
def notImplemented : Exc := { dbusName := none, cls := Gen.Dispatch.unboundException, text := "" }

/-- `handleMethodCallMessage` up to the point where the user function would be called (`executeMethod`'s
resolution included: nothing bound -> `NotImplementedError` -> `send_error`). -/
def check {V : Type} (w : World V) (j : Nat) (path : String) (iface : Option String) (member : String)
    (sig : String) : Check V :=
  if iface = some Gen.Dispatch.peerPair.1 ∧ member = Gen.Dispatch.peerPair.2 then .builtin "" []
  else
    let intro : Option V :=
      if iface = some Gen.Dispatch.introspectPair.1 ∧ member = Gen.Dispatch.introspectPair.2 then w.introspect j path
      else none
    match intro with
    | some xml => .builtin Gen.Dispatch.introspectSig [xml]
    | none =>
      match lookupObj path (w.exports j) with
      | none => .refused Gen.Dispatch.unknownObject.1
                  (renderPieces path member sig iface "" "" Gen.Dispatch.unknownObject.2)
      | some o =>
        if iface = some Gen.Dispatch.managedPair.1 ∧ member = Gen.Dispatch.managedPair.2 then
          match w.managed j o.path with
          | .ok v => .builtin Gen.Dispatch.managedSig [v]
          | .error e => .refused Gen.Dispatch.managedFailed.1
                          (renderPieces path member sig iface "" e.text Gen.Dispatch.managedFailed.2)
        else
          match (findIface iface member o.ifaces).bind (fun i => (i.method? member).map (fun m => (i, m))) with
          | none => .refused Gen.Dispatch.unknownMethod.1
                      (renderPieces path member sig iface "" "" Gen.Dispatch.unknownMethod.2)
          | some (i, m) =>
            if m.sigIn ≠ sig then .refused Gen.Dispatch.invalidArgs.1
                      (renderPieces path member sig iface m.sigIn "" Gen.Dispatch.invalidArgs.2)
            else
              match o.resolveImpl i.name member with
              | none =>
                (match errorReply w notImplemented with
                 | .err n t => .refused n t
                 | .ret _ _ => .refused "" "")
              | some f => .run i m f

/-- The body `send_reply` hands to MethodReturnMessage. -/
def replyBody {V : Type} (nret : Nat) : PyRet V → List V
  | .obj v => [v]
  | .seq self elems => if nret = 1 then [self] else elems

/-- `send_reply(value)`; an exception while building the message goes to `send_error` (the errback is
chained behind the callback). -/
def valueReply {V : Type} (w : World V) (sigOut : String) (nret : Nat) (r : PyRet V) : Reply V :=
  if sigOut = "" then .ret "" []
  else match w.encErr sigOut (replyBody nret r) with
    | some e => errorReply w e
    | none => .ret sigOut (replyBody nret r)

/-- The content of the reply sent for an answer. -/
def replyOf {V : Type} (w : World V) : Answer V → Reply V
  | .builtin sig body => .ret sig body
  | .refused name text => .err name text
  | .result sigOut nret (.value r) => valueReply w sigOut nret r
  | .result _ _ (.raised e) => errorReply w e

/-! ## Clients and the network -/

structure Client (V : Type) where
  /-- `DBusMessage._nextSerial` of this process -/
  nextSerial : Nat
  /-- number of Deferreds handed out by exported methods so far (names them) -/
  nextTok : Nat
  pending : Pending
  /-- bytes written, not yet read by the bus: a FIFO of messages (link assumption) -/
  up : List (Msg V)
  /-- bus -> client -/
  down : List (Msg V)
  exec : List Exec
  -- observation logs, append-only
  issued : List (CallRec V)
  completions : List (Nat × Outcome V)
  invocations : List (Invocation V)
  /-- every reply this client sent as an exporter: (sender of the call, serial of the call, why) -/
  answers : List (Option Nat × Nat × Answer V)
  /-- reply serials that arrived when nothing was pending under them (the late reply to a call that already
  timed out): `methodReturnReceived`/`errorReceived` do nothing with them -/
  late : List Nat

def Client.init {V : Type} (firstSerial : Nat) : Client V :=
  { nextSerial := firstSerial, nextTok := 0, pending := [], up := [], down := [], exec := [],
    issued := [], completions := [], invocations := [], answers := [], late := [] }

structure Net (V : Type) where
  /-- number of attached clients: indices `0 .. n-1` -/
  n : Nat
  cl : Nat → Client V
  /-- messages the bus could not deliver ("Invalid bus name in msg.destination") -/
  dropped : List (Msg V)

def Net.init {V : Type} (n : Nat) (firstSerial : Nat → Nat) : Net V :=
  { n := n, cl := fun j => Client.init (firstSerial j), dropped := [] }

def Net.upd {V : Type} (net : Net V) (c : Nat) (f : Client V → Client V) : Net V :=
  { net with cl := fun j => if j = c then f (net.cl j) else net.cl j }

/-! ### Steps -/

inductive Step (V : Type) where
  /-- the application on client `c` makes a call -/
  | call (c : Nat) (req : CallReq V)
  /-- the bus reads the next message client `c` wrote -/
  | toBus (c : Nat)
  /-- client `c` reads the next message the bus wrote to it; `beh` is what the exported method does if
  this read leads to an invocation -/
  | toClient (c : Nat) (beh : Behaviour V)
  /-- the application on client `c` fires the Deferred number `tok` -/
  | resolve (c : Nat) (tok : Nat) (res : Result V)
  /-- the deadline of the call with this serial passes on client `c` (`timeout=` was given): the reactor runs
  `_onMethodTimeout`.  Enabled only while the call is pending (a reply cancels the delayed call). -/
  | expire (c : Nat) (serial : Nat)
  deriving Repr

/-- `conn.callRemote` on a client. -/
def issue {V : Type} (w : World V) (cl : Client V) (req : CallReq V) : Client V × IssueResult :=
  match proxyResolve req with
  | .error e => (cl, e)
  | .ok r0 =>
    let fails : Bool := if r0.sig = "" then false else (w.encErr r0.sig r0.args).isSome
    if fails then (cl, .encodeError)
    else
      let r : CallRec V := { r0 with serial := cl.nextSerial }
      ({ cl with nextSerial := cl.nextSerial + 1,
                 pending := pInsert cl.pending r.serial r.retSig,
                 up := cl.up ++ [callMsg none r],
                 issued := cl.issued ++ [r] }, .sent r.serial)

/-- The client sends a reply for the call `(sender, serial)`; a fresh serial is used. -/
def sendAnswer {V : Type} (w : World V) (cl : Client V) (sender : Option Nat) (serial : Nat) (a : Answer V) :
    Client V :=
  { cl with nextSerial := cl.nextSerial + 1,
            up := cl.up ++ [.reply cl.nextSerial serial none sender (replyOf w a)],
            answers := cl.answers ++ [(sender, serial, a)] }

/-- `methodCallReceived` -> `handleMethodCallMessage`. -/
def dispatch {V : Type} (w : World V) (j : Nat) (cl : Client V) (serial : Nat) (sender : Option Nat) (path : String)
    (iface : Option String) (member : String) (sig : String) (args : List V) (beh : Behaviour V) : Client V :=
  match check w j path iface member sig with
  | .builtin s b => sendAnswer w cl sender serial (.builtin s b)
  | .refused n t => sendAnswer w cl sender serial (.refused n t)
  | .run i m f =>
    let cl1 := { cl with invocations := cl.invocations ++
                  [{ sender := sender, serial := serial, path := path, iface := i.name, member := member, args := args,
                     impl := f.id }] }
    match beh with
    | .now res => sendAnswer w cl1 sender serial (.result m.sigOut m.nret res)
    | .deferred =>
      { cl1 with nextTok := cl1.nextTok + 1,
                 exec := cl1.exec ++ [{ tok := cl1.nextTok, sender := sender, serial := serial,
                                        sigOut := m.sigOut, nret := m.nret }] }

/-- `methodReturnReceived` / `errorReceived`. -/
def complete {V : Type} (cl : Client V) (replySerial : Nat) (content : Reply V) : Client V :=
  match pLookup cl.pending replySerial with
  | none => { cl with late := cl.late ++ [replySerial] }
  | some retSig =>
    { cl with pending := pErase cl.pending replySerial,
              completions := cl.completions ++ [(replySerial, outcomeOf retSig content)] }

/-- `rawDBusMessageReceived` on a client. -/
def receive {V : Type} (w : World V) (j : Nat) (cl : Client V) (m : Msg V) (beh : Behaviour V) : Client V :=
  match m with
  | .call serial sender _ path iface member sig args => dispatch w j cl serial sender path iface member sig args beh
  | .reply _ rs _ _ content => complete cl rs content

def clientStep {V : Type} (w : World V) (net : Net V) (c : Nat) (beh : Behaviour V) : Net V :=
  match (net.cl c).down with
  | [] => net
  | m :: rest => net.upd c (fun cl => receive w c { cl with down := rest } m beh)

/-- The bus reads one message from client `c`: sender := `c`; forward to the destination's connection. -/
def busStep {V : Type} (net : Net V) (c : Nat) : Net V :=
  match (net.cl c).up with
  | [] => net
  | m :: rest =>
    let net1 := net.upd c (fun cl => { cl with up := rest })
    let m' := m.withSender c
    match m'.dest with
    | none => { net1 with dropped := net1.dropped ++ [m'] }
    | some d =>
      if d < net1.n then net1.upd d (fun cl => { cl with down := cl.down ++ [m'] })
      else { net1 with dropped := net1.dropped ++ [m'] }

/-- Take the Deferred number `tok` out of the list of unfired ones (a Deferred fires once). -/
def takeExec (tok : Nat) : List Exec → Option (Exec × List Exec)
  | [] => none
  | e :: rest =>
    if e.tok = tok then some (e, rest)
    else match takeExec tok rest with
      | none => none
      | some (x, r) => some (x, e :: r)

def resolveStep {V : Type} (w : World V) (net : Net V) (c : Nat) (tok : Nat) (res : Result V) : Net V :=
  match takeExec tok (net.cl c).exec with
  | none => net
  | some (e, rest) =>
    net.upd c (fun cl => sendAnswer w { cl with exec := rest } e.sender e.serial (.result e.sigOut e.nret res))

/-- `_onMethodTimeout(serial, d)`: `del self._pendingCalls[serial]; d.errback(TimeOut)` -/
def expireStep {V : Type} (net : Net V) (c : Nat) (serial : Nat) : Net V :=
  match pLookup (net.cl c).pending serial with
  | none => net
  | some _ =>
    net.upd c (fun cl => { cl with pending := pErase cl.pending serial,
                                   completions := cl.completions ++ [(serial, .timedOut)] })

def step {V : Type} (w : World V) (net : Net V) : Step V → Net V
  | .call c req => if c < net.n then net.upd c (fun cl => (issue w cl req).1) else net
  | .toBus c => if c < net.n then busStep net c else net
  | .toClient c beh => if c < net.n then clientStep w net c beh else net
  | .resolve c tok res => if c < net.n then resolveStep w net c tok res else net
  | .expire c serial => if c < net.n then expireStep net c serial else net

def run {V : Type} (w : World V) (net : Net V) (steps : List (Step V)) : Net V :=
  steps.foldl (step w) net

/-- All queues empty and no unresolved Deferred. -/
def Net.Quiescent {V : Type} (net : Net V) : Prop :=
  ∀ j, j < net.n → (net.cl j).up = [] ∧ (net.cl j).down = [] ∧ (net.cl j).exec = []

end Txdbus.Net
