import TxdbusModel.Net.Compose
/-
C11 - the bus step of the code BEFORE the repair `fixes/C11-01-bus-forwards-body-verbatim.patch`
(/repo commit 84eeaa3): `BusProtocol.rawDBusMessageReceived` re-marshalled every message from its
*decoded* body (`msg._marshal(False)`).  Decoding erases the type of a variant's content, so the
re-encoding re-infers it (`sigFromPy`) and can fail: the exception escapes `dataReceived`, the message is
lost and the sender's connection is closed by the reactor.  `reenc sig body` is that re-encoding
(`none` = it raises).  Kept only for the witness theorem `prefix_model_violates` in Properties/C11.lean.
-/
namespace Txdbus.Net

def Msg.reencode {V : Type} (reenc : String → List V → Option (List V)) : Msg V → Option (Msg V)
  | .call n s d p i m g args => (reenc g args).map (fun a => .call n s d p i m g a)
  | .reply n r s d (.ret g body) => (reenc g body).map (fun b => .reply n r s d (.ret g b))
  | .reply n r s d (.err nm t) => some (.reply n r s d (.err nm t))

/-- `busStep` of the unrepaired code: a message whose body does not re-encode is lost. -/
def busStepOld {V : Type} (reenc : String → List V → Option (List V)) (net : Net V) (c : Nat) : Net V :=
  match (net.cl c).up with
  | [] => net
  | m :: rest =>
    let net1 := net.upd c (fun cl => { cl with up := rest })
    match (m.withSender c).reencode reenc with
    | none => net1
    | some m' =>
      match m'.dest with
      | none => { net1 with dropped := net1.dropped ++ [m'] }
      | some d =>
        if d < net1.n then net1.upd d (fun cl => { cl with down := cl.down ++ [m'] })
        else { net1 with dropped := net1.dropped ++ [m'] }

def stepOld {V : Type} (reenc : String → List V → Option (List V)) (w : World V) (net : Net V) : Step V → Net V
  | .toBus c => if c < net.n then busStepOld reenc net c else net
  | .call c req => step w net (.call c req)
  | .toClient c beh => step w net (.toClient c beh)
  | .resolve c tok res => step w net (.resolve c tok res)
  | .expire c serial => step w net (.expire c serial)

def runOld {V : Type} (reenc : String → List V → Option (List V)) (w : World V) (net : Net V)
    (steps : List (Step V)) : Net V :=
  steps.foldl (stepOld reenc w) net

end Txdbus.Net
