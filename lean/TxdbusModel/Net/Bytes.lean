import TxdbusModel.Net.Compose
import TxdbusModel.Proto.Framing
import TxdbusModel.Proto.FramesSpec
/-
C11 - the BYTE-LEVEL network.

The same clients and bus as `Net/Compose.lean`, but the links carry bytes: per client one byte queue in each
direction (`upWire c`: written by client `c`, not yet read by the bus; `downWire c`: written by the bus for `c`), and
per receiver the state of C04's code model of `BasicDBusProtocol.dataReceived` (`Txdbus.Proto.St`, `Proto.step`): the
bus's protocol instance for connection `c` (`busRx c`) and client `c`'s own (`cliRx c`).  A `read` step hands the
receiver an arbitrary prefix of what is queued (`take k`: any `k`, zero and "everything" included) as ONE call of
`dataReceived`; the messages that call completes (C04's `Effect.msg`, in order) are parsed (`WireCodec.dec`) and
handled one after the other by the very functions of the message-level model (`receive`, the bus's forwarding);
whatever a handler sends is serialised (`WireCodec.enc`) onto the sender's wire.

The codec is a parameter: `enc` = `DBusMessage._marshal` (rawMessage), `dec` = `parseMessage`; values stay abstract.
Its laws (`WireCodec.Laws`, Proofs/Net/BytesSim.lean) are the statements of C03 about that codec.

The clients' `up` / `down` message queues of `Client` are not used at this level (always empty).
Core Lean only.
-/
namespace Txdbus.Net
open Txdbus.Proto (St Auth Effect Bytes)

structure WireCodec (V : Type) where
  enc : Msg V → Bytes
  dec : Bytes → Option (Msg V)

structure BNet (V α : Type) where
  n : Nat
  cl : Nat → Client V
  upWire : Nat → Bytes
  downWire : Nat → Bytes
  busRx : Nat → St α
  cliRx : Nat → St α
  dropped : List (Msg V)
  /-- observation log: every message serialised onto a wire so far (by a client or by the bus) -/
  sent : List (Msg V)

/-- raw messages among the effects of one `dataReceived` (in binary mode there is nothing else) -/
def rawMsgs : List Effect → List Bytes
  | [] => []
  | .msg raw :: t => raw :: rawMsgs t
  | _ :: t => rawMsgs t

def encAll {V : Type} (C : WireCodec V) (ms : List (Msg V)) : Bytes := (ms.map C.enc).flatten

/-- what a client handler left in `up` goes onto the wire -/
def BNet.flush {V α : Type} (C : WireCodec V) (b : BNet V α) (c : Nat) (cl' : Client V) : BNet V α :=
  { b with cl := fun j => if j = c then { cl' with up := [] } else b.cl j,
           upWire := fun j => if j = c then b.upWire c ++ encAll C cl'.up else b.upWire j,
           sent := b.sent ++ cl'.up }

/-- the bus handles one complete message received on connection `c`: `rawDBusMessageReceived` -->
`Bus.messageReceived` --> `Bus.sendMessage` -/
def BNet.busHandle {V α : Type} (C : WireCodec V) (b : BNet V α) (c : Nat) (raw : Bytes) : BNet V α :=
  match C.dec raw with
  | none => b
  | some m =>
    let m' := m.withSender c
    match m'.dest with
    | none => { b with dropped := b.dropped ++ [m'] }
    | some d =>
      if d < b.n then { b with downWire := fun j => if j = d then b.downWire d ++ C.enc m' else b.downWire j,
                               sent := b.sent ++ [m'] }
      else { b with dropped := b.dropped ++ [m'] }

/-- client `c` handles one complete message; `beh` is what the exported method does if it is invoked -/
def BNet.cliHandle {V α : Type} (C : WireCodec V) (w : World V) (b : BNet V α) (c : Nat) (raw : Bytes)
    (beh : Behaviour V) : BNet V α :=
  match C.dec raw with
  | none => b
  | some m => b.flush C c (receive w c (b.cl c) m beh)

/-- the messages of one read, in order, each with its behaviour (`deferred` when the list runs out) -/
def BNet.cliHandleAll {V α : Type} (C : WireCodec V) (w : World V) (b : BNet V α) (c : Nat) :
    List Bytes → List (Behaviour V) → BNet V α
  | [], _ => b
  | raw :: raws, [] => (b.cliHandle C w c raw .deferred).cliHandleAll C w c raws []
  | raw :: raws, beh :: behs => (b.cliHandle C w c raw beh).cliHandleAll C w c raws behs

inductive BStep (V : Type) where
  | call (c : Nat) (req : CallReq V)
  /-- the bus's transport delivers the next `k` bytes client `c` wrote (all of them if fewer are queued) -/
  | readBus (c : Nat) (k : Nat)
  /-- client `c`'s transport delivers the next `k` bytes; `behs`: the behaviours of the invocations this read
  leads to, in order -/
  | readClient (c : Nat) (k : Nat) (behs : List (Behaviour V))
  | resolve (c : Nat) (tok : Nat) (res : Result V)
  | expire (c : Nat) (serial : Nat)

def bstep {V α : Type} (C : WireCodec V) (A : Auth α) (w : World V) (b : BNet V α) : BStep V → BNet V α
  | .call c req => if c < b.n then b.flush C c (issue w (b.cl c) req).1 else b
  | .readBus c k =>
    if c < b.n then
      let r := Proto.step A (b.busRx c) ((b.upWire c).take k)
      let b1 : BNet V α :=
        { b with upWire := fun j => if j = c then (b.upWire c).drop k else b.upWire j,
                 busRx := fun j => if j = c then r.1 else b.busRx j }
      (rawMsgs r.2).foldl (fun acc raw => acc.busHandle C c raw) b1
    else b
  | .readClient c k behs =>
    if c < b.n then
      let r := Proto.step A (b.cliRx c) ((b.downWire c).take k)
      let b1 : BNet V α :=
        { b with downWire := fun j => if j = c then (b.downWire c).drop k else b.downWire j,
                 cliRx := fun j => if j = c then r.1 else b.cliRx j }
      b1.cliHandleAll C w c (rawMsgs r.2) behs
    else b
  | .resolve c tok res =>
    if c < b.n then
      match takeExec tok (b.cl c).exec with
      | none => b
      | some (e, rest) =>
        b.flush C c (sendAnswer w { b.cl c with exec := rest } e.sender e.serial (.result e.sigOut e.nret res))
    else b
  | .expire c serial =>
    if c < b.n then
      match pLookup (b.cl c).pending serial with
      | none => b
      | some _ =>
        { b with cl := fun j => if j = c then
            { b.cl c with pending := pErase (b.cl c).pending serial,
                          completions := (b.cl c).completions ++ [(serial, .timedOut)] } else b.cl j }
    else b

def brun {V α : Type} (C : WireCodec V) (A : Auth α) (w : World V) (b : BNet V α) (steps : List (BStep V)) :
    BNet V α :=
  steps.foldl (bstep C A w) b

/-- After the handshake (C04 `handoff`, C06/C07): every protocol instance is in binary mode with nothing
buffered; nothing is on any wire. -/
def BNet.init {V α : Type} (n : Nat) (first : Nat → Nat) (a : α) : BNet V α :=
  { n := n, cl := fun j => Client.init (first j), upWire := fun _ => [], downWire := fun _ => [],
    busRx := fun _ => { St.init false a with authenticated := true, firstByte := false },
    cliRx := fun _ => { St.init true a with authenticated := true },
    dropped := [], sent := [] }

/-- A SYNTHETIC start before the end of the handshake.  Per link and direction: either the receiver is already in binary
mode (`hs = []`), or it is still in LINE mode (a bus-side instance after its NUL byte; whatever lines it has had are
reflected in its authenticator state `aUp c` / `aDown c`) and the wire starts with the authentication lines it still
expects (`Spec.unlines (lines ++ [last])`, the last one making its authenticator report success: `BEGIN` at the bus,
`OK …` at a client); message bytes written afterwards queue up BEHIND them, so a read may hand the receiver the final
handshake line and message bytes together (the hand-off of `dataReceived`, C04 `handoff`).
NOT the real handshake: that is a DIALOGUE (the bus writes `OK` while reading `AUTH`, the client writes `BEGIN` while
reading `OK`: C06/C07, Auth/Handshake2.lean) - here the expected lines are simply already on the wire and nobody writes
a line in response; and the first message behind `BEGIN` is `Hello`, which this model does not have.  The state a real
connection is in between the client's `BEGIN` and the bus's reading it is the instance `hsUp c = BEGIN\r\n`,
`hsDown c = []`. -/
def BNet.initH {V α : Type} (n : Nat) (first : Nat → Nat) (aUp aDown : Nat → α) (hsUp hsDown : Nat → Bytes) : BNet V α :=
  { n := n, cl := fun j => Client.init (first j), upWire := hsUp, downWire := hsDown,
    busRx := fun j => if (hsUp j).isEmpty then { St.init false (aUp j) with authenticated := true, firstByte := false }
                      else { St.init false (aUp j) with firstByte := false },
    cliRx := fun j => if (hsDown j).isEmpty then { St.init true (aDown j) with authenticated := true }
                      else St.init true (aDown j),
    dropped := [], sent := [] }

/-- nothing on any wire, nothing buffered by any receiver, no unfired Deferred -/
def BNet.Quiescent {V α : Type} (b : BNet V α) : Prop :=
  ∀ j, j < b.n → b.upWire j = [] ∧ b.downWire j = [] ∧ (b.busRx j).buffer = [] ∧ (b.cliRx j).buffer = [] ∧
    (b.cl j).exec = []

/-! ### the canonical draining schedule (byte-level progress)

`drain`: as long as something is in flight, take the first client `j` (in index order) that has something pending and
(1) let the bus read EVERYTHING queued on `j`'s link to it, else (2) let `j` read everything the bus queued for it (every
invocation this leads to returns a Deferred), else (3) fire `j`'s oldest Deferred with the result `fire j e`.  The
schedule is a function of the state, so the domain hypothesis of the progress theorem can be checked by evaluation. -/

/-- the next draining step concerning client `j` (`none`: nothing of `j`'s is in flight) -/
def BNet.pickAt {V α : Type} (fire : Nat → Exec → Result V) (b : BNet V α) (j : Nat) : Option (BStep V) :=
  if !(b.upWire j).isEmpty || !(b.busRx j).buffer.isEmpty then some (.readBus j (b.upWire j).length)
  else if !(b.downWire j).isEmpty || !(b.cliRx j).buffer.isEmpty then some (.readClient j (b.downWire j).length [])
  else match (b.cl j).exec with
    | e :: _ => some (.resolve j e.tok (fire j e))
    | [] => none

/-- the next draining step among clients `0 .. k-1`, lowest index first -/
def BNet.pick {V α : Type} (fire : Nat → Exec → Result V) (b : BNet V α) : Nat → Option (BStep V)
  | 0 => none
  | k + 1 => match b.pick fire k with
    | some st => some st
    | none => b.pickAt fire k

/-- at most `fuel` draining steps from `b` (stops as soon as nothing is in flight) -/
def drain {V α : Type} (C : WireCodec V) (A : Auth α) (w : World V) (fire : Nat → Exec → Result V) :
    Nat → BNet V α → List (BStep V)
  | 0, _ => []
  | fuel + 1, b =>
    match b.pick fire b.n with
    | none => []
    | some st => st :: drain C A w fire fuel (bstep C A w b st)

end Txdbus.Net
