import TxdbusModel.Net.Compose
/-
C11 - `DBusObjectHandler.getRemoteObject(busName, objectPath, interfaces, …)` up to the point where it either builds
the proxy locally or starts an introspection (objects.py): the walk over the `interfaces` argument.

  need_introspection = False; required_interfaces = set()
  if interfaces is not None:
      ifl = []
      if not isinstance(interfaces, list): interfaces = [interfaces]
      for i in interfaces:
          if isinstance(i, DBusInterface): ifl.append(i); required.add(i.name)
          else:
              required.add(i)
              if i in DBusInterface.knownInterfaces: ifl.append(knownInterfaces[i])
              else: need_introspection = True            # only ever SET, never reset
      if not need_introspection: return succeed(RemoteDBusObject(self, busName, objectPath, ifl))
  d = introspectRemoteObject(...)       # the proxy then lists what the introspection found; `required` must be among it
                                        # (`IntrospectionFailed` otherwise: NOT modelled, no stream requests an interface
                                        # the remote object lacks)

`known` is the caller's process-wide `DBusInterface.knownInterfaces` (name -> interface, a dict).  The introspection
itself is C15's (`Proofs/Net/Introspected.lean`: `introspectedProxy`).  Core Lean only.
-/
namespace Txdbus.Net

/-- one element of the `interfaces` argument -/
inductive IfaceArg where
  /-- a `DBusInterface` instance -/
  | inst (i : Iface)
  /-- an interface name (a `str`) -/
  | name (n : String)
  deriving DecidableEq, Repr

/-- the `interfaces` argument: None, a single value, or a list -/
inductive IfacesParam where
  | none
  | one (a : IfaceArg)
  | many (l : List IfaceArg)
  deriving Repr

/-- `if not isinstance(interfaces, list): interfaces = [interfaces]` -/
def IfacesParam.toList? : IfacesParam → Option (List IfaceArg)
  | .none => Option.none
  | .one a => some [a]
  | .many l => some l

/-- the `for i in interfaces` loop on the accumulator `(ifl, need_introspection)` -/
def scanIfaceArgs (known : List (String × Iface)) : List IfaceArg → List Iface × Bool → List Iface × Bool
  | [], acc => acc
  | .inst i :: t, (ifl, need) => scanIfaceArgs known t (ifl ++ [i], need)
  | .name n :: t, (ifl, need) =>
    match assocGet known n with
    | some i => scanIfaceArgs known t (ifl ++ [i], need)
    | none => scanIfaceArgs known t (ifl, true)

/-- the interface object an element stands for without introspection (`none`: a name the process does not know) -/
def IfaceArg.resolve (known : List (String × Iface)) : IfaceArg → Option Iface
  | .inst i => some i
  | .name n => assocGet known n

def IfaceArg.reqName : IfaceArg → String
  | .inst i => i.name
  | .name n => n

/-- what `getRemoteObject` does next -/
inductive ProxyPlan where
  /-- `defer.succeed(RemoteDBusObject(…, ifl))`: no message is sent -/
  | built (px : Proxy)
  /-- `introspectRemoteObject`, after which every name of `required` must be among the interfaces found -/
  | introspect (required : List String)
  deriving Repr

def getRemoteObjectPlan (known : List (String × Iface)) (dest : Nat) (path : String) (p : IfacesParam) : ProxyPlan :=
  match p.toList? with
  | none => .introspect []
  | some l =>
    let r := scanIfaceArgs known l ([], false)
    if r.2 then .introspect (l.map IfaceArg.reqName) else .built { dest := dest, path := path, ifaces := r.1 }

end Txdbus.Net
