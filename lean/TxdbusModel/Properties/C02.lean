/-! Property theorems for C02 (stub: none yet). -/
