import TxdbusModel.Proofs.Wire.TopLevel
import TxdbusModel.Proofs.Wire.AlignSpec
import TxdbusModel.Proofs.Wire.ConfTop
import TxdbusModel.Proofs.Wire.FuelFree
import TxdbusModel.Proofs.Wire.CostVsCode
import TxdbusModel.Proofs.Wire.NoFds
/-!
Property C02 - encoded bytes are exactly the DBus wire format, in both directions.

1. `C02_alignTable`, `C02_padding`: the alignment table generated from `dbus_types` is the table of the
   specification, and `pad[code](off)` is `(A - off % A) % A` zero bytes for each of the 17 type codes and
   EVERY offset, which brings the offset to a multiple of `A`.
2. `C02_encode`: `marshal(render ts, values, off, lendian)` = `Spec.encode` with the specification's
   alignment table, for all signatures, conforming values, offsets, both byte orders.
3. `C02_decode`: every spec-conformant encoding (image of `Spec.encode`: also big endian, also variants
   typed in ways txdbus itself never produces), placed at `off` in arbitrary surrounding bytes, is decoded
   by `unmarshal` to the value it encodes, with the right length.
4. `layout_*`: the reference encoder `Spec.encode` is visibly the rule set of the statement - each value
   starts at a multiple of its alignment counted from offset 0 of the message, padding bytes are zero,
   the array length word is the byte length of the elements including the padding between them and
   excluding the padding before the first, strings / object paths are `u32 len ++ bytes ++ [0]`,
   signatures `u8 len ++ bytes ++ [0]`, a variant is the signature of its content followed by the aligned
   content, and the byte order argument reverses every multi-byte integer.
-/
namespace Txdbus

/-- `dbus_types` (generated) is the alignment table of the specification on the 17 type codes (rows for
further codes, should a future type be added, are not constrained). -/
theorem C02_alignTable :
    (∀ c ∈ Code.typeCodes, Gen.Wire.alignTable.lookup c = some (Spec.alignTable c)) ∧
    ∀ p ∈ Gen.Wire.alignTable, p.1 ∈ Code.typeCodes → Spec.alignTable p.1 = p.2 :=
  Code.alignTable_eq_spec

/-- The padding rule, for every one of the 17 type codes and every offset (not only 0..63).  It is a theorem
about the hand-written `Code.padLenOf` (the model of `genpad` / `padding`); the tie of that model to the
source is the exhaustive stream `padding-table` (offsets 0..63 decide any formula periodic in 8). -/
theorem C02_padding (c : Char) (a : Nat) (h : (c, a) ∈ Gen.Wire.alignTable) (hc : c ∈ Code.typeCodes) (off : Nat) :
    Code.padLenOf c off = .ok ((a - off % a) % a) ∧ 0 < a ∧ (off + (a - off % a) % a) % a = 0 := by
  have hpos : 0 < a := by
    have h2 := Code.alignTable_eq_spec.2 (c, a) h hc
    simp only at h2
    simp only [Code.typeCodes, List.mem_cons, List.not_mem_nil, or_false] at hc
    rcases hc with h | h | h | h | h | h | h | h | h | h | h | h | h | h | h | h | h <;> subst h <;>
      (rw [← h2]; decide)
  exact ⟨Code.padLenOf_spec c a h hc off, hpos, padLen_aligned a off hpos⟩

/-- `marshal` produces exactly the bytes the specification defines (see `Code.marshal_eq_spec`). -/
theorem C02_encode (le : Bool) (ts : List Ty) (pv : PyVal) (items : List PyVal) (vs : List Val)
    (fdl : List PyVal) (k' off : Nat) (bs : Bytes) (fuel : Nat)
    (hitems : Code.topItems pv = .ok items) (hrep : Code.RepFields fdl vs true ts items 0 k')
    (henc : Spec.encodeAll Spec.alignTable (endianOf le) ts vs off = some bs) (hfuel : depthAll vs ≤ fuel) :
    Code.marshal fuel (renderAll ts) pv off le (some []) = .ok (bs.length, bs, some (fdl.take k')) :=
  Code.marshal_eq_spec Spec.alignTable Code.padOK_spec Code.alignTable_pos le ts pv items vs fdl k' off bs fuel
    hitems hrep henc hfuel

/-- `unmarshal` decodes every spec-conformant encoding to the value it encodes. -/
theorem C02_decode (le : Bool) (fds : Code.Fds) (ts : List Ty) (vs : List Val) (off : Nat)
    (bs pre suf : Bytes) (values : List PyVal) (fuel : Nat)
    (hts : allWF ts = true) (henc : Spec.encodeAll Spec.alignTable (endianOf le) ts vs off = some bs)
    (hpre : pre.length = off) (hval : Code.fromSpecFields fds vs ts = some values) (hfuel : depthAll vs ≤ fuel) :
    Code.unmarshal fuel (renderAll ts) (pre ++ bs ++ suf) off le fds = .ok (bs.length, values) :=
  Code.unmarshal_eq_spec Spec.alignTable Code.padOK_spec Code.alignTable_pos le fds ts vs off bs pre suf values fuel
    hts henc hpre hval hfuel

/-- Satisfiable: a big-endian encoding of a variant holding an EMPTY array of INT32 (a typing txdbus's own
encoder never produces: it sends empty lists as `av`) followed by a descriptor index. -/
example :
    let ts : List Ty := [.variant, .basic .h]
    let vs : List Val := [.variant (.array (.basic .i)) (.array []), .int 1]
    allWF ts = true ∧ (Spec.encodeAll Spec.alignTable (endianOf false) ts vs 1).isSome = true ∧
      Code.fromSpecFields (some [.int .plain 7, .int .plain 9]) vs ts = some [.list [], .int .plain 9] ∧
      depthAll vs ≤ 2 := by
  refine ⟨by decide, by decide, ?_, by decide⟩
  simp [Code.fromSpecFields, Code.fromSpec, Code.fromSpecList]

/-- `C02_encode` for the second formulation of conformance (`Code.Conf`, Proofs/Wire/Conf.lean): stated
WITHOUT the code model's own item functions - the items of the variableList / of a struct are the elements of
the list or tuple or the `dbusOrder` fields, the elements of an array are the elements of the list / tuple /
bytearray IN ORDER, a dict denotes its items `(k, v)` IN ITERATION ORDER - and with `Boolean(0/1)` accepted
for `b`.  So a code model that iterated a container in another order could not satisfy this statement. -/
theorem C02_encode_conf (le : Bool) (ts : List Ty) (pv : PyVal) (items : List PyVal) (vs : List Val)
    (fdl : List PyVal) (k' off : Nat) (bs : Bytes) (fuel : Nat)
    (hitems : Code.structFields pv = some items) (hrep : Code.ConfFields fdl vs true ts items 0 k')
    (henc : Spec.encodeAll Spec.alignTable (endianOf le) ts vs off = some bs) (hfuel : depthAll vs ≤ fuel) :
    Code.marshal fuel (renderAll ts) pv off le (some []) = .ok (bs.length, bs, some (fdl.take k')) :=
  Code.marshal_eq_spec_conf Spec.alignTable Code.padOK_spec Code.alignTable_pos le ts pv items vs fdl k' off bs fuel
    hitems hrep henc hfuel

/-- The same with EXECUTABLE hypotheses: whenever `Code.toSpecTop` (what the driver operation `specenc`
runs on every generated case) reads the Python values as spec values `vs` with descriptors `fdl`, and the
reference encoder accepts them, `marshal` produces the reference encoder's bytes. -/
theorem C02_encode_checked (le : Bool) (n : Nat) (ts : List Ty) (pv : PyVal) (vs : List Val)
    (fdl : List PyVal) (off : Nat) (bs : Bytes) (fuel : Nat)
    (hchk : Code.toSpecTop n ts pv = some (vs, fdl))
    (henc : Spec.encodeAll Spec.alignTable (endianOf le) ts vs off = some bs) (hfuel : depthAll vs ≤ fuel) :
    Code.marshal fuel (renderAll ts) pv off le (some []) = .ok (bs.length, bs, some fdl) := by
  obtain ⟨items, hitems, hrep⟩ := Code.toSpecTop_sound n ts pv vs fdl hchk
  have h := C02_encode_conf le ts pv items vs fdl fdl.length off bs fuel hitems hrep henc hfuel
  simpa using h

/-- Satisfiable, with the specification's table: signature `ya(yx)bv`, values
`(Byte(1), [(2, 3), [4, Int64(-5)]], Boolean(1), {'k': (1.5,)})` given as a TUPLE, big endian, offset 3:
an array of 8-aligned structs at an odd offset, a `Boolean` wrapper, a variant holding a dict. -/
example :
    let ts : List Ty := [.basic .y, .array (.struct [.basic .y, .basic .x]), .basic .b, .variant]
    let pv : PyVal := .tuple [.int .byte 1,
      .list [.tuple [.int .plain 2, .int .plain 3], .list [.int .plain 4, .int .int64 (-5)]],
      .int .boolean 1, .dict [(.str .plain ['k'], .tuple [.float 0x3FF8000000000000])]]
    ∃ vs, Code.toSpecTop 20 ts pv = some (vs, []) ∧
      (Spec.encodeAll Spec.alignTable (endianOf false) ts vs 3).isSome = true ∧ depthAll vs ≤ 5 := by
  refine ⟨[.int 1, .array [.struct [.int 2, .int 3], .struct [.int 4, .int (-5)]], .bool true,
    .variant (.array (.dict (.basic .s) (.struct [.basic .d])))
      (.array [.entry (.str [107]) (.struct [.double 0x3FF8000000000000])])], ?_, by decide, by decide⟩
  rfl

/-- `C02_decode` for a dict, with the side condition spelled out: if the keys of the encoded entries are
hashable and pairwise distinct (duplicates make a message corrupt per the specification), the array of dict
entries decodes to the dict of exactly those pairs, in order. -/
theorem C02_decode_dict (le : Bool) (fds : Code.Fds) (kt vt : Ty) (vs : List Val) (off : Nat)
    (bs pre suf : Bytes) (pairs : List (PyVal × PyVal)) (fuel : Nat)
    (hts : (Ty.array (.dict kt vt)).WF = true)
    (henc : Spec.encodeAll Spec.alignTable (endianOf le) [.array (.dict kt vt)] [.array vs] off = some bs)
    (hpre : pre.length = off)
    (hval : Code.fromSpecList fds vs (.dict kt vt) = some (pairs.map fun p => .list [p.1, p.2]))
    (hkeys : Code.DistinctKeys (pairs.map (·.1))) (hfuel : depthAll [.array vs] ≤ fuel) :
    Code.unmarshal fuel (renderAll [.array (.dict kt vt)]) (pre ++ bs ++ suf) off le fds =
      .ok (bs.length, [.dict pairs]) := by
  apply C02_decode le fds _ _ off bs pre suf _ fuel (by simp [allWF, hts]) henc hpre _ hfuel
  simp [Code.fromSpecFields, Code.fromSpec, hval, Code.dictOf_distinct pairs hkeys]

/-! ### Extension 2026-09-30: no premise on the depth of the value

`C02_encode`, `C02_decode` and their variants ask for `depthAll vs ≤ fuel`.  Below the same statements with fuels
computed from the signature and the bytes: the decoder at `Cost.codeFuel sig data off = |sig| + (|data| - off) + 1`,
the encoder at `|sig| + |bytes it produces|` (for a signature without `v`: at the nesting depth of the signature).
They follow from `Spec.depth_le_sig_add_length` (Proofs/Wire/FuelFree) and add no side condition.
`C02_unmarshal_fuel_canonical` is the composition with C05 (Proofs/Wire/CostVsCode) for data that is NOT a
spec-conformant encoding: at that fuel the decoder's answer is THE answer of the model. -/

/-- `C02_decode` at ANY fuel from `Cost.codeFuel` on. -/
theorem C02_decode_any_fuel (le : Bool) (fds : Code.Fds) (ts : List Ty) (vs : List Val) (off : Nat)
    (bs pre suf : Bytes) (values : List PyVal) (fuel : Nat)
    (hts : allWF ts = true) (henc : Spec.encodeAll Spec.alignTable (endianOf le) ts vs off = some bs)
    (hpre : pre.length = off) (hval : Code.fromSpecFields fds vs ts = some values)
    (hfuel : Cost.codeFuel (renderAll ts) (pre ++ bs ++ suf) off ≤ fuel) :
    Code.unmarshal fuel (renderAll ts) (pre ++ bs ++ suf) off le fds = .ok (bs.length, values) :=
  Code.unmarshal_eq_spec_fuel_free Spec.alignTable Code.padOK_spec Code.alignTable_pos le fds ts vs off bs pre suf values
    fuel hts henc hpre hval hfuel

/-- `C02_decode` with no fuel left in the statement: `unmarshal` run at the fuel computed from the lengths of its own
arguments decodes every spec-conformant encoding to the value it encodes.  Hypotheses as `C02_decode` minus `hfuel`;
`fds` is ANY descriptor argument (`None`, or a list of whatever objects). -/
theorem C02_decode_fuel_free (le : Bool) (fds : Code.Fds) (ts : List Ty) (vs : List Val) (off : Nat)
    (bs pre suf : Bytes) (values : List PyVal)
    (hts : allWF ts = true) (henc : Spec.encodeAll Spec.alignTable (endianOf le) ts vs off = some bs)
    (hpre : pre.length = off) (hval : Code.fromSpecFields fds vs ts = some values) :
    Code.unmarshal (Cost.codeFuel (renderAll ts) (pre ++ bs ++ suf) off) (renderAll ts) (pre ++ bs ++ suf) off le fds =
      .ok (bs.length, values) :=
  C02_decode_any_fuel le fds ts vs off bs pre suf values _ hts henc hpre hval (Nat.le_refl _)

/-- `C02_decode_dict` without the fuel premise. -/
theorem C02_decode_dict_fuel_free (le : Bool) (fds : Code.Fds) (kt vt : Ty) (vs : List Val) (off : Nat)
    (bs pre suf : Bytes) (pairs : List (PyVal × PyVal))
    (hts : (Ty.array (.dict kt vt)).WF = true)
    (henc : Spec.encodeAll Spec.alignTable (endianOf le) [.array (.dict kt vt)] [.array vs] off = some bs)
    (hpre : pre.length = off)
    (hval : Code.fromSpecList fds vs (.dict kt vt) = some (pairs.map fun p => .list [p.1, p.2]))
    (hkeys : Code.DistinctKeys (pairs.map (·.1))) :
    Code.unmarshal (Cost.codeFuel (renderAll [.array (.dict kt vt)]) (pre ++ bs ++ suf) off)
        (renderAll [.array (.dict kt vt)]) (pre ++ bs ++ suf) off le fds =
      .ok (bs.length, [.dict pairs]) :=
  C02_decode_dict le fds kt vt vs off bs pre suf pairs _ hts henc hpre hval hkeys
    (Nat.le_of_lt (Spec.depthAll_le_codeFuel _ _ _ _ off bs pre suf henc hpre))

/-- `C02_encode` with the fuel bounded by the size of what is produced: `|signature| + |bytes|` (or more). -/
theorem C02_encode_fuel_free (le : Bool) (ts : List Ty) (pv : PyVal) (items : List PyVal) (vs : List Val)
    (fdl : List PyVal) (k' off : Nat) (bs : Bytes) (fuel : Nat)
    (hitems : Code.topItems pv = .ok items) (hrep : Code.RepFields fdl vs true ts items 0 k')
    (henc : Spec.encodeAll Spec.alignTable (endianOf le) ts vs off = some bs)
    (hfuel : (renderAll ts).length + bs.length ≤ fuel) :
    Code.marshal fuel (renderAll ts) pv off le (some []) = .ok (bs.length, bs, some (fdl.take k')) :=
  Code.marshal_eq_spec_sized Spec.alignTable Code.padOK_spec Code.alignTable_pos le ts pv items vs fdl k' off bs fuel
    hitems hrep henc hfuel

/-- `C02_encode` for a signature without `v`: the fuel is bounded by the SIGNATURE alone (its nesting depth
`tyDepthAll ts`, which is at most its length: `tyDepthAll_le_render`). -/
theorem C02_encode_noVariant_fuel_free (le : Bool) (ts : List Ty) (pv : PyVal) (items : List PyVal) (vs : List Val)
    (fdl : List PyVal) (k' off : Nat) (bs : Bytes) (fuel : Nat)
    (hitems : Code.topItems pv = .ok items) (hrep : Code.RepFields fdl vs true ts items 0 k')
    (henc : Spec.encodeAll Spec.alignTable (endianOf le) ts vs off = some bs)
    (hnv : allNoVariant ts = true) (hfuel : tyDepthAll ts ≤ fuel) :
    Code.marshal fuel (renderAll ts) pv off le (some []) = .ok (bs.length, bs, some (fdl.take k')) :=
  Code.marshal_eq_spec_noVariant Spec.alignTable Code.padOK_spec Code.alignTable_pos le ts pv items vs fdl k' off bs fuel
    hitems hrep henc hnv hfuel

/-- `C02_encode_conf` with the fuel bounded by the size of what is produced. -/
theorem C02_encode_conf_fuel_free (le : Bool) (ts : List Ty) (pv : PyVal) (items : List PyVal) (vs : List Val)
    (fdl : List PyVal) (k' off : Nat) (bs : Bytes) (fuel : Nat)
    (hitems : Code.structFields pv = some items) (hrep : Code.ConfFields fdl vs true ts items 0 k')
    (henc : Spec.encodeAll Spec.alignTable (endianOf le) ts vs off = some bs)
    (hfuel : (renderAll ts).length + bs.length ≤ fuel) :
    Code.marshal fuel (renderAll ts) pv off le (some []) = .ok (bs.length, bs, some (fdl.take k')) :=
  Code.marshal_eq_spec_conf_sized Spec.alignTable Code.padOK_spec Code.alignTable_pos le ts pv items vs fdl k' off bs
    fuel hitems hrep henc hfuel

/-- `C02_encode_checked` (executable hypotheses) with the fuel bounded by the size of what is produced. -/
theorem C02_encode_checked_fuel_free (le : Bool) (n : Nat) (ts : List Ty) (pv : PyVal) (vs : List Val)
    (fdl : List PyVal) (off : Nat) (bs : Bytes) (fuel : Nat)
    (hchk : Code.toSpecTop n ts pv = some (vs, fdl))
    (henc : Spec.encodeAll Spec.alignTable (endianOf le) ts vs off = some bs)
    (hfuel : (renderAll ts).length + bs.length ≤ fuel) :
    Code.marshal fuel (renderAll ts) pv off le (some []) = .ok (bs.length, bs, some fdl) :=
  C02_encode_checked le n ts pv vs fdl off bs fuel hchk henc
    (Nat.le_trans (Spec.depthAll_le_sized _ _ ts vs off bs henc) hfuel)

/-- **Composition with C05** (`Proofs/Wire/CostVsCode.lean`), for EVERY signature string, data, offset and byte order -
hostile input included: the run of `unmarshal` at `Cost.codeFuel sig data off` never ends in the model's out-of-fuel
outcome (`RecursionError`) nor in `other`; every larger fuel gives the same outcome; and whatever ANY fuel `g` that did
not run out answers (a value or an exception) is that outcome.  So "the decoder run at `codeFuel`" (what the driver
executes, and what `C02_decode_fuel_free` speaks about) is the fuel-independent meaning of the model.  Side condition
of C05's simulation: the descriptors, if given, are scalars (`FdsPlain`; ints in txdbus). -/
theorem C02_unmarshal_fuel_canonical (fds : Code.Fds) (hfds : CostVsCode.FdsPlain fds) (sig : List Char) (data : Bytes)
    (off : Nat) (le : Bool) :
    Code.unmarshal (Cost.codeFuel sig data off) sig data off le fds ≠ .error .recursion ∧
    Code.unmarshal (Cost.codeFuel sig data off) sig data off le fds ≠ .error .other ∧
    (∀ fuel, Cost.codeFuel sig data off ≤ fuel →
      Code.unmarshal fuel sig data off le fds = Code.unmarshal (Cost.codeFuel sig data off) sig data off le fds) ∧
    (∀ g, Code.unmarshal g sig data off le fds ≠ .error .recursion →
      Code.unmarshal g sig data off le fds = Code.unmarshal (Cost.codeFuel sig data off) sig data off le fds) := by
  have h0 := CostVsCode.code_fuel_gen fds hfds sig data off le _ (Nat.le_refl _)
  refine ⟨h0.1, h0.2, fun fuel hf => ?_, fun g hg => ?_⟩
  · exact CostVsCode.code_fuel_indep_gen fds hfds sig data off le _ h0.1 fuel hf
  · exact (CostVsCode.code_fuel_indep_gen fds hfds sig data off le g hg _ (Nat.le_refl _)).symm

/-! Instances (data in `FuelFreeEx`, Proofs/Wire/FuelFree.lean): signature `aa{sv}h`, values `[[{'k': [1, 2]}], 5]` - a
variant (holding an array) inside a dict inside an array inside an array, then a descriptor; BIG endian at offset 1
with the specification's alignment table. -/
section
open FuelFreeEx

/-- The hypotheses of `C02_decode_fuel_free` hold (`bsB` is what CPython's `marshal` produces; descriptor list `[5]`). -/
example : allWF ts = true ∧ Spec.encodeAll Spec.alignTable (endianOf false) ts vs 1 = some bsB ∧ pre1.length = 1 ∧
    Code.fromSpecFields (some [.int .plain 5]) vs ts = some decoded := by
  exact ⟨by decide, by decide +kernel, rfl, rfl⟩

/-- ... so the decoder, at the fuel computed from its arguments, returns 43 bytes and `[[{'k': [1, 2]}], 5]`. -/
example : Code.unmarshal (Cost.codeFuel (renderAll ts) (pre1 ++ bsB ++ suf) 1) (renderAll ts) (pre1 ++ bsB ++ suf) 1 false
    (some [.int .plain 5]) = .ok (bsB.length, decoded) := by
  exact C02_decode_fuel_free false _ ts vs 1 bsB pre1 suf decoded (by decide) (by decide +kernel) rfl rfl

/-- The hypotheses of `C02_encode_checked_fuel_free` hold, and the encoder at fuel `|sig| + |bytes| = 7 + 43` produces
`bsB`. -/
example : Code.marshal ((renderAll ts).length + bsB.length) (renderAll ts) pv 1 false (some []) =
    .ok (bsB.length, bsB, some [.int .plain 5]) :=
  C02_encode_checked_fuel_free false 20 ts pv vs [.int .plain 5] 1 bsB _ rfl (by decide +kernel) (Nat.le_refl _)

/-- The same by running the code model in the kernel (`codeFuel = 7 + (46 - 1) + 1 = 53`); at fuel 5, one below the depth
of the value, both directions answer `RecursionError`. -/
example :
    renderAll ts = sig ∧ (renderAll ts).length + bsB.length = 50 ∧ Cost.codeFuel sig (pre1 ++ bsB ++ suf) 1 = 53 ∧
    depthAll vs = 6 ∧
    (match Code.marshal 50 sig pv 1 false (some []) with
     | .ok (n, b, _) => n == 43 && b == bsB
     | .error _ => false) = true ∧
    (match Code.unmarshal 53 sig (pre1 ++ bsB ++ suf) 1 false (some [.int .plain 5]) with
     | .ok (n, vals) => n == 43 && vals.length == 2
     | .error _ => false) = true ∧
    (match Code.marshal 5 sig pv 1 false (some []) with
     | .error e => e == .recursion
     | .ok _ => false) = true ∧
    (match Code.unmarshal 5 sig (pre1 ++ bsB ++ suf) 1 false (some [.int .plain 5]) with
     | .error e => e == .recursion
     | .ok _ => false) = true := by
  decide +kernel

/-- `C02_unmarshal_fuel_canonical` on hostile input: 2 nested variants whose innermost signature is the unbalanced `(` -
`TypeError` at `codeFuel = 1 + 7 + 1 = 9`, hence (by the theorem) at every fuel that does not run out. -/
example : CostVsCode.FdsPlain (some [.int .plain 5]) ∧
    (match Code.unmarshal (Cost.codeFuel ['v'] [1, 118, 0, 1, 40, 0, 0] 0) ['v'] [1, 118, 0, 1, 40, 0, 0] 0 true
        (some [.int .plain 5]) with
     | .error e => e == .type
     | .ok _ => false) = true :=
  ⟨CostVsCode.fdsPlain_ints [5], by decide +kernel⟩

end

/-! ### the layout rules, read off the reference encoder (every alignment table, both byte orders) -/

/-- Values in sequence (message body, struct fields): zero padding up to the alignment of the type, counted
from offset 0 of the message, then the value. -/
theorem layout_fields (A : AlignTable) (e : Endian) (t : Ty) (ts : List Ty) (v : Val) (vs : List Val)
    (off : Nat) (bs : Bytes) (h : Spec.encodeFields A e (t :: ts) (v :: vs) off = some bs) :
    ∃ b r, Spec.encode A e t v (off + padLen (A t.code) off) = some b ∧
      Spec.encodeFields A e ts vs (off + padLen (A t.code) off + b.length) = some r ∧
      bs = zeros (padLen (A t.code) off) ++ b ++ r ∧
      (0 < A t.code → (off + padLen (A t.code) off) % A t.code = 0) := by
  simp only [Spec.encodeFields] at h
  split at h <;> try (simp at h; done)
  rename_i b hb
  split at h <;> try (simp at h; done)
  rename_i r hr
  simp only [Option.some.injEq] at h
  exact ⟨b, r, hb, hr, h.symm, padLen_aligned _ _⟩

/-- Array elements: each aligned the same way (the padding between elements is part of the data). -/
theorem layout_elems (A : AlignTable) (e : Endian) (el : Ty) (v : Val) (vs : List Val)
    (off : Nat) (bs : Bytes) (h : Spec.encodeElems A e el (v :: vs) off = some bs) :
    ∃ b r, Spec.encode A e el v (off + padLen (A el.code) off) = some b ∧
      Spec.encodeElems A e el vs (off + padLen (A el.code) off + b.length) = some r ∧
      bs = zeros (padLen (A el.code) off) ++ b ++ r ∧
      (0 < A el.code → (off + padLen (A el.code) off) % A el.code = 0) := by
  simp only [Spec.encodeElems] at h
  split at h <;> try (simp at h; done)
  rename_i b hb
  split at h <;> try (simp at h; done)
  rename_i r hr
  simp only [Option.some.injEq] at h
  exact ⟨b, r, hb, hr, h.symm, padLen_aligned _ _⟩

/-- ARRAY: UINT32 length, zero padding to the element alignment (not counted), the elements; the length
word is the byte length of the element data. -/
theorem layout_array (A : AlignTable) (e : Endian) (el : Ty) (vs : List Val) (off : Nat) (bs : Bytes)
    (h : Spec.encode A e (.array el) (.array vs) off = some bs) :
    ∃ body, Spec.encodeElems A e el vs (off + 4 + padLen (A el.code) (off + 4)) = some body ∧
      bs = encUInt e 4 body.length ++ zeros (padLen (A el.code) (off + 4)) ++ body ∧
      body.length ≤ 67108864 := by
  simp only [Spec.encode] at h
  split at h <;> try (simp at h; done)
  rename_i body hbody
  split at h <;> try (simp at h; done)
  rename_i hmax
  simp only [Option.some.injEq] at h
  exact ⟨body, hbody, h.symm, hmax⟩

/-- STRING / OBJECT_PATH: UINT32 length, the bytes (no NUL inside), one NUL. -/
theorem layout_string (A : AlignTable) (e : Endian) (c : Basic) (hc : c = .s ∨ c = .o) (s : Bytes)
    (off : Nat) (bs : Bytes) (h : Spec.encode A e (.basic c) (.str s) off = some bs) :
    bs = encUInt e 4 s.length ++ s ++ [0] ∧ (0 : UInt8) ∉ s := by
  simp only [Spec.encode, Spec.encBasic] at h
  rcases hc with rfl | rfl <;> simp only [Basic.shape] at h <;>
    (split at h <;> try (simp at h; done)) <;> rename_i hh <;> simp only [Option.some.injEq] at h <;>
    exact ⟨h.symm, by simpa [Spec.strOk] using hh.1⟩

/-- SIGNATURE: one length byte, the bytes, one NUL. -/
theorem layout_signature (A : AlignTable) (e : Endian) (s : Bytes) (off : Nat) (bs : Bytes)
    (h : Spec.encode A e (.basic .g) (.str s) off = some bs) :
    bs = encUInt e 1 s.length ++ s ++ [0] ∧ s.length < 256 := by
  simp only [Spec.encode, Spec.encBasic, Basic.shape] at h
  split at h <;> try (simp at h; done)
  rename_i hh
  simp only [Option.some.injEq] at h
  exact ⟨h.symm, hh.2⟩

/-- VARIANT: the signature of the content (a single complete type), then the content aligned to its own
type. -/
theorem layout_variant (A : AlignTable) (e : Endian) (t : Ty) (v : Val) (off : Nat) (bs : Bytes)
    (h : Spec.encode A e .variant (.variant t v) off = some bs) :
    ∃ body,
      let sg := encUInt e 1 t.render.length ++ Spec.sigBytes t ++ [0]
      let p := padLen (A t.code) (off + sg.length)
      Spec.encode A e t v (off + sg.length + p) = some body ∧ bs = sg ++ zeros p ++ body ∧
      (0 < A t.code → (off + sg.length + p) % A t.code = 0) := by
  simp only [Spec.encode] at h
  split at h <;> try (simp at h; done)
  split at h <;> try (simp at h; done)
  rename_i body hbody
  simp only [Option.some.injEq] at h
  exact ⟨body, hbody, h.symm, padLen_aligned _ _⟩

/-- DICT_ENTRY: the key and the value in sequence, each aligned (the entry itself is aligned to 8 by the
array that holds it, see `layout_elems`) - identical to a STRUCT of two fields. -/
theorem layout_dict_entry (A : AlignTable) (e : Endian) (kt vt : Ty) (k v : Val) (off : Nat) :
    Spec.encode A e (.dict kt vt) (.entry k v) off = Spec.encodeFields A e [kt, vt] [k, v] off := by
  simp only [Spec.encode, Spec.encodeFields]
  cases Spec.encode A e kt k (off + padLen (A kt.code) off) with
  | none => rfl
  | some kb =>
    simp only
    cases Spec.encode A e vt v (off + padLen (A kt.code) off + kb.length +
        padLen (A vt.code) (off + padLen (A kt.code) off + kb.length)) with
    | none => rfl
    | some vb => simp

/-- STRUCT: the fields in sequence (the struct itself is aligned by its parent, see `layout_fields`). -/
theorem layout_struct (A : AlignTable) (e : Endian) (fs : List Ty) (vs : List Val) (off : Nat) :
    Spec.encode A e (.struct fs) (.struct vs) off = Spec.encodeFields A e fs vs off := by
  simp only [Spec.encode]

/-- The byte order argument reaches every multi-byte integer: big endian is the reversed little endian. -/
theorem layout_byte_order (k n : Nat) (i : Int) :
    encUInt .big k n = (encUInt .little k n).reverse ∧ encSInt .big k i = (encSInt .little k i).reverse := by
  simp [encUInt, encSInt]

/-! ## State-leak round (2026-09-30): no descriptor list, and a list that earlier calls have used

`C02_encode` is stated for `marshal(.., oobFDs=[])`.  The harness now also leaves the keyword out and hands one list to
several calls.  The model is a function of its arguments (a later call cannot differ from the first); what is added here
is the byte-exactness for the other two shapes of the ARGUMENT (`Proofs/Wire/NoFds`).  `C02_decode` already holds for
every `fds`. -/

/-- `marshal(sig, values, off, lendian)` without `oobFDs`: for conforming values that hold no descriptor
(`RepFields .. false ..`) exactly the bytes of the specification; the list stays `None`. -/
theorem C02_encode_no_list (le : Bool) (ts : List Ty) (pv : PyVal) (items : List PyVal) (vs : List Val)
    (lall : List PyVal) (k' off : Nat) (bs : Bytes) (fuel : Nat)
    (hitems : Code.topItems pv = .ok items) (hrep : Code.RepFields lall vs false ts items 0 k')
    (henc : Spec.encodeAll Spec.alignTable (endianOf le) ts vs off = some bs) (hfuel : depthAll vs ≤ fuel) :
    Code.marshal fuel (renderAll ts) pv off le none = .ok (bs.length, bs, none) :=
  Code.NoFds.marshal_eq_spec_noFd Spec.alignTable Code.padOK_spec Code.alignTable_pos le ts pv items vs lall k' off bs fuel
    hitems hrep henc hfuel

/-- `marshal` entered with a list that already holds `k` descriptors (`fdl.take k`, whatever earlier calls left there):
exactly the bytes of the specification for the spec values whose descriptors are the indices `k, k+1, ..` into the
out-of-band array, the new descriptors appended behind the old ones.  (`C02_encode` is `k = 0`.) -/
theorem C02_encode_initial_list (le : Bool) (ts : List Ty) (pv : PyVal) (items : List PyVal) (vs : List Val)
    (fdl : List PyVal) (k k' off : Nat) (bs : Bytes) (fuel : Nat)
    (hitems : Code.topItems pv = .ok items) (hrep : Code.RepFields fdl vs true ts items k k')
    (henc : Spec.encodeAll Spec.alignTable (endianOf le) ts vs off = some bs) (hfuel : depthAll vs ≤ fuel) :
    Code.marshal fuel (renderAll ts) pv off le (some (fdl.take k)) = .ok (bs.length, bs, some (fdl.take k')) :=
  Code.NoFds.marshal_eq_spec_from Spec.alignTable Code.padOK_spec Code.alignTable_pos le ts pv items vs fdl k k' off bs fuel
    hitems hrep henc hfuel

/-- Satisfiable, and with the bytes spelled out: `yh`, `[Byte(7), 5]`, list `[100, 101]` at entry, little endian at offset 1:
the byte 7, two bytes of padding to offset 4, the index 2. -/
example :
    let ts : List Ty := [.basic .y, .basic .h]
    let items : List PyVal := [.int .byte 7, .int .plain 5]
    let vs : List Val := [.int 7, .int 2]
    let fdl : List PyVal := [.int .plain 100, .int .plain 101, .int .plain 5]
    Code.topItems (.list items) = .ok items ∧ Code.RepFields fdl vs true ts items 2 3 ∧
      Spec.encodeAll Spec.alignTable (endianOf true) ts vs 1 = some [7, 0, 0, 2, 0, 0, 0] := by
  refine ⟨rfl, ?_, by decide⟩
  refine ⟨_, _, _, _, 2, rfl, rfl, ?_, ?_⟩
  · simp only [Code.Rep]
    exact ⟨.y, rfl, Or.inr ⟨by decide, ⟨_, rfl⟩, rfl⟩⟩
  refine ⟨_, _, _, _, 3, rfl, rfl, ?_, ⟨rfl, rfl, rfl⟩⟩
  simp only [Code.Rep]
  exact ⟨.h, rfl, Or.inl ⟨rfl, rfl, rfl, rfl, rfl, rfl⟩⟩

end Txdbus

#print axioms Txdbus.C02_encode_no_list
#print axioms Txdbus.C02_encode_initial_list
#print axioms Txdbus.C02_alignTable
#print axioms Txdbus.C02_padding
#print axioms Txdbus.C02_encode
#print axioms Txdbus.C02_decode
#print axioms Txdbus.layout_fields
#print axioms Txdbus.layout_elems
#print axioms Txdbus.layout_array
#print axioms Txdbus.layout_string
#print axioms Txdbus.layout_signature
#print axioms Txdbus.layout_variant
#print axioms Txdbus.layout_struct
#print axioms Txdbus.layout_dict_entry
#print axioms Txdbus.C02_encode_conf
#print axioms Txdbus.C02_encode_checked
#print axioms Txdbus.C02_decode_dict
#print axioms Txdbus.C02_decode_any_fuel
#print axioms Txdbus.C02_decode_fuel_free
#print axioms Txdbus.C02_decode_dict_fuel_free
#print axioms Txdbus.C02_encode_fuel_free
#print axioms Txdbus.C02_encode_noVariant_fuel_free
#print axioms Txdbus.C02_encode_conf_fuel_free
#print axioms Txdbus.C02_encode_checked_fuel_free
#print axioms Txdbus.C02_unmarshal_fuel_canonical
#print axioms Txdbus.layout_byte_order
