/-! Property theorems for C17 (stub: none yet). -/
