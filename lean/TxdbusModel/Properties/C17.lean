/-
C17 - Remote property access honours declared type and access mode.

Code model: Obj/Props.lean (mirrors txdbus/objects.py after fixes/C17-01..04).  Specification:
Obj/PropsSpec.lean (the map (instance, interface, property) -> value and the predicates `GetAllowed`,
`SetAllowed`, `GetAllAllowed`, `AssignAllowed` written from the statement).  Reading of the code against the
specification: Obj/PropsRefine.lean (`sdeclOf`, `AttrConsistent`, `Cfg.Sound`, `GoodHist`, `Sim`).

All theorems quantify over ALL declarations `D` that elaborate (every DBusProperty binds to a property of an
interface of the object) with consistent attribute names (`AttrConsistent`) and declared signatures among the
12 basic types, `as`, `v` (`Modelled` - other container types are run through the shared codec model and only
compared with the code), ALL histories `h` of export / local assignment / remote Get / Set / GetAll in which
every Set names an interface and carries a wire value (`GoodHist`), every instance, interface name and property
name, and every configuration `cfg` of the code that is `Sound` (injective storage key + the repaired GetAll /
Set behaviour); `Cfg.repaired` is sound (`repaired_sound`).  Locally assigned values may be anything, including
instances of marshal's wrapper classes; the replies are prescribed whenever the stored value `HasType` the
declared type (a valid wrapper instance whose plain value has it counts).  The `original_*` theorems are
`decide`-checked witnesses that the code before the repairs (`Cfg.original`) violates the corresponding
statement on a concrete input (the same inputs are in corpus/C17/).
-/
import TxdbusModel.Obj.PropsRefine
import TxdbusModel.Proofs.Obj.PropsGetAll
import TxdbusModel.Proofs.Obj.PropsFamily

namespace Txdbus.Properties.C17
open Txdbus.Obj.Props Txdbus.Obj.PropsSpec

/-! ### the storage key -/

/-- The repaired key `(interface, pname)` keeps distinct (interface, property) pairs apart. -/
theorem keyPair_injective (i p i' p' : Str) (h : keyPair i p = keyPair i' p') : i = i' ∧ p = p' := by
  unfold keyPair at h
  exact ⟨congrArg Prod.fst h, congrArg Prod.snd h⟩

/-- F25: the original key `interface + pname` does not: ("org.a","bc") and ("org.ab","c") collide. -/
theorem keyConcat_collides :
    keyConcat "org.a".toList "bc".toList = keyConcat "org.ab".toList "c".toList ∧
    ("org.a".toList, "bc".toList) ≠ ("org.ab".toList, "c".toList) := by
  decide

theorem repaired_sound : Cfg.repaired.Sound :=
  ⟨keyPair_injective, rfl, rfl, rfl⟩

/-- ... so no configuration using the original key is sound. -/
theorem original_not_sound : ¬ Cfg.original.Sound := by
  intro h
  have := h.key_inj "org.a".toList "bc".toList "org.ab".toList "c".toList keyConcat_collides.1
  exact absurd this (by decide)

/-! ### tables and typing (tie to the generated tables; lemmas restated for the audit) -/

theorem accessTable_eq :
    Gen.C17Props.accessTable =
      [(false, false, (normAccess false false).name), (false, true, (normAccess false true).name),
       (true, false, (normAccess true false).name), (true, true, (normAccess true true).name)] :=
  Txdbus.Obj.Props.accessTable_eq

theorem emitsTable_eq :
    Gen.C17Props.emitsTable =
      [EmitsArg.true_, .false_, .invalidates, .const].map fun a =>
        (a.label, match normEmits a with | some e => e.name | none => "TypeError") :=
  Txdbus.Obj.Props.emitsTable_eq

theorem classMap_facts :
    Gen.C17Props.classMap.all (fun e => e.2.2 = e.1) = true ∧
    (Gen.C17Props.classMap.map fun e => (e.1, e.2.1)) =
      [('y', "int"), ('b', "int"), ('n', "int"), ('q', "int"), ('i', "int"), ('u', "int"), ('x', "int"),
       ('t', "int"), ('g', "str"), ('o', "str")] :=
  Txdbus.Obj.Props.classMap_facts

/-- The repaired Set accepts a wire value exactly when it is a value of the declared type. -/
theorem conforms_eq_hasType (sig : Str) (v : PVal) (hm : declarable sig = true)
    (hw : wireOk v = true) : conforms sig v = HasTypeSig sig v :=
  Txdbus.Obj.Props.conforms_eq_hasType sig v hm hw

/-! ### the state after any history -/

/-- After every history the code state represents the specification state: the slot of every declared
property of every instance holds the value most recently assigned to it, locally or by a successful
remote Set - nothing else ever writes it. -/
theorem reachable_state_refines_spec {D : Decls} {W : World} (hD : elaborate D = some W)
    (hA : AttrConsistent W) (hM : Modelled W) {cfg : Cfg} (hc : cfg.Sound) {h : List Op} (hg : GoodHist h) :
    Sim cfg W (Obj.Props.run cfg W h) (specRun cfg W h) :=
  run_sim (elaborate_good hD) hA hM hc hg

/-! ### 1. Get returns the last write, typed as declared -/

theorem get_returns_last_write {D : Decls} {W : World} (hD : elaborate D = some W)
    (hA : AttrConsistent W) (hM : Modelled W) {cfg : Cfg} (hc : cfg.Sound) {h : List Op} (hg : GoodHist h)
    (o : Nat) (i p : Str) (hi : i ≠ []) (ho : (specRun cfg W h).attached o = true)
    {sp : SProp} (hsp : (sdeclOf W).find i p = some sp) (hr : sp.readable = true)
    {v : PVal} (hv : (specRun cfg W h).val o i p = some v)
    (ht : HasTypeSig sp.sig v = true) :
    ∃ sg, step cfg W (Obj.Props.run cfg W h) (.get o i p) = (Obj.Props.run cfg W h, [.retV sg v.plain]) ∧
      (IsBasic sp.sig = true → sg = sp.sig) := by
  have hS := reachable_state_refines_spec hD hA hM hc hg
  have hall := opGet_allowed (elaborate_good hD) hA hS o p hi
  unfold GetAllowed at hall
  rw [hsp] at hall
  simp only [hr, if_true] at hall
  obtain ⟨sg, e, hb⟩ := hall v hv ht
  refine ⟨sg, ?_, hb⟩
  have hoa : o ∈ (Obj.Props.run cfg W h).attached := (hS.att o).mpr ho
  simp only [List.cons.injEq, and_true] at e
  simp [step, hoa, e]

/-! ### 2. the access matrix -/

theorem access_matrix {D : Decls} {W : World} (hD : elaborate D = some W)
    (hA : AttrConsistent W) (hM : Modelled W) {cfg : Cfg} (hc : cfg.Sound) {h : List Op} (hg : GoodHist h)
    (o : Nat) (i p : Str) (hi : i ≠ []) (ho : (specRun cfg W h).attached o = true) :
    let st := Obj.Props.run cfg W h
    let s := specRun cfg W h
    -- Get: a value only for a declared readable property, an error otherwise; never a state change
    (GetAllowed (sdeclOf W) s o i p (step cfg W st (.get o i p)).2 ∧ (step cfg W st (.get o i p)).1 = st) ∧
    -- Set: success (with the new state) iff declared, writeable and well typed; otherwise an error reply
    -- and the state is unchanged
    (∀ v, wireOk v = true →
      SetAllowed (sdeclOf W) o i p v (step cfg W st (.set o i p v)).2 ∧
      (IsErr (step cfg W st (.set o i p v)).2 → (step cfg W st (.set o i p v)).1 = st) ∧
      Sim cfg W (step cfg W st (.set o i p v)).1 (next (sdeclOf W) s (.set o i p v) (step cfg W st (.set o i p v)).2)) ∧
    -- GetAll: an error for an interface the object does not have; never a state change
    (GetAllAllowed (sdeclOf W) s o i (step cfg W st (.getAll o i)).2 ∧
      (step cfg W st (.getAll o i)).1 = st) := by
  intro st s
  have hW := elaborate_good hD
  have hS : Sim cfg W st s := reachable_state_refines_spec hD hA hM hc hg
  have hoa : o ∈ st.attached := (hS.att o).mpr ho
  refine ⟨⟨?_, step_fst_get cfg W st o i p⟩, ?_, ?_, step_fst_getAll cfg W st o i⟩
  · have : (step cfg W st (.get o i p)).2 = [opGet cfg W st o i p] := by simp [step, hoa]
    rw [this]; exact opGet_allowed hW hA hS o p hi
  · intro v hw
    have : step cfg W st (.set o i p v) = opSet cfg W st o i p v := by simp [step, hoa]
    rw [this]
    obtain ⟨a, b, c⟩ := opSet_step hW hA hM hc hS hoa p hi hw
    exact ⟨b, c, a⟩
  · have : (step cfg W st (.getAll o i)).2 = [opGetAll cfg W st o i] := by simp [step, hoa]
    rw [this]; exact opGetAll_allowed hW hA hc hS o hi

/-! ### 3. GetAll is exact, across the inheritance chain -/

/-- `GetAllAllowed`: an error for an interface the object does not have; any dictionary returned has exactly
the readable declared properties of `i` as keys (each once, over all classes of the chain, never a
write-only one) with the right typed values (unconditionally); and a dictionary IS returned when all readable
properties of `i` hold values of their types. -/
theorem getall_exact {D : Decls} {W : World} (hD : elaborate D = some W)
    (hA : AttrConsistent W) (hM : Modelled W) {cfg : Cfg} (hc : cfg.Sound) {h : List Op} (hg : GoodHist h)
    (o : Nat) (i : Str) (hi : i ≠ []) (ho : (specRun cfg W h).attached o = true) :
    GetAllAllowed (sdeclOf W) (specRun cfg W h) o i
      (step cfg W (Obj.Props.run cfg W h) (.getAll o i)).2 ∧
    (step cfg W (Obj.Props.run cfg W h) (.getAll o i)).1 = Obj.Props.run cfg W h :=
  (access_matrix hD hA hM hc hg o i [] hi ho).2.2

/-! ### 4. PropertiesChanged -/

/-- A local assignment through a declared attribute emits exactly one PropertiesChanged naming the
interface, the property and the new value when the property's mode is `true` (the instance being exported and
the value one that can be sent), nothing when the mode is anything else; never more than one signal.  (For a
remote Set the same is part of `access_matrix` through `SetAllowed`.) -/
theorem changed_signal {D : Decls} {W : World} (hD : elaborate D = some W)
    (hA : AttrConsistent W) (hM : Modelled W) {cfg : Cfg} (hc : cfg.Sound) {h : List Op} (hg : GoodHist h)
    (o : Nat) (a : Str) (v : PVal) :
    AssignAllowed (sdeclOf W) (specRun cfg W h) o a v
      (step cfg W (Obj.Props.run cfg W h) (.assign o a v)).2 ∧
    ((step cfg W (Obj.Props.run cfg W h) (.assign o a v)).2.filter isSignal).length ≤ 1 :=
  ⟨(assign_step hc (reachable_state_refines_spec hD hA hM hc hg) o a v).2, assign_signal_count _ _ _ _ _ _⟩

/-! ### the hypotheses are satisfiable: a two-class chain with colliding names -/

def sA : Str := "org.a".toList
def sAB : Str := "org.ab".toList
def sBC : Str := "bc".toList
def sC : Str := "c".toList
def sRO : Str := "ro".toList

/-- Base declares `ro` (read-only string) for org.a; Derived declares `bc` for org.a and `c` for org.ab, both
read-write int32 emitting changes; Derived lists both interfaces. -/
def exDecls : Decls :=
  [ { ifaces := [⟨sA, [(sBC, ⟨sBC, ['i'], .readwrite, .yes⟩), (sRO, ⟨sRO, ['s'], .read, .no⟩)]⟩,
                 ⟨sAB, [(sC, ⟨sC, ['i'], .readwrite, .yes⟩)]⟩],
      descs := [⟨"p_bc".toList, sBC, some sA⟩, ⟨"p_c".toList, sC, none⟩] },
    { ifaces := [], descs := [⟨"p_ro".toList, sRO, some sA⟩] } ]

def exWorld : World := (elaborate exDecls).getD ⟨[], [], []⟩

theorem exWorld_elab : elaborate exDecls = some exWorld := by decide

theorem exWorld_attrConsistent : AttrConsistent exWorld := by
  unfold AttrConsistent; decide

def exHist : List Op :=
  [.assign 0 "p_bc".toList (.int 1), .assign 0 "p_c".toList (.int 2), .assign 0 "p_ro".toList (.str ['x']),
   .export 0, .set 0 sA sBC (.int 7), .set 0 sA sBC (.str ['z']), .set 0 sA sRO (.str ['y'])]

theorem exWorld_modelled : Modelled exWorld := by
  unfold Modelled; decide

theorem exHist_good : GoodHist exHist := by
  unfold GoodHist; decide

/-- The repaired model on that input: Get(org.a, bc) = 7 as 'i' (the wrong-typed and the read-only Set
were refused), Get(org.ab, c) = 2, GetAll(org.a) = {bc, ro} across both classes, GetAll(org.zzz) an error. -/
example :
    (step Cfg.repaired exWorld (Obj.Props.run Cfg.repaired exWorld exHist) (.get 0 sA sBC)).2 = [.retV ['i'] (.int 7)] ∧
    (step Cfg.repaired exWorld (Obj.Props.run Cfg.repaired exWorld exHist) (.get 0 sAB sC)).2 = [.retV ['i'] (.int 2)] ∧
    (step Cfg.repaired exWorld (Obj.Props.run Cfg.repaired exWorld exHist) (.getAll 0 sA)).2 =
      [.retD [(sBC, ['i'], .int 7), (sRO, ['s'], .str ['x'])]] ∧
    (step Cfg.repaired exWorld (Obj.Props.run Cfg.repaired exWorld exHist) (.getAll 0 "org.zzz".toList)).2 =
      [.err .unknownIface] ∧
    (specRun Cfg.repaired exWorld exHist).val 0 sA sBC = some (.int 7) := by
  decide

/-! ### witnesses: the code before the repairs violates the statements (F25, F26, F32, wrong-typed Set) -/

/-- F25: after `p_bc = 1; p_c = 2` the original code answers Get(org.a, bc) with 2. -/
theorem original_violates_get_returns_last_write :
    (step Cfg.original exWorld (Obj.Props.run Cfg.original exWorld (exHist.take 4)) (.get 0 sA sBC)).2 =
      [.retV ['i'] (.int 2)] ∧
    (specRun Cfg.original exWorld (exHist.take 4)).val 0 sA sBC = some (.int 1) := by
  decide

/-- F26: the original GetAll(org.a) stops at the derived class and omits the base class's `ro`. -/
theorem original_getall_misses_base_class :
    (step { Cfg.original with key := keyPair } exWorld
      (Obj.Props.run { Cfg.original with key := keyPair } exWorld (exHist.take 4)) (.getAll 0 sA)).2 =
      [.retD [(sBC, ['i'], .int 1)]] ∧
    (sdeclOf exWorld).find sA sRO = some ⟨"p_ro".toList, sA, sRO, ['s'], true, false, false⟩ := by
  decide

/-- F32: the original GetAll of an interface the object does not have answers an empty dictionary. -/
theorem original_getall_unknown_interface_empty :
    (step Cfg.original exWorld (Obj.Props.run Cfg.original exWorld (exHist.take 4))
      (.getAll 0 "org.zzz".toList)).2 = [.retD []] ∧
    "org.zzz".toList ∉ (sdeclOf exWorld).ifaces := by
  decide

/-- Wrong-typed Set: the original code stores the string 'z' in the int32 property, answers success (and
emits PropertiesChanged), and the next Get fails. -/
theorem original_set_wrong_type_then_get_fails :
    (step { Cfg.original with key := keyPair } exWorld
      (Obj.Props.run { Cfg.original with key := keyPair } exWorld (exHist.take 4))
      (.set 0 sA sBC (.str ['z']))).2 = [.signal 0 sA sBC ['s'] (.str ['z']), .ret] ∧
    (step { Cfg.original with key := keyPair } exWorld
      (Obj.Props.run { Cfg.original with key := keyPair } exWorld (exHist.take 4 ++ [.set 0 sA sBC (.str ['z'])]))
      (.get 0 sA sBC)).2 = [.err .value] := by
  decide

/-! ### 5. class families: objects of several classes of one chain alive together (Obj/PropsFamily.lean)

The class-level state of the code (one interface cache per class, built by whichever instance walks it first;
the `DBusProperty` objects of a class are shared by all its subclasses) is explicit in `FSt` and shared by the
whole history.  `stable D`: every class of the chain can bind its own `DBusProperty` objects, and every class
derived from it binds them to the same declaration.  Then, for ALL well-formed family histories (instances of
any classes of the chain, created and used in any order): -/

/-- What an object answers depends only on the chain of ITS class and on the operations applied to IT: the
outputs of its operations inside any family history are the outputs of the one-chain model `Props.step` for
`D.drop k` (its own class and that class's bases) on its own operations alone - whatever was done, before or in
between, to objects of other classes of the family, and whichever instance built the shared class caches. -/
theorem family_object_independent {D : Decls} (hS : stable D = true) (cfg : Cfg) (h : List FOp)
    (hwf : wf D [] h = true) (o k : Nat) (hk : classIn o h = some k) :
    ∃ W, elaborate (D.drop k) = some W ∧
      projOuts o (ftrace cfg D (FSt.init D) h) = Obj.Props.trace cfg W St.init (projOps o h) :=
  family_proj hS cfg h hwf o k hk

/-- ... so every theorem above holds for every object of a family, read against the declarations of its own
class.  Spelled out for Get: after any family history, Get of a property that the object's own class chain
declares readable, last written (on THIS object) with a value of the declared type, answers that value, typed
as declared - e.g. although an object of a base class was asked for the same pair before and rightly answered
an error. -/
theorem family_get_returns_last_write {D : Decls} (hS : stable D = true) {cfg : Cfg} (hc : cfg.Sound)
    (h : List FOp) (o k : Nat) (i p : Str)
    (hwf : wf D [] (h ++ [.op (.get o i p)]) = true) (hk : classIn o h = some k)
    {W : World} (hW : elaborate (D.drop k) = some W) (hA : AttrConsistent W) (hM : Modelled W)
    (hg : GoodHist (projOps o h)) (hi : i ≠ [])
    (ho : (specRun cfg W (projOps o h)).attached o = true)
    {sp : SProp} (hsp : (sdeclOf W).find i p = some sp) (hr : sp.readable = true)
    {v : PVal} (hv : (specRun cfg W (projOps o h)).val o i p = some v)
    (ht : HasTypeSig sp.sig v = true) :
    ∃ sg, (projOuts o (ftrace cfg D (FSt.init D) (h ++ [.op (.get o i p)]))).getLast? =
        some [.retV sg v.plain] ∧ (IsBasic sp.sig = true → sg = sp.sig) := by
  obtain ⟨W', hW', hp⟩ := family_proj hS cfg _ hwf o k (classIn_append _ hk)
  have : W' = W := Option.some.inj (hW'.symm.trans hW)
  subst this
  obtain ⟨sg, hstep, hb⟩ := get_returns_last_write hW hA hM hc hg o i p hi ho hsp hr hv ht
  refine ⟨sg, ?_, hb⟩
  rw [hp, projOps_snoc o (.get o i p) rfl, trace_snoc]
  have : (step cfg W' (Obj.Props.runFrom cfg W' St.init (projOps o h)) (.get o i p)).2 =
      [.retV sg v.plain] := by
    have := congrArg Prod.snd hstep
    simpa [Obj.Props.run] using this
  simp [this]

/-- The demonstration family: Base declares (org.demo.Base, Name); Derived(Base) adds (org.demo.Ext, Level). -/
def famDecls : Decls :=
  [ { ifaces := [⟨"org.demo.Ext".toList, [("Level".toList, ⟨"Level".toList, ['i'], .readwrite, .no⟩)]⟩],
      descs := [⟨"level".toList, "Level".toList, none⟩] },
    { ifaces := [⟨"org.demo.Base".toList, [("Name".toList, ⟨"Name".toList, ['s'], .readwrite, .no⟩)]⟩],
      descs := [⟨"name".toList, "Name".toList, some "org.demo.Base".toList⟩] } ]

theorem famDecls_stable : stable famDecls = true := by decide

/-- Object 0 of the base class (level 1) and object 1 of the derived class (level 0); the base object is asked
first for the pair only the derived class declares. -/
def famHist : List FOp :=
  [.new 0 1, .op (.assign 0 "name".toList (.str ['b'])), .op (.export 0),
   .new 1 0, .op (.assign 1 "name".toList (.str ['d'])), .op (.assign 1 "level".toList (.int 7)),
   .op (.export 1),
   .op (.get 0 "org.demo.Ext".toList "Level".toList), .op (.get 1 "org.demo.Ext".toList "Level".toList),
   .op (.set 1 "org.demo.Ext".toList "Level".toList (.int 9)),
   .op (.get 1 "org.demo.Ext".toList "Level".toList), .op (.getAll 0 "org.demo.Ext".toList)]

theorem famHist_wf : wf famDecls [] famHist = true := by decide

example :
    projOuts 0 (ftrace Cfg.repaired famDecls (FSt.init famDecls) famHist) =
      [[.done], [.done], [.err .unknownProp], [.err .unknownIface]] ∧
    projOuts 1 (ftrace Cfg.repaired famDecls (FSt.init famDecls) famHist) =
      [[.done], [.done], [.done], [.retV ['i'] (.int 7)], [.ret], [.retV ['i'] (.int 9)]] := by
  decide

def famWorld : World := (elaborate famDecls).getD ⟨[], [], []⟩

/-- The hypotheses of `family_get_returns_last_write` are satisfiable: the derived-class object 1 after the
first eight operations of `famHist` (the base-class object has just been asked for (org.demo.Ext, Level) and
has answered an error). -/
example : ∃ sg,
    (projOuts 1 (ftrace Cfg.repaired famDecls (FSt.init famDecls)
      (famHist.take 8 ++ [.op (.get 1 "org.demo.Ext".toList "Level".toList)]))).getLast? =
        some [.retV sg (PVal.int 7).plain] ∧ (IsBasic ['i'] = true → sg = ['i']) :=
  family_get_returns_last_write (D := famDecls) famDecls_stable repaired_sound (famHist.take 8) 1 0
    "org.demo.Ext".toList "Level".toList (by decide) (by decide) (W := famWorld) (by decide)
    (by unfold AttrConsistent; decide) (by unfold Modelled; decide) (by unfold GoodHist; decide) (by decide)
    (by decide) (sp := ⟨"level".toList, "org.demo.Ext".toList, "Level".toList, ['i'], true, true, false⟩)
    (by decide) rfl (v := .int 7) (by decide) (by decide)

/-- Without `stable` the order of creation matters (the known finding sibling-classes-share-descriptor, here
along one chain): the base class declares `xu = DBusProperty('Xu')` for its interface org.zz.Base; the derived
class lists an interface org.aa.First that has a property `Xu` too.  When the base-class object walks the
class caches first, its Get(org.zz.Base, Xu) answers the value; when a derived-class object was created first,
the shared descriptor is bound to org.aa.First and the same Get on the same base-class object answers an
error. -/
def unstableDecls : Decls :=
  [ { ifaces := [⟨"org.aa.First".toList, [("Xu".toList, ⟨"Xu".toList, ['s'], .readwrite, .no⟩)]⟩],
      descs := [] },
    { ifaces := [⟨"org.zz.Base".toList, [("Xu".toList, ⟨"Xu".toList, ['i'], .readwrite, .no⟩)]⟩],
      descs := [⟨"xu".toList, "Xu".toList, none⟩] } ]

theorem unstable_family_order_matters :
    stable unstableDecls = false ∧
    projOuts 0 (ftrace Cfg.repaired unstableDecls (FSt.init unstableDecls)
      [.new 0 1, .new 1 0, .op (.assign 0 "xu".toList (.int 5)), .op (.export 0),
       .op (.get 0 "org.zz.Base".toList "Xu".toList)]) = [[.done], [.done], [.retV ['i'] (.int 5)]] ∧
    projOuts 0 (ftrace Cfg.repaired unstableDecls (FSt.init unstableDecls)
      [.new 1 0, .new 0 1, .op (.assign 0 "xu".toList (.int 5)), .op (.export 0),
       .op (.get 0 "org.zz.Base".toList "Xu".toList)]) = [[.done], [.done], [.err .unknownProp]] := by
  decide

end Txdbus.Properties.C17

#print axioms Txdbus.Properties.C17.keyPair_injective
#print axioms Txdbus.Properties.C17.keyConcat_collides
#print axioms Txdbus.Properties.C17.repaired_sound
#print axioms Txdbus.Properties.C17.original_not_sound
#print axioms Txdbus.Properties.C17.accessTable_eq
#print axioms Txdbus.Properties.C17.emitsTable_eq
#print axioms Txdbus.Properties.C17.classMap_facts
#print axioms Txdbus.Properties.C17.conforms_eq_hasType
#print axioms Txdbus.Properties.C17.reachable_state_refines_spec
#print axioms Txdbus.Properties.C17.get_returns_last_write
#print axioms Txdbus.Properties.C17.access_matrix
#print axioms Txdbus.Properties.C17.getall_exact
#print axioms Txdbus.Properties.C17.changed_signal
#print axioms Txdbus.Properties.C17.exWorld_elab
#print axioms Txdbus.Properties.C17.exWorld_attrConsistent
#print axioms Txdbus.Properties.C17.exWorld_modelled
#print axioms Txdbus.Properties.C17.exHist_good
#print axioms Txdbus.Properties.C17.original_violates_get_returns_last_write
#print axioms Txdbus.Properties.C17.original_getall_misses_base_class
#print axioms Txdbus.Properties.C17.original_getall_unknown_interface_empty
#print axioms Txdbus.Properties.C17.original_set_wrong_type_then_get_fails
#print axioms Txdbus.Properties.C17.family_object_independent
#print axioms Txdbus.Properties.C17.family_get_returns_last_write
#print axioms Txdbus.Properties.C17.famDecls_stable
#print axioms Txdbus.Properties.C17.famHist_wf
#print axioms Txdbus.Properties.C17.unstable_family_order_matters
