import TxdbusModel.Base.ExceptEq
import TxdbusModel.Proofs.Client.LifecycleLost
import TxdbusModel.Proofs.Client.LifecycleCancel
import TxdbusModel.Proofs.Client.LifecycleWalk
import TxdbusModel.Proofs.Client.EndpointsSpec
import TxdbusModel.Proofs.Client.LifecycleHandshake
import TxdbusModel.Properties.C07
/-!
Property C09 - connecting always concludes; a lost connection fails all pending work once.

Code model: `TxdbusModel/Client/Lifecycle.lean` (`step`, `run`, `connect`; variant `.repaired` = /repo after
fixes/C09-01..05) and `TxdbusModel/Client/Endpoints.lean`.  Every theorem quantifies over ALL event
histories `h : List Ev` (no bound on length, on the number of calls, callbacks or proxies) and thereby over
all reaction assignments: the reaction of every call / callback is part of the event that creates it.
-/
namespace Txdbus.Client.Lifecycle
open Txdbus.Client.Endpoints

/-! ## C09.1  the connect Deferred fires at most once, and has fired as soon as the attempt concluded -/

/-- Over every event history: the Deferred returned by `connect` has fired at most once; it has fired
exactly when the attempt is over; it fired with the connection exactly when Hello succeeded; and it HAS
fired as soon as the history contains a Hello reply, a Hello error, a transport close in any phase, an
authentication failure, or the failure of the last address of the list (`concludes`) - and stays fired;
what it fired with is decided by the event that concluded the attempt (`resultOf`): the connection if and
only if that event is a Hello reply carrying a bus name, the matching failure otherwise - whatever comes
later; with no usable address at all it fires at once. -/
theorem connect_fires_once (eps : List Endpoint) (h : List Ev) :
    (run .repaired (connect eps) h).fired.length ≤ 1 ∧
    ((run .repaired (connect eps) h).phase.concluded = true ↔ (run .repaired (connect eps) h).fired.length = 1) ∧
    ((run .repaired (connect eps) h).fired = [.connection] ↔
      ((run .repaired (connect eps) h).phase = .ready ∨ (run .repaired (connect eps) h).phase = .lost)) ∧
    (∀ (h₁ : List Ev) (e : Ev) (h₂ : List Ev), h = h₁ ++ e :: h₂ →
      concludes (run .repaired (connect eps) h₁) e = true → (run .repaired (connect eps) h).fired.length = 1) ∧
    -- cause and kind: the event that concludes the attempt decides what the Deferred fired with, for good
    (∀ (h₁ : List Ev) (e : Ev) (h₂ : List Ev), h = h₁ ++ e :: h₂ →
      concludes (run .repaired (connect eps) h₁) e = true →
      (run .repaired (connect eps) h₁).phase.concluded = false →
      (run .repaired (connect eps) h).fired = [resultOf e] ∧
      ((run .repaired (connect eps) h).fired = [.connection] ↔ e = .helloReply true)) ∧
    (eps = [] → (run .repaired (connect eps) h).fired.length = 1) := by
  obtain ⟨hi, _⟩ := reachable_inv eps h
  have hle : (run .repaired (connect eps) h).fired.length ≤ 1 := by
    cases hc : (run .repaired (connect eps) h).phase.concluded with
    | true => exact Nat.le_of_eq (hi.done hc)
    | false => simp [hi.notYet hc]
  refine ⟨hle, ⟨hi.done, ?_⟩, ⟨?_, hi.kind⟩, ?_, ?_, ?_⟩
  · intro hl
    cases hc : (run .repaired (connect eps) h).phase.concluded with
    | true => rfl
    | false => simp [hi.notYet hc] at hl
  · intro hf
    by_cases hp : (run .repaired (connect eps) h).phase = .ready ∨ (run .repaired (connect eps) h).phase = .lost
    · exact hp
    · exact absurd (by simp [hf]) (hi.notConn hp)
  · intro h₁ e h₂ hh hc
    subst hh
    rw [run_append]
    simp only [run]
    obtain ⟨hi₁, _⟩ := reachable_inv eps h₁
    have h1 := concludes_step _ e hi₁ hc
    have h2 := concluded_run h₂ _ h1
    have hi₂ := inv1_run h₂ _ (inv1_step _ e hi₁)
    exact hi₂.done h2
  · intro h₁ e h₂ hh hc hn
    subst hh
    obtain ⟨hi₁, _⟩ := reachable_inv eps h₁
    have hfe : (run .repaired (connect eps) (h₁ ++ e :: h₂)).fired = [resultOf e] := by
      rw [run_append]
      simp only [run]
      rw [fired_stable_run h₂ _ (inv1_step _ e hi₁) (concludes_step _ e hi₁ hc), conclude_fired _ e hi₁ hc hn]
    refine ⟨hfe, ?_⟩
    rw [hfe]
    constructor
    · intro hr
      have hr' : resultOf e = .connection := by simpa using hr
      cases e with
      | helloReply named => cases named <;> simp_all [resultOf]
      | _ => simp [resultOf] at hr'
    · intro he; subst he; rfl
  · intro he
    subst he
    exact (inv1_run h _ (inv1_connect [])).done (concluded_run h _ (by simp [connect, fire, St.empty, Phase.concluded]))

/-! ## C09.2  addresses are tried in listed order; the first reachable one is used -/

/-- `tagged` is the address list with, for each address, the outcome of a connection attempt on it:
it connects, or it fails - with ANY kind of failure (`FailKind`: refused, another ConnectError, a DNS
lookup error, a timeout, anything else); every failing address is an unreachable address.
Running `connect` against that reactor tries exactly the unreachable addresses that precede the first
reachable one, in listed order, then that one, and uses it; when none is reachable the Deferred fails
(ConnectError) and nothing is in use. -/
theorem first_reachable_in_order (tagged : List (Endpoint × Outcome)) :
    attempts (run .repaired (connect (tagged.map (·.1))) (tagged.map (fun t => walkEv t.2))) =
      (tagged.takeWhile (fun t => !t.2.ok)).map (·.1) ++ ((tagged.find? (·.2.ok)).map (·.1)).toList ∧
    (match tagged.find? (·.2.ok) with
     | some t =>
       (run .repaired (connect (tagged.map (·.1))) (tagged.map (fun t => walkEv t.2))).phase = .authenticating ∧
       (run .repaired (connect (tagged.map (·.1))) (tagged.map (fun t => walkEv t.2))).current = some t.1 ∧
       (run .repaired (connect (tagged.map (·.1))) (tagged.map (fun t => walkEv t.2))).fired = []
     | none =>
       (run .repaired (connect (tagged.map (·.1))) (tagged.map (fun t => walkEv t.2))).phase = .exhausted ∧
       (run .repaired (connect (tagged.map (·.1))) (tagged.map (fun t => walkEv t.2))).current = none ∧
       (run .repaired (connect (tagged.map (·.1))) (tagged.map (fun t => walkEv t.2))).fired =
         [if tagged.isEmpty then .noAddress else .unreachable]) := by
  have := walk_connect tagged
  unfold expectedAttempts at this
  exact this

/-- From the address STRING to the attempts: for a well-formed list whose entries are tagged with the outcome of
an attempt on them, `connect` on the parsed list tries the entries before the first reachable one, then that one,
in the order in which they are written. -/
theorem written_addresses_tried_in_order (env : Env) (tagged : List (SpecEntry × Outcome))
    (hwf : ∀ t ∈ tagged, t.1.WF) :
    ∃ eps, getDBusEndpoints env (renderList (tagged.map (·.1))) = .ok eps ∧
      attempts (run .repaired (connect eps) (tagged.map (fun t => walkEv t.2))) =
        ((tagged.takeWhile (fun t => !t.2.ok)).map (·.1.endpoint)) ++
          ((tagged.find? (·.2.ok)).map (·.1.endpoint)).toList := by
  refine ⟨(tagged.map (·.1)).map SpecEntry.endpoint, ?_, ?_⟩
  · exact parse_renderList env _ (fun e he => by
      obtain ⟨t, ht, rfl⟩ := List.mem_map.mp he
      exact hwf t ht)
  · have h := (first_reachable_in_order (tagged.map (fun t => (t.1.endpoint, t.2)))).1
    simp only [List.map_map] at h
    have e1 : (List.map ((fun x => x.1) ∘ fun t : SpecEntry × Outcome => (t.1.endpoint, t.2)) tagged) =
        List.map (SpecEntry.endpoint ∘ fun x => x.1) tagged := rfl
    have e2 : (List.map ((fun t => walkEv t.2) ∘ fun t : SpecEntry × Outcome => (t.1.endpoint, t.2)) tagged) =
        List.map (fun t => walkEv t.2) tagged := rfl
    rw [e1, e2] at h
    rw [List.map_map, h]
    clear h e1 e2
    induction tagged with
    | nil => rfl
    | cons t rest ih =>
      cases hb : t.2.ok
      · simp [List.takeWhile, List.find?, hb]
        have := ih (fun x hx => hwf x (List.mem_cons_of_mem _ hx))
        simpa using this
      · simp [List.takeWhile, List.find?, hb]

/-- (A COROLLARY of `written_addresses_tried_in_order`, not an independent fact: `connectMany` is a `map` of
`connectOne`, so the independence of the connects of one process is the SHAPE of the definition - the code model of
`client.connect` / `getDBusEndpoints` has no state to thread.  That the code keeps none either is an ASSUMPTION, tied
to the source in two ways: the translator probes `getDBusEndpoints` for state between calls and reads its source for
decorators, mutable defaults, globals and module-level containers (`Gen.C09Endpoints.keepsNoState`, a conjunct of
`endpoint_prefix_table`), and the stream `lifecycle-reconnect` / `lifecycle-two-live` run several connects in one
process on one reactor.)
EVERY connect of a process, not only its first: a process calls `client.connect` any number of times with the
same well-formed address string (`connectMany`: a reconnect after a loss, connections side by side), and the reactor
answers the attempts of the k-th connect with the outcomes `rounds[k]` (one per listed entry, whatever they are).
Then every one of these connects parses the string to the same full list and tries the entries before the first
one that is reachable THIS time, then that one, in the order in which they are written - what earlier connects
tried, used up or connected to has no influence. -/
theorem every_connect_tries_in_written_order (env : Env) (es : List SpecEntry) (hwf : ∀ e ∈ es, e.WF)
    (rounds : List (List Outcome)) (hlen : ∀ os ∈ rounds, os.length = es.length) :
    (connectMany .repaired env (renderList es) (rounds.map (fun os => os.map walkEv))).map (fun r => r.map attempts) =
      rounds.map (fun os => .ok
        ((((es.zip os).takeWhile (fun t => !t.2.ok)).map (·.1.endpoint)) ++
          (((es.zip os).find? (·.2.ok)).map (·.1.endpoint)).toList)) := by
  unfold connectMany
  rw [List.map_map, List.map_map]
  apply List.map_congr_left
  intro os hos
  have hl := hlen os hos
  obtain ⟨eps, hp, ha⟩ := written_addresses_tried_in_order env (es.zip os)
    (fun t ht => hwf t.1 (List.of_mem_zip ht).1)
  have h1 : (es.zip os).map (·.1) = es := List.map_fst_zip (by omega)
  have h2 : (es.zip os).map (fun t => walkEv t.2) = os.map walkEv := by
    have : (es.zip os).map (·.2) = os := List.map_snd_zip (by omega)
    calc (es.zip os).map (fun t => walkEv t.2) = ((es.zip os).map (·.2)).map walkEv := by rw [List.map_map]; rfl
      _ = os.map walkEv := by rw [this]
  rw [h1] at hp
  rw [h2] at ha
  simp only [Function.comp, connectOne, hp, Except.map]
  rw [ha]

/-- Three connects of one process with the same two-entry address string: first entry down / both up / none up. -/
example :
    (connectMany .repaired { session := none, system := none, pid := ['7'] } "unix:path=/a;tcp:host=h,port=12".toList
      [[.attemptFails .refused, .attemptConnects, .authOk, .helloReply true, .close], [.attemptConnects],
       [.attemptFails .timeout, .attemptFails .other]]).map (fun r => r.map (fun s => ((attempts s).length, s.fired))) =
    [.ok (2, [.connection]), .ok (1, []), .ok (2, [.unreachable])] := by decide

/-! ## C09.3  a lost connection fails all pending work once -/

/-- In phase ready (after ANY history, hence for all assignments of the six reactions - nothing, new call,
unregister itself, register another callback, RAISE an exception, obtain a new proxy - to the calls and
callbacks, and for every set of calls whose Deferred the CALLER has cancelled meanwhile, `Ev.cancelCall`),
the transport close
`connectionLost(reason)` appends `newLog` to the observable effects, in which
 * every call that was pending and that its caller has not cancelled (an outstanding call) has exactly one
   firing of its Deferred, and that firing is the errback
   with the loss (`.lost` = the reason itself for a user call; IntrospectionFailed wrapping it for the
   Introspect call behind `getRemoteObject`);
 * a pending call whose Deferred the caller has cancelled (it fired with CancelledError then, the entry and its
   timer stayed in the table) is not fired again: nothing fires on it;
 * the timer of every pending call that has one - cancelled by its caller or not - is cancelled exactly once,
   no other timer is touched, and no DelayedCall remains in the reactor;
 * every connection-level disconnect callback runs exactly once;
 * every disconnect callback of every live proxy - created from explicit interfaces or by
   introspection alike - runs exactly once;
 * the connect Deferred does not fire again;
and afterwards no event of the environment (timers, transport, peer) changes anything at all. -/
theorem lost_fails_everything_once (eps : List Endpoint) (h : List Ev)
    (hready : (run .repaired (connect eps) h).phase = .ready) :
    ∃ newLog : List Fx,
      (step .repaired (run .repaired (connect eps) h) .close).log = (run .repaired (connect eps) h).log ++ newLog ∧
      (∀ c ∈ (run .repaired (connect eps) h).pending,
          (c.cancelled = false →
            newLog.countP (Fx.completes c.serial) = 1 ∧
            Fx.callErr c.serial (errKindOf c.kind) ∈ newLog ∧
            (∀ r, c.kind = .user r → Fx.callErr c.serial .lost ∈ newLog)) ∧
          (c.cancelled = true → newLog.countP (Fx.completes c.serial) = 0) ∧
          newLog.count (Fx.timerCancelled c.serial) = if c.timed then 1 else 0) ∧
      (step .repaired (run .repaired (connect eps) h) .close).timers = [] ∧
      (∀ cb ∈ (run .repaired (connect eps) h).dcCallbacks, newLog.count (Fx.connCb cb.id) = 1) ∧
      (∀ p ∈ (run .repaired (connect eps) h).proxies, p.alive = true →
          ∀ cb ∈ p.cbs, newLog.count (Fx.proxyCb p.id cb.id) = 1) ∧
      (step .repaired (run .repaired (connect eps) h) .close).fired = (run .repaired (connect eps) h).fired ∧
      (step .repaired (run .repaired (connect eps) h) .close).phase = .lost ∧
      (∀ later : List Ev, (∀ e ∈ later, e.isEnv = true) →
          run .repaired (step .repaired (run .repaired (connect eps) h) .close) later =
            step .repaired (run .repaired (connect eps) h) .close) := by
  obtain ⟨hi, hw⟩ := reachable_inv eps h
  generalize run .repaired (connect eps) h = s at *
  have hr : ReadyOk s := hw.ready hready
  have hb : s.busName = true := hi.bus.mpr (Or.inl hready)
  have hstep : step .repaired s .close = lost3 s := by
    simp [step, St.transportOpen, hready, connectionLost_ready_eq s hb]
  rw [hstep]
  refine ⟨lossLog s, lost3_log s hr, ?_, lost3_timers s hr, loss_conncb_once s hr,
    fun p hp ha cb hcb => loss_proxycb_once s hr p hp ha cb hcb, (lost3_basic s).2.1, (lost3_basic s).1, ?_⟩
  · intro c hc
    refine ⟨?_, loss_cancelled_call_silent s hr c hc, loss_timer_once s hr c hc⟩
    intro hnc
    obtain ⟨h1, h2⟩ := loss_call_once s hr c hc hnc
    refine ⟨h1, h2, ?_⟩
    intro r hk
    simpa [hk, errKindOf] using h2
  · intro later hl
    exact lost_quiet_run later _ (lost3_basic s).1 (lost3_timers s hr) hl

/-- Which pending calls count as "cancelled by their caller" in `lost_fails_everything_once`: over every
history, an entry of the pending table of a ready connection carries the mark only if its Deferred has fired with
CancelledError earlier in the history (the effect `callErr serial .cancelled`, which the model produces for
`Ev.cancelCall serial` and for nothing else - txdbus itself never cancels a caller's Deferred).  So the loss
fails exactly the calls nobody has concluded yet, and is silent on exactly those their caller concluded. -/
theorem cancelled_only_by_caller (eps : List Endpoint) (h : List Ev)
    (hready : (run .repaired (connect eps) h).phase = .ready) :
    ∀ c ∈ (run .repaired (connect eps) h).pending, c.cancelled = true →
      Fx.callErr c.serial .cancelled ∈ (run .repaired (connect eps) h).log :=
  reachable_cancelOk eps h (by rw [hready]; decide)

/-! ## Table facts (the table is regenerated from txdbus/endpoints.py on every run) -/

/-- Facts about the generated tables that the parser theorems rest on (row-wise, so that an additional
transport row does not break them): the rows for unix:, tcp: and nonce-tcp: are there with these kinds, strip
exactly their prefix, and only nonce-tcp sets a flag; every row that can yield an endpoint strips exactly its
prefix; the path rules are path > tmpdir > abstract; separators and special words as in the DBus specification. -/
theorem endpoint_prefix_table :
    (['u','n','i','x',':'], ['u','n','i','x'], 5, none) ∈ Txdbus.Gen.C09Endpoints.prefixTable ∧
    (['t','c','p',':'], ['t','c','p'], 4, none) ∈ Txdbus.Gen.C09Endpoints.prefixTable ∧
    (['n','o','n','c','e','-','t','c','p',':'], ['t','c','p'], 10, some ['n','o','n','c','e','-','t','c','p']) ∈
      Txdbus.Gen.C09Endpoints.prefixTable ∧
    (∀ r ∈ Txdbus.Gen.C09Endpoints.prefixTable,
      (r.2.1 = Txdbus.Gen.C09Endpoints.unixKind ∨ r.2.1 = Txdbus.Gen.C09Endpoints.tcpKind) → r.2.2.1 = r.1.length) ∧
    Txdbus.Gen.C09Endpoints.unixPathRules.map (·.1) = [['p','a','t','h'], ['t','m','p','d','i','r'], ['a','b','s','t','r','a','c','t']] ∧
    (Txdbus.Gen.C09Endpoints.entrySep, Txdbus.Gen.C09Endpoints.componentSep, Txdbus.Gen.C09Endpoints.keyValueSep) =
      (';', ',', '=') ∧
    (Txdbus.Gen.C09Endpoints.sessionWord, Txdbus.Gen.C09Endpoints.systemWord) =
      (['s','e','s','s','i','o','n'], ['s','y','s','t','e','m']) ∧
    -- `getDBusEndpoints` keeps nothing between calls (probe + AST reading by the translator): what `connectMany` assumes
    Txdbus.Gen.C09Endpoints.keepsNoState = true := by decide

/-- The parser against the DBus specification's notation (nothing in `SpecEntry`, `render`, `renderList`,
`endpoint`, `WF` looks at the parser): a well-formed address list - unix path / abstract, tcp, nonce-tcp entries
whose values contain none of `; , =` and whose ports are non-empty digit strings, joined by ';' - parses to
exactly the endpoints of its entries, in listed order (no entry dropped, duplicated or reordered).  With
`first_reachable_in_order` below: the addresses are tried in the order in which they are written. -/
theorem address_list_in_listed_order (env : Env) (es : List SpecEntry) (hwf : ∀ e ∈ es, e.WF) :
    getDBusEndpoints env (renderList es) = .ok (es.map SpecEntry.endpoint) :=
  parse_renderList env es hwf

example : (SpecEntry.nonceTcp ['h'] [1, 2] ['/', 'n']).WF := by simp [SpecEntry.WF, plain]
example : ∀ e ∈ [SpecEntry.unixPath ['/', 'a'], SpecEntry.tcp ['h'] [8, 0]], e.WF := by simp [SpecEntry.WF, plain]

/-- A three-entry list of the three kinds parses to its entries, in listed order. -/
theorem endpoints_example :
    getDBusEndpoints { session := none, system := none, pid := ['7'] }
      "unix:path=/a;tcp:host=h,port=12;nonce-tcp:host=g,port=3,noncefile=/n".toList =
    .ok [ { target := .unix "/a".toList, args := [("path".toList, .str "/a".toList)] },
          { target := .tcp "h".toList 12, args := [("host".toList, .str "h".toList), ("port".toList, .str "12".toList)] },
          { target := .tcp "g".toList 3,
            args := [("nonce-tcp".toList, .true), ("host".toList, .str "g".toList), ("port".toList, .str "3".toList),
                     ("noncefile".toList, .str "/n".toList)] } ] := by decide

/-! ## The hypotheses are satisfiable; the theorems say something on concrete histories -/

def exEp : Endpoint := { target := .tcp ['h'] 1, args := [] }
def exUnix : Endpoint := { target := .unix ['/', 'b'], args := [] }

/-- A ready connection with two calls in flight (one timed, one that retries), two connection-level
callbacks (the first unregisters itself), an explicit and an introspected proxy of the same object. -/
def exHistory : List Ev :=
  [.attemptFails .dnsLookup, .attemptConnects, .authProgress, .authOk, .helloReply true,
   .notify .unregisterSelf, .notify .nothing, .call true .newCall, .call false .registerAnother,
   .proxyExplicit 7, .proxyIntrospect 7, .reply 3 true, .proxyNotify 0 .unregisterSelf, .proxyNotify 0 .nothing,
   .proxyNotify 1 .newCall]

example : (run .repaired (connect [exUnix, exEp]) exHistory).phase = .ready := by decide
example : (run .repaired (connect [exUnix, exEp]) exHistory).pending.length = 2 := by decide
example : concludes (run .repaired (connect [exEp]) [.attemptConnects]) .close = true := by decide
/-- A DNS failure, then a plain exception, then a timeout: the walk reaches the fourth address. -/
example : (run .repaired (connect [exEp, exUnix, exEp, exUnix])
    [.attemptFails .dnsLookup, .attemptFails .other, .attemptFails .timeout, .attemptConnects]).current = some exUnix := by decide
example : (run .repaired (connect [exEp, exUnix]) [.attemptFails .dnsLookup, .attemptFails .other]).fired = [.unreachable] := by
  decide
example : ((run .repaired (connect [exUnix, exEp]) (exHistory ++ [.close])).log.drop 4) =
    [.connCb 0, .connCb 1, .timerCancelled 1, .callErr 1 .lost, .callErr 2 .lost,
     .proxyCb 0 2, .proxyCb 0 3, .proxyCb 1 4] := by decide

/-- The caller cancels the Deferreds of two outstanding calls (one with a timeout, one without) and of a
`getRemoteObject` that is waiting for its Introspect reply; a third call stays outstanding.  The cancellations
fire CancelledError at once and leave the table and the reactor alone; the loss then cancels BOTH timers, fails
only the outstanding call, and leaves no DelayedCall behind. -/
example :
    let s := run .repaired (connect [exEp]) [.attemptConnects, .authOk, .helloReply true, .call true .newCall,
      .call false .nothing, .call true .nothing, .proxyIntrospect 0, .cancelCall 1, .cancelCall 2, .cancelCall 4, .cancelCall 1]
    let s' := step .repaired s .close
    s.log.drop 2 = [.callErr 1 .cancelled, .callErr 2 .cancelled, .callErr 4 .cancelled] ∧ s.timers = [1, 3] ∧
    s.pending.map (fun c => (c.serial, c.cancelled)) = [(1, true), (2, true), (3, false), (4, true)] ∧
    s'.log.drop 5 = [.timerCancelled 1, .timerCancelled 3, .callErr 3 .lost] ∧ s'.timers = [] ∧ s'.pending = [] := by
  decide

/-- A reply, an error reply or the timeout that arrives for a Deferred the caller has cancelled is swallowed (the
entry is deleted, the timer cancelled / gone; an Introspect reply makes no proxy). -/
example :
    let s := run .repaired (connect [exEp]) [.attemptConnects, .authOk, .helloReply true, .call true .nothing,
      .call true .nothing, .proxyIntrospect 0, .cancelCall 1, .cancelCall 2, .cancelCall 3, .reply 1 true, .expire 2,
      .reply 3 true]
    s.log.drop 2 = [.callErr 1 .cancelled, .callErr 2 .cancelled, .callErr 3 .cancelled, .timerCancelled 1] ∧
    s.pending = [] ∧ s.timers = [] ∧ s.proxies = [] := by decide

/-- Callbacks that obtain a new proxy (explicit interfaces, registered synchronously) while `connectionLost`
runs: a proxy made by a connection-level callback (or an errback) is in the registry before the registry walk
starts and its callback runs in it; a proxy made by a proxy callback during the walk is not part of that walk
(the walk is over `valuerefs()`, a snapshot); every original callback still runs exactly once. -/
example :
    ((run .repaired (connect [exEp]) [.attemptConnects, .authOk, .helloReply true, .notify .newProxy, .call false .newProxy,
        .proxyExplicit 0, .proxyNotify 0 .newProxy, .proxyExplicit 0, .proxyNotify 1 .nothing, .close]).log.drop 2) =
      [.connCb 0, .callErr 1 .lost, .proxyCb 0 1, .proxyCb 1 2, .proxyCb 2 3, .proxyCb 3 4] := by decide

/-! ## Witnesses: the unrepaired code (variant `.original`) violates the property at these inputs -/

/-- F13: the transport closes during authentication and the connect Deferred never fires. -/
theorem prefix_model_violates_connect_fires :
    concludes (run .original (connect [exEp]) [.attemptConnects]) .close = true ∧
    (run .original (connect [exEp]) [.attemptConnects, .close]).fired = [] ∧
    (run .repaired (connect [exEp]) [.attemptConnects, .close]).fired = [.lostEarly] := by decide

/-- F13, other points: after an authentication failure; before the Hello reply. -/
theorem prefix_model_violates_connect_fires_other :
    (run .original (connect [exEp]) [.attemptConnects, .authFailed]).fired = [] ∧
    (run .original (connect [exEp]) [.attemptConnects, .authOk, .close]).fired = [] := by decide

/-- F31: an errback that issues a new call while the pending table is walked: the walk dies, the second
call is never failed, its timer stays in the reactor, the proxy callback never runs. -/
theorem prefix_model_violates_lost_dict_changed_size :
    let h := [.attemptConnects, .authOk, .helloReply true, .call false .newCall, .call true .nothing,
              .proxyIntrospect 0, .reply 3 true, .proxyNotify 0 .nothing, .close]
    let s := run .original (connect [exEp]) h
    Fx.crashed ∈ s.log ∧ s.log.countP (Fx.completes 2) = 0 ∧ s.timers = [2] ∧ s.log.count (Fx.proxyCb 0 0) = 0 ∧
    (run .repaired (connect [exEp]) h).log.countP (Fx.completes 2) = 1 ∧
    (run .repaired (connect [exEp]) h).timers = [] ∧
    (run .repaired (connect [exEp]) h).log.count (Fx.proxyCb 0 0) = 1 := by decide

/-- F14 (first half): the disconnect callback of a proxy created from explicit interfaces never runs. -/
theorem prefix_model_violates_explicit_proxy :
    let h := [.attemptConnects, .authOk, .helloReply true, .proxyExplicit 0, .proxyNotify 0 .nothing, .close]
    (run .original (connect [exEp]) h).log.count (Fx.proxyCb 0 0) = 0 ∧
    (run .repaired (connect [exEp]) h).log.count (Fx.proxyCb 0 0) = 1 := by decide

/-- F14 (second half): two live introspected proxies of the same object share one registry slot; the
first one is never told. -/
theorem prefix_model_violates_shared_slot :
    let h := [.attemptConnects, .authOk, .helloReply true, .proxyIntrospect 5, .reply 1 true, .proxyIntrospect 5,
              .reply 2 true, .proxyNotify 0 .nothing, .proxyNotify 1 .nothing, .close]
    (run .original (connect [exEp]) h).log.count (Fx.proxyCb 0 0) = 0 ∧
    (run .original (connect [exEp]) h).log.count (Fx.proxyCb 1 1) = 1 ∧
    (run .repaired (connect [exEp]) h).log.count (Fx.proxyCb 0 0) = 1 ∧
    (run .repaired (connect [exEp]) h).log.count (Fx.proxyCb 1 1) = 1 := by decide

/-- New finding: a disconnect callback that unregisters itself makes the next one be skipped
(connection level and proxy level). -/
theorem prefix_model_violates_self_unregister :
    let h := [.attemptConnects, .authOk, .helloReply true, .notify .unregisterSelf, .notify .nothing, .close]
    (run .original (connect [exEp]) h).log.count (Fx.connCb 1) = 0 ∧
    (run .repaired (connect [exEp]) h).log.count (Fx.connCb 1) = 1 := by decide

/-- Review finding 1 (C09-06): on the tree with C09-01..05 only, a connection-level disconnect callback that
raises aborts `connectionLost`: the callback registered after it never runs, the pending call is never
failed, its timer stays in the reactor; likewise a raising proxy callback keeps the next proxy from being told. -/
theorem prefix_model_violates_raising_callback :
    let h := [.attemptConnects, .authOk, .helloReply true, .notify .raises, .notify .nothing, .call true .nothing, .close]
    let s := run .fiveFixes (connect [exEp]) h
    Fx.crashed ∈ s.log ∧ s.log.count (Fx.connCb 1) = 0 ∧ s.log.countP (Fx.completes 1) = 0 ∧ s.timers = [1] ∧
    (run .repaired (connect [exEp]) h).log.count (Fx.connCb 1) = 1 ∧
    (run .repaired (connect [exEp]) h).log.countP (Fx.completes 1) = 1 ∧
    (run .repaired (connect [exEp]) h).timers = [] ∧
    (let h' := [.attemptConnects, .authOk, .helloReply true, .proxyExplicit 0, .proxyNotify 0 .raises, .proxyExplicit 1,
                .proxyNotify 1 .nothing, .close]
     (run .fiveFixes (connect [exEp]) h').log.count (Fx.proxyCb 1 1) = 0 ∧
     (run .repaired (connect [exEp]) h').log.count (Fx.proxyCb 1 1) = 1) := by decide

/-- Review finding 2 (C09-07): a Hello reply without a bus name.  Before the repair the Deferred fires with a
"connection" whose busName is None: its loss takes the early return - the pending call is never failed, no
callback runs.  After the repair the attempt fails. -/
theorem prefix_model_violates_hello_without_name :
    let h := [.attemptConnects, .authOk, .helloReply false, .notify .nothing, .call false .nothing, .close]
    let s := run .fiveFixes (connect [exEp]) h
    s.fired = [.connection] ∧ s.log.count (Fx.connCb 0) = 0 ∧ s.log.countP (Fx.completes 1) = 0 ∧ s.pending.length = 1 ∧
    (run .repaired (connect [exEp]) h).fired = [.helloNoName] := by decide

/-! ## C09 x C07  the connect Deferred concludes THROUGH the handshake

Composed model `Client/ConnectAuth.lean`: one connection attempt = C07's client protocol model (`AuthClient.Proto`,
`connectionMade`, `dataReceived`) fed with the reads of server bytes, its outcome handed to the lifecycle model of this
property as events (`authOk` when the handshake completes and Hello is sent; `authFailed` = the client's own
`loseConnection` followed by the reactor's `connectionLost`; `close` = the peer closes; the Hello outcome decoded from
the binary bytes - also those that arrived in the same read as the last handshake line).  In `connect_fires_once` the
authentication events are free; here they are generated. -/

end Txdbus.Client.Lifecycle

namespace Txdbus.Client.ConnectAuth
open Txdbus.Client.Endpoints Txdbus.Client.Lifecycle
open Txdbus.AuthClient (Bytes clientRun)

/-- For EVERY configuration of the client (preference list, transport kind, cookie environment), every decoder of
the binary stream, every address walk `h0` that ended with an address connecting, and EVERY list of transport
steps (reads of any bytes cut anywhere, `lost` at any point, any number of times) - with
`s` the composed state afterwards:

 * refinement: `s.life` is the run of the lifecycle model over `h0` followed by the GENERATED events `s.evs`, which
   are exactly `expectedEvs s` (`authOk` iff C07's model ended authenticated, then the Hello outcome, then the
   loss - `authFailed` iff the client itself had closed); `s.proto` is the run of C07's model over the delivered
   reads, which are a prefix of the offered reads (all of them while the transport still delivers);
 * the Hello outcome is tied to the input: `(s.hello, s.raised) = binSpec cfg s.delivered`, where `binSpec` (ConnectAuth.lean;
   it mentions neither `step` nor `lost` nor the lifecycle model) runs C07's model over the delivered reads and applies
   `decode` / `crash` to exactly the binary streams on which binary mode ran: after every read of an authenticated
   client AND after the hand-off read when it left bytes behind (`if rest: self.dataReceived(rest)`); the outcome is the
   FIRST answer of `decode`.  A glue model that skipped the hand-off read, or never set the outcome, falsifies this conjunct;
 * the connect Deferred has fired at most once, and it has fired exactly when the attempt is terminated: the
   transport was lost (a `lost` step, or `raised`: bytes on which binary mode raises, instead of or after the Hello
   answer), or Hello was answered;
 * what it fired with is `firedSpec s`: the connection iff C07's model ended authenticated AND the Hello reply with
   a bus name arrived (an authenticated client is one that wrote BEGIN); in every other terminated run a failure:
   the loss if the transport went away before any Hello answer - the client closed (mechanisms exhausted, line
   outside the protocol, over-long line) and the reactor followed up, or the peer closed before OK, or between OK and
   the Hello reply -, the Hello error, the missing name;
 * and it stays that way whatever steps follow.

NOT claimed, because it is false without an assumption on the environment: that every run terminates (hence the
name: "fired IFF terminated", not "concludes").  A server that neither answers nor closes leaves `s.terminated = false`
and then nothing has fired (`firedSpec` = []) - txdbus has no timeout on the handshake or on Hello, so such a peer
leaves `connect()` pending forever; so does a reactor that does not follow the client's `loseConnection` with
`connectionLost` (assumption T4 of ConnectAuth.lean - Twisted does, once the write buffer has drained).  A success
theorem under a conforming server is `connect_succeeds_against_spec_server` below. -/
theorem connect_fired_iff_terminated_through_handshake (cfg : Cfg) (hv : cfg.v = .repaired)
    (eps : List Endpoint) (h0 : List Lifecycle.Ev)
    (hph : (Lifecycle.run .repaired (connect eps) h0).phase = .authenticating) (steps : List Step) :
    let s := run cfg (init cfg (Lifecycle.run .repaired (connect eps) h0)) steps
    -- the two components are runs of the two models; the events are generated
    (s.life = Lifecycle.run .repaired (connect eps) (h0 ++ s.evs) ∧ s.evs = expectedEvs s ∧
     s.proto = clientRun cfg.pref cfg.unix cfg.envAt s.delivered ∧ s.delivered <+: readsOf steps ∧
     (receiving s = true → s.delivered = readsOf steps)) ∧
    -- exactly once, iff terminated
    (s.life.fired.length ≤ 1 ∧ (s.life.fired.length = 1 ↔ s.terminated = true) ∧
     (s.lost = true ↔ (Step.lost ∈ steps ∨ s.raised = true))) ∧
    -- the Hello outcome and the escaping exception are functions of the delivered reads, `decode` and `crash`
    ((⟨s.hello, s.raised⟩ : BinObs) = binSpec cfg s.delivered ∧ (s.raised = true → s.hello.isSome = true) ∧
     (∀ o, s.hello = some o → ∃ b, cfg.decode b = some o)) ∧
    -- with what
    (s.life.fired = firedSpec s ∧
     (s.life.fired = [.connection] ↔ (s.proto.authenticated = true ∧ s.hello = some .named)) ∧
     (s.hello.isSome = true → s.proto.authenticated = true) ∧
     (s.proto.authenticated = true ↔ AuthClient.Ev.send (b!"BEGIN") ∈ s.proto.trace) ∧
     (s.terminated = true → s.hello ≠ some .named → ∃ r, s.life.fired = [r] ∧ r ≠ .connection)) ∧
    -- for good
    (∀ more : List Step, s.terminated = true → (run cfg s more).life.fired = s.life.fired) := by
  intro s
  obtain ⟨hi0, _⟩ := reachable_inv eps h0
  have hinv : Inv cfg (Lifecycle.run .repaired (connect eps) h0) s := inv_run steps (inv_init cfg _)
  have hbin : BinInv cfg s := binv_run steps (inv_init cfg _) (binv_init cfg _)
  have hfired : s.life.fired = firedSpec s := fired_of_inv hinv hv hi0 hph
  have hauthHello : s.hello.isSome = true → s.proto.authenticated = true := hinv.helloAuth
  refine ⟨⟨?_, hinv.evsEq, hinv.protoEq, ?_, ?_⟩, ⟨?_, ?_, ?_⟩, ⟨hbin.binEq, hbin.raisedHello, hbin.helloFrom⟩,
    ⟨hfired, ?_, hauthHello, ?_, ?_⟩, ?_⟩
  · rw [hinv.lifeEq, hv, Lifecycle.run_append]
  · obtain ⟨k, hk⟩ := delivered_prefix (cfg := cfg) steps (init cfg (Lifecycle.run .repaired (connect eps) h0))
    have : s.delivered = [] ++ (readsOf steps).take k := hk
    rw [List.nil_append] at this
    rw [this]
    exact List.take_prefix _ _
  · intro hr
    have : s.delivered = [] ++ readsOf steps :=
      delivered_all (cfg := cfg) steps (init cfg (Lifecycle.run .repaired (connect eps) h0)) hr
    rw [List.nil_append] at this
    exact this
  · rw [hfired]; unfold firedSpec; split <;> (try split) <;> simp
  · rw [hfired]; unfold firedSpec St.terminated
    cases hh : s.hello with
    | none => cases hl : s.lost <;> simp
    | some o => cases o <;> simp
  · constructor
    · intro hl
      rcases run_lost_cause steps (s := init cfg (Lifecycle.run .repaired (connect eps) h0)) hl with h1 | h1 | h1
      · simp [init] at h1
      · exact Or.inl h1
      · exact Or.inr h1
    · rintro (h1 | h1)
      · exact run_lost_of_mem steps h1
      · exact hbin.raisedLost h1
  · rw [hfired]; unfold firedSpec
    cases hh : s.hello with
    | none => cases hl : s.lost <;> simp
    | some o =>
      have := hauthHello (by simp [hh])
      cases o <;> simp [this]
  · have hb := AuthClient.invB_clientRun cfg.pref cfg.unix cfg.envAt s.delivered
    rw [← hinv.protoEq] at hb
    exact hb.authIff
  · intro ht hn
    rw [hfired]; unfold firedSpec
    unfold St.terminated at ht
    cases hh : s.hello with
    | none =>
      have : s.lost = true := by simpa [hh] using ht
      exact ⟨.lostEarly, by simp [this], by simp⟩
    | some o =>
      cases o with
      | named => exact absurd hh hn
      | unnamed => exact ⟨_, rfl, by simp⟩
      | error => exact ⟨_, rfl, by simp⟩
      | garbage => exact ⟨_, rfl, by simp⟩
  · intro more ht
    have hinv' : Inv cfg (Lifecycle.run .repaired (connect eps) h0) (run cfg s more) := inv_run more hinv
    rw [fired_of_inv hinv' hv hi0 hph, hfired]
    unfold St.terminated at ht
    cases hh : s.hello with
    | some o => unfold firedSpec; rw [run_hello_stable more hh, hh]; cases o <;> rfl
    | none =>
      have hl : s.lost = true := by simpa [hh] using ht
      rw [run_of_lost more hl]

/-- C07's model says WHEN the client closes the connection itself: a server that rejects every mechanism
(`rejected_by_every_mechanism_closes`, below), a line outside the protocol (C07 `unknown_line_closes`), REJECTED or
ERROR with nothing left (C07 `exhaustion_closes`), an over-long line.  For every list of reads `chunks` after which
C07's client model has called `loseConnection` (any bytes, any cuts): in the composed model the client has closed
without authenticating, the transport delivers nothing further, and
 * as long as the reactor does not call `connectionLost` NOTHING fires (the shape of F13's silence; the missing
   assumption T4 is exactly this call),
 * and as soon as it does (`lost`, whatever follows) the connect Deferred has fired, once, with the failure
   (`lostEarly`: the reason the transport closed with), through the event `authFailed` of the lifecycle model. -/
theorem refused_authentication_fails_connect (cfg : Cfg) (hv : cfg.v = .repaired)
    (eps : List Endpoint) (h0 : List Lifecycle.Ev)
    (hph : (Lifecycle.run .repaired (connect eps) h0).phase = .authenticating) (chunks : List Bytes)
    (hclosed : (clientRun cfg.pref cfg.unix cfg.envAt chunks).disconnecting = true) :
    let s := run cfg (init cfg (Lifecycle.run .repaired (connect eps) h0)) (chunks.map Step.read)
    (s.proto.disconnecting = true ∧ s.proto.authenticated = false ∧ s.lost = false ∧ s.life.fired = []) ∧
    (∀ more : List Step, Step.lost ∉ more → (run cfg s more).life.fired = []) ∧
    (∀ more : List Step, (run cfg s (Step.lost :: more)).life.fired = [.lostEarly] ∧
      (run cfg s (Step.lost :: more)).evs = [.authFailed]) := by
  intro s
  obtain ⟨hi0, _⟩ := reachable_inv eps h0
  have hinv : Inv cfg (Lifecycle.run .repaired (connect eps) h0) s := inv_run _ (inv_init cfg _)
  have hex := clientRun_exclusive cfg.pref cfg.unix cfg.envAt s.delivered
  rw [← hinv.protoEq] at hex
  -- the delivered reads are a prefix of `chunks`
  obtain ⟨k, hk⟩ := delivered_prefix (cfg := cfg) (chunks.map Step.read) (init cfg (Lifecycle.run .repaired (connect eps) h0))
  have hdel : s.delivered = chunks.take k := by
    have : s.delivered = [] ++ (readsOf (chunks.map Step.read)).take k := hk
    rw [List.nil_append, readsOf_map_read] at this
    exact this
  have hmono := clientRun_mono cfg.pref cfg.unix cfg.envAt (chunks.take k) (chunks.drop k)
  rw [List.take_append_drop, ← hdel, ← hinv.protoEq] at hmono
  have hnl : s.lost = false := by
    cases hl : s.lost with
    | false => rfl
    | true =>
      rcases run_lost_cause (chunks.map Step.read) (s := init cfg (Lifecycle.run .repaired (connect eps) h0)) hl with h1 | h1 | h1
      · simp [init] at h1
      · exact absurd h1 (lost_not_mem_map_read chunks)
      · have hbin : BinInv cfg s := binv_run _ (inv_init cfg _) (binv_init cfg _)
        have ha := hinv.helloAuth (hbin.raisedHello h1)
        exact absurd ⟨hclosed, hmono.2 ha⟩ (clientRun_exclusive cfg.pref cfg.unix cfg.envAt chunks)
  have hd : s.proto.disconnecting = true := by
    cases hr : receiving s with
    | true =>
      have hall : s.delivered = [] ++ readsOf (chunks.map Step.read) :=
        delivered_all (cfg := cfg) (chunks.map Step.read) (init cfg (Lifecycle.run .repaired (connect eps) h0)) hr
      rw [List.nil_append, readsOf_map_read] at hall
      have hp := hinv.protoEq
      rw [hall] at hp
      rw [hp]; exact hclosed
    | false =>
      simpa [receiving, hnl] using hr
  have ha : s.proto.authenticated = false := by
    cases h : s.proto.authenticated with
    | false => rfl
    | true => exact absurd ⟨hd, h⟩ hex
  have hh : s.hello = none := by
    cases h : s.hello with
    | none => rfl
    | some o => have := hinv.helloAuth (by simp [h]); simp [ha] at this
  have hnr : receiving s = false := by simp [receiving, hd]
  refine ⟨⟨hd, ha, hnl, ?_⟩, ?_, ?_⟩
  · rw [fired_of_inv hinv hv hi0 hph]; simp [firedSpec, hh, hnl]
  · intro more hm
    have hinv' : Inv cfg (Lifecycle.run .repaired (connect eps) h0) (run cfg s more) := inv_run more hinv
    obtain ⟨_, _, _, h4⟩ := run_not_receiving (cfg := cfg) more hnr
    have hl' : (run cfg s more).lost = false := by
      cases hl : (run cfg s more).lost with
      | false => rfl
      | true =>
        rcases run_lost_cause more hl with h1 | h1 | h1
        · simp [hnl] at h1
        · exact absurd h1 hm
        · have hbin' : BinInv cfg (run cfg s more) := binv_run more hinv (binv_run _ (inv_init cfg _) (binv_init cfg _))
          have := hbin'.raisedHello h1
          rw [h4, hh] at this; cases this
    rw [fired_of_inv hinv' hv hi0 hph]
    simp [firedSpec, h4, hh, hl']
  · intro more
    have hstep : (step cfg s .lost).lost = true := step_lost_sets s
    have hrun : run cfg s (Step.lost :: more) = step cfg s .lost := by
      simp only [run]; exact run_of_lost more hstep
    have hinv' : Inv cfg (Lifecycle.run .repaired (connect eps) h0) (step cfg s .lost) := inv_step hinv .lost
    rw [hrun]
    have e1 : (step cfg s .lost).hello = none := by simp [step, hnl, feed, hh]
    have e2 : (step cfg s .lost).proto = s.proto := by simp [step, hnl, feed]
    constructor
    · rw [fired_of_inv hinv' hv hi0 hph]; simp [firedSpec, e1, hstep]
    · rw [hinv'.evsEq]; simp [expectedEvs, e1, e2, hstep, ha, hd]

/-- "The server rejects every mechanism", literally: for every preference list, transport kind and environment, a
server that answers `REJECTED` to each AUTH line makes the client close (C07's model), and then - given the
reactor's `connectionLost` - the connect Deferred of the attempt fails; before that call nothing has fired. -/
theorem rejected_by_every_mechanism_fails_connect (cfg : Cfg) (hv : cfg.v = .repaired)
    (eps : List Endpoint) (h0 : List Lifecycle.Ev)
    (hph : (Lifecycle.run .repaired (connect eps) h0).phase = .authenticating) :
    let rejections := (List.replicate cfg.pref.length REJ).map Step.read
    (run cfg (init cfg (Lifecycle.run .repaired (connect eps) h0)) rejections).proto.disconnecting = true ∧
    (run cfg (init cfg (Lifecycle.run .repaired (connect eps) h0)) rejections).life.fired = [] ∧
    (run cfg (init cfg (Lifecycle.run .repaired (connect eps) h0)) (rejections ++ [Step.lost])).life.fired = [.lostEarly] := by
  have h := refused_authentication_fails_connect cfg hv eps h0 hph (List.replicate cfg.pref.length REJ)
    (rejected_by_every_mechanism_closes cfg.pref cfg.unix cfg.envAt)
  simp only at h
  refine ⟨h.1.1, h.1.2.2.2, ?_⟩
  rw [run_append]
  exact (h.2.2 []).1

/-- SUCCESS, general form.  For every list of reads `chunks` after which C07's client model is authenticated and
has not closed: if whatever the binary stream holds is at most a Hello reply carrying a name (`decode` answers
`named` or nothing), and it does hold one after the last read (and that read left binary mode something to look
at), then the connect Deferred of the attempt has fired, once, with the connection. -/
theorem connect_succeeds_when_handshake_completes (cfg : Cfg) (hv : cfg.v = .repaired)
    (eps : List Endpoint) (h0 : List Lifecycle.Ev)
    (hph : (Lifecycle.run .repaired (connect eps) h0).phase = .authenticating) (chunks : List Bytes)
    (hauth : (clientRun cfg.pref cfg.unix cfg.envAt chunks).authenticated = true)
    (hopen : (clientRun cfg.pref cfg.unix cfg.envAt chunks).disconnecting = false)
    (hdec : ∀ b, cfg.decode b = none ∨ cfg.decode b = some .named)
    (hlast : cfg.decode (clientRun cfg.pref cfg.unix cfg.envAt chunks).binary = some .named)
    (hne : (clientRun cfg.pref cfg.unix cfg.envAt chunks).binary ≠ []) :
    (run cfg (init cfg (Lifecycle.run .repaired (connect eps) h0)) (chunks.map Step.read)).life.fired = [.connection] := by
  obtain ⟨hi0, _⟩ := reachable_inv eps h0
  have hinv : Inv cfg (Lifecycle.run .repaired (connect eps) h0)
      (run cfg (init cfg (Lifecycle.run .repaired (connect eps) h0)) (chunks.map Step.read)) := inv_run _ (inv_init cfg _)
  rw [fired_of_inv hinv hv hi0 hph]
  unfold firedSpec
  rw [hello_named_of_chunks chunks hauth hopen hdec hlast hne]

/-- SUCCESS against a conforming server (C07's liveness composed in): the reference server of C07
(`Auth/SpecServerRef.lean`: any set of accepted mechanisms that contains one the client can use, either answer to
NEGOTIATE_UNIX_FD, any GUID / cookie / challenge that fits the line limit), its answers cut into reads in ANY way
(`cut`), followed by reads `hr` (any cuts) that complete a Hello reply carrying a bus name: the connect Deferred
fires, once, with the connection.  Hypotheses about the server's side = those of C07's
`completes_against_spec_server_bytes`; about the binary stream: it holds at most a named Hello reply. -/
theorem connect_succeeds_against_spec_server (cut : Bytes → List Bytes) (hcut : ∀ x, (cut x).flatten = x)
    (unix : Bool) (scfg : AuthClient.SpecServer.Cfg) (env : AuthClient.Env) (guid : Bytes)
    (hguid : guid ≠ [] ∧ scfg.guidHex = AuthClient.hexlify guid ∧ 2 * guid.length + 3 ≤ AuthClient.maxAuth)
    (hchallenge : scfg.accepts .cookie = true →
      5 + 2 * (scfg.cookieCtx.length + 1 + (scfg.cookieId.length + 1 + scfg.challenge.length)) ≤ AuthClient.maxAuth)
    (haccepts : scfg.accepts .external = true ∨ scfg.accepts .anonymous = true ∨
      (scfg.accepts .cookie = true ∧ AuthClient.CookieUsable scfg env))
    (decode : Bytes → Option HelloOutcome) (crash : Bytes → Bool)
    (eps : List Endpoint) (h0 : List Lifecycle.Ev)
    (hph : (Lifecycle.run .repaired (connect eps) h0).phase = .authenticating) (hr : List Bytes)
    (hdec : ∀ b, decode b = none ∨ decode b = some .named) (hne : hr.flatten ≠ [])
    (hlast : decode ((clientRun Txdbus.Gen.ClientAuth.preference unix (fun _ => env)
        (specServerReads cut Txdbus.Gen.ClientAuth.preference unix scfg (fun _ => env) 16)).binary ++ hr.flatten) = some .named) :
    let cfg : Cfg := { v := .repaired, pref := Txdbus.Gen.ClientAuth.preference, unix := unix, envAt := fun _ => env,
                       decode := decode, crash := crash }
    (run cfg (init cfg (Lifecycle.run .repaired (connect eps) h0))
      ((specServerReads cut Txdbus.Gen.ClientAuth.preference unix scfg (fun _ => env) 16 ++ hr).map Step.read)).life.fired
      = [.connection] := by
  intro cfg
  have hc := AuthClient.completes_against_spec_server_bytes cut hcut unix scfg env guid hguid hchallenge haccepts
  unfold AuthClient.Completed at hc
  rw [handshakeBytes_client] at hc
  obtain ⟨hca, _, hcd⟩ := hc
  have hrun : clientRun cfg.pref cfg.unix cfg.envAt
      (specServerReads cut Txdbus.Gen.ClientAuth.preference unix scfg (fun _ => env) 16 ++ hr) =
      { clientRun Txdbus.Gen.ClientAuth.preference unix (fun _ => env)
          (specServerReads cut Txdbus.Gen.ClientAuth.preference unix scfg (fun _ => env) 16) with
        binary := (clientRun Txdbus.Gen.ClientAuth.preference unix (fun _ => env)
          (specServerReads cut Txdbus.Gen.ClientAuth.preference unix scfg (fun _ => env) 16)).binary ++ hr.flatten } := by
    show clientRun Txdbus.Gen.ClientAuth.preference unix (fun _ => env) _ = _
    unfold clientRun
    rw [List.foldl_append]
    exact AuthClient.foldl_binary _ hr _ hca
  apply connect_succeeds_when_handshake_completes cfg rfl eps h0 hph
  · rw [hrun]; exact hca
  · rw [hrun]; exact hcd
  · exact hdec
  · rw [hrun]; exact hlast
  · rw [hrun]
    intro h
    have : hr.flatten = [] := (List.append_eq_nil_iff.mp h).2
    exact hne this

/-! ### the hypotheses are satisfiable; concrete attempts -/

def exEnv : AuthClient.Env :=
  { user := b!"root", dirStat := none, file := fun _ => none, rnd := [1, 2, 3, 4, 5, 6, 7, 8],
    sha1 := fun x => x.take 2, errText := fun _ => b!"e" }

/-- The answer to Hello is complete once 4 binary bytes are there (a stand-in for the framing of C04). -/
def exCfg (v : Lifecycle.Variant) (unix : Bool) (o : HelloOutcome) : Cfg :=
  { v := v, pref := Txdbus.Gen.ClientAuth.preference, unix := unix, envAt := fun _ => exEnv,
    decode := fun b => if b.length ≥ 4 then some o else none,
    -- a complete message that does not parse: 4 more bytes, the first of which is 'X'
    crash := fun b => b.length ≥ 8 && b[4]? == some 88 }

/-- An address walk that ends with an address connecting: the hypothesis `hph` of the theorems. -/
example : (Lifecycle.run .repaired (connect [exUnix, exEp]) [.attemptFails .refused, .attemptConnects]).phase = .authenticating := by
  decide

/-- EXTERNAL refused, DBUS_COOKIE_SHA1 accepted, descriptor passing agreed; the OK line is cut inside its
delimiter, and the last handshake line arrives in ONE read with the complete Hello reply - nothing follows: the
connection is handed out in that very read (the hand-off `if rest: self.dataReceived(rest)`; a model that
handled these bytes only with the next read would have fired nothing here). -/
example :
    let s := attempt (exCfg .repaired true .named) exUnix
      [.read (b!"REJECTED\r"), .read (b!"\nOK 1234\r\n"), .read (b!"AGREE_UNIX_FD\r\nl\x01\x00\x01")]
    s.life.fired = [.connection] ∧ s.evs = [.authOk, .helloReply true] ∧ s.life.phase = .ready ∧
    s.proto.binary = [108, 1, 0, 1] ∧ s.terminated = true := by decide

/-- The same with the reply completed by a later binary-mode read; and `binSpec` - the function of the delivered
reads the theorem equates the outcome with - on the hand-off read alone. -/
example :
    (attempt (exCfg .repaired true .named) exUnix
      [.read (b!"OK 1234\r\n"), .read (b!"AGREE_UNIX_FD\r\nl\x01"), .read [0, 1]]).life.fired = [.connection] ∧
    binSpec (exCfg .repaired false .named) [b!"OK 1234\r\nabcd"] = ⟨some .named, false⟩ ∧
    binSpec (exCfg .repaired false .named) [b!"OK 1234\r\n"] = ⟨none, false⟩ ∧
    binSpec (exCfg .repaired false .error) [b!"OK 1234\r\n", b!"ab", b!"cdXx", b!"yz"] = ⟨some .error, true⟩ := by decide

/-- After the answer to Hello the connection lives on: bytes on which binary mode raises make the reactor call
connectionLost (T3) - the loss of a READY connection after a named reply (`fired` stays the connection), a no-op for
the Deferred after a Hello error; no further read is delivered. -/
example :
    let s := attempt (exCfg .repaired false .named) exEp [.read (b!"OK 1234\r\nabcdXxyz"), .read (b!"more")]
    let t := attempt (exCfg .repaired false .error) exEp [.read (b!"OK 1234\r\nabcd"), .read (b!"Xxy"), .read (b!"z"), .lost]
    s.life.fired = [.connection] ∧ s.raised = true ∧ s.lost = true ∧ s.life.phase = .lost ∧ s.delivered.length = 1 ∧
    s.evs = [.authOk, .helloReply true, .close] ∧
    t.life.fired = [.helloError] ∧ t.raised = true ∧ t.evs = [.authOk, .helloError, .close] := by decide

/-- The same handshake; the answer to Hello is an error / has no name / is not a message; the peer closes between
OK and the Hello reply; the peer closes before OK. -/
example :
    (attempt (exCfg .repaired false .error) exEp [.read (b!"OK 1234\r\nabcd")]).life.fired = [.helloError] ∧
    (attempt (exCfg .repaired false .unnamed) exEp [.read (b!"OK 1234\r\nabcd"), .lost]).life.fired = [.helloNoName] ∧
    (attempt (exCfg .repaired false .garbage) exEp [.read (b!"OK 1234\r\nabcd")]).life.fired = [.lostEarly] ∧
    (attempt (exCfg .repaired false .named) exEp [.read (b!"OK 1234\r\nab"), .lost, .read (b!"cd")]).life.fired = [.lostEarly] ∧
    (attempt (exCfg .repaired false .named) exEp [.read (b!"OK 12"), .lost]).life.fired = [.lostEarly] ∧
    (attempt (exCfg .repaired false .named) exEp [.read (b!"OK 12"), .lost]).evs = [.close] := by decide

/-- A line outside the protocol: the client closes; nothing fires until the reactor's `connectionLost`; a server
that stays silent: nothing fires, and nothing is claimed. -/
example :
    (attempt (exCfg .repaired false .named) exEp [.read (b!"HELLO\r\n"), .read (b!"OK 1234\r\n")]).life.fired = [] ∧
    (attempt (exCfg .repaired false .named) exEp [.read (b!"HELLO\r\n"), .read (b!"OK 1234\r\n")]).proto.disconnecting = true ∧
    (attempt (exCfg .repaired false .named) exEp [.read (b!"HELLO\r\n"), .read (b!"OK 1234\r\n"), .lost]).life.fired = [.lostEarly] ∧
    (attempt (exCfg .repaired false .named) exEp [.read (b!"REJECTED\r\n"), .read (b!"DATA")]).life.fired = [] := by decide

/-- F13 through the handshake (the shape repaired by b4dae9b = fixes/C09-01): the server rejects EXTERNAL,
DBUS_COOKIE_SHA1 and ANONYMOUS; the client calls `loseConnection`; the reactor calls `connectionLost`.  On the
model of the pinned client.py the connect Deferred never fires; on the repaired one it fails.
(`.original` here is the pinned client.py run over C07's model of the REPAIRED protocol.py / authentication.py - a tree
that never existed; for these whole-line inputs the protocol side behaves alike.  The driver mode `cah o` is validated
against no tree: the stream always sends `cah r`.) -/
theorem prefix_model_violates_connect_fires_through_handshake :
    let refused : List Step := [.read REJ, .read REJ, .read REJ, .lost]
    (attempt (exCfg .original false .named) exEp refused).proto.disconnecting = true ∧
    (attempt (exCfg .original false .named) exEp refused).evs = [.authFailed] ∧
    (attempt (exCfg .original false .named) exEp refused).life.fired = [] ∧
    (attempt (exCfg .repaired false .named) exEp refused).life.fired = [.lostEarly] ∧
    -- the peer closes between OK and the Hello reply
    (attempt (exCfg .original false .named) exEp [.read (b!"OK 1234\r\n"), .lost]).life.fired = [] ∧
    (attempt (exCfg .repaired false .named) exEp [.read (b!"OK 1234\r\n"), .lost]).life.fired = [.lostEarly] := by
  decide

#print axioms connect_fired_iff_terminated_through_handshake
#print axioms refused_authentication_fails_connect
#print axioms connect_succeeds_when_handshake_completes
#print axioms connect_succeeds_against_spec_server
#print axioms rejected_by_every_mechanism_fails_connect
#print axioms prefix_model_violates_connect_fires_through_handshake

end Txdbus.Client.ConnectAuth

namespace Txdbus.Client.Lifecycle

#print axioms prefix_model_violates_raising_callback
#print axioms prefix_model_violates_hello_without_name
#print axioms connect_fires_once
#print axioms first_reachable_in_order
#print axioms lost_fails_everything_once
#print axioms cancelled_only_by_caller
#print axioms endpoint_prefix_table
#print axioms endpoints_example
#print axioms address_list_in_listed_order
#print axioms written_addresses_tried_in_order
#print axioms every_connect_tries_in_written_order
#print axioms prefix_model_violates_connect_fires
#print axioms prefix_model_violates_connect_fires_other
#print axioms prefix_model_violates_lost_dict_changed_size
#print axioms prefix_model_violates_explicit_proxy
#print axioms prefix_model_violates_shared_slot
#print axioms prefix_model_violates_self_unregister

end Txdbus.Client.Lifecycle
