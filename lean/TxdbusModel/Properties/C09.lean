/-! Property theorems for C09 (stub: none yet). -/
