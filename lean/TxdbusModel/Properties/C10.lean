/-
Property C10 - "Every call to an exported object gets exactly one correctly addressed reply."

  Every incoming method call receives at most one reply, addressed to the caller and carrying
  the call's serial: exactly one if the call expects a reply, and none when a call flagged as
  expecting no reply is dispatched to its implementation.  The implementation bound to the
  addressed object path, interface and member runs exactly once with the decoded arguments (and
  the caller's unique name when it asks for it) if and only if that path is exported, the
  member exists on that interface and the argument signature matches; otherwise the reply is
  UnknownObject, UnknownMethod or InvalidArgs and no user code runs.  A returned value, or the
  eventual result of a returned Deferred, is encoded under the declared return signature, and a
  raised exception becomes an error reply named by its dbusErrorName or
  org.txdbus.PythonException.<Class> (org.txdbus.InvalidErrorName if that is not a valid DBus
  error name) with the exception text as message.

Code model : Obj/Dispatch.lean   (handleMethodCallMessage, executeMethod, the decorated-method
                                  cache, send_reply / send_error, Deferred resolution; after
                                  repairs C10-01 and C10-02)
Spec       : Obj/DispatchSpec.lean (verdict of a call, binding order, naming rule)
Tables     : Gen/Dispatch.lean   (built-in pairs, lookup-error names and formats, prefixes)
Lemmas     : Proofs/Obj/Dispatch{Lookup,Call,History,Main}.lean

Every theorem quantifies over ALL parameters `env` (codec / validator behaviour), ALL exports
(declarations; `NamedIfaces`: interface names are non-empty), ALL histories `ops` of calls and
Deferred resolutions (any length, any interleaving, any behaviour of user code) and ALL
positions `k` in the history.  `run env ex ops` is the code model's trace; `eventsOf k` selects
the events of call number `k` (the operation at position `k`).
-/
import TxdbusModel.Proofs.Obj.DispatchMain

namespace Txdbus.Obj

open Dispatch DispatchSpec DispatchProofs

variable {V : Type}

/-! ## 1. Number of replies -/

/-- Every call receives at most one reply, whatever happens later in the history (also for the
code before repair C10-01: no hypothesis on `env`). -/
theorem at_most_one_reply (env : Env V) (ex : Exports) (ops : List (Op V)) (hwf : HistoryNamed ex ops)
    (k : Nat) :
    (replies (eventsOf k (run env ex ops).2)).length ≤ 1 := by
  rw [eventsOf_run]
  cases hk : ops[k]? with
  | none => rw [callEvents_not_call _ _ _ _ (by simp [hk])]; simp [replies]
  | some op =>
    cases op with
    | resolve j r => rw [callEvents_not_call _ _ _ _ (by simp [hk])]; simp [replies]
    | exportObj pa o => rw [callEvents_not_call _ _ _ _ (by simp [hk])]; simp [replies]
    | unexportObj pa => rw [callEvents_not_call _ _ _ _ (by simp [hk])]; simp [replies]
    | call c b =>
      rw [replies_callEvents env ex ops k (hwf k) c b hk]
      rcases immediate_or_later env ops k c b (verdict (exportsAt ex ops k) c) with h | h
      · rw [h]; simpa [replies] using (callReplies_replyish env k c b _).replies_le
      · rw [h]; simpa [replies] using (laterEvents_replyish env ops k c b _).replies_le

/-- A call that expects a reply receives exactly one - unless its implementation returned a
Deferred that never fires in the history, in which case it has received none (yet).
(`TextTotal env`: the repaired `send_error`.) -/
theorem exactly_one_if_expected (env : Env V) (ht : TextTotal env) (ex : Exports) (ops : List (Op V))
    (hwf : HistoryNamed ex ops) (k : Nat) (c : Call V) (b : Nat → Outcome V)
    (hk : ops[k]? = some (.call c b)) (he : c.expectReply = true) :
    ((∃ f m, verdict (exportsAt ex ops k) c = .run f m ∧ resultOf ops k (b f.id) = none) →
        replies (eventsOf k (run env ex ops).2) = []) ∧
    ((¬ ∃ f m, verdict (exportsAt ex ops k) c = .run f m ∧ resultOf ops k (b f.id) = none) →
        (replies (eventsOf k (run env ex ops).2)).length = 1) := by
  rw [eventsOf_run]
  constructor
  · rintro ⟨f, m, hv, hr⟩
    rw [replies_run env ex ops k (hwf k) c b hk f m hv he, hr]
  · intro hno
    rw [replies_callEvents env ex ops k (hwf k) c b hk]
    cases hp : callPending k c b (verdict (exportsAt ex ops k) c) with
    | none =>
      have h1 := callReplies_one env ht k c b _ he hp
      simp [laterEvents, hp, replies]
      simpa [replies] using h1.replies_length
    | some p =>
      obtain ⟨h0, _, f, m, hv, hb, hpm⟩ := callReplies_of_pending env k c b _ p hp
      rw [h0]
      simp only [laterEvents, hp]
      cases hf : firstResolve k (List.drop (k + 1) ops) with
      | none =>
        exfalso
        exact hno ⟨f, m, hv, by simp [resultOf, hb, hf]⟩
      | some res =>
        simpa [replies] using (fire_one env ht p res).replies_length

/-- A call flagged as expecting no reply that is dispatched to its implementation (user code was
invoked for it) receives no reply, now or when a returned Deferred fires. -/
theorem none_if_no_reply_and_dispatched (env : Env V) (ex : Exports) (ops : List (Op V))
    (hwf : HistoryNamed ex ops) (k : Nat) (c : Call V) (b : Nat → Outcome V)
    (hk : ops[k]? = some (.call c b)) (he : c.expectReply = false)
    (hd : invocations (eventsOf k (run env ex ops).2) ≠ []) :
    replies (eventsOf k (run env ex ops).2) = [] := by
  rw [eventsOf_run] at hd ⊢
  rw [invocations_callEvents env ex ops k (hwf k) c b hk] at hd
  rw [replies_callEvents env ex ops k (hwf k) c b hk]
  cases hv : verdict (exportsAt ex ops k) c with
  | run f m =>
    obtain ⟨h1, h2⟩ := callReplies_noreply_run env k c b f m he
    simp [h1, laterEvents, h2, replies]
  | builtin x => simp [hv, expectedInvocations] at hd
  | unknownObject => simp [hv, expectedInvocations] at hd
  | unknownMethod => simp [hv, expectedInvocations] at hd
  | invalidArgs m => simp [hv, expectedInvocations] at hd
  | unbound m => simp [hv, expectedInvocations] at hd

/-! ## 2. Addressing -/

/-- Every reply to a call carries the call's serial as `reply_serial` and the call's sender as
destination - including replies sent later when a Deferred fires. -/
theorem reply_addressing (env : Env V) (ex : Exports) (ops : List (Op V)) (hwf : HistoryNamed ex ops)
    (k : Nat) (c : Call V) (b : Nat → Outcome V) (hk : ops[k]? = some (.call c b)) :
    ∀ m ∈ replies (eventsOf k (run env ex ops).2), AddressedTo c m := by
  rw [eventsOf_run, replies_callEvents env ex ops k (hwf k) c b hk]
  intro m hm
  rw [List.mem_append] at hm
  rcases hm with hm | hm
  · exact (callReplies_replyish env k c b _).addressed m hm
  · exact (laterEvents_replyish env ops k c b _).addressed m hm

/-! ## 3. Who runs -/

/-- THE STATEMENT'S "IF AND ONLY IF", MODULO "AN IMPLEMENTATION IS BOUND".  Full statement
(properties.jsonl): "The implementation bound to the addressed object path, interface and member
runs exactly once with the decoded arguments (and the caller's unique name when it asks for it)
if and only if that path is exported, the member exists on that interface and the argument
signature matches; otherwise the reply is UnknownObject, UnknownMethod or InvalidArgs and no
user code runs."  `Runnable` is those three conditions (path exported when the call arrives,
member on the addressed / first matching interface, signatures equal) PLUS two the text leaves
implicit: the call is not one the handler answers itself (anchor: built-in Peer /
Introspectable / ObjectManager handling), and something IS bound (`bound ... = some f`).  The
remaining case - declared, nothing bound - is `unbound_reply` below: no user code, one
NotImplementedError error, none of the three named errors.  "Asks for it" is
`asks_for_caller_iff`.

The invocations of user code for a call are exactly: the bound implementation, once, with the
decoded arguments and the sender iff it asks for it, when the call is `Runnable` (path exported,
member on the addressed or first matching interface, signatures equal, something bound; not a
call the handler answers itself); nothing otherwise.  No later operation adds an invocation. -/
theorem runs_iff (env : Env V) (ex : Exports) (ops : List (Op V)) (hwf : HistoryNamed ex ops)
    (k : Nat) (c : Call V) (b : Nat → Outcome V) (hk : ops[k]? = some (.call c b)) :
    (∀ f m, Runnable (exportsAt ex ops k) c f m →
        invocations (eventsOf k (run env ex ops).2) = [expectedInvocation c f]) ∧
    ((¬ ∃ f m, Runnable (exportsAt ex ops k) c f m) → invocations (eventsOf k (run env ex ops).2) = []) ∧
    (invocations (eventsOf k (run env ex ops).2) ≠ [] ↔ ∃ f m, Runnable (exportsAt ex ops k) c f m) := by
  rw [eventsOf_run, invocations_callEvents env ex ops k (hwf k) c b hk]
  refine ⟨?_, ?_, ?_⟩
  · intro f m hr
    rw [(verdict_run_iff _ c f m).mpr hr]
    rfl
  · intro hno
    cases hv : verdict (exportsAt ex ops k) c with
    | run f m => exact absurd ⟨f, m, (verdict_run_iff _ c f m).mp hv⟩ hno
    | builtin x => rfl
    | unknownObject => rfl
    | unknownMethod => rfl
    | invalidArgs m => rfl
    | unbound m => rfl
  · constructor
    · intro h
      cases hv : verdict (exportsAt ex ops k) c with
      | run f m => exact ⟨f, m, (verdict_run_iff _ c f m).mp hv⟩
      | builtin x => simp [hv, expectedInvocations] at h
      | unknownObject => simp [hv, expectedInvocations] at h
      | unknownMethod => simp [hv, expectedInvocations] at h
      | invalidArgs m => simp [hv, expectedInvocations] at h
      | unbound m => simp [hv, expectedInvocations] at h
    · rintro ⟨f, m, hr⟩
      rw [(verdict_run_iff _ c f m).mpr hr]
      simp [expectedInvocations]

/-- When the lookup fails (and the call is not one the handler answers itself) the call produces
exactly one event: the error reply of the first failing step - UnknownObject: the path is not
exported (at the time the call arrives); UnknownMethod: the member is not on the addressed (or
any) interface; InvalidArgs: the signature differs from the declared one - carrying the call's
serial and sender, and no user code runs.  (The texts are the source's, `unknownObjectErr` etc.;
only the names are pinned here.) -/
theorem lookup_failure_reply (env : Env V) (ex : Exports) (ops : List (Op V)) (hwf : HistoryNamed ex ops)
    (k : Nat) (c : Call V) (b : Nat → Outcome V) (hk : ops[k]? = some (.call c b))
    (hh : handledByHandler (exportsAt ex ops k) c = false) :
    (exported (exportsAt ex ops k) c.path = none →
      eventsOf k (run env ex ops).2 = [unknownObjectErr c] ∧
      ∃ text, (unknownObjectErr c : Event V) =
        .sent (.err "org.freedesktop.DBus.Error.UnknownObject".toList c.serial c.sender text)) ∧
    (∀ o, exported (exportsAt ex ops k) c.path = some o → addressed o c = none →
      eventsOf k (run env ex ops).2 = [unknownMethodErr c] ∧
      ∃ text, (unknownMethodErr c : Event V) =
        .sent (.err "org.freedesktop.DBus.Error.UnknownMethod".toList c.serial c.sender text)) ∧
    (∀ o i m, exported (exportsAt ex ops k) c.path = some o → addressed o c = some (i, m) →
        c.sig.getD [] ≠ m.sigIn →
      eventsOf k (run env ex ops).2 = [invalidArgsErr c m] ∧
      ∃ text, (invalidArgsErr c m : Event V) =
        .sent (.err "org.freedesktop.DBus.Error.InvalidArgs".toList c.serial c.sender text)) := by
  rw [eventsOf_run, callEvents_eq env ex ops k (hwf k) c b hk]
  have n1 : Gen.Dispatch.unknownObject.1 = "org.freedesktop.DBus.Error.UnknownObject" := by decide
  have n2 : Gen.Dispatch.unknownMethod.1 = "org.freedesktop.DBus.Error.UnknownMethod" := by decide
  have n3 : Gen.Dispatch.invalidArgs.1 = "org.freedesktop.DBus.Error.InvalidArgs" := by decide
  refine ⟨?_, ?_, ?_⟩
  · intro ho
    rw [verdict_unknownObject_of _ c hh ho]
    refine ⟨rfl, renderText c [] [] Gen.Dispatch.unknownObject.2, ?_⟩
    simp only [unknownObjectErr, errEvent, sendErr, n1]
  · intro o ho ha
    rw [verdict_unknownMethod_of _ c o hh ho ha]
    refine ⟨rfl, renderText c [] [] Gen.Dispatch.unknownMethod.2, ?_⟩
    simp only [unknownMethodErr, errEvent, sendErr, n2]
  · intro o i m ho ha hs
    rw [verdict_invalidArgs_of _ c o i m hh ho ha hs]
    refine ⟨rfl, renderText c m.sigIn [] Gen.Dispatch.invalidArgs.2, ?_⟩
    simp only [invalidArgsErr, errEvent, sendErr, n3]

/-- THE CASE THE STATEMENT'S "IF AND ONLY IF" DOES NOT NAME.  Read literally the statement says:
user code runs iff (path exported, member on the interface, signature equal), otherwise the
reply is UnknownObject / UnknownMethod / InvalidArgs.  `runs_iff` above proves this modulo "an
implementation is bound" (`Runnable` carries `bound ... = some f`): when the interface declares
the member and NOTHING implements it (`bound ... = none`), all three conditions hold, yet no
user code can run and none of the three named errors applies.  What happens then, for every
history: no user code runs, and a call that expects a reply gets exactly one error reply whose
name is formed from the exception `executeMethod` raises, `NotImplementedError`, by the ordinary
naming rule (`org.txdbus.PythonException.NotImplementedError` when the validator accepts that
name), with an empty text (as `send_error` sends it); a no-reply call gets nothing. -/
theorem unbound_reply (env : Env V) (ht : TextTotal env) (ex : Exports) (ops : List (Op V))
    (hwf : HistoryNamed ex ops) (k : Nat) (c : Call V) (b : Nat → Outcome V)
    (hk : ops[k]? = some (.call c b))
    (hh : handledByHandler (exportsAt ex ops k) c = false)
    (o : Obj) (i : Iface) (m : Method)
    (ho : exported (exportsAt ex ops k) c.path = some o) (ha : addressed o c = some (i, m))
    (hs : c.sig.getD [] = m.sigIn) (hb : bound o i.name c.member = none) :
    invocations (eventsOf k (run env ex ops).2) = [] ∧
    (c.expectReply = false → eventsOf k (run env ex ops).2 = []) ∧
    (c.expectReply = true → ∃ t, env.textFix (errorText env.validErr notImplemented) = some t ∧
      eventsOf k (run env ex ops).2 =
        [.sent (.err (errorName env.validErr notImplemented) c.serial c.sender t)]) ∧
    (env.validErr (pyExceptionPrefix ++ "NotImplementedError".toList) = true →
      errorName env.validErr notImplemented =
        "org.txdbus.PythonException.NotImplementedError".toList) := by
  have hv : verdict (exportsAt ex ops k) c = .unbound m := by
    simp only [handledByHandler, ho, Option.isSome_some, Bool.true_and, Bool.or_eq_false_iff] at hh
    obtain ⟨⟨h1, h2⟩, h3⟩ := hh
    unfold verdict
    simp [h1, h2, h3, ho, ha, hs, hb]
  have hce := callEvents_eq env ex ops k (hwf k) c b hk
  rw [hv] at hce
  simp only [callInv, callReplies, expectedCall, laterEvents, callPending, List.nil_append,
    List.append_nil] at hce
  rw [eventsOf_run, hce]
  refine ⟨?_, ?_, ?_, ?_⟩
  · cases c.expectReply with
    | false => rfl
    | true => simpa using (sendError_replyish env (pendingOf k c m) notImplemented).invocations
  · intro he; simp [he]
  · intro he
    simp only [he, if_true, sendError_eq]
    have := ht (errorText env.validErr notImplemented)
    cases h : env.textFix (errorText env.validErr notImplemented) with
    | none => simp [h] at this
    | some t => exact ⟨t, rfl, rfl⟩
  · intro hval
    have hn : Gen.Dispatch.unboundException = "NotImplementedError" := by decide
    have hp : pyExceptionPrefix = "org.txdbus.PythonException.".toList := by decide
    unfold errorName notImplemented
    simp only [hn]
    rw [if_pos hval, hp]
    decide

/-! ## 4. Results -/

/-- A returned value - now, or as the eventual result of the returned Deferred - that encodes
under the declared return signature is sent as a method return under that signature. -/
theorem result_encoding (env : Env V) (ex : Exports) (ops : List (Op V)) (hwf : HistoryNamed ex ops)
    (k : Nat) (c : Call V) (b : Nat → Outcome V) (hk : ops[k]? = some (.call c b))
    (he : c.expectReply = true) (f : Func) (m : Method) (hv : verdict (exportsAt ex ops k) c = .run f m)
    (r : Ret V) (hres : resultOf ops k (b f.id) = some (.value r))
    (henc : env.encErr m.sigOut (replyBody env.ofSeq m.nret r) = none) :
    replies (eventsOf k (run env ex ops).2) =
      [.ret c.serial c.sender (some m.sigOut) (.vals (replyBody env.ofSeq m.nret r))] := by
  rw [eventsOf_run, replies_run env ex ops k (hwf k) c b hk f m hv he, hres]
  simp only [fire, sendReply_eq, pendingOf, henc]
  simp [replies]

/-- A value that does not encode under the declared signature becomes exactly one error reply,
named after the encoder's exception by the same rule as any other exception. -/
theorem unencodable_value_one_error (env : Env V) (ht : TextTotal env) (ex : Exports)
    (ops : List (Op V)) (hwf : HistoryNamed ex ops)
    (k : Nat) (c : Call V) (b : Nat → Outcome V) (hk : ops[k]? = some (.call c b))
    (he : c.expectReply = true) (f : Func) (m : Method) (hv : verdict (exportsAt ex ops k) c = .run f m)
    (r : Ret V) (hres : resultOf ops k (b f.id) = some (.value r))
    (e : Exc) (henc : env.encErr m.sigOut (replyBody env.ofSeq m.nret r) = some e) :
    ∃ t, replies (eventsOf k (run env ex ops).2) =
      [.err (errorName env.validErr e) c.serial c.sender t] := by
  rw [eventsOf_run, replies_run env ex ops k (hwf k) c b hk f m hv he, hres]
  simp only [fire, sendReply_eq, pendingOf, henc, sendError_eq]
  have := ht (errorText env.validErr e)
  cases h : env.textFix (errorText env.validErr e) with
  | none => simp [h] at this
  | some t => exact ⟨t, by simp [replies]⟩

/-- A raised exception (or a failed Deferred) becomes exactly one error reply named
`dbusErrorName`, else `org.txdbus.PythonException.<Class>`, or `org.txdbus.InvalidErrorName` when
that is not a valid error name (`errorName`), whose message is the exception text (`errorText`:
preceded by a notice when the name was rejected) as `send_error` can send it; for the repaired
code and a name that is valid the message is the exception text itself whenever it contains no
NUL. -/
theorem error_reply_name (env : Env V) (ht : TextTotal env) (ex : Exports)
    (ops : List (Op V)) (hwf : HistoryNamed ex ops)
    (k : Nat) (c : Call V) (b : Nat → Outcome V) (hk : ops[k]? = some (.call c b))
    (he : c.expectReply = true) (f : Func) (m : Method) (hv : verdict (exportsAt ex ops k) c = .run f m)
    (e : Exc) (hres : resultOf ops k (b f.id) = some (.fail e)) :
    ∃ t, env.textFix (errorText env.validErr e) = some t ∧
      replies (eventsOf k (run env ex ops).2) =
        [.err (errorName env.validErr e) c.serial c.sender t] ∧
      (env.textFix = fixRepaired → errorName env.validErr e ≠ invalidErrorName →
        '\x00' ∉ e.text → t = e.text) := by
  rw [eventsOf_run, replies_run env ex ops k (hwf k) c b hk f m hv he, hres]
  simp only [fire, pendingOf, sendError_eq]
  have := ht (errorText env.validErr e)
  cases h : env.textFix (errorText env.validErr e) with
  | none => simp [h] at this
  | some t =>
    refine ⟨t, rfl, by simp [replies], ?_⟩
    intro hfix hname hnul
    rw [hfix] at h
    unfold errorName at hname
    unfold errorText at h
    cases hn : e.errName with
    | none =>
      simp only [hn] at hname h
      by_cases hval : env.validErr (pyExceptionPrefix ++ e.cls) = true
      · simp only [hval, if_true, fixRepaired, escapeNul_id e.text hnul] at h
        injection h with h; exact h.symm
      · simp [hval] at hname
    | some n =>
      simp only [hn] at hname h
      by_cases hval : env.validErr n = true
      · simp only [hval, if_true, fixRepaired, escapeNul_id e.text hnul] at h
        injection h with h; exact h.symm
      · simp [hval] at hname

/-! ## 5. The tables the model reads are the ones the statement names -/

/-- The generated tables (translated from txdbus/objects.py on every run) have the shape and the
values the model and the statement assume: editing them in the source breaks this lemma. -/
theorem table_shape :
    Gen.Dispatch.peerPair = ("org.freedesktop.DBus.Peer", "Ping") ∧
    Gen.Dispatch.introspectPair = ("org.freedesktop.DBus.Introspectable", "Introspect") ∧
    Gen.Dispatch.managedPair = ("org.freedesktop.DBus.ObjectManager", "GetManagedObjects") ∧
    Gen.Dispatch.unknownObject.1 = "org.freedesktop.DBus.Error.UnknownObject" ∧
    Gen.Dispatch.unknownMethod.1 = "org.freedesktop.DBus.Error.UnknownMethod" ∧
    Gen.Dispatch.invalidArgs.1 = "org.freedesktop.DBus.Error.InvalidArgs" ∧
    Gen.Dispatch.pyExceptionPrefix = "org.txdbus.PythonException." ∧
    Gen.Dispatch.invalidErrorName = "org.txdbus.InvalidErrorName" ∧
    Gen.Dispatch.unboundException = "NotImplementedError" ∧
    Gen.Dispatch.attrPrefix = "dbus_" ∧
    -- the order of checks and the reply rule the model mirrors (derived by probing the dispatcher)
    Gen.Dispatch.checkOrder = ["ping", "introspect", "object", "managed", "method", "signature"] ∧
    Gen.Dispatch.dispatchedExpectingReplyAnswered = true ∧
    Gen.Dispatch.dispatchedNoReplySilent = true ∧
    Gen.Dispatch.lookupFailureAnsweredWhenNoReply = true ∧
    Gen.Dispatch.managedFailureAnswered = true ∧
    Gen.Dispatch.escapeCoversInvalidName = true := by
  decide

/-- "The caller's unique name when it asks for it": a method asks for it iff its positional
parameter list (`self` included, as `inspect.getfullargspec` of the bound method gives it) ends
in a parameter named `dbusCaller` - the rule of `_set_method_flags` with the keyword and the
minimum length taken from the source. -/
theorem asks_for_caller_iff (f : Func) :
    f.wantsCaller = true ↔ f.params.getLast? = some "dbusCaller".toList := by
  have h1 : Gen.Dispatch.callerMinArgs = 1 := by decide
  have h2 : callerKeyword = "dbusCaller".toList := by decide
  unfold Func.wantsCaller needsCaller
  rw [h1, h2]
  constructor
  · intro h
    simp only [Bool.and_eq_true, beq_iff_eq] at h
    exact h.2
  · intro h
    simp only [Bool.and_eq_true, beq_iff_eq, decide_eq_true_eq]
    refine ⟨?_, h⟩
    cases hp : f.params with
    | nil => simp [hp] at h
    | cons a t => simp

/-- The `send_error` of the source under test (`fixSource`, read off the generated table) is the
repaired one: its text escape is total, so `TextTotal` holds for the environment the driver
runs.  Reverting repair C10-01 in the source changes the table and this theorem stops checking. -/
theorem source_send_error_total (env : Env V) (h : env.textFix = fixSource) : TextTotal env := by
  intro t
  rw [h, fixSource_eq_repaired]
  rfl

/-! ## 6. Witness: the code before repair C10-01 (F29) -/

namespace Example

def iface : Iface :=
  { name := "org.a".toList,
    methods := [("one".toList, { name := "one".toList, sigIn := [], sigOut := ['s'], nret := 1 })] }

def cls : Class :=
  { ifaces := some [iface],
    attrs := [("dbus_one".toList, { id := 1, deco := none, params := ["self".toList, "dbusCaller".toList] })] }

def exports : Exports := [("/a".toList, { classes := [cls] })]

/-- the same object with a second declared member `two` that nothing implements -/
def exports2 : Exports :=
  [("/a".toList, { classes := [{ cls with ifaces := some [{ iface with methods := iface.methods ++
      [("two".toList, { name := "two".toList, sigIn := [], sigOut := [], nret := 0 })] }] }] })]

def call : Call Nat :=
  { path := "/a".toList, iface := some "org.a".toList, member := "one".toList, sig := none,
    sender := some ":1.7".toList, serial := 5, expectReply := true, body := [] }

/-- the user method raises `Exception('a\0b')` -/
def raisesNul : Nat → Outcome Nat :=
  fun _ => .raise { cls := "Exception".toList, errName := none, text := ['a', '\x00', 'b'] }

def envWith (fix : Str → Option Str) : Env Nat :=
  { encErr := fun _ _ => none, managedErr := fun _ => none, ofSeq := fun _ => 0,
    validErr := fun _ => true, textFix := fix }

end Example

/-- Before repair C10-01 (`fixPrefix`: the error text is sent as it is and `ErrorMessage(...)`
raises on NUL): the call expects a reply, its implementation runs and raises `Exception('a\0b')`,
and NO reply is sent - "exactly one if the call expects a reply" fails.  This is the replay of
F29 on the model; corpus/C10/f29-nul-in-exception-text.json is the same input for the code. -/
theorem prefix_model_violates_exactly_one :
    Example.call.expectReply = true ∧
    invocations (eventsOf 0 (run (Example.envWith fixPrefix) Example.exports
      [.call Example.call Example.raisesNul]).2) = [(1, [], some (some ":1.7".toList))] ∧
    replies (eventsOf 0 (run (Example.envWith fixPrefix) Example.exports
      [.call Example.call Example.raisesNul]).2) = [] ∧
    replies (eventsOf 0 (run (Example.envWith fixRepaired) Example.exports
      [.call Example.call Example.raisesNul]).2) =
      [.err "org.txdbus.PythonException.Exception".toList 5 (some ":1.7".toList) "a\\x00b".toList] := by
  decide

/-- Witness for `unbound_reply` (decide): the interface declares `two`, nothing implements it;
the call matches path, member and signature, no user code runs and the one reply is
`org.txdbus.PythonException.NotImplementedError`. -/
theorem unbound_witness :
    (run (Example.envWith fixRepaired) Example.exports2
        [.call { Example.call with member := "two".toList } Example.raisesNul]).2 =
      [(0, .sent (.err "org.txdbus.PythonException.NotImplementedError".toList 5
                    (some ":1.7".toList) []))] := by
  decide

/-- Witness for histories with export / unexport (decide): the same call runs user code while
`/a` is exported, is answered UnknownObject after `unexportObject('/a')`, and runs again after
the object is exported again. -/
theorem unexport_witness :
    (run (Example.envWith fixRepaired) Example.exports
        [.call Example.call (fun _ => .deferred), .unexportObj "/a".toList,
         .call Example.call (fun _ => .deferred), .exportObj "/a".toList { classes := [Example.cls] },
         .call Example.call (fun _ => .deferred)] |>.2).map
      (fun e => match e.2 with
        | .invoked f _ _ => (e.1, some f, ([] : Str))
        | .sent (.err n _ _ _) => (e.1, none, n)
        | .sent (.ret _ _ _ _) => (e.1, none, [])) =
      [(0, some 1, []), (2, none, "org.freedesktop.DBus.Error.UnknownObject".toList), (4, some 1, [])] := by
  decide

/-! ## 7. The hypotheses are satisfiable -/

example : NamedIfaces Example.exports := by unfold NamedIfaces; decide

example : HistoryNamed Example.exports
    [.call Example.call Example.raisesNul, .unexportObj "/a".toList,
     .exportObj "/a".toList { classes := [Example.cls] }, .resolve 0 (.fail ⟨[], none, []⟩)] := by
  apply historyNamed_of
  · unfold NamedIfaces; decide
  · intro path o h
    simp at h
    obtain ⟨_, h⟩ := h
    subst h
    decide

example : TextTotal (Example.envWith fixRepaired) := fun _ => rfl

example : ¬ TextTotal (Example.envWith fixPrefix) := fun h => by
  have := h ['\x00']
  simp [Example.envWith, fixPrefix] at this

example : ∃ f m, Runnable Example.exports Example.call f m :=
  ⟨{ id := 1, deco := none, params := ["self".toList, "dbusCaller".toList] },
   { name := "one".toList, sigIn := [], sigOut := ['s'], nret := 1 },
   (verdict_run_iff _ _ _ _).mp (by decide)⟩

example : verdict Example.exports { Example.call with path := "/zz".toList } = .unknownObject := by decide
example : verdict Example.exports { Example.call with member := "two".toList } = .unknownMethod := by decide
example : verdict Example.exports { Example.call with sig := some ['i'] } =
    .invalidArgs { name := "one".toList, sigIn := [], sigOut := ['s'], nret := 1 } := by decide

end Txdbus.Obj

#print axioms Txdbus.Obj.at_most_one_reply
#print axioms Txdbus.Obj.exactly_one_if_expected
#print axioms Txdbus.Obj.none_if_no_reply_and_dispatched
#print axioms Txdbus.Obj.reply_addressing
#print axioms Txdbus.Obj.runs_iff
#print axioms Txdbus.Obj.lookup_failure_reply
#print axioms Txdbus.Obj.unbound_reply
#print axioms Txdbus.Obj.asks_for_caller_iff
#print axioms Txdbus.Obj.source_send_error_total
#print axioms Txdbus.Obj.unbound_witness
#print axioms Txdbus.Obj.unexport_witness
#print axioms Txdbus.Obj.result_encoding
#print axioms Txdbus.Obj.unencodable_value_one_error
#print axioms Txdbus.Obj.error_reply_name
#print axioms Txdbus.Obj.table_shape
#print axioms Txdbus.Obj.prefix_model_violates_exactly_one
