/-! Property theorems for C10 (stub: none yet). -/
