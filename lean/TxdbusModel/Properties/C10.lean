/-
Property C10 - "Every call to an exported object gets exactly one correctly addressed reply."

  Every incoming method call receives at most one reply, addressed to the caller and carrying
  the call's serial: exactly one if the call expects a reply, and none when a call flagged as
  expecting no reply is dispatched to its implementation.  The implementation bound to the
  addressed object path, interface and member runs exactly once with the decoded arguments (and
  the caller's unique name when it asks for it) if and only if that path is exported, the
  member exists on that interface and the argument signature matches; otherwise the reply is
  UnknownObject, UnknownMethod or InvalidArgs and no user code runs.  A returned value, or the
  eventual result of a returned Deferred, is encoded under the declared return signature, and a
  raised exception becomes an error reply named by its dbusErrorName or
  org.txdbus.PythonException.<Class> (org.txdbus.InvalidErrorName if that is not a valid DBus
  error name) with the exception text as message.

Code model : Obj/Dispatch.lean   (handleMethodCallMessage, executeMethod, the decorated-method
                                  cache, send_reply / send_error, Deferred resolution; after
                                  repairs C10-01 and C10-02)
Spec       : Obj/DispatchSpec.lean (verdict of a call, binding order, naming rule)
Tables     : Gen/Dispatch.lean   (built-in pairs, lookup-error names and formats, prefixes)
Lemmas     : Proofs/Obj/Dispatch{Lookup,Call,History,Main}.lean

Every theorem quantifies over ALL parameters `env` (codec / validator behaviour), ALL exports
(declarations; `NamedIfaces`: interface names are non-empty), ALL histories `ops` of calls and
Deferred resolutions (any length, any interleaving, any behaviour of user code) and ALL
positions `k` in the history.  `run env ex ops` is the code model's trace; `eventsOf k` selects
the events of call number `k` (the operation at position `k`).
-/
import TxdbusModel.Proofs.Obj.DispatchMain

namespace Txdbus.Obj

open Dispatch DispatchSpec DispatchProofs

variable {V : Type}

/-! ## 1. Number of replies -/

/-- Every call receives at most one reply, whatever happens later in the history (also for the
code before repair C10-01: no hypothesis on `env`). -/
theorem at_most_one_reply (env : Env V) (ex : Exports) (hwf : NamedIfaces ex) (ops : List (Op V))
    (k : Nat) :
    (replies (eventsOf k (run env ex ops).2)).length ≤ 1 := by
  rw [eventsOf_run]
  cases hk : ops[k]? with
  | none => rw [callEvents_not_call _ _ _ _ (by simp [hk])]; simp [replies]
  | some op =>
    cases op with
    | resolve j r => rw [callEvents_not_call _ _ _ _ (by simp [hk])]; simp [replies]
    | call c b =>
      rw [replies_callEvents env ex hwf ops k c b hk]
      rcases immediate_or_later env ops k c b (verdict ex c) with h | h
      · rw [h]; simpa [replies] using (callReplies_replyish env k c b _).replies_le
      · rw [h]; simpa [replies] using (laterEvents_replyish env ops k c b _).replies_le

/-- A call that expects a reply receives exactly one - unless its implementation returned a
Deferred that never fires in the history, in which case it has received none (yet).
(`TextTotal env`: the repaired `send_error`.) -/
theorem exactly_one_if_expected (env : Env V) (ht : TextTotal env) (ex : Exports) (hwf : NamedIfaces ex)
    (ops : List (Op V)) (k : Nat) (c : Call V) (b : Nat → Outcome V)
    (hk : ops[k]? = some (.call c b)) (he : c.expectReply = true) :
    ((∃ f m, verdict ex c = .run f m ∧ resultOf ops k (b f.id) = none) →
        replies (eventsOf k (run env ex ops).2) = []) ∧
    ((¬ ∃ f m, verdict ex c = .run f m ∧ resultOf ops k (b f.id) = none) →
        (replies (eventsOf k (run env ex ops).2)).length = 1) := by
  rw [eventsOf_run]
  constructor
  · rintro ⟨f, m, hv, hr⟩
    rw [replies_run env ex hwf ops k c b hk f m hv he, hr]
  · intro hno
    rw [replies_callEvents env ex hwf ops k c b hk]
    cases hp : callPending k c b (verdict ex c) with
    | none =>
      have h1 := callReplies_one env ht k c b _ he hp
      simp [laterEvents, hp, replies]
      simpa [replies] using h1.replies_length
    | some p =>
      obtain ⟨h0, _, f, m, hv, hb, hpm⟩ := callReplies_of_pending env k c b _ p hp
      rw [h0]
      simp only [laterEvents, hp]
      cases hf : firstResolve k (List.drop (k + 1) ops) with
      | none =>
        exfalso
        exact hno ⟨f, m, hv, by simp [resultOf, hb, hf]⟩
      | some res =>
        simpa [replies] using (fire_one env ht p res).replies_length

/-- A call flagged as expecting no reply that is dispatched to its implementation (user code was
invoked for it) receives no reply, now or when a returned Deferred fires. -/
theorem none_if_no_reply_and_dispatched (env : Env V) (ex : Exports) (hwf : NamedIfaces ex)
    (ops : List (Op V)) (k : Nat) (c : Call V) (b : Nat → Outcome V)
    (hk : ops[k]? = some (.call c b)) (he : c.expectReply = false)
    (hd : invocations (eventsOf k (run env ex ops).2) ≠ []) :
    replies (eventsOf k (run env ex ops).2) = [] := by
  rw [eventsOf_run] at hd ⊢
  rw [invocations_callEvents env ex hwf ops k c b hk] at hd
  rw [replies_callEvents env ex hwf ops k c b hk]
  cases hv : verdict ex c with
  | run f m =>
    obtain ⟨h1, h2⟩ := callReplies_noreply_run env k c b f m he
    simp [h1, laterEvents, h2, replies]
  | builtin x => simp [hv, expectedInvocations] at hd
  | unknownObject => simp [hv, expectedInvocations] at hd
  | unknownMethod => simp [hv, expectedInvocations] at hd
  | invalidArgs m => simp [hv, expectedInvocations] at hd
  | unbound m => simp [hv, expectedInvocations] at hd

/-! ## 2. Addressing -/

/-- Every reply to a call carries the call's serial as `reply_serial` and the call's sender as
destination - including replies sent later when a Deferred fires. -/
theorem reply_addressing (env : Env V) (ex : Exports) (hwf : NamedIfaces ex) (ops : List (Op V))
    (k : Nat) (c : Call V) (b : Nat → Outcome V) (hk : ops[k]? = some (.call c b)) :
    ∀ m ∈ replies (eventsOf k (run env ex ops).2), AddressedTo c m := by
  rw [eventsOf_run, replies_callEvents env ex hwf ops k c b hk]
  intro m hm
  rw [List.mem_append] at hm
  rcases hm with hm | hm
  · exact (callReplies_replyish env k c b _).addressed m hm
  · exact (laterEvents_replyish env ops k c b _).addressed m hm

/-! ## 3. Who runs -/

/-- The invocations of user code for a call are exactly: the bound implementation, once, with the
decoded arguments and the sender iff it asks for it, when the call is `Runnable` (path exported,
member on the addressed or first matching interface, signatures equal, something bound; not a
call the handler answers itself); nothing otherwise.  No later operation adds an invocation. -/
theorem runs_iff (env : Env V) (ex : Exports) (hwf : NamedIfaces ex) (ops : List (Op V))
    (k : Nat) (c : Call V) (b : Nat → Outcome V) (hk : ops[k]? = some (.call c b)) :
    (∀ f m, Runnable ex c f m →
        invocations (eventsOf k (run env ex ops).2) = [expectedInvocation c f]) ∧
    ((¬ ∃ f m, Runnable ex c f m) → invocations (eventsOf k (run env ex ops).2) = []) ∧
    (invocations (eventsOf k (run env ex ops).2) ≠ [] ↔ ∃ f m, Runnable ex c f m) := by
  rw [eventsOf_run, invocations_callEvents env ex hwf ops k c b hk]
  refine ⟨?_, ?_, ?_⟩
  · intro f m hr
    rw [(verdict_run_iff ex c f m).mpr hr]
    rfl
  · intro hno
    cases hv : verdict ex c with
    | run f m => exact absurd ⟨f, m, (verdict_run_iff ex c f m).mp hv⟩ hno
    | builtin x => rfl
    | unknownObject => rfl
    | unknownMethod => rfl
    | invalidArgs m => rfl
    | unbound m => rfl
  · constructor
    · intro h
      cases hv : verdict ex c with
      | run f m => exact ⟨f, m, (verdict_run_iff ex c f m).mp hv⟩
      | builtin x => simp [hv, expectedInvocations] at h
      | unknownObject => simp [hv, expectedInvocations] at h
      | unknownMethod => simp [hv, expectedInvocations] at h
      | invalidArgs m => simp [hv, expectedInvocations] at h
      | unbound m => simp [hv, expectedInvocations] at h
    · rintro ⟨f, m, hr⟩
      rw [(verdict_run_iff ex c f m).mpr hr]
      simp [expectedInvocations]

/-- When the lookup fails (and the call is not one the handler answers itself) the call produces
exactly one event: the error reply of the first failing step - UnknownObject: the path is not
exported; UnknownMethod: the member is not on the addressed (or any) interface; InvalidArgs: the
signature differs from the declared one - with the code's text, and no user code runs. -/
theorem lookup_failure_reply (env : Env V) (ex : Exports) (hwf : NamedIfaces ex) (ops : List (Op V))
    (k : Nat) (c : Call V) (b : Nat → Outcome V) (hk : ops[k]? = some (.call c b))
    (hh : handledByHandler ex c = false) :
    (exported ex c.path = none →
      eventsOf k (run env ex ops).2 =
        [.sent (.err unknownObject.1 c.serial c.sender (pyFormat unknownObject.2 [c.path]))]) ∧
    (∀ o, exported ex c.path = some o → addressed o c = none →
      eventsOf k (run env ex ops).2 =
        [.sent (.err unknownMethod.1 c.serial c.sender
          (pyFormat unknownMethod.2 [c.member, orElse c.sig [], orElse c.iface "(null)".toList]))]) ∧
    (∀ o i m, exported ex c.path = some o → addressed o c = some (i, m) → c.sig.getD [] ≠ m.sigIn →
      eventsOf k (run env ex ops).2 =
        [.sent (.err invalidArgs.1 c.serial c.sender
          (pyFormat invalidArgs.2 [c.member, orElse c.sig [], m.sigIn]))]) := by
  rw [eventsOf_run, callEvents_eq env ex hwf ops k c b hk]
  refine ⟨?_, ?_, ?_⟩
  · intro ho; rw [verdict_unknownObject_of ex c hh ho]; rfl
  · intro o ho ha; rw [verdict_unknownMethod_of ex c o hh ho ha]; rfl
  · intro o i m ho ha hs; rw [verdict_invalidArgs_of ex c o i m hh ho ha hs]; rfl

/-! ## 4. Results -/

/-- A returned value - now, or as the eventual result of the returned Deferred - that encodes
under the declared return signature is sent as a method return under that signature. -/
theorem result_encoding (env : Env V) (ex : Exports) (hwf : NamedIfaces ex) (ops : List (Op V))
    (k : Nat) (c : Call V) (b : Nat → Outcome V) (hk : ops[k]? = some (.call c b))
    (he : c.expectReply = true) (f : Func) (m : Method) (hv : verdict ex c = .run f m)
    (r : Ret V) (hres : resultOf ops k (b f.id) = some (.value r))
    (henc : env.encErr m.sigOut (replyBody env.ofSeq m.nret r) = none) :
    replies (eventsOf k (run env ex ops).2) =
      [.ret c.serial c.sender (some m.sigOut) (.vals (replyBody env.ofSeq m.nret r))] := by
  rw [eventsOf_run, replies_run env ex hwf ops k c b hk f m hv he, hres]
  simp only [fire, sendReply_eq, pendingOf, henc]
  simp [replies]

/-- A value that does not encode under the declared signature becomes exactly one error reply,
named after the encoder's exception by the same rule as any other exception. -/
theorem unencodable_value_one_error (env : Env V) (ht : TextTotal env) (ex : Exports)
    (hwf : NamedIfaces ex) (ops : List (Op V))
    (k : Nat) (c : Call V) (b : Nat → Outcome V) (hk : ops[k]? = some (.call c b))
    (he : c.expectReply = true) (f : Func) (m : Method) (hv : verdict ex c = .run f m)
    (r : Ret V) (hres : resultOf ops k (b f.id) = some (.value r))
    (e : Exc) (henc : env.encErr m.sigOut (replyBody env.ofSeq m.nret r) = some e) :
    ∃ t, replies (eventsOf k (run env ex ops).2) =
      [.err (errorName env.validErr e) c.serial c.sender t] := by
  rw [eventsOf_run, replies_run env ex hwf ops k c b hk f m hv he, hres]
  simp only [fire, sendReply_eq, pendingOf, henc, sendError_eq]
  have := ht (errorText env.validErr e)
  cases h : env.textFix (errorText env.validErr e) with
  | none => simp [h] at this
  | some t => exact ⟨t, by simp [replies]⟩

/-- A raised exception (or a failed Deferred) becomes exactly one error reply named
`dbusErrorName`, else `org.txdbus.PythonException.<Class>`, or `org.txdbus.InvalidErrorName` when
that is not a valid error name (`errorName`), whose message is the exception text (`errorText`:
preceded by a notice when the name was rejected) as `send_error` can send it; for the repaired
code and a name that is valid the message is the exception text itself whenever it contains no
NUL. -/
theorem error_reply_name (env : Env V) (ht : TextTotal env) (ex : Exports)
    (hwf : NamedIfaces ex) (ops : List (Op V))
    (k : Nat) (c : Call V) (b : Nat → Outcome V) (hk : ops[k]? = some (.call c b))
    (he : c.expectReply = true) (f : Func) (m : Method) (hv : verdict ex c = .run f m)
    (e : Exc) (hres : resultOf ops k (b f.id) = some (.fail e)) :
    ∃ t, env.textFix (errorText env.validErr e) = some t ∧
      replies (eventsOf k (run env ex ops).2) =
        [.err (errorName env.validErr e) c.serial c.sender t] ∧
      (env.textFix = fixRepaired → errorName env.validErr e ≠ invalidErrorName →
        '\x00' ∉ e.text → t = e.text) := by
  rw [eventsOf_run, replies_run env ex hwf ops k c b hk f m hv he, hres]
  simp only [fire, pendingOf, sendError_eq]
  have := ht (errorText env.validErr e)
  cases h : env.textFix (errorText env.validErr e) with
  | none => simp [h] at this
  | some t =>
    refine ⟨t, rfl, by simp [replies], ?_⟩
    intro hfix hname hnul
    rw [hfix] at h
    unfold errorName at hname
    unfold errorText at h
    cases hn : e.errName with
    | none =>
      simp only [hn] at hname h
      by_cases hval : env.validErr (pyExceptionPrefix ++ e.cls) = true
      · simp only [hval, if_true, fixRepaired, escapeNul_id e.text hnul] at h
        injection h with h; exact h.symm
      · simp [hval] at hname
    | some n =>
      simp only [hn] at hname h
      by_cases hval : env.validErr n = true
      · simp only [hval, if_true, fixRepaired, escapeNul_id e.text hnul] at h
        injection h with h; exact h.symm
      · simp [hval] at hname

/-! ## 5. The tables the model reads are the ones the statement names -/

/-- The generated tables (translated from txdbus/objects.py on every run) have the shape and the
values the model and the statement assume: editing them in the source breaks this lemma. -/
theorem table_shape :
    Gen.Dispatch.builtinPairs =
      [("org.freedesktop.DBus.Peer", "Ping"),
       ("org.freedesktop.DBus.Introspectable", "Introspect"),
       ("org.freedesktop.DBus.ObjectManager", "GetManagedObjects")] ∧
    Gen.Dispatch.lookupErrors.map (fun e => (e.1, e.2.2)) =
      [("org.freedesktop.DBus.Error.UnknownObject", ["msg.path"]),
       ("org.freedesktop.DBus.Error.Failed", ["e"]),
       ("org.freedesktop.DBus.Error.UnknownMethod",
          ["msg.member", "msg.signature or ''", "msg.interface or '(null)'"]),
       ("org.freedesktop.DBus.Error.InvalidArgs",
          ["msg.member", "msg.signature or ''", "m.sigIn or ''"])] ∧
    Gen.Dispatch.pyExceptionPrefix = "org.txdbus.PythonException." ∧
    Gen.Dispatch.invalidErrorName = "org.txdbus.InvalidErrorName" ∧
    Gen.Dispatch.attrPrefix = "dbus_" ∧
    Gen.Dispatch.callerKeyword = "dbusCaller" := by
  decide

/-! ## 6. Witness: the code before repair C10-01 (F29) -/

namespace Example

def iface : Iface :=
  { name := "org.a".toList,
    methods := [("one".toList, { name := "one".toList, sigIn := [], sigOut := ['s'], nret := 1 })] }

def cls : Class :=
  { ifaces := some [iface],
    attrs := [("dbus_one".toList, { id := 1, deco := none, wantsCaller := true })] }

def exports : Exports := [("/a".toList, { classes := [cls] })]

def call : Call Nat :=
  { path := "/a".toList, iface := some "org.a".toList, member := "one".toList, sig := none,
    sender := some ":1.7".toList, serial := 5, expectReply := true, body := [] }

/-- the user method raises `Exception('a\0b')` -/
def raisesNul : Nat → Outcome Nat :=
  fun _ => .raise { cls := "Exception".toList, errName := none, text := ['a', '\x00', 'b'] }

def envWith (fix : Str → Option Str) : Env Nat :=
  { encErr := fun _ _ => none, managedErr := fun _ => none, ofSeq := fun _ => 0,
    validErr := fun _ => true, textFix := fix }

end Example

/-- Before repair C10-01 (`fixPrefix`: the error text is sent as it is and `ErrorMessage(...)`
raises on NUL): the call expects a reply, its implementation runs and raises `Exception('a\0b')`,
and NO reply is sent - "exactly one if the call expects a reply" fails.  This is the replay of
F29 on the model; corpus/C10/f29-nul-in-exception-text.json is the same input for the code. -/
theorem prefix_model_violates_exactly_one :
    Example.call.expectReply = true ∧
    invocations (eventsOf 0 (run (Example.envWith fixPrefix) Example.exports
      [.call Example.call Example.raisesNul]).2) = [(1, [], some (some ":1.7".toList))] ∧
    replies (eventsOf 0 (run (Example.envWith fixPrefix) Example.exports
      [.call Example.call Example.raisesNul]).2) = [] ∧
    replies (eventsOf 0 (run (Example.envWith fixRepaired) Example.exports
      [.call Example.call Example.raisesNul]).2) =
      [.err "org.txdbus.PythonException.Exception".toList 5 (some ":1.7".toList) "a\\x00b".toList] := by
  decide

/-! ## 7. The hypotheses are satisfiable -/

example : NamedIfaces Example.exports := by unfold NamedIfaces; decide

example : TextTotal (Example.envWith fixRepaired) := fun _ => rfl

example : ¬ TextTotal (Example.envWith fixPrefix) := fun h => by
  have := h ['\x00']
  simp [Example.envWith, fixPrefix] at this

example : ∃ f m, Runnable Example.exports Example.call f m :=
  ⟨{ id := 1, deco := none, wantsCaller := true },
   { name := "one".toList, sigIn := [], sigOut := ['s'], nret := 1 },
   (verdict_run_iff _ _ _ _).mp (by decide)⟩

example : verdict Example.exports { Example.call with path := "/zz".toList } = .unknownObject := by decide
example : verdict Example.exports { Example.call with member := "two".toList } = .unknownMethod := by decide
example : verdict Example.exports { Example.call with sig := some ['i'] } =
    .invalidArgs { name := "one".toList, sigIn := [], sigOut := ['s'], nret := 1 } := by decide

end Txdbus.Obj

#print axioms Txdbus.Obj.at_most_one_reply
#print axioms Txdbus.Obj.exactly_one_if_expected
#print axioms Txdbus.Obj.none_if_no_reply_and_dispatched
#print axioms Txdbus.Obj.reply_addressing
#print axioms Txdbus.Obj.runs_iff
#print axioms Txdbus.Obj.lookup_failure_reply
#print axioms Txdbus.Obj.result_encoding
#print axioms Txdbus.Obj.unencodable_value_one_error
#print axioms Txdbus.Obj.error_reply_name
#print axioms Txdbus.Obj.table_shape
#print axioms Txdbus.Obj.prefix_model_violates_exactly_one
