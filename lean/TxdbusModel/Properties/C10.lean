/-
Property C10 - "Every call to an exported object gets exactly one correctly addressed reply."

  Every incoming method call receives at most one reply, addressed to the caller and carrying
  the call's serial: exactly one if the call expects a reply, and none when a call flagged as
  expecting no reply is dispatched to its implementation.  The implementation bound to the
  addressed object path, interface and member runs exactly once with the decoded arguments (and
  the caller's unique name when it asks for it) if and only if that path is exported, the
  member exists on that interface and the argument signature matches; otherwise the reply is
  UnknownObject, UnknownMethod or InvalidArgs and no user code runs.  A returned value, or the
  eventual result of a returned Deferred, is encoded under the declared return signature, and a
  raised exception becomes an error reply named by its dbusErrorName or
  org.txdbus.PythonException.<Class> (org.txdbus.InvalidErrorName if that is not a valid DBus
  error name) with the exception text as message.

Code model : Obj/Dispatch.lean   (handleMethodCallMessage, executeMethod, the decorated-method
                                  cache, send_reply / send_error, Deferred resolution; after
                                  repairs C10-01 and C10-02)
Spec       : Obj/DispatchSpec.lean (verdict of a call, binding order, naming rule)
Tables     : Gen/Dispatch.lean   (built-in pairs, lookup-error names and formats, prefixes)
Lemmas     : Proofs/Obj/Dispatch{Lookup,Call,History,Main}.lean

Every theorem quantifies over ALL parameters `env` (codec / validator behaviour), ALL exports
(declarations - since 2026-09-30 also interfaces without a name: no `NamedIfaces` hypothesis any more),
ALL histories `ops` of calls, Deferred resolutions, `exportObject` and `unexportObject` operations (any
length, any interleaving, any behaviour of user code) and ALL positions `k` in the history.  `run env ex ops` is the code model's trace; `eventsOf k` selects
the events of call number `k` (the operation at position `k`).
-/
import TxdbusModel.Proofs.Obj.DispatchMain
import TxdbusModel.Proofs.Obj.DispatchExt
import TxdbusModel.Proofs.Obj.DispatchProps
import TxdbusModel.Properties.C17

namespace Txdbus.Obj

open Dispatch DispatchSpec DispatchProofs

variable {V : Type}

/-! ## 1. Number of replies -/

/-- Every call receives at most one reply, whatever happens later in the history (also for the
code before repair C10-01: no hypothesis on `env`). -/
theorem at_most_one_reply (env : Env V) (ex : Exports) (ops : List (Op V))
    (k : Nat) :
    (replies (eventsOf k (run env ex ops).2)).length ≤ 1 := by
  rw [eventsOf_run]
  cases hk : ops[k]? with
  | none => rw [callEvents_not_call _ _ _ _ (by simp [hk])]; simp [replies]
  | some op =>
    cases op with
    | resolve j r => rw [callEvents_not_call _ _ _ _ (by simp [hk])]; simp [replies]
    | exportObj pa o => rw [callEvents_not_call _ _ _ _ (by simp [hk])]; simp [replies]
    | unexportObj pa => rw [callEvents_not_call _ _ _ _ (by simp [hk])]; simp [replies]
    | call c b =>
      rw [replies_callEvents env ex ops k c b hk]
      rcases immediate_or_later env ops k c b (verdict (exportsAt ex ops k) c) with h | h
      · rw [h]; simpa [replies] using (callReplies_replyish env k c b _).replies_le
      · rw [h]; simpa [replies] using (laterEvents_replyish env ops k c b _).replies_le

/-- A call that expects a reply receives exactly one - unless its implementation returned a
Deferred that never fires in the history, in which case it has received none (yet).
(`TextTotal env`: the repaired `send_error`.) -/
theorem exactly_one_if_expected (env : Env V) (ht : TextTotal env) (ex : Exports) (ops : List (Op V))
    (k : Nat) (c : Call V) (b : Nat → Outcome V)
    (hk : ops[k]? = some (.call c b)) (he : c.expectReply = true) :
    ((∃ f m, verdict (exportsAt ex ops k) c = .run f m ∧ resultOf ops k (b f.id) = none) →
        replies (eventsOf k (run env ex ops).2) = []) ∧
    ((¬ ∃ f m, verdict (exportsAt ex ops k) c = .run f m ∧ resultOf ops k (b f.id) = none) →
        (replies (eventsOf k (run env ex ops).2)).length = 1) := by
  rw [eventsOf_run]
  constructor
  · rintro ⟨f, m, hv, hr⟩
    rw [replies_run env ex ops k c b hk f m hv he, hr]
  · intro hno
    rw [replies_callEvents env ex ops k c b hk]
    cases hp : callPending k c b (verdict (exportsAt ex ops k) c) with
    | none =>
      have h1 := callReplies_one env ht k c b _ he hp
      simp [laterEvents, hp, replies]
      simpa [replies] using h1.replies_length
    | some p =>
      obtain ⟨h0, _, f, m, hv, hb, hpm⟩ := callReplies_of_pending env k c b _ p hp
      rw [h0]
      simp only [laterEvents, hp]
      cases hf : firstResolve k (List.drop (k + 1) ops) with
      | none =>
        exfalso
        exact hno ⟨f, m, hv, by simp [resultOf, hb, hf]⟩
      | some res =>
        simpa [replies] using (fire_one env ht p res).replies_length

/-- A call flagged as expecting no reply that is dispatched to its implementation (user code was
invoked for it) receives no reply, now or when a returned Deferred fires. -/
theorem none_if_no_reply_and_dispatched (env : Env V) (ex : Exports) (ops : List (Op V))
    (k : Nat) (c : Call V) (b : Nat → Outcome V)
    (hk : ops[k]? = some (.call c b)) (he : c.expectReply = false)
    (hd : invocations (eventsOf k (run env ex ops).2) ≠ []) :
    replies (eventsOf k (run env ex ops).2) = [] := by
  rw [eventsOf_run] at hd ⊢
  rw [invocations_callEvents env ex ops k c b hk] at hd
  rw [replies_callEvents env ex ops k c b hk]
  cases hv : verdict (exportsAt ex ops k) c with
  | run f m =>
    obtain ⟨h1, h2⟩ := callReplies_noreply_run env k c b f m he
    simp [h1, laterEvents, h2, replies]
  | builtin x => simp [hv, expectedInvocations] at hd
  | unknownObject => simp [hv, expectedInvocations] at hd
  | unknownMethod => simp [hv, expectedInvocations] at hd
  | invalidArgs m => simp [hv, expectedInvocations] at hd
  | unbound m => simp [hv, expectedInvocations] at hd

/-! ## 2. Addressing -/

/-- Every reply to a call carries the call's serial as `reply_serial` and the call's sender as
destination - including replies sent later when a Deferred fires. -/
theorem reply_addressing (env : Env V) (ex : Exports) (ops : List (Op V))
    (k : Nat) (c : Call V) (b : Nat → Outcome V) (hk : ops[k]? = some (.call c b)) :
    ∀ m ∈ replies (eventsOf k (run env ex ops).2), AddressedTo c m := by
  rw [eventsOf_run, replies_callEvents env ex ops k c b hk]
  intro m hm
  rw [List.mem_append] at hm
  rcases hm with hm | hm
  · exact (callReplies_replyish env k c b _).addressed m hm
  · exact (laterEvents_replyish env ops k c b _).addressed m hm

/-! ## 3. Who runs -/

/-- THE STATEMENT'S "IF AND ONLY IF", MODULO "AN IMPLEMENTATION IS BOUND".  Full statement
(properties.jsonl): "The implementation bound to the addressed object path, interface and member
runs exactly once with the decoded arguments (and the caller's unique name when it asks for it)
if and only if that path is exported, the member exists on that interface and the argument
signature matches; otherwise the reply is UnknownObject, UnknownMethod or InvalidArgs and no
user code runs."  `Runnable` is those three conditions (path exported when the call arrives,
member on the addressed / first matching interface, signatures equal) PLUS two the text leaves
implicit: the call is not one the handler answers itself (anchor: built-in Peer /
Introspectable / ObjectManager handling), and something IS bound (`bound ... = some f`).  The
remaining case - declared, nothing bound - is `unbound_reply` below: no user code, one
NotImplementedError error, none of the three named errors.  "Asks for it" is
`asks_for_caller_iff`.

The invocations of user code for a call are exactly: the bound implementation, once, with the
decoded arguments and the sender iff it asks for it, when the call is `Runnable` (path exported,
member on the addressed or first matching interface, signatures equal, something bound; not a
call the handler answers itself); nothing otherwise.  No later operation adds an invocation. -/
theorem runs_iff (env : Env V) (ex : Exports) (ops : List (Op V))
    (k : Nat) (c : Call V) (b : Nat → Outcome V) (hk : ops[k]? = some (.call c b)) :
    (∀ f m, Runnable (exportsAt ex ops k) c f m →
        invocations (eventsOf k (run env ex ops).2) = [expectedInvocation c f]) ∧
    ((¬ ∃ f m, Runnable (exportsAt ex ops k) c f m) → invocations (eventsOf k (run env ex ops).2) = []) ∧
    (invocations (eventsOf k (run env ex ops).2) ≠ [] ↔ ∃ f m, Runnable (exportsAt ex ops k) c f m) := by
  rw [eventsOf_run, invocations_callEvents env ex ops k c b hk]
  refine ⟨?_, ?_, ?_⟩
  · intro f m hr
    rw [(verdict_run_iff _ c f m).mpr hr]
    rfl
  · intro hno
    cases hv : verdict (exportsAt ex ops k) c with
    | run f m => exact absurd ⟨f, m, (verdict_run_iff _ c f m).mp hv⟩ hno
    | builtin x => rfl
    | unknownObject => rfl
    | unknownMethod => rfl
    | invalidArgs m => rfl
    | unbound m => rfl
  · constructor
    · intro h
      cases hv : verdict (exportsAt ex ops k) c with
      | run f m => exact ⟨f, m, (verdict_run_iff _ c f m).mp hv⟩
      | builtin x => simp [hv, expectedInvocations] at h
      | unknownObject => simp [hv, expectedInvocations] at h
      | unknownMethod => simp [hv, expectedInvocations] at h
      | invalidArgs m => simp [hv, expectedInvocations] at h
      | unbound m => simp [hv, expectedInvocations] at h
    · rintro ⟨f, m, hr⟩
      rw [(verdict_run_iff _ c f m).mpr hr]
      simp [expectedInvocations]

/-- When the lookup fails (and the call is not one the handler answers itself) the call produces
exactly one event: the error reply of the first failing step - UnknownObject: the path is not
exported (at the time the call arrives); UnknownMethod: the member is not on the addressed (or
any) interface; InvalidArgs: the signature differs from the declared one - carrying the call's
serial and sender, and no user code runs.  (The texts are the source's, `unknownObjectErr` etc.;
only the names are pinned here.) -/
theorem lookup_failure_reply (env : Env V) (ex : Exports) (ops : List (Op V))
    (k : Nat) (c : Call V) (b : Nat → Outcome V) (hk : ops[k]? = some (.call c b))
    (hh : handledByHandler (exportsAt ex ops k) c = false) :
    (exported (exportsAt ex ops k) c.path = none →
      eventsOf k (run env ex ops).2 = [unknownObjectErr c] ∧
      ∃ text, (unknownObjectErr c : Event V) =
        .sent (.err "org.freedesktop.DBus.Error.UnknownObject".toList c.serial c.sender text)) ∧
    (∀ o, exported (exportsAt ex ops k) c.path = some o → addressed o c = none →
      eventsOf k (run env ex ops).2 = [unknownMethodErr c] ∧
      ∃ text, (unknownMethodErr c : Event V) =
        .sent (.err "org.freedesktop.DBus.Error.UnknownMethod".toList c.serial c.sender text)) ∧
    (∀ o i m, exported (exportsAt ex ops k) c.path = some o → addressed o c = some (i, m) →
        c.sig.getD [] ≠ m.sigIn →
      eventsOf k (run env ex ops).2 = [invalidArgsErr c m] ∧
      ∃ text, (invalidArgsErr c m : Event V) =
        .sent (.err "org.freedesktop.DBus.Error.InvalidArgs".toList c.serial c.sender text)) := by
  rw [eventsOf_run, callEvents_eq env ex ops k c b hk]
  have n1 : Gen.Dispatch.unknownObject.1 = "org.freedesktop.DBus.Error.UnknownObject" := by decide
  have n2 : Gen.Dispatch.unknownMethod.1 = "org.freedesktop.DBus.Error.UnknownMethod" := by decide
  have n3 : Gen.Dispatch.invalidArgs.1 = "org.freedesktop.DBus.Error.InvalidArgs" := by decide
  refine ⟨?_, ?_, ?_⟩
  · intro ho
    rw [verdict_unknownObject_of _ c hh ho]
    refine ⟨rfl, renderText c [] [] Gen.Dispatch.unknownObject.2, ?_⟩
    simp only [unknownObjectErr, errEvent, sendErr, n1]
  · intro o ho ha
    rw [verdict_unknownMethod_of _ c o hh ho ha]
    refine ⟨rfl, renderText c [] [] Gen.Dispatch.unknownMethod.2, ?_⟩
    simp only [unknownMethodErr, errEvent, sendErr, n2]
  · intro o i m ho ha hs
    rw [verdict_invalidArgs_of _ c o i m hh ho ha hs]
    refine ⟨rfl, renderText c m.sigIn [] Gen.Dispatch.invalidArgs.2, ?_⟩
    simp only [invalidArgsErr, errEvent, sendErr, n3]

/-- THE CASE THE STATEMENT'S "IF AND ONLY IF" DOES NOT NAME.  Read literally the statement says:
user code runs iff (path exported, member on the interface, signature equal), otherwise the
reply is UnknownObject / UnknownMethod / InvalidArgs.  `runs_iff` above proves this modulo "an
implementation is bound" (`Runnable` carries `bound ... = some f`): when the interface declares
the member and NOTHING implements it (`bound ... = none`), all three conditions hold, yet no
user code can run and none of the three named errors applies.  What happens then, for every
history: no user code runs, and a call that expects a reply gets exactly one error reply whose
name is formed from the exception `executeMethod` raises, `NotImplementedError`, by the ordinary
naming rule (`org.txdbus.PythonException.NotImplementedError` when the validator accepts that
name), with an empty text (as `send_error` sends it); a no-reply call gets nothing. -/
theorem unbound_reply (env : Env V) (ht : TextTotal env) (ex : Exports) (ops : List (Op V))
    (k : Nat) (c : Call V) (b : Nat → Outcome V)
    (hk : ops[k]? = some (.call c b))
    (hh : handledByHandler (exportsAt ex ops k) c = false)
    (o : Obj) (i : Iface) (m : Method)
    (ho : exported (exportsAt ex ops k) c.path = some o) (ha : addressed o c = some (i, m))
    (hs : c.sig.getD [] = m.sigIn) (hb : bound o i.name c.member = none) :
    invocations (eventsOf k (run env ex ops).2) = [] ∧
    (c.expectReply = false → eventsOf k (run env ex ops).2 = []) ∧
    (c.expectReply = true → ∃ t, env.textFix (errorText env.validErr notImplemented) = some t ∧
      eventsOf k (run env ex ops).2 =
        [.sent (.err (errorName env.validErr notImplemented) c.serial c.sender t)]) ∧
    (env.validErr (pyExceptionPrefix ++ "NotImplementedError".toList) = true →
      errorName env.validErr notImplemented =
        "org.txdbus.PythonException.NotImplementedError".toList) := by
  have hv : verdict (exportsAt ex ops k) c = .unbound m := by
    simp only [handledByHandler, ho, Option.isSome_some, Bool.true_and, Bool.or_eq_false_iff] at hh
    obtain ⟨⟨h1, h2⟩, h3⟩ := hh
    unfold verdict
    simp [h1, h2, h3, ho, ha, hs, hb]
  have hce := callEvents_eq env ex ops k c b hk
  rw [hv] at hce
  simp only [callInv, callReplies, expectedCall, laterEvents, callPending, List.nil_append,
    List.append_nil] at hce
  rw [eventsOf_run, hce]
  refine ⟨?_, ?_, ?_, ?_⟩
  · cases c.expectReply with
    | false => rfl
    | true => simpa using (sendError_replyish env (pendingOf k c m) notImplemented).invocations
  · intro he; simp [he]
  · intro he
    simp only [he, if_true, sendError_eq]
    have := ht (errorText env.validErr notImplemented)
    cases h : env.textFix (errorText env.validErr notImplemented) with
    | none => simp [h] at this
    | some t => exact ⟨t, rfl, rfl⟩
  · intro hval
    have hn : Gen.Dispatch.unboundException = "NotImplementedError" := by decide
    have hp : pyExceptionPrefix = "org.txdbus.PythonException.".toList := by decide
    unfold errorName notImplemented
    simp only [hn]
    rw [if_pos hval, hp]
    decide

/-! ## 4. Results -/

/-- A returned value - now, or as the eventual result of the returned Deferred - that encodes
under the declared return signature is sent as a method return under that signature. -/
theorem result_encoding (env : Env V) (ex : Exports) (ops : List (Op V))
    (k : Nat) (c : Call V) (b : Nat → Outcome V) (hk : ops[k]? = some (.call c b))
    (he : c.expectReply = true) (f : Func) (m : Method) (hv : verdict (exportsAt ex ops k) c = .run f m)
    (r : Ret V) (hres : resultOf ops k (b f.id) = some (.value r))
    (henc : env.encErr m.sigOut (replyBody env.ofSeq m.nret r) = none) :
    replies (eventsOf k (run env ex ops).2) =
      [.ret c.serial c.sender (some m.sigOut) (.vals (replyBody env.ofSeq m.nret r))] := by
  rw [eventsOf_run, replies_run env ex ops k c b hk f m hv he, hres]
  simp only [fire, sendReply_eq, pendingOf, henc]
  simp [replies]

/-- A value that does not encode under the declared signature becomes exactly one error reply,
named after the encoder's exception by the same rule as any other exception. -/
theorem unencodable_value_one_error (env : Env V) (ht : TextTotal env) (ex : Exports)
    (ops : List (Op V))
    (k : Nat) (c : Call V) (b : Nat → Outcome V) (hk : ops[k]? = some (.call c b))
    (he : c.expectReply = true) (f : Func) (m : Method) (hv : verdict (exportsAt ex ops k) c = .run f m)
    (r : Ret V) (hres : resultOf ops k (b f.id) = some (.value r))
    (e : Exc) (henc : env.encErr m.sigOut (replyBody env.ofSeq m.nret r) = some e) :
    ∃ t, replies (eventsOf k (run env ex ops).2) =
      [.err (errorName env.validErr e) c.serial c.sender t] := by
  rw [eventsOf_run, replies_run env ex ops k c b hk f m hv he, hres]
  simp only [fire, sendReply_eq, pendingOf, henc, sendError_eq]
  have := ht (errorText env.validErr e)
  cases h : env.textFix (errorText env.validErr e) with
  | none => simp [h] at this
  | some t => exact ⟨t, by simp [replies]⟩

/-- A raised exception (or a failed Deferred) becomes exactly one error reply named
`dbusErrorName`, else `org.txdbus.PythonException.<Class>`, or `org.txdbus.InvalidErrorName` when
that is not a valid error name (`errorName`), whose message is the exception text (`errorText`:
preceded by a notice when the name was rejected) as `send_error` can send it; for the repaired
code and a name that is valid the message is the exception text itself whenever it contains no
NUL. -/
theorem error_reply_name (env : Env V) (ht : TextTotal env) (ex : Exports)
    (ops : List (Op V))
    (k : Nat) (c : Call V) (b : Nat → Outcome V) (hk : ops[k]? = some (.call c b))
    (he : c.expectReply = true) (f : Func) (m : Method) (hv : verdict (exportsAt ex ops k) c = .run f m)
    (e : Exc) (hres : resultOf ops k (b f.id) = some (.fail e)) :
    ∃ t, env.textFix (errorText env.validErr e) = some t ∧
      replies (eventsOf k (run env ex ops).2) =
        [.err (errorName env.validErr e) c.serial c.sender t] ∧
      (env.textFix = fixRepaired → errorName env.validErr e ≠ invalidErrorName →
        '\x00' ∉ e.text → t = e.text) := by
  rw [eventsOf_run, replies_run env ex ops k c b hk f m hv he, hres]
  simp only [fire, pendingOf, sendError_eq]
  have := ht (errorText env.validErr e)
  cases h : env.textFix (errorText env.validErr e) with
  | none => simp [h] at this
  | some t =>
    refine ⟨t, rfl, by simp [replies], ?_⟩
    intro hfix hname hnul
    rw [hfix] at h
    unfold errorName at hname
    unfold errorText at h
    cases hn : e.errName with
    | none =>
      simp only [hn] at hname h
      by_cases hval : env.validErr (pyExceptionPrefix ++ e.cls) = true
      · simp only [hval, if_true, fixRepaired, escapeNul_id e.text hnul] at h
        injection h with h; exact h.symm
      · simp [hval] at hname
    | some n =>
      simp only [hn] at hname h
      by_cases hval : env.validErr n = true
      · simp only [hval, if_true, fixRepaired, escapeNul_id e.text hnul] at h
        injection h with h; exact h.symm
      · simp [hval] at hname

/-! ## 5. The tables the model reads are the ones the statement names -/

/-- The generated tables (translated from txdbus/objects.py on every run) have the shape and the
values the model and the statement assume: editing them in the source breaks this lemma. -/
theorem table_shape :
    Gen.Dispatch.peerPair = ("org.freedesktop.DBus.Peer", "Ping") ∧
    Gen.Dispatch.introspectPair = ("org.freedesktop.DBus.Introspectable", "Introspect") ∧
    Gen.Dispatch.managedPair = ("org.freedesktop.DBus.ObjectManager", "GetManagedObjects") ∧
    Gen.Dispatch.unknownObject.1 = "org.freedesktop.DBus.Error.UnknownObject" ∧
    Gen.Dispatch.unknownMethod.1 = "org.freedesktop.DBus.Error.UnknownMethod" ∧
    Gen.Dispatch.invalidArgs.1 = "org.freedesktop.DBus.Error.InvalidArgs" ∧
    Gen.Dispatch.pyExceptionPrefix = "org.txdbus.PythonException." ∧
    Gen.Dispatch.invalidErrorName = "org.txdbus.InvalidErrorName" ∧
    Gen.Dispatch.unboundException = "NotImplementedError" ∧
    Gen.Dispatch.attrPrefix = "dbus_" ∧
    -- the order of checks and the reply rule the model mirrors (derived by probing the dispatcher)
    Gen.Dispatch.checkOrder = ["ping", "introspect", "object", "managed", "method", "signature"] ∧
    Gen.Dispatch.dispatchedExpectingReplyAnswered = true ∧
    Gen.Dispatch.dispatchedNoReplySilent = true ∧
    Gen.Dispatch.lookupFailureAnsweredWhenNoReply = true ∧
    Gen.Dispatch.managedFailureAnswered = true ∧
    Gen.Dispatch.escapeCoversInvalidName = true := by
  decide

/-- "The caller's unique name when it asks for it": a method asks for it iff its positional
parameter list (`self` included, as `inspect.getfullargspec` of the bound method gives it) ends
in a parameter named `dbusCaller` - the rule of `_set_method_flags` with the keyword and the
minimum length taken from the source. -/
theorem asks_for_caller_iff (f : Func) :
    f.wantsCaller = true ↔ f.params.getLast? = some "dbusCaller".toList := by
  have h1 : Gen.Dispatch.callerMinArgs = 1 := by decide
  have h2 : callerKeyword = "dbusCaller".toList := by decide
  unfold Func.wantsCaller needsCaller
  rw [h1, h2]
  constructor
  · intro h
    simp only [Bool.and_eq_true, beq_iff_eq] at h
    exact h.2
  · intro h
    simp only [Bool.and_eq_true, beq_iff_eq, decide_eq_true_eq]
    refine ⟨?_, h⟩
    cases hp : f.params with
    | nil => simp [hp] at h
    | cons a t => simp

/-- The `send_error` of the source under test (`fixSource`, read off the generated table) is the
repaired one: its text escape is total, so `TextTotal` holds for the environment the driver
runs.  Reverting repair C10-01 in the source changes the table and this theorem stops checking. -/
theorem source_send_error_total (env : Env V) (h : env.textFix = fixSource) : TextTotal env := by
  intro t
  rw [h, fixSource_eq_repaired]
  rfl

/-! ## 6. Witness: the code before repair C10-01 (F29) -/

namespace Example

def iface : Iface :=
  { name := "org.a".toList,
    methods := [("one".toList, { name := "one".toList, sigIn := [], sigOut := ['s'], nret := 1 })] }

def cls : Class :=
  { ifaces := some [iface],
    attrs := [("dbus_one".toList, { id := 1, deco := none, params := ["self".toList, "dbusCaller".toList] })] }

def exports : Exports := [("/a".toList, { classes := [cls] })]

/-- the same object with a second declared member `two` that nothing implements -/
def exports2 : Exports :=
  [("/a".toList, { classes := [{ cls with ifaces := some [{ iface with methods := iface.methods ++
      [("two".toList, { name := "two".toList, sigIn := [], sigOut := [], nret := 0 })] }] }] })]

def call : Call Nat :=
  { path := "/a".toList, iface := some "org.a".toList, member := "one".toList, sig := none,
    sender := some ":1.7".toList, serial := 5, expectReply := true, body := [] }

/-- the user method raises `Exception('a\0b')` -/
def raisesNul : Nat → Outcome Nat :=
  fun _ => .raise { cls := "Exception".toList, errName := none, text := ['a', '\x00', 'b'] }

def envWith (fix : Str → Option Str) : Env Nat :=
  { encErr := fun _ _ => none, managedErr := fun _ => none, ofSeq := fun _ => 0,
    validErr := fun _ => true, textFix := fix }

end Example

/-- Before repair C10-01 (`fixPrefix`: the error text is sent as it is and `ErrorMessage(...)`
raises on NUL): the call expects a reply, its implementation runs and raises `Exception('a\0b')`,
and NO reply is sent - "exactly one if the call expects a reply" fails.  This is the replay of
F29 on the model; corpus/C10/f29-nul-in-exception-text.json is the same input for the code. -/
theorem prefix_model_violates_exactly_one :
    Example.call.expectReply = true ∧
    invocations (eventsOf 0 (run (Example.envWith fixPrefix) Example.exports
      [.call Example.call Example.raisesNul]).2) = [(1, [], some (some ":1.7".toList))] ∧
    replies (eventsOf 0 (run (Example.envWith fixPrefix) Example.exports
      [.call Example.call Example.raisesNul]).2) = [] ∧
    replies (eventsOf 0 (run (Example.envWith fixRepaired) Example.exports
      [.call Example.call Example.raisesNul]).2) =
      [.err "org.txdbus.PythonException.Exception".toList 5 (some ":1.7".toList) "a\\x00b".toList] := by
  decide

/-- Witness for `unbound_reply` (decide): the interface declares `two`, nothing implements it;
the call matches path, member and signature, no user code runs and the one reply is
`org.txdbus.PythonException.NotImplementedError`. -/
theorem unbound_witness :
    (run (Example.envWith fixRepaired) Example.exports2
        [.call { Example.call with member := "two".toList } Example.raisesNul]).2 =
      [(0, .sent (.err "org.txdbus.PythonException.NotImplementedError".toList 5
                    (some ":1.7".toList) []))] := by
  decide

/-- Witness for histories with export / unexport (decide): the same call runs user code while
`/a` is exported, is answered UnknownObject after `unexportObject('/a')`, and runs again after
the object is exported again. -/
theorem unexport_witness :
    (run (Example.envWith fixRepaired) Example.exports
        [.call Example.call (fun _ => .deferred), .unexportObj "/a".toList,
         .call Example.call (fun _ => .deferred), .exportObj "/a".toList { classes := [Example.cls] },
         .call Example.call (fun _ => .deferred)] |>.2).map
      (fun e => match e.2 with
        | .invoked f _ _ => (e.1, some f, ([] : Str))
        | .sent (.err n _ _ _) => (e.1, none, n)
        | .sent (.ret _ _ _ _) => (e.1, none, [])) =
      [(0, some 1, []), (2, none, "org.freedesktop.DBus.Error.UnknownObject".toList), (4, some 1, [])] := by
  decide

/-! ## 6b. Extension 2026-09-30: objects that come and go

All theorems above are stated for histories that contain `exportObj` / `unexportObj` operations
and judge a call against `exportsAt ex ops k`: what is exported AT THE MOMENT THE CALL ARRIVES.
What is exported later plays no role - in particular for a call whose implementation returned a
Deferred: the reply callbacks hold the call's serial and sender (`Pending`), not the object. -/

/-- A Deferred that fires AFTER its object was unexported still produces the call's one reply.
Call `k` (expects a reply) arrives while its path is exported and its implementation returns an
unfired Deferred; operation `j > k` is `unexportObject(c.path)`; the Deferred first fires at
operation `l > j`.  Then: right after operation `j` nothing is exported at the path (a new call
there would be answered UnknownObject, `lookup_failure_reply`), and yet the replies to call `k`
are exactly what `send_reply` / `send_error` make of the resolution - exactly one, addressed to
the caller with the call's serial - and user code ran exactly once, at the time of the call. -/
theorem deferred_after_unexport_one_reply (env : Env V) (ht : TextTotal env) (ex : Exports)
    (ops : List (Op V)) (k j l : Nat) (c : Call V) (b : Nat → Outcome V)
    (hk : ops[k]? = some (.call c b)) (he : c.expectReply = true)
    (f : Func) (m : Method) (hv : verdict (exportsAt ex ops k) c = .run f m)
    (hd : b f.id = .deferred)
    (hkj : k < j) (hu : ops[j]? = some (.unexportObj c.path))
    (hjl : j < l) (res : Resolution V) (hl : ops[l]? = some (.resolve k res))
    (hfirst : ∀ i, k < i → i < l → ∀ r, ops[i]? ≠ some (.resolve k r)) :
    exported (exportsAt ex ops (j + 1)) c.path = none ∧
    replies (eventsOf k (run env ex ops).2) = replies (fire env (pendingOf k c m) res) ∧
    (replies (eventsOf k (run env ex ops).2)).length = 1 ∧
    (∀ r ∈ replies (eventsOf k (run env ex ops).2), AddressedTo c r) ∧
    invocations (eventsOf k (run env ex ops).2) = [expectedInvocation c f] := by
  have hres : resultOf ops k (b f.id) = some res := by
    rw [hd]
    exact firstResolve_drop_at ops k l res (by omega) hl hfirst
  have hrep : replies (eventsOf k (run env ex ops).2) = replies (fire env (pendingOf k c m) res) := by
    rw [eventsOf_run, replies_run env ex ops k c b hk f m hv he, hres]
  refine ⟨exportsAt_after_unexport ex ops j c.path hu, hrep, ?_, ?_, ?_⟩
  · rw [hrep]; exact (fire_one env ht (pendingOf k c m) res).replies_length
  · rw [hrep]; exact (fire_one env ht (pendingOf k c m) res).replyish.addressed
  · rw [eventsOf_run, invocations_callEvents env ex ops k c b hk, hv]; rfl

/-- Witness for `deferred_after_unexport_one_reply` (decide): the call runs user code and gets a
Deferred, `/a` is unexported, a second call to `/a` is answered UnknownObject, then the Deferred of
the first call fires with a value: the first call gets its one method return. -/
theorem deferred_after_unexport_witness :
    (run (Example.envWith fixRepaired) Example.exports
        [.call Example.call (fun _ => .deferred), .unexportObj "/a".toList,
         .call { Example.call with serial := 6 } (fun _ => .deferred),
         .resolve 0 (.value (.single 42))] |>.2) =
      [(0, .invoked 1 [] (some (some ":1.7".toList))),
       (2, .sent (.err "org.freedesktop.DBus.Error.UnknownObject".toList 6 (some ":1.7".toList)
                   "/a is not an object provided by this process.".toList)),
       (0, .sent (.ret 5 (some ":1.7".toList) (some ['s']) (.vals [42])))] := by
  decide

/-! ## 6c. Extension 2026-09-30: the calls the handler answers itself

`at_most_one_reply`, `exactly_one_if_expected` and `reply_addressing` hold for EVERY call, the
built-in ones included (verdict `builtin _`).  What exactly is sent for them, which of them need
an object at the path and which do not, is `builtin_reply`.  None of the three looks at the
signature or the body of the call, and none of them looks at the NO_REPLY_EXPECTED flag. -/

theorem pairs_distinct :
    peerPair ≠ introspectPair ∧ peerPair ≠ managedPair ∧ introspectPair ≠ managedPair := by decide

theorem isPair_unique (c : Call V) (p q : Str × Str) (hpq : p ≠ q) (hp : isPair c p = true) :
    isPair c q = false := by
  cases hq : isPair c q with
  | false => rfl
  | true =>
    exfalso
    apply hpq
    have h1 := (isPair_iff c p).mp hp
    have h2 := (isPair_iff c q).mp hq
    obtain ⟨a1, a2⟩ := p
    obtain ⟨b1, b2⟩ := q
    simp only at h1 h2
    have e1 : a1 = b1 := by have := h1.1.symm.trans h2.1; simpa using this
    have e2 : a2 = b2 := h1.2.symm.trans h2.2
    rw [e1, e2]

/-- The calls `handleMethodCallMessage` answers itself, in the code's order.
* `org.freedesktop.DBus.Peer.Ping` is answered BEFORE the object lookup: an empty method return,
  on any path, exported or not, with any signature.
* `org.freedesktop.DBus.Introspectable.Introspect` is answered before the object lookup when the
  path is a node of the exported tree (exported itself or an ancestor of an exported path): a
  method return of signature `s` (the XML is C16's).  On any other path it FALLS THROUGH to the
  object lookup, which fails: UnknownObject.
* `org.freedesktop.DBus.ObjectManager.GetManagedObjects` NEEDS the object: UnknownObject when the
  path is not exported (an ancestor is not enough); otherwise a method return of signature
  `a{oa{sa{sv}}}` (content: C16), or, when building it raises (repair C10-02), the error
  `org.freedesktop.DBus.Error.Failed` carrying the exception text.
In each case the events of the call are exactly that one message (no user code runs), carrying the
call's serial and addressed to its sender. -/
theorem builtin_reply (env : Env V) (ex : Exports) (ops : List (Op V))
    (k : Nat) (c : Call V) (b : Nat → Outcome V) (hk : ops[k]? = some (.call c b)) :
    (isPair c peerPair = true →
      eventsOf k (run env ex ops).2 = [.sent (.ret c.serial c.sender none .empty)]) ∧
    (isPair c introspectPair = true → nodeKnown (exportsAt ex ops k) c.path = true →
      eventsOf k (run env ex ops).2 = [.sent (.ret c.serial c.sender (some introspectSig) (.xml c.path))]) ∧
    (isPair c introspectPair = true → nodeKnown (exportsAt ex ops k) c.path = false →
      eventsOf k (run env ex ops).2 = [unknownObjectErr c]) ∧
    (isPair c managedPair = true → exported (exportsAt ex ops k) c.path = none →
      eventsOf k (run env ex ops).2 = [unknownObjectErr c]) ∧
    (isPair c managedPair = true → (exported (exportsAt ex ops k) c.path).isSome = true →
      env.managedErr c.path = none →
      eventsOf k (run env ex ops).2 = [.sent (.ret c.serial c.sender (some managedSig) (.managed c.path))]) ∧
    (∀ e, isPair c managedPair = true → (exported (exportsAt ex ops k) c.path).isSome = true →
      env.managedErr c.path = some e →
      eventsOf k (run env ex ops).2 = [managedFailedErr c e] ∧
      ∃ text, (managedFailedErr c e : Event V) =
        .sent (.err "org.freedesktop.DBus.Error.Failed".toList c.serial c.sender text)) := by
  rw [eventsOf_run, callEvents_eq env ex ops k c b hk]
  obtain ⟨d1, d2, d3⟩ := pairs_distinct
  refine ⟨?_, ?_, ?_, ?_, ?_, ?_⟩
  · intro h1
    have : verdict (exportsAt ex ops k) c = .builtin .ping := by unfold verdict; simp [h1]
    rw [this]; rfl
  · intro h2 hn
    have h1 := isPair_unique c _ _ d1.symm h2
    have : verdict (exportsAt ex ops k) c = .builtin .introspect := by unfold verdict; simp [h1, h2, hn]
    rw [this]; rfl
  · intro h2 hn
    have h1 := isPair_unique c _ _ d1.symm h2
    have ho : exported (exportsAt ex ops k) c.path = none := by
      unfold nodeKnown at hn
      simp only [Bool.or_eq_false_iff] at hn
      cases h : exported (exportsAt ex ops k) c.path with
      | none => rfl
      | some o => simp [h] at hn
    have : verdict (exportsAt ex ops k) c = .unknownObject := by unfold verdict; simp [h1, h2, hn, ho]
    rw [this]; rfl
  · intro h3 ho
    have h1 := isPair_unique c _ _ d2.symm h3
    have h2 := isPair_unique c _ _ d3.symm h3
    have : verdict (exportsAt ex ops k) c = .unknownObject := by unfold verdict; simp [h1, h2, ho]
    rw [this]; rfl
  · intro h3 ho hm
    have h1 := isPair_unique c _ _ d2.symm h3
    have h2 := isPair_unique c _ _ d3.symm h3
    cases hx : exported (exportsAt ex ops k) c.path with
    | none => simp [hx] at ho
    | some o =>
      have : verdict (exportsAt ex ops k) c = .builtin .managed := by unfold verdict; simp [h1, h2, h3, hx]
      rw [this]
      simp [callInv, callReplies, expectedCall, laterEvents, callPending, hm]
  · intro e h3 ho hm
    have h1 := isPair_unique c _ _ d2.symm h3
    have h2 := isPair_unique c _ _ d3.symm h3
    cases hx : exported (exportsAt ex ops k) c.path with
    | none => simp [hx] at ho
    | some o =>
      have : verdict (exportsAt ex ops k) c = .builtin .managed := by unfold verdict; simp [h1, h2, h3, hx]
      rw [this]
      have n4 : Gen.Dispatch.managedFailed.1 = "org.freedesktop.DBus.Error.Failed" := by decide
      refine ⟨by simp [callInv, callReplies, expectedCall, laterEvents, callPending, hm],
        renderText c [] e.text Gen.Dispatch.managedFailed.2, ?_⟩
      simp only [managedFailedErr, errEvent, sendErr, n4]

/-- Witnesses for `builtin_reply` (decide): Ping on a path nothing is exported at; Introspect on the
ancestor `/` of `/a` and on the unrelated `/zz`; GetManagedObjects on `/` (an ancestor: not enough)
and on `/a`; all with a signature that no such method has (`i`): it is not looked at. -/
theorem builtin_witness :
    (run (Example.envWith fixRepaired) Example.exports
        [.call { Example.call with path := "/zz".toList, iface := some "org.freedesktop.DBus.Peer".toList,
                                   member := "Ping".toList, sig := some ['i'], body := [7] } Example.raisesNul,
         .call { Example.call with path := "/".toList, iface := some "org.freedesktop.DBus.Introspectable".toList,
                                   member := "Introspect".toList } Example.raisesNul,
         .call { Example.call with path := "/zz".toList, iface := some "org.freedesktop.DBus.Introspectable".toList,
                                   member := "Introspect".toList } Example.raisesNul,
         .call { Example.call with path := "/".toList, iface := some "org.freedesktop.DBus.ObjectManager".toList,
                                   member := "GetManagedObjects".toList } Example.raisesNul,
         .call { Example.call with iface := some "org.freedesktop.DBus.ObjectManager".toList,
                                   member := "GetManagedObjects".toList, sig := some ['i'], body := [7],
                                   expectReply := false } Example.raisesNul] |>.2).map
      (fun e => match e.2 with
        | .invoked _ _ _ => (e.1, "user code".toList)
        | .sent (.err n _ _ _) => (e.1, n)
        | .sent (.ret _ _ sg _) => (e.1, "ret ".toList ++ sg.getD ['-'])) =
      [(0, "ret -".toList), (1, "ret s".toList), (2, "org.freedesktop.DBus.Error.UnknownObject".toList),
       (3, "org.freedesktop.DBus.Error.UnknownObject".toList), (4, "ret a{oa{sa{sv}}}".toList)] := by
  decide

/-! ## 6d. Extension 2026-09-30: calls to org.freedesktop.DBus.Properties - composition with C17

The dispatcher has no special case for the Properties interface (`Obj/DispatchProps.lean`): the
call is looked up like any other and ends in one of three functions of `DBusObject`.  What those
functions do is C17's model `Obj/Props.lean` (imported read-only): in the theorems below the
behaviour of a history's calls is `libBehav L st c user` - C17's `opGet` / `opSet` / `opGetAll` in
C17-state `st` for the three library functions, anything (`user`) for user code.  `st` is
universally quantified: whatever C17's history made of the state, the dispatcher's reply is C17's
outcome for that state.  All theorems of sections 1-6c hold for these histories too (they are
histories): at most one reply, exactly one when expected, addressed to the caller, none for a
no-reply call - for which `_dbus_PropertySet` STILL RUNS and changes the property (`runs_iff`). -/

section PropsComposition

open DispatchProps

/-- WHAT THE DISPATCHER SENDS FOR A PROPERTIES CALL, EXACTLY (message level).  A call to
`org.freedesktop.DBus.Properties` that expects a reply, on a path that is exported when the call
arrives, to an object whose Properties interface is served by the library (`LibraryServes`), with
the member's signature and arguments, whose library function behaves as C17's model says in state
`st` (`libBehav L st c user`): the replies to the call are exactly `exactReply L c.serial c.sender out`
- ONE message with the call's serial and sender, the member's reply signature and the value C17's
model computed (Get: the variant's signature and value; GetAll: the dictionary in wire order; Set:
the empty return), or the error `org.txdbus.PythonException.<Class>` with the exception's text -
where `out` is `Props.opGet ..` / the reply part of `Props.opSet ..` / `Props.opGetAll ..`.
The body of the reply is therefore no longer a parameter of the C10 model.

`_partial`: this is a statement about ONE call under the hypothesis that the library function does
what C17's code model says for a state `st` and a world `L.W` that the hypotheses do not connect to
the history or to the exported object's class chain.  What closes the gap partly:
`callStep_moves_c17_state` (when and how the state moves through the dispatcher),
`get_through_dispatcher_returns_last_write` / `set_then_get_through_dispatcher` (C17's THEOREM
`get_returns_last_write` carried through the dispatcher for a state that IS the result of a C17
history).  What stays missing: a proof that `L.W` is the elaboration of the declarations of the very
classes in `o.classes` (the two models describe one Python class chain from two sides - functions and
interfaces with methods here, properties there; the correspondence stream `dispatch-properties`
feeds both from the same real classes), and more than one class chain per world (C17's scope). -/
theorem properties_call_reply_is_c17_partial (env : Env PV) (L : Lib) (henv : LibEnvOK env L) (st : Props.St)
    (ex : Exports) (ops : List (Op PV)) (k : Nat) (c : Call PV)
    (user : Nat → Outcome PV) (hk : ops[k]? = some (.call c (libBehav L st c user)))
    (he : c.expectReply = true) (o : Obj) (ho : exported (exportsAt ex ops k) c.path = some o)
    (hserve : LibraryServes o) (hi : c.iface = some propsName) :
    (∀ i p, c.member = getMember → c.sig.getD [] = "ss".toList → c.body = [.str i, .str p] →
      replies (eventsOf k (run env ex ops).2) =
        exactReply L c.serial c.sender (Props.opGet L.cfg L.W st L.o i p)) ∧
    (∀ i p v, c.member = setMember → c.sig.getD [] = "ssv".toList → c.body = [.str i, .str p, .val v] →
      replies (eventsOf k (run env ex ops).2) =
        exactReply L c.serial c.sender (replyOut (Props.opSet L.cfg L.W st L.o i p v).2)) ∧
    (∀ i, c.member = getAllMember → c.sig.getD [] = "s".toList → c.body = [.str i] →
      replies (eventsOf k (run env ex ops).2) =
        exactReply L c.serial c.sender (Props.opGetAll L.cfg L.W st L.o i)) := by
  obtain ⟨s1, s2, s3⟩ := hserve
  refine ⟨?_, ?_, ?_⟩
  · intro i p hm hsig hb
    obtain ⟨m, hso, hr⟩ := replies_props_served env ex ops k c _ hk he o ho _ _ _ _ s1 hi hm hsig L _
      (libBehav_get L st c user i p hb)
    rw [hr, fireOutcome_exact env L henv _ _ (by
      show sigFits m.sigOut _
      rw [hso]; exact opGet_sigFits ..), if_pos (opGet_isReply ..)]
    rfl
  · intro i p v hm hsig hb
    obtain ⟨m, hso, hr⟩ := replies_props_served env ex ops k c _ hk he o ho _ _ _ _ s2 hi hm hsig L _
      (libBehav_set L st c user i p v hb)
    rw [hr, fireOutcome_exact env L henv _ _ (by
      show sigFits m.sigOut _
      rw [hso]; exact opSet_sigFits ..), if_pos (opSet_isReply ..)]
    rfl
  · intro i hm hsig hb
    obtain ⟨m, hso, hr⟩ := replies_props_served env ex ops k c _ hk he o ho _ _ _ _ s3 hi hm hsig L _
      (libBehav_getAll L st c user i hb)
    rw [hr, fireOutcome_exact env L henv _ _ (by
      show sigFits m.sigOut _
      rw [hso]; exact opGetAll_sigFits ..), if_pos (opGetAll_isReply ..)]
    rfl

/-- COROLLARY, in C17's vocabulary: the same replies OBSERVED THE WAY C17's HARNESS OBSERVES REPLIES
(`obsMsg`: a Lean transcription of harness/c17.py `show_obs` / `err_cat` - return kind by signature,
error category by name and text; the transcription itself is tied to nothing but the four error
texts of the generated table) are `[some (normOut out)]`: C17's outcome up to the categories that only
say "Python raised" (`noAttr` / `value`), which are one on the wire.  Weaker than the theorem above:
serial, destination, the name and text of a `value` error and the Set body are not observed. -/
theorem properties_reply_observed_as_c17 (env : Env PV) (L : Lib) (henv : LibEnvOK env L) (st : Props.St)
    (ex : Exports) (ops : List (Op PV)) (k : Nat) (c : Call PV)
    (user : Nat → Outcome PV) (hk : ops[k]? = some (.call c (libBehav L st c user)))
    (he : c.expectReply = true) (o : Obj) (ho : exported (exportsAt ex ops k) c.path = some o)
    (hserve : LibraryServes o) (hi : c.iface = some propsName) :
    (∀ i p, c.member = getMember → c.sig.getD [] = "ss".toList → c.body = [.str i, .str p] →
      (replies (eventsOf k (run env ex ops).2)).map obsMsg =
        [some (normOut (Props.opGet L.cfg L.W st L.o i p))]) ∧
    (∀ i p v, c.member = setMember → c.sig.getD [] = "ssv".toList → c.body = [.str i, .str p, .val v] →
      (replies (eventsOf k (run env ex ops).2)).map obsMsg =
        [some (normOut (replyOut (Props.opSet L.cfg L.W st L.o i p v).2))]) ∧
    (∀ i, c.member = getAllMember → c.sig.getD [] = "s".toList → c.body = [.str i] →
      (replies (eventsOf k (run env ex ops).2)).map obsMsg =
        [some (normOut (Props.opGetAll L.cfg L.W st L.o i))]) := by
  obtain ⟨h1, h2, h3⟩ := properties_call_reply_is_c17_partial env L henv st ex ops k c user hk he o ho hserve hi
  refine ⟨?_, ?_, ?_⟩
  · intro i p hm hsig hb
    rw [h1 i p hm hsig hb]; exact exactReply_obs L henv.vcls _ _ _ (opGet_isReply ..)
  · intro i p v hm hsig hb
    rw [h2 i p v hm hsig hb]; exact exactReply_obs L henv.vcls _ _ _ (opSet_isReply ..)
  · intro i hm hsig hb
    rw [h3 i hm hsig hb]; exact exactReply_obs L henv.vcls _ _ _ (opGetAll_isReply ..)

/-- HOW C17's STATE MOVES THROUGH THE DISPATCHER (`DispatchProps.callStep`, the step the driver runs).
For ANY call: the dispatcher's part is its ordinary step; C17's state afterwards is `libSet`'s when the
call is dispatched to `_dbus_PropertySet` (`runsSet`) and UNCHANGED otherwise.  On an object the
library serves: a Set call with signature `ssv` moves the state to `(Props.opSet ..).1` and sends
`opSet`'s signals - whether or not a reply is expected, whatever `opSet` answers; Get and GetAll calls
leave it alone; so does every call that fails the lookup (path not exported, other signature). -/
theorem callStep_moves_c17_state (env : Env PV) (L : Lib) (s : State) (st : Props.St) (c : Call PV)
    (user : Nat → Outcome PV) :
    ((callStep env L s st c user).2.1 = if runsSet s.exports c then (libSet L st c.body).2.1 else st) ∧
    (∀ o, exported s.exports c.path = some o → LibraryServes o → c.iface = some propsName →
      (∀ i p v, c.member = setMember → c.sig.getD [] = "ssv".toList → c.body = [.str i, .str p, .val v] →
        (callStep env L s st c user).2.1 = (Props.opSet L.cfg L.W st L.o i p v).1 ∧
        (callStep env L s st c user).2.2.2 = signalsOf (Props.opSet L.cfg L.W st L.o i p v).2) ∧
      (c.member = getMember → c.sig.getD [] = "ss".toList → (callStep env L s st c user).2.1 = st) ∧
      (c.member = getAllMember → c.sig.getD [] = "s".toList → (callStep env L s st c user).2.1 = st)) ∧
    ((∀ f m, verdict s.exports c ≠ .run f m) → (callStep env L s st c user).2.1 = st) := by
  obtain ⟨_, _, h3, h4⟩ := callStep_state env L s st c user
  obtain ⟨d1, d2, d3⟩ := lib_ids_distinct
  refine ⟨h3, ?_, ?_⟩
  · intro o ho hserve hi
    refine ⟨?_, ?_, ?_⟩
    · intro i p v hm hsig hb
      obtain ⟨f, m, hv, hid, _, _⟩ := verdict_props s.exports c o _ _ _ _ ho hserve.2.1 hi hm hsig
      have hrs : runsSet s.exports c = true := by simp [runsSet, hv, hid]
      rw [h3, h4, hrs]
      simp [libSet, hb]
    · intro hm hsig
      obtain ⟨f, m, hv, hid, _, _⟩ := verdict_props s.exports c o _ _ _ _ ho hserve.1 hi hm hsig
      have hrs : runsSet s.exports c = false := by simp [runsSet, hv, hid, d1]
      rw [h3, hrs]; rfl
    · intro hm hsig
      obtain ⟨f, m, hv, hid, _, _⟩ := verdict_props s.exports c o _ _ _ _ ho hserve.2.2 hi hm hsig
      have hrs : runsSet s.exports c = false := by
        have : ¬ (getAllId = setId) := fun h => d3 h.symm
        simp [runsSet, hv, hid, this]
      rw [h3, hrs]; rfl
  · intro hno
    have hrs : runsSet s.exports c = false := by
      unfold runsSet
      cases hv : verdict s.exports c with
      | run f m => exact absurd hv (hno f m)
      | _ => rfl
    rw [h3, hrs]; rfl

/-- Error names AS THE CODE GIVES THEM.  When C17's outcome of a Properties.Get call is one of the
errors the code decides by itself - the object has no such property; the property is write-only -
the reply is exactly the error `org.txdbus.PythonException.Exception` with the code's text
(`Invalid Property`, `Property is not readable`; names and texts are probed from the source,
`builtin_table_shape`), carrying the call's serial and sender.  (Set: `Invalid Property`,
`Property is not Writeable`; GetAll: `Invalid Interface` - same proof, same table.) -/
theorem properties_get_error_exact (env : Env PV) (L : Lib) (henv : LibEnvOK env L) (st : Props.St)
    (ex : Exports) (ops : List (Op PV)) (k : Nat) (c : Call PV)
    (user : Nat → Outcome PV) (hk : ops[k]? = some (.call c (libBehav L st c user)))
    (he : c.expectReply = true) (o : Obj) (ho : exported (exportsAt ex ops k) c.path = some o)
    (hserve : LibraryServes o) (hi : c.iface = some propsName)
    (i p : Str) (hm : c.member = getMember) (hsig : c.sig.getD [] = "ss".toList)
    (hb : c.body = [.str i, .str p]) :
    (Props.opGet L.cfg L.W st L.o i p = .err .unknownProp →
      replies (eventsOf k (run env ex ops).2) =
        [.err "org.txdbus.PythonException.Exception".toList c.serial c.sender "Invalid Property".toList]) ∧
    (Props.opGet L.cfg L.W st L.o i p = .err .notReadable →
      replies (eventsOf k (run env ex ops).2) =
        [.err "org.txdbus.PythonException.Exception".toList c.serial c.sender "Property is not readable".toList]) := by
  obtain ⟨m, _, hr⟩ := replies_props_served env ex ops k c _ hk he o ho _ _ _ _ hserve.1 hi hm hsig L _
    (libBehav_get L st c user i p hb)
  obtain ⟨n1, n2, _, _⟩ := table_texts_no_nul
  constructor
  · intro hout
    rw [hr, hout, fireOutcome_err_exact env L henv _ .unknownProp n1]
    have : pyExceptionPrefix ++ invalidProperty.cls = "org.txdbus.PythonException.Exception".toList := by decide
    have t : invalidProperty.text = "Invalid Property".toList := by decide
    simp only [excOfCat, this, t, pendingOf]
  · intro hout
    rw [hr, hout, fireOutcome_err_exact env L henv _ .notReadable n2]
    have : pyExceptionPrefix ++ notReadable.cls = "org.txdbus.PythonException.Exception".toList := by decide
    have t : notReadable.text = "Property is not readable".toList := by decide
    simp only [excOfCat, this, t, pendingOf]

/-- The same for Set and GetAll: `Invalid Property` / `Property is not Writeable` for Set, `Invalid Interface`
for GetAll - exactly `org.txdbus.PythonException.Exception` with the code's text, the call's serial and sender. -/
theorem properties_set_getall_error_exact (env : Env PV) (L : Lib) (henv : LibEnvOK env L) (st : Props.St)
    (ex : Exports) (ops : List (Op PV)) (k : Nat) (c : Call PV)
    (user : Nat → Outcome PV) (hk : ops[k]? = some (.call c (libBehav L st c user)))
    (he : c.expectReply = true) (o : Obj) (ho : exported (exportsAt ex ops k) c.path = some o)
    (hserve : LibraryServes o) (hi : c.iface = some propsName) :
    (∀ i p v, c.member = setMember → c.sig.getD [] = "ssv".toList → c.body = [.str i, .str p, .val v] →
      (replyOut (Props.opSet L.cfg L.W st L.o i p v).2 = .err .unknownProp →
        replies (eventsOf k (run env ex ops).2) =
          [.err "org.txdbus.PythonException.Exception".toList c.serial c.sender "Invalid Property".toList]) ∧
      (replyOut (Props.opSet L.cfg L.W st L.o i p v).2 = .err .notWritable →
        replies (eventsOf k (run env ex ops).2) =
          [.err "org.txdbus.PythonException.Exception".toList c.serial c.sender "Property is not Writeable".toList])) ∧
    (∀ i, c.member = getAllMember → c.sig.getD [] = "s".toList → c.body = [.str i] →
      Props.opGetAll L.cfg L.W st L.o i = .err .unknownIface →
        replies (eventsOf k (run env ex ops).2) =
          [.err "org.txdbus.PythonException.Exception".toList c.serial c.sender "Invalid Interface".toList]) := by
  obtain ⟨n1, _, n3, n4⟩ := table_texts_no_nul
  constructor
  · intro i p v hm hsig hb
    obtain ⟨m, _, hr⟩ := replies_props_served env ex ops k c _ hk he o ho _ _ _ _ hserve.2.1 hi hm hsig L _
      (libBehav_set L st c user i p v hb)
    constructor
    · intro hout
      rw [hr, hout, fireOutcome_err_exact env L henv _ .unknownProp n1]
      have : pyExceptionPrefix ++ invalidProperty.cls = "org.txdbus.PythonException.Exception".toList := by decide
      have t : invalidProperty.text = "Invalid Property".toList := by decide
      simp only [excOfCat, this, t, pendingOf]
    · intro hout
      rw [hr, hout, fireOutcome_err_exact env L henv _ .notWritable n3]
      have : pyExceptionPrefix ++ notWritable.cls = "org.txdbus.PythonException.Exception".toList := by decide
      have t : notWritable.text = "Property is not Writeable".toList := by decide
      simp only [excOfCat, this, t, pendingOf]
  · intro i hm hsig hb hout
    obtain ⟨m, _, hr⟩ := replies_props_served env ex ops k c _ hk he o ho _ _ _ _ hserve.2.2 hi hm hsig L _
      (libBehav_getAll L st c user i hb)
    rw [hr, hout, fireOutcome_err_exact env L henv _ .unknownIface n4]
    have : pyExceptionPrefix ++ invalidInterface.cls = "org.txdbus.PythonException.Exception".toList := by decide
    have t : invalidInterface.text = "Invalid Interface".toList := by decide
    simp only [excOfCat, this, t, pendingOf]

/-- Properties calls that do not reach the library: on a path that is NOT exported when the call
arrives the one event is the UnknownObject error - which C17 observes as `err unknownObject`, the
answer of C17's own `step` for an object that was never exported; with a signature other than the
member's declared one (`ss` / `ssv` / `s`) the one event is the InvalidArgs error OF THAT MEMBER
(`invalidArgsErr c m`: the text names the call's and the member's signature) and the library function
does not run (nothing is read or written).  (C17's `step` answers `err unknownObject` only for an object
that was NEVER exported; after `unexportObject` it would still answer - see the seam `example` below.) -/
theorem properties_lookup_errors (env : Env PV) (ex : Exports) (ops : List (Op PV))
    (k : Nat) (c : Call PV) (b : Nat → Outcome PV) (hk : ops[k]? = some (.call c b))
    (hi : c.iface = some propsName) :
    (exported (exportsAt ex ops k) c.path = none →
      eventsOf k (run env ex ops).2 = [unknownObjectErr c] ∧
      (replies (eventsOf k (run env ex ops).2)).map obsMsg = [some (.err .unknownObject)]) ∧
    (∀ o member id sigIn sigOut, exported (exportsAt ex ops k) c.path = some o →
      serves o member id sigIn sigOut = true → c.member = member → c.sig.getD [] ≠ sigIn →
      ∃ m : Method, m.sigIn = sigIn ∧
        eventsOf k (run env ex ops).2 = [invalidArgsErr c m] ∧
        (∃ text, (invalidArgsErr c m : Event PV) =
          .sent (.err "org.freedesktop.DBus.Error.InvalidArgs".toList c.serial c.sender text)) ∧
        invocations (eventsOf k (run env ex ops).2) = []) := by
  obtain ⟨n0, n1, n2, n3⟩ := propsName_not_builtin
  have hh : handledByHandler (exportsAt ex ops k) c = false := by
    simp [handledByHandler, isPair_false_of_iface c _ _ hi n1, isPair_false_of_iface c _ _ hi n2,
      isPair_false_of_iface c _ _ hi n3]
  obtain ⟨l1, _, l3⟩ := lookup_failure_reply env ex ops k c b hk hh
  constructor
  · intro ho
    obtain ⟨h1, text, h2⟩ := l1 ho
    refine ⟨h1, ?_⟩
    rw [h1, h2]
    have hu : ("org.freedesktop.DBus.Error.UnknownObject".toList : Str) = unknownObjectName := by decide
    simp [replies, obsMsg, errCat, hu]
  · intro o member id sigIn sigOut ho hs hm hsig
    unfold serves at hs
    cases hf : (declared o).find? (fun x => x.name = propsName) with
    | none => simp [hf] at hs
    | some i =>
      simp only [hf] at hs
      cases hmm : memberOf i member with
      | none => simp [hmm] at hs
      | some m =>
        simp only [hmm, Bool.and_eq_true, beq_iff_eq] at hs
        have ha : addressed o c = some (i, m) := by
          unfold addressed
          rw [addressedIface_named o c propsName n0 hi, hf, hm]
          simp [hmm]
        have hne : c.sig.getD [] ≠ m.sigIn := by rw [hs.1.1]; exact hsig
        obtain ⟨h1, text, h2⟩ := l3 o i m ho ha hne
        refine ⟨m, hs.1.1, h1, ⟨text, h2⟩, ?_⟩
        rw [h1, h2]; rfl

/-- WHEN the library serves the Properties interface (`LibraryServes`, the hypothesis of the composition
theorems): whenever every class of the object below `DBusObject` leaves the interface alone
(`LeavesPropsAlone`: declares no interface of that name; defines no `dbus_Get` / `dbus_Set` /
`dbus_GetAll` - such a method would serve the member on EVERY interface, the Properties one included -
and no attribute under the names of DBusObject's three functions, which the decorator table takes by
name from the instance; decorates nothing for the interface).  For any number of such classes. -/
theorem library_serves_plain_objects (user : List Class) (h : ∀ c ∈ user, LeavesPropsAlone c) :
    LibraryServes { classes := user ++ [baseClass] } :=
  libraryServes_of_plain user h

/-- The generated table of the library part (`Gen/DispatchBuiltin.lean`, probed from the source on
every run) names what the statement and C17 name. -/
theorem builtin_table_shape :
    Gen.DispatchBuiltin.propsIface = "org.freedesktop.DBus.Properties" ∧
    Gen.DispatchBuiltin.baseIfaces =
      [("org.freedesktop.DBus.Properties", [("Get", "ss", "v", 1), ("Set", "ssv", "", 0), ("GetAll", "s", "a{sv}", 1)])] ∧
    Gen.DispatchBuiltin.propsIface = Gen.C17Props.propsIface ∧
    Gen.DispatchBuiltin.baseIfaces.flatMap (fun i => i.2.map fun m => (m.1, m.2.1, m.2.2.1)) = Gen.C17Props.propsMethods ∧
    Gen.DispatchBuiltin.invalidProperty = ("Exception", "Invalid Property") ∧
    Gen.DispatchBuiltin.notReadable = ("Exception", "Property is not readable") ∧
    Gen.DispatchBuiltin.notWritable = ("Exception", "Property is not Writeable") ∧
    Gen.DispatchBuiltin.invalidInterface = ("Exception", "Invalid Interface") ∧
    (Gen.DispatchBuiltin.getReplySig, Gen.DispatchBuiltin.setReplySig, Gen.DispatchBuiltin.getAllReplySig) = ("v", "", "a{sv}") ∧
    Gen.DispatchBuiltin.wrongSignatureError = Gen.Dispatch.invalidArgs.1 ∧
    Gen.DispatchBuiltin.unexportedError = Gen.Dispatch.unknownObject.1 := by
  refine ⟨by decide, by decide, by decide, by decide, by decide, by decide, by decide, by decide, by decide,
    by decide, by decide⟩

section EndToEnd

open Txdbus.Obj.Props Txdbus.Obj.PropsSpec in
/-- END TO END, with C17's THEOREM: Properties.Get THROUGH THE DISPATCHER returns the last value written.
C17's side (hypotheses of `Txdbus.Properties.C17.get_returns_last_write`): declarations that elaborate,
a sound configuration, a C17 history `h` (exports, local assignments, remote Set / Get / GetAll), after
which instance `on` is attached and the specification holds value `v` - of the declared type - for the
readable property `(i, p)`.  The dispatcher's side: the object is exported at the call's path when
the call arrives, the library serves its Properties interface, the call is `Get(i, p)` with signature
`ss` and expects a reply, and the library function runs in C17's state AFTER `h`.  Then the caller
receives exactly one message: the method return of signature `v` carrying the variant `(sg, v.plain)`
- with the call's serial, addressed to its sender - and `sg` is the declared signature for a basic type. -/
theorem get_through_dispatcher_returns_last_write
    {D : Decls} {W : World} (hD : elaborate D = some W) (hA : AttrConsistent W) (hM : Modelled W)
    {cfg : Cfg} (hc : cfg.Sound) {h : List Props.Op} (hg : GoodHist h)
    (on : Nat) (i p : Dispatch.Str) (hi0 : i ≠ []) (hatt : (specRun cfg W h).attached on = true)
    {sp : SProp} (hsp : (sdeclOf W).find i p = some sp) (hr : sp.readable = true)
    {v : Props.PVal} (hv : (specRun cfg W h).val on i p = some v) (ht : HasTypeSig sp.sig v = true)
    (env : Env PV) (vexc : Exc) (henv : LibEnvOK env ⟨cfg, W, on, vexc⟩)
    (ex : Exports) (ops : List (Dispatch.Op PV)) (k : Nat) (c : Call PV) (user : Nat → Outcome PV)
    (hk : ops[k]? = some (.call c (libBehav ⟨cfg, W, on, vexc⟩ (Props.run cfg W h) c user)))
    (he : c.expectReply = true) (o : Obj) (ho : exported (exportsAt ex ops k) c.path = some o)
    (hserve : LibraryServes o) (hi : c.iface = some propsName) (hm : c.member = getMember)
    (hsig : c.sig.getD [] = "ss".toList) (hb : c.body = [.str i, .str p]) :
    ∃ sg, replies (eventsOf k (Dispatch.run env ex ops).2) =
        [.ret c.serial c.sender (some "v".toList) (.vals [.variant sg v.plain])] ∧
      (IsBasic sp.sig = true → sg = sp.sig) := by
  obtain ⟨sg, hstep, hbasic⟩ :=
    Txdbus.Properties.C17.get_returns_last_write hD hA hM hc hg on i p hi0 hatt hsp hr hv ht
  refine ⟨sg, ?_, hbasic⟩
  have hget : Props.opGet cfg W (Props.run cfg W h) on i p = .retV sg v.plain := by
    unfold Props.step at hstep
    by_cases hmem : on ∈ (Props.run cfg W h).attached
    · simp only [hmem, if_true, Prod.mk.injEq, List.cons.injEq, and_true, true_and] at hstep
      exact hstep
    · simp [hmem] at hstep
  have := (properties_call_reply_is_c17_partial env ⟨cfg, W, on, vexc⟩ henv (Props.run cfg W h) ex ops k c
    user hk he o ho hserve hi).1 i p hm hsig hb
  rw [this]
  simp only [hget, exactReply]
  have : Gen.DispatchBuiltin.getReplySig.toList = "v".toList := by decide
  rw [this]

theorem props_run_snoc (cfg : Props.Cfg) (W : Props.World) (h : List Props.Op) (op : Props.Op) :
    Props.run cfg W (h ++ [op]) = (Props.step cfg W (Props.run cfg W h) op).1 := by
  unfold Props.run
  generalize Props.St.init = st
  induction h generalizing st with
  | nil => rfl
  | cons a t ih => simp only [List.cons_append, Props.runFrom]; exact ih _

/-- SET THEN GET, both through the dispatcher.  C17's state is the result of a history `h` in which
instance `on` is attached; a Properties.Set call (any `expectReply`, also NO_REPLY_EXPECTED) on an
object the library serves moves the state the driver threads (`callStep`) to C17's state after
`h ++ [set on i p v]`; a later Get call dispatched in that state is answered as C17's theorems say for
THAT history (`get_through_dispatcher_returns_last_write` with `h ++ [set ..]`). -/
theorem set_then_get_through_dispatcher (env : Env PV) (cfg : Props.Cfg) (W : Props.World) (h : List Props.Op)
    (on : Nat) (vexc : Exc) (hatt : on ∈ (Props.run cfg W h).attached)
    (s : State) (c : Call PV) (user : Nat → Outcome PV) (o : Obj)
    (ho : exported s.exports c.path = some o) (hserve : LibraryServes o) (hi : c.iface = some propsName)
    (i p : Dispatch.Str) (v : Props.PVal) (hm : c.member = setMember) (hsig : c.sig.getD [] = "ssv".toList)
    (hb : c.body = [.str i, .str p, .val v]) :
    (callStep env ⟨cfg, W, on, vexc⟩ s (Props.run cfg W h) c user).2.1 =
      Props.run cfg W (h ++ [.set on i p v]) := by
  have := ((callStep_moves_c17_state env ⟨cfg, W, on, vexc⟩ s (Props.run cfg W h) c user).2.1 o ho hserve hi).1
    i p v hm hsig hb
  rw [this.1, props_run_snoc]
  simp [Props.step, hatt]

end EndToEnd

namespace Example

/-- a user class with one interface `org.p` (properties only: no methods) on top of `DBusObject` -/
def propObj : Obj :=
  { classes := [{ ifaces := some [{ name := "org.p".toList, methods := [] }], attrs := [] }, baseClass] }

def propExports : Exports := [("/p".toList, propObj)]

/-- C17's side of it: property `v` of type `s`, read-write, attribute `v` -/
def propDecls : Props.Decls :=
  [{ ifaces := [{ name := "org.p".toList,
                  props := [("v".toList, { name := "v".toList, sig := ['s'], access := .readwrite, emits := .no })] }],
     descs := [{ attr := "v".toList, pname := "v".toList, iface := some "org.p".toList }] }]

def propWorld : Props.World := (Props.elaborate propDecls).getD ⟨[], [], []⟩

def propLib : Lib :=
  { cfg := Props.Cfg.repaired, W := propWorld, o := 0,
    vexc := { cls := "ValueError".toList, errName := none, text := [] } }

def propEnv : Env PV :=
  { encErr := fun _ _ => none, managedErr := fun _ => none, ofSeq := fun _ => .other 0,
    validErr := fun _ => true, textFix := fixRepaired }

/-- C17-state: `v = 'hello'` assigned, then object 0 exported (attached) -/
def propSt : Props.St :=
  (Props.runFrom Props.Cfg.repaired propWorld Props.St.init [.assign 0 "v".toList (.str "hello".toList), .export 0])

def getCall (p : String) : Call PV :=
  { path := "/p".toList, iface := some propsName, member := getMember, sig := some "ss".toList,
    sender := some ":1.7".toList, serial := 9, expectReply := true,
    body := [.str "org.p".toList, .str p.toList] }

end Example

/-- Witness (decide): Properties.Get of an existing and of a missing property through the
dispatcher, the library function running C17's model: the variant `s 'hello'`, then the error
`org.txdbus.PythonException.Exception: Invalid Property`; both addressed to the caller. -/
theorem properties_witness :
    (run Example.propEnv Example.propExports
        [.call (Example.getCall "v") (libBehav Example.propLib Example.propSt (Example.getCall "v") fun _ => .deferred),
         .call (Example.getCall "w") (libBehav Example.propLib Example.propSt (Example.getCall "w") fun _ => .deferred)]
      |>.2).filterMap (fun e => match e.2 with | .sent m => some (e.1, m) | _ => none) =
      [(0, .ret 9 (some ":1.7".toList) (some ['v']) (.vals [.variant ['s'] (.str "hello".toList)])),
       (1, .err "org.txdbus.PythonException.Exception".toList 9 (some ":1.7".toList) "Invalid Property".toList)] := by
  decide

example : LibraryServes Example.propObj := by decide

/-- the composition theorem applied to the witness history (k = 0): its hypotheses are jointly satisfiable -/
example :
    replies (eventsOf 0 (run Example.propEnv Example.propExports
      [.call (Example.getCall "v") (libBehav Example.propLib Example.propSt (Example.getCall "v") fun _ => .deferred)]).2) =
    exactReply Example.propLib 9 (some ":1.7".toList)
      (Props.opGet Props.Cfg.repaired Example.propWorld Example.propSt 0 "org.p".toList "v".toList) :=
  (properties_call_reply_is_c17_partial Example.propEnv Example.propLib
    { enc := fun _ _ _ => rfl, fix := rfl, valid := fun _ => rfl, vname := rfl, vcls := by decide }
    Example.propSt Example.propExports _ 0 (Example.getCall "v") (fun _ => .deferred) rfl rfl
    Example.propObj (by decide) (by decide) rfl).1 "org.p".toList "v".toList rfl (by decide) rfl

/-- THE SEAM between the two models, checkable: after `unexportObject('/p')` the dispatcher answers a
Properties.Get with UnknownObject, while C17's own `step` - whose `attached` is never undone - would still
answer with the value. -/
example :
    List.filterMap (fun e => match e.2 with | .sent (.err n _ _ _) => some n | _ => none)
      (run Example.propEnv Example.propExports
        [.unexportObj "/p".toList,
         .call (Example.getCall "v") (libBehav Example.propLib Example.propSt (Example.getCall "v") fun _ => .deferred)]).2 =
      ["org.freedesktop.DBus.Error.UnknownObject".toList] ∧
    (Props.step Props.Cfg.repaired Example.propWorld Example.propSt (.get 0 "org.p".toList "v".toList)).2 =
      [.retV ['s'] (.str "hello".toList)] := by
  decide

/-- the structural condition holds for the example's user class (it has no attributes and one interface `org.p`) -/
example : ∀ c ∈ [({ ifaces := some [{ name := "org.p".toList, methods := [] }], attrs := [] } : Class)],
    LeavesPropsAlone c := by
  intro c hc
  simp only [List.mem_singleton] at hc
  subst hc
  refine ⟨?_, ?_, ?_⟩
  · intro i hi
    simp only [Option.getD_some, List.mem_singleton] at hi
    subst hi
    decide
  · intro a ha; simp at ha
  · intro a ha; simp at ha

/-- a user `dbus_Get` takes Properties.Get away from the library: the condition is not vacuous -/
example : ¬ LibraryServes { classes := [{ ifaces := none, attrs := [("dbus_Get".toList, { id := 1, deco := none, params := ["self".toList] })] },
                                         baseClass] } := by decide

example : LibEnvOK Example.propEnv Example.propLib :=
  { enc := fun _ _ _ => rfl, fix := rfl, valid := fun _ => rfl, vname := rfl, vcls := by decide }

end PropsComposition

/-! ## 6e. Extension 2026-09-30: interfaces without a name

Until this extension every theorem carried `NamedIfaces` / `HistoryNamed` ("declared interface names
are non-empty"), because `_searchCache` has a second branch for a false `interfaceName` that the
lemma `resolveImpl_eq` did not cover.  The spec's `bound` now says what is bound to a member of an
interface declared as `DBusInterface('')` (`decoratedName` / `decoratedAnyIn`), `resolveImpl_eq` is
proved for every name, and NO theorem of this file has the hypothesis any more. -/

/-- `executeMethod`'s resolution (`dbus_<member>`, the per-class caches in `__mro__` order, dict
order inside a cache, `getattr(self, f.__name__)`, the foreign-decorator rule) is the spec's `bound`
for EVERY interface name; for the empty name the decorator table is searched without regard to the
interface the functions name: the first class of the chain that decorates a function for the
member, its interfaces in the order its body first mentions them, the last function for the first
such interface that has one.  "Mentions": by a decorated function OR by a `DBusProperty` attribute
(`Class.propKeys`: `_cacheInterfaces` creates the cache entry of a property's interface too). -/
theorem empty_interface_name_binding (o : Obj) (iname member : Str) :
    resolveImpl o iname member = bound o iname member ∧
    decorated o [] member =
      (o.classes.findSome? fun c => decoratedAnyIn c member).bind (attr o) := by
  refine ⟨resolveImpl_eq o iname member, ?_⟩
  unfold decorated decoratedName
  simp only [ne_eq, not_true_eq_false, if_false]
  cases o.classes.findSome? (fun c => decoratedAnyIn c member) <;> rfl

namespace Example

/-- `dbusInterfaces = [DBusInterface('', Method('one', '', 's')), ...]`; the class body decorates
`f1` for (org.x, one), `f2` for (org.b, one), `f3` for (org.x, one), in this order -/
def namelessObj : Obj :=
  { classes := [{ ifaces := some [{ name := [], methods := [("one".toList, { name := "one".toList, sigIn := [], sigOut := ['s'], nret := 1 })] }],
                  attrs := [("f1".toList, { id := 1, deco := some ("org.x".toList, "one".toList), params := ["self".toList] }),
                            ("f2".toList, { id := 2, deco := some ("org.b".toList, "one".toList), params := ["self".toList] }),
                            ("f3".toList, { id := 3, deco := some ("org.x".toList, "one".toList), params := ["self".toList] })] }] }

end Example

/-- Witness (decide; the same scenario was run on the real code): a call of `one` without an
interface on an object whose first interface with that member has no name runs `f3` - `org.x` is
the first interface the class body mentions, `f3` its last function decorated for `one`. -/
theorem empty_name_witness :
    invocations (eventsOf 0 (run (Example.envWith fixRepaired) [("/a".toList, Example.namelessObj)]
      [.call { Example.call with iface := none } (fun _ => .value (.single 7))]).2) = [(3, [], none)] ∧
    bound Example.namelessObj [] "one".toList =
      some { id := 3, deco := some ("org.x".toList, "one".toList), params := ["self".toList] } := by
  decide

namespace Example

/-- the reviewer's probe: `dbusInterfaces = [DBusInterface('', Method('one','','s')), DBusInterface('org.x',
Property('p','s'))]`, body: `f1 @dbusMethod('org.b','one')`, `f2 @dbusMethod('org.x','one')`, and
`p = DBusProperty('p','org.x')` standing BEFORE the functions (`propKeys := [(0, org.x)]`) or after them (`[(2, org.x)]`) -/
def probeObj (pos : Nat) : Obj :=
  { classes := [{ ifaces := some [{ name := [], methods := [("one".toList, { name := "one".toList, sigIn := [], sigOut := ['s'], nret := 1 })] },
                                  { name := "org.x".toList, methods := [] }],
                  attrs := [("f1".toList, { id := 1, deco := some ("org.b".toList, "one".toList), params := ["self".toList] }),
                            ("f2".toList, { id := 2, deco := some ("org.x".toList, "one".toList), params := ["self".toList] })],
                  propKeys := [(pos, "org.x".toList)] }] }

end Example

/-- Witness (decide; run on the real code by the reviewer and by corpus/C10/nameless-interface-property-order.json):
a `DBusProperty` creates the cache entry of its interface, so its place in the class body decides which
interface the nameless lookup meets first: property before the functions -> `f2` (decorated for the
property's interface `org.x`) runs; property after them -> `f1`. -/
theorem property_key_order_witness :
    bound (Example.probeObj 0) [] "one".toList = some { id := 2, deco := some ("org.x".toList, "one".toList), params := ["self".toList] } ∧
    bound (Example.probeObj 2) [] "one".toList = some { id := 1, deco := some ("org.b".toList, "one".toList), params := ["self".toList] } ∧
    resolveImpl (Example.probeObj 0) [] "one".toList = bound (Example.probeObj 0) [] "one".toList := by
  decide

/-! ## 7. The hypotheses are satisfiable -/

example : NamedIfaces Example.exports := by unfold NamedIfaces; decide

example : HistoryNamed Example.exports
    [.call Example.call Example.raisesNul, .unexportObj "/a".toList,
     .exportObj "/a".toList { classes := [Example.cls] }, .resolve 0 (.fail ⟨[], none, []⟩)] := by
  apply historyNamed_of
  · unfold NamedIfaces; decide
  · intro path o h
    simp at h
    obtain ⟨_, h⟩ := h
    subst h
    decide

/-- the hypotheses of `deferred_after_unexport_one_reply` hold for the witness history (k = 0, j = 1, l = 3) -/
example :
    (replies (eventsOf 0 (run (Example.envWith fixRepaired) Example.exports
      [.call Example.call (fun _ => .deferred), .unexportObj "/a".toList,
       .call { Example.call with serial := 6 } (fun _ => .deferred),
       .resolve 0 (.value (.single 42))]).2)).length = 1 := by
  refine (deferred_after_unexport_one_reply (Example.envWith fixRepaired) (fun _ => rfl) Example.exports _
    0 1 3 Example.call (fun _ => .deferred) rfl rfl
    { id := 1, deco := none, params := ["self".toList, "dbusCaller".toList] }
    { name := "one".toList, sigIn := [], sigOut := ['s'], nret := 1 } (by decide) rfl (by decide) rfl (by decide)
    (.value (.single 42)) rfl ?_).2.2.1
  intro i h1 h2 r
  have : i = 1 ∨ i = 2 := by omega
  rcases this with h | h <;> subst h <;> simp

example : TextTotal (Example.envWith fixRepaired) := fun _ => rfl

example : ¬ TextTotal (Example.envWith fixPrefix) := fun h => by
  have := h ['\x00']
  simp [Example.envWith, fixPrefix] at this

example : ∃ f m, Runnable Example.exports Example.call f m :=
  ⟨{ id := 1, deco := none, params := ["self".toList, "dbusCaller".toList] },
   { name := "one".toList, sigIn := [], sigOut := ['s'], nret := 1 },
   (verdict_run_iff _ _ _ _).mp (by decide)⟩

example : verdict Example.exports { Example.call with path := "/zz".toList } = .unknownObject := by decide
example : verdict Example.exports { Example.call with member := "two".toList } = .unknownMethod := by decide
example : verdict Example.exports { Example.call with sig := some ['i'] } =
    .invalidArgs { name := "one".toList, sigIn := [], sigOut := ['s'], nret := 1 } := by decide

end Txdbus.Obj

#print axioms Txdbus.Obj.at_most_one_reply
#print axioms Txdbus.Obj.exactly_one_if_expected
#print axioms Txdbus.Obj.none_if_no_reply_and_dispatched
#print axioms Txdbus.Obj.reply_addressing
#print axioms Txdbus.Obj.runs_iff
#print axioms Txdbus.Obj.lookup_failure_reply
#print axioms Txdbus.Obj.unbound_reply
#print axioms Txdbus.Obj.asks_for_caller_iff
#print axioms Txdbus.Obj.source_send_error_total
#print axioms Txdbus.Obj.unbound_witness
#print axioms Txdbus.Obj.unexport_witness
#print axioms Txdbus.Obj.deferred_after_unexport_one_reply
#print axioms Txdbus.Obj.deferred_after_unexport_witness
#print axioms Txdbus.Obj.pairs_distinct
#print axioms Txdbus.Obj.isPair_unique
#print axioms Txdbus.Obj.builtin_reply
#print axioms Txdbus.Obj.builtin_witness
#print axioms Txdbus.Obj.properties_call_reply_is_c17_partial
#print axioms Txdbus.Obj.properties_reply_observed_as_c17
#print axioms Txdbus.Obj.callStep_moves_c17_state
#print axioms Txdbus.Obj.get_through_dispatcher_returns_last_write
#print axioms Txdbus.Obj.props_run_snoc
#print axioms Txdbus.Obj.set_then_get_through_dispatcher
#print axioms Txdbus.Obj.properties_get_error_exact
#print axioms Txdbus.Obj.properties_set_getall_error_exact
#print axioms Txdbus.Obj.properties_lookup_errors
#print axioms Txdbus.Obj.library_serves_plain_objects
#print axioms Txdbus.Obj.builtin_table_shape
#print axioms Txdbus.Obj.properties_witness
#print axioms Txdbus.Obj.empty_interface_name_binding
#print axioms Txdbus.Obj.empty_name_witness
#print axioms Txdbus.Obj.property_key_order_witness
#print axioms Txdbus.Obj.result_encoding
#print axioms Txdbus.Obj.unencodable_value_one_error
#print axioms Txdbus.Obj.error_reply_name
#print axioms Txdbus.Obj.table_shape
#print axioms Txdbus.Obj.prefix_model_violates_exactly_one
