/-
Property C16 - the exported-object tree seen remotely is exactly what was exported.

Code model: `Txdbus.Obj.Tree` (objects.py `DBusObjectHandler.exports/exportObject/unexportObject/
getManagedObjects/handleMethodCallMessage`, introspection.py `generateIntrospectionXML`, after the
repairs fixes/C16-01 and fixes/C16-02).  Spec: `Txdbus.Obj.TreeSpec` (paths as element lists).
All theorems quantify over ALL histories of export/unexport calls and all valid paths, the root
included; nothing is bounded.  The theorems named `orig_…` are `decide`-checked witnesses that the
code as it was before the two repairs violates the property (they are the replays of F23 / F24).
-/
import TxdbusModel.Obj.Tree
import TxdbusModel.Proofs.Obj.TreePath
import TxdbusModel.Proofs.Obj.Tree
import TxdbusModel.Gen.Validators

namespace Txdbus.C16
open Txdbus.Obj Txdbus.Obj.Tree Txdbus.Obj.TreeSpec Txdbus.Obj.TreeLemmas Txdbus.Obj.TreePath

/-! ### the table -/

/-- After any history the table answers `exports.get(s)` with exactly the object the calls so
far imply for `s` (any text `s`, valid path or not). -/
theorem exports_eq_spec (h : List Op) (s : Str) : lookup (run h) s = exportedAfter h s :=
  lookup_run h s

/-! ### 1. introspection -/

/-- Introspecting any valid path (root included) after any history lists exactly the names of
its immediate children among the exported paths, each once. -/
theorem children_eq_spec (h : List Op) (wf : WfHistory h) (p : Path) (hp : ValidPath p) :
    (introspectChildren (render p) (run h)).Nodup ∧
      ∀ name, name ∈ introspectChildren (render p) (run h) ↔ name ∈ children p (exportedPaths h) := by
  refine ⟨nodup_childLoop _ _ _ (by simp), fun name => ?_⟩
  simp only [introspectChildren, mem_childLoop, List.not_mem_nil, false_or, mem_children]
  constructor
  · rintro ⟨k, hk, hsw, hc, hne⟩
    obtain ⟨q, hq, rfl, hqE⟩ := key_valid h wf k hk
    rcases (startsWith_dirPrefix p q hp hq).mp hsw with ⟨rfl, rfl⟩ | ⟨e, rest, rfl⟩
    · exfalso; apply hne; rw [← hc]; decide
    · rw [dirPrefix_render p hp, render_below,
        childOf_below p e rest (ValidPath.slashFree hq e (by simp))] at hc
      subst hc
      exact ⟨rest, hqE⟩
  · rintro ⟨rest, hqE⟩
    have hq := ((mem_exportedPaths h _).mp hqE).1
    refine ⟨_, mem_keys_of_exported h _ hqE, (startsWith_dirPrefix p _ hp hq).mpr (Or.inr ⟨name, rest, rfl⟩), ?_, ?_⟩
    · rw [dirPrefix_render p hp, render_below]
      exact childOf_below p name rest (ValidPath.slashFree hq name (by simp))
    · exact ne_nil_of_validElem (hq name (by simp))

theorem children_nil_iff (h : List Op) (wf : WfHistory h) (p : Path) (hp : ValidPath p) :
    introspectChildren (render p) (run h) = [] ↔ below p (exportedPaths h) = [] := by
  have hc := (children_eq_spec h wf p hp).2
  simp only [List.eq_nil_iff_forall_not_mem]
  constructor
  · intro hnone q hq
    obtain ⟨hqE, e, rest, rfl⟩ := (mem_below p q _).mp hq
    exact hnone e ((hc e).mpr ((mem_children p _ e).mpr ⟨rest, hqE⟩))
  · intro hnone name hn
    obtain ⟨rest, hqE⟩ := (mem_children p _ name).mp ((hc name).mp hn)
    exact hnone _ ((mem_below p _ _).mpr ⟨hqE, name, rest, rfl⟩)

/-- Introspect fails (the call is answered UnknownObject) exactly for a path with neither object
nor exported descendants; otherwise the reply carries the interfaces of the object there (if
any) and the child list of `children_eq_spec`. -/
theorem introspect_fails_iff_nothing_there (h : List Op) (wf : WfHistory h) (p : Path) (hp : ValidPath p) :
    (handle (run h) (render p) .introspect = .unknownObject (render p) ↔
        exportedAfter h (render p) = none ∧ below p (exportedPaths h) = []) ∧
    (¬ (exportedAfter h (render p) = none ∧ below p (exportedPaths h) = []) →
        handle (run h) (render p) .introspect =
          .introspection ((exportedAfter h (render p)).map (·.ifaceNames)) (introspectChildren (render p) (run h))) := by
  rw [handle_introspect, lookup_run]
  simp only [children_nil_iff h wf p hp]
  constructor
  · constructor
    · intro hh
      split at hh
      · assumption
      · cases hh
    · intro hh; rw [if_pos hh]
  · intro hh; rw [if_neg hh]

/-! ### 2. GetManagedObjects -/

/-- The interface names reported for an object (keys of the dict `a{sa{sv}}`) are exactly its
interfaces, each once. -/
theorem interface_names_complete (o : Obj) :
    (keys (dictOf o.ifaces)).Nodup ∧ ∀ n, n ∈ keys (dictOf o.ifaces) ↔ n ∈ o.ifaceNames :=
  ⟨(nodup_keys_foldl_setItem o.ifaces [] (by simp [keys])), fun n => keys_dictOf o.ifaces n⟩

/-- For an object whose `getAllProperties(name)` depends on the name only, the reported dict holds
exactly the pairs (interface name, result of `getAllProperties(name)`) of its interfaces. -/
theorem interface_dict_complete (o : Obj) (hc : o.Consistent) :
    ∀ n t, (n, t) ∈ dictOf o.ifaces ↔ (n, t) ∈ o.ifaces :=
  (dictOf_complete o.ifaces hc).2

/-- After any history every object in the table is one whose properties can be sent (an object
that cannot be announced never gets in - repair C16-03), so GetManagedObjects never takes its
`Error.Failed` branch because of a property value that was unmarshallable at export time. -/
theorem table_objects_sendable (h : List Op) (k : Str) (o : Obj) (hk : lookup (run h) k = some o) :
    o.sendable = true := by
  rw [lookup_run] at hk; exact exportedAfter_sendable hk

/-
FULL STATEMENT (property text): "GetManagedObjects on an exported path reports exactly the exported
objects strictly beneath it, each with all its interfaces and readable properties."
PROVED below: exactly the objects strictly beneath (one entry per path, keys distinct, root included),
each with all its interface names (`interface_names_complete`) and, per interface, the token of
`getAllProperties(interface)` of the object visible there (`interface_dict_complete`).
MISSING (hence `_partial`): that this token IS "the readable properties of the interface, and only
those".  That is property C17 (`Txdbus.C17.getall_exact`, model `Obj.Props.getAllProperties`); the two
models are not linked in Lean - objects are abstract here - the link is made by the harness oracle
(`managed-objects-content`: the reply is compared with the values the harness gave the object,
write-only properties excluded).
-/
/-- GetManagedObjects on an exported valid path (root included) is answered with a method return
that lists exactly the exported objects strictly beneath it - one entry per path - each with the
dict built from its interfaces. -/
theorem managed_eq_spec_partial (h : List Op) (wf : WfHistory h) (p : Path) (hp : ValidPath p)
    (o0 : Obj) (hexp : exportedAfter h (render p) = some o0) :
    ∃ ents, handle (run h) (render p) .getManagedObjects = .managed ents ∧
      (ents.map (fun x => x.1)).Nodup ∧
      ∀ k d, (k, d) ∈ ents ↔
        ∃ q o, q ∈ below p (exportedPaths h) ∧ k = render q ∧ exportedAfter h k = some o ∧
          d = dictOf o.ifaces := by
  have hpath : o0.path = render p := (exportedAfter_some hexp).2
  refine ⟨managed (render p) (run h), ?_, nodup_managed_keys _ _ (nodup_keys_run h), fun k d => ?_⟩
  · rw [handle_managed, lookup_run, hexp]
    simp only [hpath, managedSendable_of_all _ _ (table_objects_sendable h), if_true]
  · rw [mem_managed]
    constructor
    · rintro ⟨⟨hsw, hne⟩, o, ho, rfl⟩
      have hk : k ∈ keys (run h) := by rw [mem_keys_iff, ho]; rfl
      obtain ⟨q, hq, rfl, hqE⟩ := key_valid h wf k hk
      obtain ⟨e, rest, rfl⟩ := (startsWith_dirPrefix_ne p q hp hq).mp ⟨hsw, hne⟩
      rw [lookup_run] at ho
      exact ⟨_, o, (mem_below p _ _).mpr ⟨hqE, e, rest, rfl⟩, rfl, ho, rfl⟩
    · rintro ⟨q, o, hq, rfl, ho, rfl⟩
      obtain ⟨hqE, hbelow⟩ := (mem_below p q _).mp hq
      have hqv := ((mem_exportedPaths h q).mp hqE).1
      refine ⟨(startsWith_dirPrefix_ne p q hp hqv).mpr hbelow, o, ?_, rfl⟩
      rw [lookup_run]; exact ho

/-! ### 3. UnknownObject -/

theorem isPair_iff (pr : String × String) (iface : Option Str) (member : Str) :
    isPair pr iface member = true ↔ (iface = some pr.1.toList ∧ member = pr.2.toList) := by
  simp [isPair]

/-- Which calls the handler answers itself: exactly the three (interface, member) pairs of the
table generated from objects.py. -/
theorem classify_ordinary_iff (iface : Option Str) (member : Str) :
    classify iface member = .ordinary ↔
      ∀ pr ∈ [Gen.Dispatch.peerPair, Gen.Dispatch.introspectPair, Gen.Dispatch.managedPair],
        ¬ (iface = some pr.1.toList ∧ member = pr.2.toList) := by
  unfold classify
  generalize Gen.Dispatch.peerPair = a
  generalize Gen.Dispatch.introspectPair = b
  generalize Gen.Dispatch.managedPair = c
  simp only [List.mem_cons, List.not_mem_nil, or_false, forall_eq_or_imp, forall_eq, ← isPair_iff]
  cases isPair a iface member <;> cases isPair b iface member <;> cases isPair c iface member <;> simp

/-- A call of any member on any interface that is not one of the three built-in pairs, to any path
text `s`: it is answered UnknownObject exactly when `s` is not currently exported, and otherwise
reaches the object exported there most recently.  GetManagedObjects on a path that is not exported
is answered UnknownObject as well.
STATED DEVIATION from the literal property text ("a call to a path not currently exported is
answered UnknownObject"): the built-in calls are excluded - `ping_answered_everywhere`, and
Introspect succeeds on non-exported intermediate paths (`introspect_fails_iff_nothing_there`). -/
theorem unknown_object_iff_not_exported (h : List Op) (s : Str) (iface : Option Str) (member : Str)
    (hb : ∀ pr ∈ [Gen.Dispatch.peerPair, Gen.Dispatch.introspectPair, Gen.Dispatch.managedPair],
        ¬ (iface = some pr.1.toList ∧ member = pr.2.toList)) :
    (handleMsg (run h) s iface member = .unknownObject s ↔ exportedAfter h s = none) ∧
    (∀ o, exportedAfter h s = some o → handleMsg (run h) s iface member = .dispatch o) ∧
    (handle (run h) s .getManagedObjects = .unknownObject s ↔ exportedAfter h s = none) := by
  rw [handleMsg, (classify_ordinary_iff iface member).mpr hb, handle_ordinary, handle_managed, lookup_run]
  cases exportedAfter h s with
  | none => simp
  | some o => simp; split <;> simp

/-- Peer.Ping is answered with an empty method return at every path, exported or not. -/
theorem ping_answered_everywhere (e : Exports) (s : Str) :
    handleMsg e s (some Gen.Dispatch.peerPair.1.toList) Gen.Dispatch.peerPair.2.toList = .pong := by
  have hp : isPair Gen.Dispatch.peerPair (some Gen.Dispatch.peerPair.1.toList) Gen.Dispatch.peerPair.2.toList = true :=
    (isPair_iff _ _ _).mpr ⟨rfl, rfl⟩
  unfold handleMsg classify
  rw [if_pos hp]
  simp [handle]

/-! ### 4. signals -/

/-- After any history: an export of an object whose properties can be sent sends exactly one
message, InterfacesAdded naming the object's path (header and first argument) and the dict of its
interfaces, and the object is in the table afterwards; an export of an object whose properties
cannot be sent raises, sends nothing and changes nothing; an unexport of an exported path sends
exactly one message, InterfacesRemoved naming that path and the interface names of the object that
was visible there; an unexport of a path that is not exported raises, sends nothing and leaves the
table unchanged.
(The export part restates `Tree.step`: there is no independent notion of "the announcement an export
implies" beyond path + interfaces; its value is the correspondence stream.  The content proved here
is that the unexport signal names `s` and the interfaces of the object the history implies at `s`,
and that failing calls are silent and without effect.) -/
theorem export_signals (h : List Op) :
    (∀ o : Obj, o.sendable = true →
        step (run h) (.export o) =
          ⟨setItem (run h) o.path o, [.interfacesAdded o.path o.path (dictOf o.ifaces)], false⟩) ∧
    (∀ o : Obj, o.sendable = false → step (run h) (.export o) = ⟨run h, [], true⟩) ∧
    (∀ s o, exportedAfter h s = some o →
        (step (run h) (.unexport s)).sent = [.interfacesRemoved s s o.ifaceNames] ∧
        (step (run h) (.unexport s)).raised = false) ∧
    (∀ s, exportedAfter h s = none → step (run h) (.unexport s) = ⟨run h, [], true⟩) := by
  refine ⟨fun o ho => by simp [step, ho], fun o ho => by simp [step, ho], fun s o ho => ?_, fun s ho => ?_⟩
  · have hp := (exportedAfter_some ho).2
    rw [← lookup_run] at ho
    simp [step, ho, hp]
  · rw [← lookup_run] at ho
    simp [step, ho]

/-! ### text and elements -/

/-- For valid object paths `s`, `t` (texts) with elements `p`, `q`: `t` is strictly below `s`
(element-wise proper prefix) iff `t` starts with (`"/"` if `s = "/"`, else `s ++ "/"`) and `t ≠ s`. -/
theorem strictlyBelow_iff_text (s t : Str) (p q : Path) (hs : parse s = some p) (ht : parse t = some q) :
    properPrefix p q = true ↔
      (startsWith t (if s = ['/'] then ['/'] else s ++ ['/']) = true ∧ t ≠ s) := by
  obtain ⟨hp, rfl⟩ := render_parse s p hs
  obtain ⟨hq, rfl⟩ := render_parse t q ht
  exact strictlyBelow_text p q hp hq

/-- Text and element list determine each other on valid paths. -/
theorem parse_render_inverse :
    (∀ p, ValidPath p → parse (render p) = some p) ∧ (∀ s p, parse s = some p → ValidPath p ∧ render p = s) :=
  ⟨parse_render, render_parse⟩

/-! ### witnesses: the code before the repairs violates the property -/

private def oRoot : Obj := { path := ['/'], ifaces := [], sendable := true }
private def oAB : Obj := { path := ['/', 'a', '/', 'b'], ifaces := [(['i'], 1)], sendable := true }
private def oABC : Obj := { path := ['/', 'a', '/', 'b', 'c'], ifaces := [(['i'], 2)], sendable := true }
private def oBad : Obj := { path := ['/', 'a'], ifaces := [(['i'], 3)], sendable := false }

/-- F23: with `/` exported, the unrepaired loop lists a child named "" for `/`; the spec has none. -/
theorem orig_introspect_root_lists_empty_child :
    introspectChildrenOrig (render []) (run [.export oRoot]) = [[]] ∧
    children [] (exportedPaths [.export oRoot]) = [] ∧
    introspectChildren (render []) (run [.export oRoot]) = [] := by decide

/-- F24: with `/a/b` and `/a/bc` exported, the unrepaired selection reports `/a/bc` beneath `/a/b`. -/
theorem orig_managed_reports_prefix_sibling :
    managedOrig oAB.path (run [.export oAB, .export oABC]) = [(oABC.path, [(['i'], 2)])] ∧
    below [['a'], ['b']] (exportedPaths [.export oAB, .export oABC]) = [] ∧
    managed oAB.path (run [.export oAB, .export oABC]) = [] := by decide

/-- Half-done export (before C16-03): exporting an object whose properties cannot be sent raises
and sends nothing, yet the object is in the table; the calls imply nothing and the repaired code
agrees. -/
theorem orig_failed_export_stays_visible :
    (stepOrig [] (.export oBad)).sent = [] ∧ (stepOrig [] (.export oBad)).raised = true ∧
    lookup (runOrig [.export oBad]) oBad.path = some oBad ∧
    exportedAfter [.export oBad] oBad.path = none ∧
    lookup (run [.export oBad]) oBad.path = none := by decide

/-- The element alphabet of the spec is the character class `invalid_obj_path_re` of marshal.py
allows (generated table), minus the separator: `WfHistory` is what `DBusObject.__init__`
(`validateObjectPath`) guarantees as far as characters go. -/
theorem objectPath_alphabet_eq_source (c : Char) :
    elemChar c = (inRanges Gen.Validators.objPathAllowed c.toNat && c.toNat != 47) :=
  elemCode_eq_gen c.toNat

/-! ### the hypotheses are satisfiable by non-trivial instances -/

private def hist : List Op :=
  [.export oRoot, .export oAB, .export oABC, .export oBad, .unexport ['/', 'z'],
   .export { oAB with ifaces := [(['i'], 7)] },
   .unexport oABC.path]

example : WfHistory hist := by
  intro o ho
  simp only [hist, List.mem_cons, Op.export.injEq, List.not_mem_nil, or_false, reduceCtorEq, false_or] at ho
  rcases ho with rfl | rfl | rfl | rfl | rfl <;> decide

example : ValidPath [['a'], ['b']] ∧ exportedAfter hist (render [['a'], ['b']]) = some { oAB with ifaces := [(['i'], 7)] } := by
  decide

example : children [] (exportedPaths hist) = [['a']] ∧ below [] (exportedPaths hist) = [[['a'], ['b']]] := by
  decide

end Txdbus.C16

#print axioms Txdbus.C16.exports_eq_spec
#print axioms Txdbus.C16.children_eq_spec
#print axioms Txdbus.C16.children_nil_iff
#print axioms Txdbus.C16.introspect_fails_iff_nothing_there
#print axioms Txdbus.C16.interface_names_complete
#print axioms Txdbus.C16.interface_dict_complete
#print axioms Txdbus.C16.table_objects_sendable
#print axioms Txdbus.C16.managed_eq_spec_partial
#print axioms Txdbus.C16.isPair_iff
#print axioms Txdbus.C16.classify_ordinary_iff
#print axioms Txdbus.C16.ping_answered_everywhere
#print axioms Txdbus.C16.orig_failed_export_stays_visible
#print axioms Txdbus.C16.objectPath_alphabet_eq_source
#print axioms Txdbus.C16.unknown_object_iff_not_exported
#print axioms Txdbus.C16.export_signals
#print axioms Txdbus.C16.strictlyBelow_iff_text
#print axioms Txdbus.C16.parse_render_inverse
#print axioms Txdbus.C16.orig_introspect_root_lists_empty_child
#print axioms Txdbus.C16.orig_managed_reports_prefix_sibling
