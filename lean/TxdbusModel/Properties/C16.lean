/-
Property C16 - the exported-object tree seen remotely is exactly what was exported.

Code model: `Txdbus.Obj.Tree` (objects.py `DBusObjectHandler.exports/exportObject/unexportObject/
getManagedObjects/handleMethodCallMessage`, introspection.py `generateIntrospectionXML`, after the
repairs fixes/C16-01 and fixes/C16-02).  Spec: `Txdbus.Obj.TreeSpec` (paths as element lists).
All theorems quantify over ALL histories of export/unexport calls and all valid paths, the root
included; nothing is bounded.  The theorems named `orig_…` are `decide`-checked witnesses that the
code as it was before the two repairs violates the property (they are the replays of F23 / F24).
-/
import TxdbusModel.Obj.Tree
import TxdbusModel.Proofs.Obj.TreePath
import TxdbusModel.Proofs.Obj.Tree
import TxdbusModel.Gen.Validators
import TxdbusModel.Proofs.Obj.TreeProps
import TxdbusModel.Properties.C17

namespace Txdbus.C16
open Txdbus.Obj Txdbus.Obj.Tree Txdbus.Obj.TreeSpec Txdbus.Obj.TreeLemmas Txdbus.Obj.TreePath

/-! ### the table -/

/-- After any history the table answers `exports.get(s)` with exactly the object the calls so
far imply for `s` (any text `s`, valid path or not). -/
theorem exports_eq_spec (h : List Op) (s : Str) : lookup (run h) s = exportedAfter h s :=
  lookup_run h s

/-! ### 1. introspection -/

/-- Introspecting any valid path (root included) after any history lists exactly the names of
its immediate children among the exported paths, each once. -/
theorem children_eq_spec (h : List Op) (wf : WfHistory h) (p : Path) (hp : ValidPath p) :
    (introspectChildren (render p) (run h)).Nodup ∧
      ∀ name, name ∈ introspectChildren (render p) (run h) ↔ name ∈ children p (exportedPaths h) := by
  refine ⟨nodup_childLoop _ _ _ (by simp), fun name => ?_⟩
  simp only [introspectChildren, mem_childLoop, List.not_mem_nil, false_or, mem_children]
  constructor
  · rintro ⟨k, hk, hsw, hc, hne⟩
    obtain ⟨q, hq, rfl, hqE⟩ := key_valid h wf k hk
    rcases (startsWith_dirPrefix p q hp hq).mp hsw with ⟨rfl, rfl⟩ | ⟨e, rest, rfl⟩
    · exfalso; apply hne; rw [← hc]; decide
    · rw [dirPrefix_render p hp, render_below,
        childOf_below p e rest (ValidPath.slashFree hq e (by simp))] at hc
      subst hc
      exact ⟨rest, hqE⟩
  · rintro ⟨rest, hqE⟩
    have hq := ((mem_exportedPaths h _).mp hqE).1
    refine ⟨_, mem_keys_of_exported h _ hqE, (startsWith_dirPrefix p _ hp hq).mpr (Or.inr ⟨name, rest, rfl⟩), ?_, ?_⟩
    · rw [dirPrefix_render p hp, render_below]
      exact childOf_below p name rest (ValidPath.slashFree hq name (by simp))
    · exact ne_nil_of_validElem (hq name (by simp))

theorem children_nil_iff (h : List Op) (wf : WfHistory h) (p : Path) (hp : ValidPath p) :
    introspectChildren (render p) (run h) = [] ↔ below p (exportedPaths h) = [] := by
  have hc := (children_eq_spec h wf p hp).2
  simp only [List.eq_nil_iff_forall_not_mem]
  constructor
  · intro hnone q hq
    obtain ⟨hqE, e, rest, rfl⟩ := (mem_below p q _).mp hq
    exact hnone e ((hc e).mpr ((mem_children p _ e).mpr ⟨rest, hqE⟩))
  · intro hnone name hn
    obtain ⟨rest, hqE⟩ := (mem_children p _ name).mp ((hc name).mp hn)
    exact hnone _ ((mem_below p _ _).mpr ⟨hqE, name, rest, rfl⟩)

/-- Introspect fails (the call is answered UnknownObject) exactly for a path with neither object
nor exported descendants; otherwise the reply carries the interfaces of the object there (if
any) and the child list of `children_eq_spec`. -/
theorem introspect_fails_iff_nothing_there (h : List Op) (wf : WfHistory h) (p : Path) (hp : ValidPath p) :
    (handle (run h) (render p) .introspect = .unknownObject (render p) ↔
        exportedAfter h (render p) = none ∧ below p (exportedPaths h) = []) ∧
    (¬ (exportedAfter h (render p) = none ∧ below p (exportedPaths h) = []) →
        handle (run h) (render p) .introspect =
          .introspection ((exportedAfter h (render p)).map (·.ifaceNames)) (introspectChildren (render p) (run h))) := by
  rw [handle_introspect, lookup_run]
  simp only [children_nil_iff h wf p hp]
  constructor
  · constructor
    · intro hh
      split at hh
      · assumption
      · cases hh
    · intro hh; rw [if_pos hh]
  · intro hh; rw [if_neg hh]

/-! ### 2. GetManagedObjects -/

/-- The interface names reported for an object (keys of the dict `a{sa{sv}}`) are exactly its
interfaces, each once. -/
theorem interface_names_complete (o : Obj) :
    (keys (dictOf o.ifaces)).Nodup ∧ ∀ n, n ∈ keys (dictOf o.ifaces) ↔ n ∈ o.ifaceNames :=
  ⟨(nodup_keys_foldl_setItem o.ifaces [] (by simp [keys])), fun n => keys_dictOf o.ifaces n⟩

/-- For an object whose `getAllProperties(name)` depends on the name only, the reported dict holds
exactly the pairs (interface name, result of `getAllProperties(name)`) of its interfaces. -/
theorem interface_dict_complete (o : Obj) (hc : o.Consistent) :
    ∀ n t, (n, t) ∈ dictOf o.ifaces ↔ (n, t) ∈ o.ifaces :=
  (dictOf_complete o.ifaces hc).2

/-- After any history every object in the table is one whose properties can be sent (an object
that cannot be announced never gets in - repair C16-03), so GetManagedObjects never takes its
`Error.Failed` branch because of a property value that was unmarshallable at export time. -/
theorem table_objects_sendable (h : List Op) (k : Str) (o : Obj) (hk : lookup (run h) k = some o) :
    o.sendable = true := by
  rw [lookup_run] at hk; exact exportedAfter_sendable hk

/-- The path part of GetManagedObjects on the ABSTRACT model of `Obj/Tree.lean` (objects carry one opaque token
per interface): on an exported valid path (root included) the reply is a method return that lists exactly the
exported objects strictly beneath it - one entry per path - each with the dict built from its interfaces.
The full clause of the property ("each with all its interfaces and readable properties") is `managed_eq_spec`
below, on the model whose objects have declared properties (C17). -/
theorem managed_entries_abstract (h : List Op) (wf : WfHistory h) (p : Path) (hp : ValidPath p)
    (o0 : Obj) (hexp : exportedAfter h (render p) = some o0) :
    ∃ ents, handle (run h) (render p) .getManagedObjects = .managed ents ∧
      (ents.map (fun x => x.1)).Nodup ∧
      ∀ k d, (k, d) ∈ ents ↔
        ∃ q o, q ∈ below p (exportedPaths h) ∧ k = render q ∧ exportedAfter h k = some o ∧
          d = dictOf o.ifaces := by
  have hpath : o0.path = render p := (exportedAfter_some hexp).2
  refine ⟨managed (render p) (run h), ?_, nodup_managed_keys _ _ (nodup_keys_run h), fun k d => ?_⟩
  · rw [handle_managed, lookup_run, hexp]
    simp only [hpath, managedSendable_of_all _ _ (table_objects_sendable h), if_true]
  · rw [mem_managed]
    constructor
    · rintro ⟨⟨hsw, hne⟩, o, ho, rfl⟩
      have hk : k ∈ keys (run h) := by rw [mem_keys_iff, ho]; rfl
      obtain ⟨q, hq, rfl, hqE⟩ := key_valid h wf k hk
      obtain ⟨e, rest, rfl⟩ := (startsWith_dirPrefix_ne p q hp hq).mp ⟨hsw, hne⟩
      rw [lookup_run] at ho
      exact ⟨_, o, (mem_below p _ _).mpr ⟨hqE, e, rest, rfl⟩, rfl, ho, rfl⟩
    · rintro ⟨q, o, hq, rfl, ho, rfl⟩
      obtain ⟨hqE, hbelow⟩ := (mem_below p q _).mp hq
      have hqv := ((mem_exportedPaths h q).mp hqE).1
      refine ⟨(startsWith_dirPrefix_ne p q hp hqv).mpr hbelow, o, ?_, rfl⟩
      rw [lookup_run]; exact ho

/-! ### 2b. Objects with declared properties (C16 x C17) -/

/-
STATED DEVIATIONS / SCOPE of `export_succeeds_if_well_typed`, `managed_eq_spec`, `managed_fails_iff`
(read them before the theorems; each is a cut of the property text or of the quantifier):

 D1  Classes.  Every instance belongs to one of any number of class chains (`Env.cls`, `Env.W`), each a
     SINGLE-inheritance chain below DBusObject (C17's scope); "its interfaces" is `getInterfaces()` of the
     instance's own chain, so objects of different classes under one parent are covered (a model that lists the
     queried object's interfaces for every child does not satisfy `managed_eq_spec`).  Multiple inheritance,
     hand-written `IDBusObject`s: outside.
 D2  "Its readable properties" are the DBusProperty DESCRIPTORS of the chain (`Props.sdeclOf`: every descriptor,
     bound to its interface by `_cacheInterfaces`), not the `Property` entries of the DBusInterface objects: a
     `Property('x', 's')` of an interface WITHOUT a descriptor is advertised by Introspect and silently absent
     from InterfacesAdded / GetManagedObjects; the theorems are content with that (it is what the code does;
     whether it is right is not decided here).
 D3  Values and variant types - exactly what is guaranteed, inherited from C17's `GetAllAllowed`: the NAMES in
     the dict of an interface are exactly its readable descriptors, unconditionally.  The VALUE of an entry is
     constrained only when the property holds a value of its declared type (`HasTypeSig`): then it is that value
     (plain); its VARIANT SIGNATURE is the declared one only for the 12 BASIC types.  For `as` and `v`
     properties the signature is not constrained (an `as` property holding `[]` goes out as `av`), and a
     property holding a value NOT of its type is not constrained at all if it still marshals (`i` holding 3.7 /
     True / '12' is reported as 3 / 1 / 12, `s` holding 5 as `i 5`).
 D4  Failure allowance.  The property text has none; the code answers `Error.Failed` (resp. raises out of
     exportObject) when collecting or marshalling a property raises.  Stated as: completeness under well-typed
     values (clause 3 of `managed_eq_spec`, `export_succeeds_if_well_typed`), and `managed_fails_iff`: the reply
     fails iff the announcement of SOME instance strictly beneath `p` cannot be built - one bad grandchild
     denies the whole answer at every ancestor, while the reply at the bad object itself (and elsewhere) is fine.
 D5  Declared property types: the 14 signatures C17 models (12 basic, `as`, `v`) - `Props.Modelled`; no `ai`,
     `a{sv}`, `(ii)`, `ay`.
 D6  Histories: remote Sets name an interface and carry a value that can have come off the wire (`GoodOps`, C17's
     `GoodOp`; a `Set('', …)` is outside); no interface is named '' (`hn`); exports happen at valid object
     paths (`hv`, enforced by `DBusObject.__init__`).  "Exported" (`absHist`, `specRun`) is what the export CALLS
     imply given which of them returned; that a call of a well-typed object DOES return is
     `export_succeeds_if_well_typed`, so the notion is not vacuous.
-/

open Txdbus.Obj.TreeProps in
/-- **An export of a well-typed instance succeeds, announces it exactly, and makes it visible.**  After any
history, if every readable property of instance `n` holds a value of its declared type (C17's specification
state `S` of `n`'s class), then `exportObject(n)` does not raise, sends exactly one InterfacesAdded naming `n`'s
path (header and argument) with a dict whose keys are exactly the interfaces of `n`'s class chain, each once,
each interface dict satisfying C17's `GetAllAllowed` (D2, D3); afterwards `n` is in the table at its path and
the spec of `Obj/TreeSpec.lean` sees it exported there.  Conversely (contrapositive): an export that raises had a
readable property unset or ill typed; it sends nothing and changes neither table nor attachment (by definition of
`step`, `objDict_isSome`).  Uses C17's `reachable_state_refines_spec` and its lemma `opGetAll_allowed` (the
instance is not attached yet, so `getall_exact` does not apply). -/
theorem export_succeeds_if_well_typed (E : Env)
    (hW : ∀ c, ∃ D, Props.elaborate D = some (E.W c)) (hA : ∀ c, Props.AttrConsistent (E.W c))
    (hM : ∀ c, Props.Modelled (E.W c)) (hc : E.cfg.Sound) (hn : ∀ c, ∀ f ∈ (E.W c).ifaces, f.name ≠ [])
    (h : List TreeProps.Op) (hg : GoodOps h) (n : Nat)
    (hty : ∀ sp ∈ (Props.sdeclOf (E.wOf n)).props, sp.readable = true →
      ∃ v, (Props.specRun E.cfg (E.wOf n) (propHist E (E.cls n) h)).val n sp.iface sp.name = some v ∧
        PropsSpec.HasTypeSig sp.sig v = true) :
    ∃ d, (TreeProps.step E (TreeProps.run E h) (.export n)).sent = [.interfacesAdded (E.pathOf n) (E.pathOf n) d] ∧
      (TreeProps.step E (TreeProps.run E h) (.export n)).raised = false ∧
      (keys d).Nodup ∧ (∀ i, i ∈ keys d ↔ i ∈ (E.wOf n).ifaces.map (·.name)) ∧
      (∀ i l, (i, l) ∈ d → PropsSpec.GetAllAllowed (Props.sdeclOf (E.wOf n))
          (Props.specRun E.cfg (E.wOf n) (propHist E (E.cls n) h)) n i [.retD l]) ∧
      lookup (TreeProps.run E (h ++ [.export n])).exports (E.pathOf n) = some n ∧
      exportedAfter (absHist E (h ++ [.export n])) (E.pathOf n) = some (tabObj E n) := by
  obtain ⟨D, hD⟩ := hW (E.cls n)
  have hgood : Props.GoodHist (propHist E (E.cls n) h) := goodHist_propHistFrom E _ State.init h hg
  have hSim := Txdbus.Properties.C17.reachable_state_refines_spec hD (hA _) (hM _) hc hgood
  rw [← pst_eq E (E.cls n) h] at hSim
  have hall : ∀ f ∈ (E.wOf n).ifaces, ∃ l, ifaceDict E ((TreeProps.run E h).stOf E n) n f.name = some l ∧
      PropsSpec.GetAllAllowed (Props.sdeclOf (E.wOf n))
        (Props.specRun E.cfg (E.wOf n) (propHist E (E.cls n) h)) n f.name [.retD l] := by
    intro f hf
    have hG : PropsSpec.GetAllAllowed (Props.sdeclOf (E.wOf n))
        (Props.specRun E.cfg (E.wOf n) (propHist E (E.cls n) h)) n f.name
        [Props.opGetAll E.cfg (E.wOf n) ((TreeProps.run E h).stOf E n) n f.name] :=
      Props.opGetAll_allowed (Props.elaborate_good hD) (hA _) hc hSim n (hn _ f hf)
    have hG' := hG
    unfold PropsSpec.GetAllAllowed at hG
    have hmem : f.name ∈ (Props.sdeclOf (E.wOf n)).ifaces := by
      simp only [Props.sdeclOf, List.mem_map]; exact ⟨f, hf, rfl⟩
    rw [if_pos hmem] at hG
    obtain ⟨l, hl⟩ := hG.2.2 (fun sp hsp hif hr => hif ▸ hty sp hsp hr)
    simp only [List.cons.injEq, and_true] at hl
    refine ⟨l, ifaceDict_of_opGetAll E _ n f.name l hl, ?_⟩
    rw [← hl]; exact hG'
  have hsome : (objDict E ((TreeProps.run E h).stOf E n) n).isSome = true := by
    rw [objDict, objDictFrom_isSome, List.all_eq_true]
    intro f hf
    obtain ⟨l, hl, _⟩ := hall f hf
    rw [hl]; rfl
  cases hd : objDict E ((TreeProps.run E h).stOf E n) n with
  | none => rw [hd] at hsome; cases hsome
  | some d =>
    obtain ⟨d1, d2, d3⟩ := objDict_spec E _ n d hd
    have hlook : lookup (TreeProps.run E (h ++ [.export n])).exports (E.pathOf n) = some n := by
      rw [TreeProps.run_append]; simp [TreeProps.step, hd, lookup_setItem]
    refine ⟨d, by simp [TreeProps.step, hd], by simp [TreeProps.step, hd], d1, d2, fun i l hil => ?_, hlook, ?_⟩
    · have hi : i ∈ (E.wOf n).ifaces.map (·.name) := (d2 i).mp (List.mem_map.mpr ⟨(i, l), hil, rfl⟩)
      obtain ⟨f, hf, rfl⟩ := List.mem_map.mp hi
      obtain ⟨l', hl', hG⟩ := hall f hf
      have := d3 f.name l hil
      rw [hl'] at this; cases this
      exact hG
    · rw [lookup_run_abs, hlook]; rfl

open Txdbus.Obj.TreeProps in
/-- **GetManagedObjects reports exactly the exported objects strictly beneath the path, each with exactly
its interfaces and, per interface, its readable properties with their current values** - within the
deviations D1-D6 stated above.

Setting: the combined model `Obj/TreeProps.lean`; ANY history `h` of exportObject / unexportObject / local
assignments / remote Sets; any valid path `p` (root included) at which something is exported.  `S c` is C17's
SPECIFICATION state of class `c` after the history: the value most recently assigned to every property.

1. the reply is `Error.Failed` or one dictionary (true by construction of `handleManaged`; content is in 3 and in
   `managed_fails_iff`);
2. ANY dictionary returned has one entry per path, the paths being exactly the spec's `below p` of the
   exported paths; the entry of path `k` belongs to the instance `n` the history makes visible at `k`; its
   keys are exactly the names of the interfaces of `n`'s OWN class chain (DBusObject's Properties interface
   included, with an empty dict), each once; and the dict of interface `i` satisfies C17's `GetAllAllowed`
   for `n` (names exact; values and variant types as far as D3 says) - this is
   `Txdbus.Properties.C17.getall_exact`, used, not re-proved;
3. when every readable property of every instance beneath `p` holds a value of its type, the reply IS a
   dictionary. -/
theorem managed_eq_spec (E : Env)
    (hW : ∀ c, ∃ D, Props.elaborate D = some (E.W c)) (hA : ∀ c, Props.AttrConsistent (E.W c))
    (hM : ∀ c, Props.Modelled (E.W c)) (hc : E.cfg.Sound) (hn : ∀ c, ∀ f ∈ (E.W c).ifaces, f.name ≠ [])
    (h : List TreeProps.Op) (hg : GoodOps h) (hv : ∀ n, TreeProps.Op.export n ∈ h → ValidText (E.pathOf n))
    (p : Path) (hp : ValidPath p) (hexp : (exportedAfter (absHist E h) (render p)).isSome = true) :
    let reply := handleManaged E (TreeProps.run E h) (render p)
    let S := fun c => Props.specRun E.cfg (E.W c) (propHist E c h)
    (reply = .managedFailed ∨ ∃ ents, reply = .managed ents) ∧
    (∀ ents, reply = .managed ents →
      (ents.map (·.1)).Nodup ∧
      (∀ k, k ∈ ents.map (·.1) ↔ ∃ q, q ∈ below p (exportedPaths (absHist E h)) ∧ k = render q) ∧
      ∀ k d, (k, d) ∈ ents → ∃ n, exportedAfter (absHist E h) k = some (tabObj E n) ∧
        (keys d).Nodup ∧ (∀ i, i ∈ keys d ↔ i ∈ (E.wOf n).ifaces.map (·.name)) ∧
        ∀ i l, (i, l) ∈ d →
          PropsSpec.GetAllAllowed (Props.sdeclOf (E.wOf n)) (S (E.cls n)) n i [.retD l]) ∧
    ((∀ q n, q ∈ below p (exportedPaths (absHist E h)) →
        exportedAfter (absHist E h) (render q) = some (tabObj E n) →
        ∀ sp ∈ (Props.sdeclOf (E.wOf n)).props, sp.readable = true →
          ∃ v, (S (E.cls n)).val n sp.iface sp.name = some v ∧ PropsSpec.HasTypeSig sp.sig v = true) →
      ∃ ents, reply = .managed ents) := by
  intro reply S
  have wf : WfHistory (absHist E h) := wf_absHistFrom E State.init h hv
  have hkeys := keys_run_abs E h
  have hI := inv_run E h
  have hgood : ∀ c, Props.GoodHist (propHist E c h) := fun c => goodHist_propHistFrom E c State.init h hg
  -- the object at p
  rw [lookup_run_abs] at hexp
  obtain ⟨n0, hn0⟩ : ∃ n0, lookup (TreeProps.run E h).exports (render p) = some n0 := by
    cases hl : lookup (TreeProps.run E h).exports (render p) with
    | none => rw [hl] at hexp; cases hexp
    | some n0 => exact ⟨n0, rfl⟩
  have hpath : E.pathOf n0 = render p := (hI _ _ hn0).2
  have hreply : reply = match managedReply E (TreeProps.run E h) (render p) with
      | some ents => .managed ents | none => .managedFailed := by
    simp only [reply, handleManaged, hn0, hpath]
    cases managedReply E (TreeProps.run E h) (render p) <;> rfl
  -- C17 about one exported instance
  have hC17 : ∀ k n, lookup (TreeProps.run E h).exports k = some n → ∀ i, i ≠ [] →
      PropsSpec.GetAllAllowed (Props.sdeclOf (E.wOf n)) (S (E.cls n)) n i
        [Props.opGetAll E.cfg (E.wOf n) ((TreeProps.run E h).stOf E n) n i] := by
    intro k n hk i hi0
    obtain ⟨D, hD⟩ := hW (E.cls n)
    have hpst := pst_eq E (E.cls n) h
    have hSim := Txdbus.Properties.C17.reachable_state_refines_spec hD (hA _) (hM _) hc (hgood (E.cls n))
    have hatt : n ∈ (Props.run E.cfg (E.W (E.cls n)) (propHist E (E.cls n) h)).attached := by
      rw [← hpst]; exact (hI k n hk).1
    have := (Txdbus.Properties.C17.getall_exact hD (hA _) (hM _) hc (hgood (E.cls n)) n i hi0
      ((hSim.att n).mp hatt)).1
    have hstep : (Props.step E.cfg (E.W (E.cls n)) (Props.run E.cfg (E.W (E.cls n)) (propHist E (E.cls n) h))
        (.getAll n i)).2 = [Props.opGetAll E.cfg (E.wOf n) ((TreeProps.run E h).stOf E n) n i] := by
      simp only [Props.step, hatt, if_true]
      rw [← hpst]; rfl
    rw [hstep] at this
    exact this
  refine ⟨?_, ?_, ?_⟩
  · rw [hreply]
    cases managedReply E (TreeProps.run E h) (render p) with
    | none => exact Or.inl rfl
    | some ents => exact Or.inr ⟨ents, rfl⟩
  · intro ents hents
    rw [hreply] at hents
    cases hm : managedReply E (TreeProps.run E h) (render p) with
    | none => rw [hm] at hents; cases hents
    | some ents' =>
      rw [hm] at hents
      cases hents
      obtain ⟨hk1, hk2⟩ := managedReply_spec E _ _ _ hm
      refine ⟨?_, ?_, ?_⟩
      · rw [hk1]
        exact nodup_managedKeys _ _ (by rw [hkeys]; exact nodup_keys_run _)
      · intro k
        rw [hk1]
        exact mem_managedKeys_iff_below (absHist E h) wf _ hkeys p hp k
      · intro k d hkd
        obtain ⟨_, n, hln, hdn⟩ := hk2 k d hkd
        obtain ⟨d1, d2, d3⟩ := objDict_spec E _ n d hdn
        refine ⟨n, by rw [lookup_run_abs, hln]; rfl, d1, d2, fun i l hil => ?_⟩
        have hi : i ∈ (E.wOf n).ifaces.map (·.name) := (d2 i).mp (List.mem_map.mpr ⟨(i, l), hil, rfl⟩)
        have hi0 : i ≠ [] := by
          obtain ⟨f, hf, rfl⟩ := List.mem_map.mp hi
          exact hn _ f hf
        have := hC17 k n hln i hi0
        rw [opGetAll_of_ifaceDict E _ n i l hi (d3 i l hil)] at this
        exact this
  · intro hall
    rw [hreply]
    suffices hs : ∃ ents, managedReply E (TreeProps.run E h) (render p) = some ents by
      obtain ⟨ents, he⟩ := hs
      exact ⟨ents, by rw [he]⟩
    apply managedReply_isSome
    intro k hk
    obtain ⟨q, hq, rfl⟩ := (mem_managedKeys_iff_below (absHist E h) wf _ hkeys p hp k).mp hk
    have hkin : render q ∈ keys (TreeProps.run E h).exports := ((mem_managedKeys _ _ _).mp hk).1
    obtain ⟨n, hln⟩ : ∃ n, lookup (TreeProps.run E h).exports (render q) = some n := by
      rw [mem_keys_iff] at hkin
      cases hl : lookup (TreeProps.run E h).exports (render q) with
      | none => rw [hl] at hkin; cases hkin
      | some n => exact ⟨n, rfl⟩
    refine ⟨n, hln, ?_⟩
    rw [objDict, objDictFrom_isSome, List.all_eq_true]
    intro f hf
    have hG := hC17 _ n hln f.name (hn _ f hf)
    unfold PropsSpec.GetAllAllowed at hG
    have hmem : f.name ∈ (Props.sdeclOf (E.wOf n)).ifaces := by
      simp only [Props.sdeclOf, List.mem_map]; exact ⟨f, hf, rfl⟩
    rw [if_pos hmem] at hG
    obtain ⟨l, hl⟩ := hG.2.2 (fun sp hsp hif hr =>
      hif ▸ hall q n hq (by rw [lookup_run_abs, hln]; rfl) sp hsp hr)
    simp only [List.cons.injEq, and_true] at hl
    rw [ifaceDict_of_opGetAll E _ n f.name l hl]
    rfl

open Txdbus.Obj.TreeProps in
/-- **When GetManagedObjects fails (D4).**  On an exported valid path the reply is `Error.Failed` exactly when
the announcement of some instance exported STRICTLY BENEATH `p` cannot be built at that moment (`objDict = none`,
i.e. `Props.exportOk` is false: collecting or marshalling one of its properties raises).  So one bad grandchild
denies the answer at every ancestor, while a bad object does not spoil the reply at its own path, at its
descendants, or anywhere it is not beneath. -/
theorem managed_fails_iff (E : Env) (h : List TreeProps.Op)
    (hv : ∀ n, TreeProps.Op.export n ∈ h → ValidText (E.pathOf n))
    (p : Path) (hp : ValidPath p) (hexp : (exportedAfter (absHist E h) (render p)).isSome = true) :
    handleManaged E (TreeProps.run E h) (render p) = .managedFailed ↔
      ∃ q n, q ∈ below p (exportedPaths (absHist E h)) ∧
        lookup (TreeProps.run E h).exports (render q) = some n ∧
        objDict E ((TreeProps.run E h).stOf E n) n = none := by
  have wf : WfHistory (absHist E h) := wf_absHistFrom E State.init h hv
  have hkeys := keys_run_abs E h
  have hI := inv_run E h
  rw [lookup_run_abs] at hexp
  obtain ⟨n0, hn0⟩ : ∃ n0, lookup (TreeProps.run E h).exports (render p) = some n0 := by
    cases hl : lookup (TreeProps.run E h).exports (render p) with
    | none => rw [hl] at hexp; cases hexp
    | some n0 => exact ⟨n0, rfl⟩
  have hpath : E.pathOf n0 = render p := (hI _ _ hn0).2
  have hsomek : ∀ k ∈ managedKeys (render p) (TreeProps.run E h).exports,
      (lookup (TreeProps.run E h).exports k).isSome = true := fun k hk =>
    (mem_keys_iff _ _).mp ((mem_managedKeys _ _ _).mp hk).1
  have hnone := managedReply_none_iff E (TreeProps.run E h) (render p) hsomek
  simp only [handleManaged, hn0, hpath]
  constructor
  · intro hf
    cases hm : managedReply E (TreeProps.run E h) (render p) with
    | some ents => rw [hm] at hf; cases hf
    | none =>
      obtain ⟨k, hk, n, hl, hd⟩ := hnone.mp hm
      obtain ⟨q, hq, rfl⟩ := (mem_managedKeys_iff_below (absHist E h) wf _ hkeys p hp k).mp hk
      exact ⟨q, n, hq, hl, hd⟩
  · rintro ⟨q, n, hq, hl, hd⟩
    have hk := (mem_managedKeys_iff_below (absHist E h) wf _ hkeys p hp (render q)).mpr ⟨q, hq, rfl⟩
    rw [hnone.mpr ⟨_, hk, n, hl, hd⟩]

/-! ### 3. UnknownObject -/

theorem isPair_iff (pr : String × String) (iface : Option Str) (member : Str) :
    isPair pr iface member = true ↔ (iface = some pr.1.toList ∧ member = pr.2.toList) := by
  simp [isPair]

/-- Which calls the handler answers itself: exactly the three (interface, member) pairs of the
table generated from objects.py. -/
theorem classify_ordinary_iff (iface : Option Str) (member : Str) :
    classify iface member = .ordinary ↔
      ∀ pr ∈ [Gen.Dispatch.peerPair, Gen.Dispatch.introspectPair, Gen.Dispatch.managedPair],
        ¬ (iface = some pr.1.toList ∧ member = pr.2.toList) := by
  unfold classify
  generalize Gen.Dispatch.peerPair = a
  generalize Gen.Dispatch.introspectPair = b
  generalize Gen.Dispatch.managedPair = c
  simp only [List.mem_cons, List.not_mem_nil, or_false, forall_eq_or_imp, forall_eq, ← isPair_iff]
  cases isPair a iface member <;> cases isPair b iface member <;> cases isPair c iface member <;> simp

/-- A call of any member on any interface that is not one of the three built-in pairs, to any path
text `s`: it is answered UnknownObject exactly when `s` is not currently exported, and otherwise
reaches the object exported there most recently.  GetManagedObjects on a path that is not exported
is answered UnknownObject as well.
STATED DEVIATION from the literal property text ("a call to a path not currently exported is
answered UnknownObject"): the built-in calls are excluded - `ping_answered_everywhere`, and
Introspect succeeds on non-exported intermediate paths (`introspect_fails_iff_nothing_there`). -/
theorem unknown_object_iff_not_exported (h : List Op) (s : Str) (iface : Option Str) (member : Str)
    (hb : ∀ pr ∈ [Gen.Dispatch.peerPair, Gen.Dispatch.introspectPair, Gen.Dispatch.managedPair],
        ¬ (iface = some pr.1.toList ∧ member = pr.2.toList)) :
    (handleMsg (run h) s iface member = .unknownObject s ↔ exportedAfter h s = none) ∧
    (∀ o, exportedAfter h s = some o → handleMsg (run h) s iface member = .dispatch o) ∧
    (handle (run h) s .getManagedObjects = .unknownObject s ↔ exportedAfter h s = none) := by
  rw [handleMsg, (classify_ordinary_iff iface member).mpr hb, handle_ordinary, handle_managed, lookup_run]
  cases exportedAfter h s with
  | none => simp
  | some o => simp; split <;> simp

/-- Peer.Ping is answered with an empty method return at every path, exported or not. -/
theorem ping_answered_everywhere (e : Exports) (s : Str) :
    handleMsg e s (some Gen.Dispatch.peerPair.1.toList) Gen.Dispatch.peerPair.2.toList = .pong := by
  have hp : isPair Gen.Dispatch.peerPair (some Gen.Dispatch.peerPair.1.toList) Gen.Dispatch.peerPair.2.toList = true :=
    (isPair_iff _ _ _).mpr ⟨rfl, rfl⟩
  unfold handleMsg classify
  rw [if_pos hp]
  simp [handle]

/-! ### 4. signals -/

/-- After any history: an export of an object whose properties can be sent sends exactly one
message, InterfacesAdded naming the object's path (header and first argument) and the dict of its
interfaces, and the object is in the table afterwards; an export of an object whose properties
cannot be sent raises, sends nothing and changes nothing; an unexport of an exported path sends
exactly one message, InterfacesRemoved naming that path and the interface names of the object that
was visible there; an unexport of a path that is not exported raises, sends nothing and leaves the
table unchanged.
(The export part restates `Tree.step`: there is no independent notion of "the announcement an export
implies" beyond path + interfaces; its value is the correspondence stream.  The content proved here
is that the unexport signal names `s` and the interfaces of the object the history implies at `s`,
and that failing calls are silent and without effect.) -/
theorem export_signals (h : List Op) :
    (∀ o : Obj, o.sendable = true →
        step (run h) (.export o) =
          ⟨setItem (run h) o.path o, [.interfacesAdded o.path o.path (dictOf o.ifaces)], false⟩) ∧
    (∀ o : Obj, o.sendable = false → step (run h) (.export o) = ⟨run h, [], true⟩) ∧
    (∀ s o, exportedAfter h s = some o →
        (step (run h) (.unexport s)).sent = [.interfacesRemoved s s o.ifaceNames] ∧
        (step (run h) (.unexport s)).raised = false) ∧
    (∀ s, exportedAfter h s = none → step (run h) (.unexport s) = ⟨run h, [], true⟩) := by
  refine ⟨fun o ho => by simp [step, ho], fun o ho => by simp [step, ho], fun s o ho => ?_, fun s ho => ?_⟩
  · have hp := (exportedAfter_some ho).2
    rw [← lookup_run] at ho
    simp [step, ho, hp]
  · rw [← lookup_run] at ho
    simp [step, ho]

/-! ### 5. several handlers in one process -/

/-- LIFTING LEMMA, true by construction of `Tree.Multi` (independent tables per handler is the model's
DEFINITION, see the note there; that txdbus behaves like it is checked by the stream `history-handlers` only):
several `DBusObjectHandler`s alive in one process (several connections; a connection and a bus), any
interleaving of export / unexport calls on them: what handler `k` answers - its table at any text, hence
every reply of `handleMsg`: UnknownObject, the introspected children, the managed objects - is what the
calls made ON `k` imply, whatever was called on the others in between; so every theorem above about
`run h` holds for each handler with `h` := the calls on that handler (`Multi.proj k h`). -/
theorem handlers_independent (h : List (Nat × Op)) (k : Nat) :
    Multi.run h k = run (Multi.proj k h) ∧
    (∀ s, lookup (Multi.run h k) s = exportedAfter (Multi.proj k h) s) ∧
    (∀ s iface member, handleMsg (Multi.run h k) s iface member = handleMsg (run (Multi.proj k h)) s iface member) := by
  have e := multi_run_proj h k
  exact ⟨e, fun s => by rw [e, lookup_run], fun s i m => by rw [e]⟩

/-- `Multi.step` UNFOLDED (`sentOn := fun j => if j = k ...`, `Multi.set`): this restates the definition and says
nothing about the code beyond what the definition assumes; kept so that the obligation the stream
`history-handlers` ties is visible next to the property.  In the MODEL, one call on handler `k` does to `k`'s
table, sends on `k`'s connection and raises exactly as the same call on a lone handler with that table; every other handler's table is unchanged and NOTHING is sent on any
other handler's connection (the announcement of an export goes to the connection it was made on, only). -/
theorem handler_call_is_local (T : Multi.Tables) (k : Nat) (op : Op) :
    (Multi.step T k op).tables k = (step (T k) op).exports ∧
    (Multi.step T k op).sentOn k = (step (T k) op).sent ∧
    (Multi.step T k op).raised = (step (T k) op).raised ∧
    ∀ j, j ≠ k → (Multi.step T k op).tables j = T j ∧ (Multi.step T k op).sentOn j = [] := by
  refine ⟨by simp [Multi.step, Multi.set], by simp [Multi.step], rfl, fun j hj => ?_⟩
  simp [Multi.step, Multi.set, hj]

/-! ### text and elements -/

/-- For valid object paths `s`, `t` (texts) with elements `p`, `q`: `t` is strictly below `s`
(element-wise proper prefix) iff `t` starts with (`"/"` if `s = "/"`, else `s ++ "/"`) and `t ≠ s`. -/
theorem strictlyBelow_iff_text (s t : Str) (p q : Path) (hs : parse s = some p) (ht : parse t = some q) :
    properPrefix p q = true ↔
      (startsWith t (if s = ['/'] then ['/'] else s ++ ['/']) = true ∧ t ≠ s) := by
  obtain ⟨hp, rfl⟩ := render_parse s p hs
  obtain ⟨hq, rfl⟩ := render_parse t q ht
  exact strictlyBelow_text p q hp hq

/-- Text and element list determine each other on valid paths. -/
theorem parse_render_inverse :
    (∀ p, ValidPath p → parse (render p) = some p) ∧ (∀ s p, parse s = some p → ValidPath p ∧ render p = s) :=
  ⟨parse_render, render_parse⟩

/-! ### witnesses: the code before the repairs violates the property -/

private def oRoot : Obj := { path := ['/'], ifaces := [], sendable := true }
private def oAB : Obj := { path := ['/', 'a', '/', 'b'], ifaces := [(['i'], 1)], sendable := true }
private def oABC : Obj := { path := ['/', 'a', '/', 'b', 'c'], ifaces := [(['i'], 2)], sendable := true }
private def oBad : Obj := { path := ['/', 'a'], ifaces := [(['i'], 3)], sendable := false }

/-- F23: with `/` exported, the unrepaired loop lists a child named "" for `/`; the spec has none. -/
theorem orig_introspect_root_lists_empty_child :
    introspectChildrenOrig (render []) (run [.export oRoot]) = [[]] ∧
    children [] (exportedPaths [.export oRoot]) = [] ∧
    introspectChildren (render []) (run [.export oRoot]) = [] := by decide

/-- F24: with `/a/b` and `/a/bc` exported, the unrepaired selection reports `/a/bc` beneath `/a/b`. -/
theorem orig_managed_reports_prefix_sibling :
    managedOrig oAB.path (run [.export oAB, .export oABC]) = [(oABC.path, [(['i'], 2)])] ∧
    below [['a'], ['b']] (exportedPaths [.export oAB, .export oABC]) = [] ∧
    managed oAB.path (run [.export oAB, .export oABC]) = [] := by decide

/-- Half-done export (before C16-03): exporting an object whose properties cannot be sent raises
and sends nothing, yet the object is in the table; the calls imply nothing and the repaired code
agrees. -/
theorem orig_failed_export_stays_visible :
    (stepOrig [] (.export oBad)).sent = [] ∧ (stepOrig [] (.export oBad)).raised = true ∧
    lookup (runOrig [.export oBad]) oBad.path = some oBad ∧
    exportedAfter [.export oBad] oBad.path = none ∧
    lookup (run [.export oBad]) oBad.path = none := by decide

/-- The element alphabet of the spec is the character class `invalid_obj_path_re` of marshal.py
allows (generated table), minus the separator: `WfHistory` is what `DBusObject.__init__`
(`validateObjectPath`) guarantees as far as characters go. -/
theorem objectPath_alphabet_eq_source (c : Char) :
    elemChar c = (inRanges Gen.Validators.objPathAllowed c.toNat && c.toNat != 47) :=
  elemCode_eq_gen c.toNat

/-! ### the hypotheses are satisfiable by non-trivial instances -/

private def hist : List Op :=
  [.export oRoot, .export oAB, .export oABC, .export oBad, .unexport ['/', 'z'],
   .export { oAB with ifaces := [(['i'], 7)] },
   .unexport oABC.path]

example : WfHistory hist := by
  intro o ho
  simp only [hist, List.mem_cons, Op.export.injEq, List.not_mem_nil, or_false, reduceCtorEq, false_or] at ho
  rcases ho with rfl | rfl | rfl | rfl | rfl <;> decide

example : ValidPath [['a'], ['b']] ∧ exportedAfter hist (render [['a'], ['b']]) = some { oAB with ifaces := [(['i'], 7)] } := by
  decide

example : children [] (exportedPaths hist) = [['a']] ∧ below [] (exportedPaths hist) = [[['a'], ['b']]] := by
  decide


/-! ### `managed_eq_spec`: the hypotheses hold for a concrete world, history and path, and the reply is not trivial -/

section ManagedExample
open Txdbus.Obj.TreeProps Txdbus.Properties.C17

/-- C17's two-class example chain (`ro` read-only string and `bc` int32 on org.a, `c` int32 on org.ab), three
instances at `/a`, `/a/b`, `/a/bc`. -/
private def exEnv : Env :=
  { cfg := Props.Cfg.repaired, W := fun _ => exWorld, cls := fun _ => 0,
    pathOf := fun n => if n = 0 then ['/', 'a'] else if n = 1 then ['/', 'a', '/', 'b'] else ['/', 'a', '/', 'b', 'c'] }

private def exOps : List TreeProps.Op :=
  [.assign 0 "p_bc".toList (.int 1), .assign 0 "p_c".toList (.int 2), .assign 0 "p_ro".toList (.str ['x']),
   .assign 1 "p_bc".toList (.int 5), .assign 1 "p_c".toList (.int 6), .assign 1 "p_ro".toList (.str ['y']),
   .assign 2 "p_bc".toList (.int 8), .assign 2 "p_c".toList (.int 9), .assign 2 "p_ro".toList (.str ['z']),
   .export 0, .export 1, .export 2,
   .set ['/', 'a', '/', 'b'] sA sBC (.int 7), .set ['/', 'a', '/', 'b'] sA sRO (.str ['n', 'o']),
   .assign 2 "p_c".toList (.int 10), .unexport ['/', 'z']]

theorem managed_example_ops_good : GoodOps exOps := by
  intro op hop
  simp only [exOps, List.mem_cons, List.not_mem_nil, or_false] at hop
  rcases hop with rfl | rfl | rfl | rfl | rfl | rfl | rfl | rfl | rfl | rfl | rfl | rfl | rfl | rfl | rfl | rfl <;>
    first | trivial | decide

theorem managed_example_paths_valid : ∀ n, TreeProps.Op.export n ∈ exOps → ValidText (exEnv.pathOf n) := by
  intro n hn
  simp only [exOps, List.mem_cons, List.not_mem_nil, or_false, reduceCtorEq, false_or,
    TreeProps.Op.export.injEq] at hn
  rcases hn with rfl | rfl | rfl <;> decide

/-- All hypotheses of `managed_eq_spec` hold for `/a` after `exOps` ... -/
example := managed_eq_spec exEnv (fun _ => ⟨exDecls, exWorld_elab⟩) (fun _ => exWorld_attrConsistent)
  (fun _ => exWorld_modelled) repaired_sound (fun _ => (by decide : ∀ f ∈ exWorld.ifaces, f.name ≠ [])) exOps managed_example_ops_good
  managed_example_paths_valid [['a']] (by decide) (by decide)

/-- ... and the reply is the dictionary one expects: `/a/b` with the value 7 written by the remote Set (the
Set of the read-only `ro` was refused), `/a/bc` with the value 10 assigned after the export; org.a's
properties collected from both classes, the Properties interface with an empty dict. -/
example :
    handleManaged exEnv (TreeProps.run exEnv exOps) ['/', 'a'] =
      .managed
        [(['/', 'a', '/', 'b'],
            [(sA, [(sBC, ['i'], .int 7), (sRO, ['s'], .str ['y'])]), (sAB, [(sC, ['i'], .int 6)]),
             (Props.propsIfaceName, [])]),
         (['/', 'a', '/', 'b', 'c'],
            [(sA, [(sBC, ['i'], .int 8), (sRO, ['s'], .str ['z'])]), (sAB, [(sC, ['i'], .int 10)]),
             (Props.propsIfaceName, [])])] := by
  decide


/-! Two classes under one parent, and a failing reply. -/

private def sZ : Str := "org.z".toList
private def sQ : Str := "q".toList

/-- A second class: one interface org.z with one read-only string property `q`. -/
private def exDecls2 : Props.Decls :=
  [ { ifaces := [⟨sZ, [(sQ, ⟨sQ, ['s'], .read, .no⟩)]⟩], descs := [⟨"p_q".toList, sQ, none⟩] } ]

private def exWorld2 : Props.World := (Props.elaborate exDecls2).getD ⟨[], [], []⟩

theorem managed_example_world2 :
    Props.elaborate exDecls2 = some exWorld2 ∧ Props.AttrConsistent exWorld2 ∧ Props.Modelled exWorld2 ∧
      ∀ f ∈ exWorld2.ifaces, f.name ≠ [] := by
  refine ⟨by decide, ?_, ?_, by decide⟩
  · unfold Props.AttrConsistent; decide
  · unfold Props.Modelled; decide

/-- Instance 0 (`/a`) and 2 (`/a/bc`) are of C17's example class, instance 1 (`/a/b`) of the second class. -/
private def exEnv2 : Env :=
  { cfg := Props.Cfg.repaired, W := fun c => if c = 0 then exWorld else exWorld2, cls := fun n => if n = 1 then 1 else 0,
    pathOf := exEnv.pathOf }

private def exOps2 : List TreeProps.Op :=
  [.assign 0 "p_bc".toList (.int 1), .assign 0 "p_c".toList (.int 2), .assign 0 "p_ro".toList (.str ['x']),
   .assign 1 "p_q".toList (.str ['y']),
   .assign 2 "p_bc".toList (.int 8), .assign 2 "p_c".toList (.int 9), .assign 2 "p_ro".toList (.str ['z']),
   .export 0, .export 1, .export 2]

/-- Each child is reported with the interfaces of ITS OWN class (D1) ... -/
example :
    handleManaged exEnv2 (TreeProps.run exEnv2 exOps2) ['/', 'a'] =
      .managed
        [(['/', 'a', '/', 'b'], [(sZ, [(sQ, ['s'], .str ['y'])]), (Props.propsIfaceName, [])]),
         (['/', 'a', '/', 'b', 'c'],
            [(sA, [(sBC, ['i'], .int 8), (sRO, ['s'], .str ['z'])]), (sAB, [(sC, ['i'], .int 9)]),
             (Props.propsIfaceName, [])])] := by
  decide

/-- ... and one child whose property went bad after its export makes the parent's reply fail (D4), while the
reply at the bad object's own path is a (here empty) dictionary. -/
example :
    handleManaged exEnv2 (TreeProps.run exEnv2 (exOps2 ++ [.assign 1 "p_q".toList .none])) ['/', 'a'] = .managedFailed ∧
    handleManaged exEnv2 (TreeProps.run exEnv2 (exOps2 ++ [.assign 1 "p_q".toList .none])) ['/', 'a', '/', 'b'] =
      .managed [] := by
  decide

end ManagedExample

end Txdbus.C16

#print axioms Txdbus.C16.exports_eq_spec
#print axioms Txdbus.C16.children_eq_spec
#print axioms Txdbus.C16.children_nil_iff
#print axioms Txdbus.C16.introspect_fails_iff_nothing_there
#print axioms Txdbus.C16.interface_names_complete
#print axioms Txdbus.C16.interface_dict_complete
#print axioms Txdbus.C16.table_objects_sendable
#print axioms Txdbus.C16.managed_entries_abstract
#print axioms Txdbus.C16.export_succeeds_if_well_typed
#print axioms Txdbus.C16.managed_eq_spec
#print axioms Txdbus.C16.managed_fails_iff
#print axioms Txdbus.C16.managed_example_ops_good
#print axioms Txdbus.C16.managed_example_paths_valid
#print axioms Txdbus.C16.managed_example_world2
#print axioms Txdbus.C16.isPair_iff
#print axioms Txdbus.C16.classify_ordinary_iff
#print axioms Txdbus.C16.ping_answered_everywhere
#print axioms Txdbus.C16.orig_failed_export_stays_visible
#print axioms Txdbus.C16.objectPath_alphabet_eq_source
#print axioms Txdbus.C16.unknown_object_iff_not_exported
#print axioms Txdbus.C16.export_signals
#print axioms Txdbus.C16.strictlyBelow_iff_text
#print axioms Txdbus.C16.parse_render_inverse
#print axioms Txdbus.C16.orig_introspect_root_lists_empty_child
#print axioms Txdbus.C16.orig_managed_reports_prefix_sibling
#print axioms Txdbus.C16.handlers_independent
#print axioms Txdbus.C16.handler_call_is_local
