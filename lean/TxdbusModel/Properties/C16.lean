/-
Property C16 - the exported-object tree seen remotely is exactly what was exported.

Code model: `Txdbus.Obj.Tree` (objects.py `DBusObjectHandler.exports/exportObject/unexportObject/
getManagedObjects/handleMethodCallMessage`, introspection.py `generateIntrospectionXML`, after the
repairs fixes/C16-01 and fixes/C16-02).  Spec: `Txdbus.Obj.TreeSpec` (paths as element lists).
All theorems quantify over ALL histories of export/unexport calls and all valid paths, the root
included; nothing is bounded.  The theorems named `orig_…` are `decide`-checked witnesses that the
code as it was before the two repairs violates the property (they are the replays of F23 / F24).
-/
import TxdbusModel.Obj.Tree
import TxdbusModel.Proofs.Obj.TreePath
import TxdbusModel.Proofs.Obj.Tree
import TxdbusModel.Gen.Validators
import TxdbusModel.Proofs.Obj.TreeProps
import TxdbusModel.Properties.C17

namespace Txdbus.C16
open Txdbus.Obj Txdbus.Obj.Tree Txdbus.Obj.TreeSpec Txdbus.Obj.TreeLemmas Txdbus.Obj.TreePath

/-! ### the table -/

/-- After any history the table answers `exports.get(s)` with exactly the object the calls so
far imply for `s` (any text `s`, valid path or not). -/
theorem exports_eq_spec (h : List Op) (s : Str) : lookup (run h) s = exportedAfter h s :=
  lookup_run h s

/-! ### 1. introspection -/

/-- Introspecting any valid path (root included) after any history lists exactly the names of
its immediate children among the exported paths, each once. -/
theorem children_eq_spec (h : List Op) (wf : WfHistory h) (p : Path) (hp : ValidPath p) :
    (introspectChildren (render p) (run h)).Nodup ∧
      ∀ name, name ∈ introspectChildren (render p) (run h) ↔ name ∈ children p (exportedPaths h) := by
  refine ⟨nodup_childLoop _ _ _ (by simp), fun name => ?_⟩
  simp only [introspectChildren, mem_childLoop, List.not_mem_nil, false_or, mem_children]
  constructor
  · rintro ⟨k, hk, hsw, hc, hne⟩
    obtain ⟨q, hq, rfl, hqE⟩ := key_valid h wf k hk
    rcases (startsWith_dirPrefix p q hp hq).mp hsw with ⟨rfl, rfl⟩ | ⟨e, rest, rfl⟩
    · exfalso; apply hne; rw [← hc]; decide
    · rw [dirPrefix_render p hp, render_below,
        childOf_below p e rest (ValidPath.slashFree hq e (by simp))] at hc
      subst hc
      exact ⟨rest, hqE⟩
  · rintro ⟨rest, hqE⟩
    have hq := ((mem_exportedPaths h _).mp hqE).1
    refine ⟨_, mem_keys_of_exported h _ hqE, (startsWith_dirPrefix p _ hp hq).mpr (Or.inr ⟨name, rest, rfl⟩), ?_, ?_⟩
    · rw [dirPrefix_render p hp, render_below]
      exact childOf_below p name rest (ValidPath.slashFree hq name (by simp))
    · exact ne_nil_of_validElem (hq name (by simp))

theorem children_nil_iff (h : List Op) (wf : WfHistory h) (p : Path) (hp : ValidPath p) :
    introspectChildren (render p) (run h) = [] ↔ below p (exportedPaths h) = [] := by
  have hc := (children_eq_spec h wf p hp).2
  simp only [List.eq_nil_iff_forall_not_mem]
  constructor
  · intro hnone q hq
    obtain ⟨hqE, e, rest, rfl⟩ := (mem_below p q _).mp hq
    exact hnone e ((hc e).mpr ((mem_children p _ e).mpr ⟨rest, hqE⟩))
  · intro hnone name hn
    obtain ⟨rest, hqE⟩ := (mem_children p _ name).mp ((hc name).mp hn)
    exact hnone _ ((mem_below p _ _).mpr ⟨hqE, name, rest, rfl⟩)

/-- Introspect fails (the call is answered UnknownObject) exactly for a path with neither object
nor exported descendants; otherwise the reply carries the interfaces of the object there (if
any) and the child list of `children_eq_spec`. -/
theorem introspect_fails_iff_nothing_there (h : List Op) (wf : WfHistory h) (p : Path) (hp : ValidPath p) :
    (handle (run h) (render p) .introspect = .unknownObject (render p) ↔
        exportedAfter h (render p) = none ∧ below p (exportedPaths h) = []) ∧
    (¬ (exportedAfter h (render p) = none ∧ below p (exportedPaths h) = []) →
        handle (run h) (render p) .introspect =
          .introspection ((exportedAfter h (render p)).map (·.ifaceNames)) (introspectChildren (render p) (run h))) := by
  rw [handle_introspect, lookup_run]
  simp only [children_nil_iff h wf p hp]
  constructor
  · constructor
    · intro hh
      split at hh
      · assumption
      · cases hh
    · intro hh; rw [if_pos hh]
  · intro hh; rw [if_neg hh]

/-! ### 2. GetManagedObjects -/

/-- The interface names reported for an object (keys of the dict `a{sa{sv}}`) are exactly its
interfaces, each once. -/
theorem interface_names_complete (o : Obj) :
    (keys (dictOf o.ifaces)).Nodup ∧ ∀ n, n ∈ keys (dictOf o.ifaces) ↔ n ∈ o.ifaceNames :=
  ⟨(nodup_keys_foldl_setItem o.ifaces [] (by simp [keys])), fun n => keys_dictOf o.ifaces n⟩

/-- For an object whose `getAllProperties(name)` depends on the name only, the reported dict holds
exactly the pairs (interface name, result of `getAllProperties(name)`) of its interfaces. -/
theorem interface_dict_complete (o : Obj) (hc : o.Consistent) :
    ∀ n t, (n, t) ∈ dictOf o.ifaces ↔ (n, t) ∈ o.ifaces :=
  (dictOf_complete o.ifaces hc).2

/-- After any history every object in the table is one whose properties can be sent (an object
that cannot be announced never gets in - repair C16-03), so GetManagedObjects never takes its
`Error.Failed` branch because of a property value that was unmarshallable at export time. -/
theorem table_objects_sendable (h : List Op) (k : Str) (o : Obj) (hk : lookup (run h) k = some o) :
    o.sendable = true := by
  rw [lookup_run] at hk; exact exportedAfter_sendable hk

/-- The path part of GetManagedObjects on the ABSTRACT model of `Obj/Tree.lean` (objects carry one opaque token
per interface): on an exported valid path (root included) the reply is a method return that lists exactly the
exported objects strictly beneath it - one entry per path - each with the dict built from its interfaces.
The full clause of the property ("each with all its interfaces and readable properties") is `managed_eq_spec`
below, on the model whose objects have declared properties (C17). -/
theorem managed_entries_abstract (h : List Op) (wf : WfHistory h) (p : Path) (hp : ValidPath p)
    (o0 : Obj) (hexp : exportedAfter h (render p) = some o0) :
    ∃ ents, handle (run h) (render p) .getManagedObjects = .managed ents ∧
      (ents.map (fun x => x.1)).Nodup ∧
      ∀ k d, (k, d) ∈ ents ↔
        ∃ q o, q ∈ below p (exportedPaths h) ∧ k = render q ∧ exportedAfter h k = some o ∧
          d = dictOf o.ifaces := by
  have hpath : o0.path = render p := (exportedAfter_some hexp).2
  refine ⟨managed (render p) (run h), ?_, nodup_managed_keys _ _ (nodup_keys_run h), fun k d => ?_⟩
  · rw [handle_managed, lookup_run, hexp]
    simp only [hpath, managedSendable_of_all _ _ (table_objects_sendable h), if_true]
  · rw [mem_managed]
    constructor
    · rintro ⟨⟨hsw, hne⟩, o, ho, rfl⟩
      have hk : k ∈ keys (run h) := by rw [mem_keys_iff, ho]; rfl
      obtain ⟨q, hq, rfl, hqE⟩ := key_valid h wf k hk
      obtain ⟨e, rest, rfl⟩ := (startsWith_dirPrefix_ne p q hp hq).mp ⟨hsw, hne⟩
      rw [lookup_run] at ho
      exact ⟨_, o, (mem_below p _ _).mpr ⟨hqE, e, rest, rfl⟩, rfl, ho, rfl⟩
    · rintro ⟨q, o, hq, rfl, ho, rfl⟩
      obtain ⟨hqE, hbelow⟩ := (mem_below p q _).mp hq
      have hqv := ((mem_exportedPaths h q).mp hqE).1
      refine ⟨(startsWith_dirPrefix_ne p q hp hqv).mpr hbelow, o, ?_, rfl⟩
      rw [lookup_run]; exact ho

/-! ### 2b. GetManagedObjects over objects with declared properties (C16 x C17) -/

open Txdbus.Obj.TreeProps in
/-- **GetManagedObjects reports exactly the exported objects strictly beneath the path, each with exactly
its interfaces and, per interface, exactly its readable properties with their current values.**

Setting: the combined model `Obj/TreeProps.lean` - instances of a declared class chain (C17's `World`,
hypotheses as in C17: it elaborates, attributes are consistent, declared types are the modelled ones, the
repaired configuration), every interface named, exported at valid paths; ANY history `h` of exportObject /
unexportObject / local assignments / remote Sets (the latter well-formed as in C17); any valid path `p`
(root included) at which something is exported.  `S` is C17's SPECIFICATION state after the history: the
value most recently assigned to every property.

1. the reply is `Error.Failed` or one dictionary;
2. ANY dictionary returned has one entry per path, the paths being exactly the spec's `below p` of the
   exported paths; the entry of path `k` belongs to the instance `n` the history makes visible at `k`; its
   keys are exactly the names of the interfaces of the class chain (DBusObject's Properties interface
   included), each once; and the dict of interface `i` satisfies C17's `GetAllAllowed` - it lists exactly
   the readable declared properties of `i` (never a write-only one, none twice, none missing), each one that
   holds a value of its type with that value, typed as declared (this is `Txdbus.Properties.C17.getall_exact`, used,
   not re-proved);
3. when every readable property of every instance beneath `p` holds a value of its type, the reply IS a
   dictionary. -/
theorem managed_eq_spec {D : Props.Decls} (E : Env) (hD : Props.elaborate D = some E.W)
    (hA : Props.AttrConsistent E.W) (hM : Props.Modelled E.W) (hc : E.cfg.Sound)
    (hn : ∀ f ∈ E.W.ifaces, f.name ≠ [])
    (h : List TreeProps.Op) (hg : GoodOps h) (hv : ∀ n, TreeProps.Op.export n ∈ h → ValidText (E.pathOf n))
    (p : Path) (hp : ValidPath p) (hexp : (exportedAfter (absHist E h) (render p)).isSome = true) :
    let reply := handleManaged E (TreeProps.run E h) (render p)
    let S := Props.specRun E.cfg E.W (propHist E h)
    (reply = .managedFailed ∨ ∃ ents, reply = .managed ents) ∧
    (∀ ents, reply = .managed ents →
      (ents.map (·.1)).Nodup ∧
      (∀ k, k ∈ ents.map (·.1) ↔ ∃ q, q ∈ below p (exportedPaths (absHist E h)) ∧ k = render q) ∧
      ∀ k d, (k, d) ∈ ents → ∃ n, exportedAfter (absHist E h) k = some (tabObj E n) ∧
        (keys d).Nodup ∧ (∀ i, i ∈ keys d ↔ i ∈ E.W.ifaces.map (·.name)) ∧
        ∀ i l, (i, l) ∈ d → PropsSpec.GetAllAllowed (Props.sdeclOf E.W) S n i [.retD l]) ∧
    ((∀ q n, q ∈ below p (exportedPaths (absHist E h)) →
        exportedAfter (absHist E h) (render q) = some (tabObj E n) →
        ∀ sp ∈ (Props.sdeclOf E.W).props, sp.readable = true →
          ∃ v, S.val n sp.iface sp.name = some v ∧ PropsSpec.HasTypeSig sp.sig v = true) →
      ∃ ents, reply = .managed ents) := by
  intro reply S
  have wf : WfHistory (absHist E h) := wf_absHistFrom E State.init h hv
  have hkeys := keys_run_abs E h
  have hI := inv_run E h
  have hgood : Props.GoodHist (propHist E h) := goodHist_propHistFrom E State.init h hg
  have hpst := pst_eq E h
  have hSim := Txdbus.Properties.C17.reachable_state_refines_spec hD hA hM hc hgood
  -- the object at p
  rw [lookup_run_abs] at hexp
  obtain ⟨n0, hn0⟩ : ∃ n0, lookup (TreeProps.run E h).exports (render p) = some n0 := by
    cases hl : lookup (TreeProps.run E h).exports (render p) with
    | none => rw [hl] at hexp; cases hexp
    | some n0 => exact ⟨n0, rfl⟩
  have hpath : E.pathOf n0 = render p := (hI _ _ hn0).2
  have hreply : reply = match managedReply E (TreeProps.run E h) (render p) with
      | some ents => .managed ents | none => .managedFailed := by
    simp only [reply, handleManaged, hn0, hpath]
    cases managedReply E (TreeProps.run E h) (render p) <;> rfl
  -- what C17 says about one interface dict of an exported instance
  have hget : ∀ k n i l, lookup (TreeProps.run E h).exports k = some n → i ∈ E.W.ifaces.map (·.name) →
      ifaceDict E (TreeProps.run E h).pst n i = some l →
      PropsSpec.GetAllAllowed (Props.sdeclOf E.W) S n i [.retD l] := by
    intro k n i l hk hi hl
    have hatt : n ∈ (Props.run E.cfg E.W (propHist E h)).attached := by rw [← hpst]; exact (hI k n hk).1
    have hi0 : i ≠ [] := by
      obtain ⟨f, hf, rfl⟩ := List.mem_map.mp hi
      exact hn f hf
    have := (Txdbus.Properties.C17.getall_exact hD hA hM hc hgood n i hi0 ((hSim.att n).mp hatt)).1
    have hstep : (Props.step E.cfg E.W (Props.run E.cfg E.W (propHist E h)) (.getAll n i)).2 = [.retD l] := by
      simp only [Props.step, hatt, if_true]
      rw [← hpst, opGetAll_of_ifaceDict E _ n i l hi hl]
    rw [hstep] at this
    exact this
  refine ⟨?_, ?_, ?_⟩
  · rw [hreply]
    cases managedReply E (TreeProps.run E h) (render p) with
    | none => exact Or.inl rfl
    | some ents => exact Or.inr ⟨ents, rfl⟩
  · intro ents hents
    rw [hreply] at hents
    cases hm : managedReply E (TreeProps.run E h) (render p) with
    | none => rw [hm] at hents; cases hents
    | some ents' =>
      rw [hm] at hents
      cases hents
      obtain ⟨hk1, hk2⟩ := managedReply_spec E _ _ _ hm
      refine ⟨?_, ?_, ?_⟩
      · rw [hk1]
        exact nodup_managedKeys _ _ (by rw [hkeys]; exact nodup_keys_run _)
      · intro k
        rw [hk1]
        exact mem_managedKeys_iff_below (absHist E h) wf _ hkeys p hp k
      · intro k d hkd
        obtain ⟨_, n, hln, hdn⟩ := hk2 k d hkd
        obtain ⟨d1, d2, d3⟩ := objDict_spec E _ n d hdn
        refine ⟨n, by rw [lookup_run_abs, hln]; rfl, d1, d2, fun i l hil => ?_⟩
        have hi : i ∈ E.W.ifaces.map (·.name) := (d2 i).mp (List.mem_map.mpr ⟨(i, l), hil, rfl⟩)
        exact hget k n i l hln hi (d3 i l hil)
  · intro hall
    rw [hreply]
    suffices hs : ∃ ents, managedReply E (TreeProps.run E h) (render p) = some ents by
      obtain ⟨ents, he⟩ := hs
      exact ⟨ents, by rw [he]⟩
    apply managedReply_isSome
    intro k hk
    obtain ⟨q, hq, rfl⟩ := (mem_managedKeys_iff_below (absHist E h) wf _ hkeys p hp k).mp hk
    have hkin : render q ∈ keys (TreeProps.run E h).exports := ((mem_managedKeys _ _ _).mp hk).1
    obtain ⟨n, hln⟩ : ∃ n, lookup (TreeProps.run E h).exports (render q) = some n := by
      rw [mem_keys_iff] at hkin
      cases hl : lookup (TreeProps.run E h).exports (render q) with
      | none => rw [hl] at hkin; cases hkin
      | some n => exact ⟨n, rfl⟩
    refine ⟨n, hln, ?_⟩
    rw [objDict, objDictFrom_isSome, List.all_eq_true]
    intro f hf
    have hi : f.name ∈ E.W.ifaces.map (·.name) := List.mem_map.mpr ⟨f, hf, rfl⟩
    have hatt : n ∈ (Props.run E.cfg E.W (propHist E h)).attached := by rw [← hpst]; exact (hI _ n hln).1
    have hG := (Txdbus.Properties.C17.getall_exact hD hA hM hc hgood n f.name (hn f hf) ((hSim.att n).mp hatt)).1
    have hstep : (Props.step E.cfg E.W (Props.run E.cfg E.W (propHist E h)) (.getAll n f.name)).2 =
        [Props.opGetAll E.cfg E.W (TreeProps.run E h).pst n f.name] := by
      simp only [Props.step, hatt, if_true]; rw [← hpst]
    rw [hstep] at hG
    unfold PropsSpec.GetAllAllowed at hG
    have hmem : f.name ∈ (Props.sdeclOf E.W).ifaces := by simpa [Props.sdeclOf] using hi
    rw [if_pos hmem] at hG
    obtain ⟨l, hl⟩ := hG.2.2 (fun sp hsp hif hr =>
      hif ▸ hall q n hq (by rw [lookup_run_abs, hln]; rfl) sp hsp hr)
    simp only [List.cons.injEq, and_true] at hl
    rw [ifaceDict_of_opGetAll E _ n f.name l hl]
    rfl

/-! ### 3. UnknownObject -/

theorem isPair_iff (pr : String × String) (iface : Option Str) (member : Str) :
    isPair pr iface member = true ↔ (iface = some pr.1.toList ∧ member = pr.2.toList) := by
  simp [isPair]

/-- Which calls the handler answers itself: exactly the three (interface, member) pairs of the
table generated from objects.py. -/
theorem classify_ordinary_iff (iface : Option Str) (member : Str) :
    classify iface member = .ordinary ↔
      ∀ pr ∈ [Gen.Dispatch.peerPair, Gen.Dispatch.introspectPair, Gen.Dispatch.managedPair],
        ¬ (iface = some pr.1.toList ∧ member = pr.2.toList) := by
  unfold classify
  generalize Gen.Dispatch.peerPair = a
  generalize Gen.Dispatch.introspectPair = b
  generalize Gen.Dispatch.managedPair = c
  simp only [List.mem_cons, List.not_mem_nil, or_false, forall_eq_or_imp, forall_eq, ← isPair_iff]
  cases isPair a iface member <;> cases isPair b iface member <;> cases isPair c iface member <;> simp

/-- A call of any member on any interface that is not one of the three built-in pairs, to any path
text `s`: it is answered UnknownObject exactly when `s` is not currently exported, and otherwise
reaches the object exported there most recently.  GetManagedObjects on a path that is not exported
is answered UnknownObject as well.
STATED DEVIATION from the literal property text ("a call to a path not currently exported is
answered UnknownObject"): the built-in calls are excluded - `ping_answered_everywhere`, and
Introspect succeeds on non-exported intermediate paths (`introspect_fails_iff_nothing_there`). -/
theorem unknown_object_iff_not_exported (h : List Op) (s : Str) (iface : Option Str) (member : Str)
    (hb : ∀ pr ∈ [Gen.Dispatch.peerPair, Gen.Dispatch.introspectPair, Gen.Dispatch.managedPair],
        ¬ (iface = some pr.1.toList ∧ member = pr.2.toList)) :
    (handleMsg (run h) s iface member = .unknownObject s ↔ exportedAfter h s = none) ∧
    (∀ o, exportedAfter h s = some o → handleMsg (run h) s iface member = .dispatch o) ∧
    (handle (run h) s .getManagedObjects = .unknownObject s ↔ exportedAfter h s = none) := by
  rw [handleMsg, (classify_ordinary_iff iface member).mpr hb, handle_ordinary, handle_managed, lookup_run]
  cases exportedAfter h s with
  | none => simp
  | some o => simp; split <;> simp

/-- Peer.Ping is answered with an empty method return at every path, exported or not. -/
theorem ping_answered_everywhere (e : Exports) (s : Str) :
    handleMsg e s (some Gen.Dispatch.peerPair.1.toList) Gen.Dispatch.peerPair.2.toList = .pong := by
  have hp : isPair Gen.Dispatch.peerPair (some Gen.Dispatch.peerPair.1.toList) Gen.Dispatch.peerPair.2.toList = true :=
    (isPair_iff _ _ _).mpr ⟨rfl, rfl⟩
  unfold handleMsg classify
  rw [if_pos hp]
  simp [handle]

/-! ### 4. signals -/

/-- After any history: an export of an object whose properties can be sent sends exactly one
message, InterfacesAdded naming the object's path (header and first argument) and the dict of its
interfaces, and the object is in the table afterwards; an export of an object whose properties
cannot be sent raises, sends nothing and changes nothing; an unexport of an exported path sends
exactly one message, InterfacesRemoved naming that path and the interface names of the object that
was visible there; an unexport of a path that is not exported raises, sends nothing and leaves the
table unchanged.
(The export part restates `Tree.step`: there is no independent notion of "the announcement an export
implies" beyond path + interfaces; its value is the correspondence stream.  The content proved here
is that the unexport signal names `s` and the interfaces of the object the history implies at `s`,
and that failing calls are silent and without effect.) -/
theorem export_signals (h : List Op) :
    (∀ o : Obj, o.sendable = true →
        step (run h) (.export o) =
          ⟨setItem (run h) o.path o, [.interfacesAdded o.path o.path (dictOf o.ifaces)], false⟩) ∧
    (∀ o : Obj, o.sendable = false → step (run h) (.export o) = ⟨run h, [], true⟩) ∧
    (∀ s o, exportedAfter h s = some o →
        (step (run h) (.unexport s)).sent = [.interfacesRemoved s s o.ifaceNames] ∧
        (step (run h) (.unexport s)).raised = false) ∧
    (∀ s, exportedAfter h s = none → step (run h) (.unexport s) = ⟨run h, [], true⟩) := by
  refine ⟨fun o ho => by simp [step, ho], fun o ho => by simp [step, ho], fun s o ho => ?_, fun s ho => ?_⟩
  · have hp := (exportedAfter_some ho).2
    rw [← lookup_run] at ho
    simp [step, ho, hp]
  · rw [← lookup_run] at ho
    simp [step, ho]

/-! ### text and elements -/

/-- For valid object paths `s`, `t` (texts) with elements `p`, `q`: `t` is strictly below `s`
(element-wise proper prefix) iff `t` starts with (`"/"` if `s = "/"`, else `s ++ "/"`) and `t ≠ s`. -/
theorem strictlyBelow_iff_text (s t : Str) (p q : Path) (hs : parse s = some p) (ht : parse t = some q) :
    properPrefix p q = true ↔
      (startsWith t (if s = ['/'] then ['/'] else s ++ ['/']) = true ∧ t ≠ s) := by
  obtain ⟨hp, rfl⟩ := render_parse s p hs
  obtain ⟨hq, rfl⟩ := render_parse t q ht
  exact strictlyBelow_text p q hp hq

/-- Text and element list determine each other on valid paths. -/
theorem parse_render_inverse :
    (∀ p, ValidPath p → parse (render p) = some p) ∧ (∀ s p, parse s = some p → ValidPath p ∧ render p = s) :=
  ⟨parse_render, render_parse⟩

/-! ### witnesses: the code before the repairs violates the property -/

private def oRoot : Obj := { path := ['/'], ifaces := [], sendable := true }
private def oAB : Obj := { path := ['/', 'a', '/', 'b'], ifaces := [(['i'], 1)], sendable := true }
private def oABC : Obj := { path := ['/', 'a', '/', 'b', 'c'], ifaces := [(['i'], 2)], sendable := true }
private def oBad : Obj := { path := ['/', 'a'], ifaces := [(['i'], 3)], sendable := false }

/-- F23: with `/` exported, the unrepaired loop lists a child named "" for `/`; the spec has none. -/
theorem orig_introspect_root_lists_empty_child :
    introspectChildrenOrig (render []) (run [.export oRoot]) = [[]] ∧
    children [] (exportedPaths [.export oRoot]) = [] ∧
    introspectChildren (render []) (run [.export oRoot]) = [] := by decide

/-- F24: with `/a/b` and `/a/bc` exported, the unrepaired selection reports `/a/bc` beneath `/a/b`. -/
theorem orig_managed_reports_prefix_sibling :
    managedOrig oAB.path (run [.export oAB, .export oABC]) = [(oABC.path, [(['i'], 2)])] ∧
    below [['a'], ['b']] (exportedPaths [.export oAB, .export oABC]) = [] ∧
    managed oAB.path (run [.export oAB, .export oABC]) = [] := by decide

/-- Half-done export (before C16-03): exporting an object whose properties cannot be sent raises
and sends nothing, yet the object is in the table; the calls imply nothing and the repaired code
agrees. -/
theorem orig_failed_export_stays_visible :
    (stepOrig [] (.export oBad)).sent = [] ∧ (stepOrig [] (.export oBad)).raised = true ∧
    lookup (runOrig [.export oBad]) oBad.path = some oBad ∧
    exportedAfter [.export oBad] oBad.path = none ∧
    lookup (run [.export oBad]) oBad.path = none := by decide

/-- The element alphabet of the spec is the character class `invalid_obj_path_re` of marshal.py
allows (generated table), minus the separator: `WfHistory` is what `DBusObject.__init__`
(`validateObjectPath`) guarantees as far as characters go. -/
theorem objectPath_alphabet_eq_source (c : Char) :
    elemChar c = (inRanges Gen.Validators.objPathAllowed c.toNat && c.toNat != 47) :=
  elemCode_eq_gen c.toNat

/-! ### the hypotheses are satisfiable by non-trivial instances -/

private def hist : List Op :=
  [.export oRoot, .export oAB, .export oABC, .export oBad, .unexport ['/', 'z'],
   .export { oAB with ifaces := [(['i'], 7)] },
   .unexport oABC.path]

example : WfHistory hist := by
  intro o ho
  simp only [hist, List.mem_cons, Op.export.injEq, List.not_mem_nil, or_false, reduceCtorEq, false_or] at ho
  rcases ho with rfl | rfl | rfl | rfl | rfl <;> decide

example : ValidPath [['a'], ['b']] ∧ exportedAfter hist (render [['a'], ['b']]) = some { oAB with ifaces := [(['i'], 7)] } := by
  decide

example : children [] (exportedPaths hist) = [['a']] ∧ below [] (exportedPaths hist) = [[['a'], ['b']]] := by
  decide


/-! ### `managed_eq_spec`: the hypotheses hold for a concrete world, history and path, and the reply is not trivial -/

section ManagedExample
open Txdbus.Obj.TreeProps Txdbus.Properties.C17

/-- C17's two-class example chain (`ro` read-only string and `bc` int32 on org.a, `c` int32 on org.ab), three
instances at `/a`, `/a/b`, `/a/bc`. -/
private def exEnv : Env :=
  { cfg := Props.Cfg.repaired, W := exWorld,
    pathOf := fun n => if n = 0 then ['/', 'a'] else if n = 1 then ['/', 'a', '/', 'b'] else ['/', 'a', '/', 'b', 'c'] }

private def exOps : List TreeProps.Op :=
  [.assign 0 "p_bc".toList (.int 1), .assign 0 "p_c".toList (.int 2), .assign 0 "p_ro".toList (.str ['x']),
   .assign 1 "p_bc".toList (.int 5), .assign 1 "p_c".toList (.int 6), .assign 1 "p_ro".toList (.str ['y']),
   .assign 2 "p_bc".toList (.int 8), .assign 2 "p_c".toList (.int 9), .assign 2 "p_ro".toList (.str ['z']),
   .export 0, .export 1, .export 2,
   .set ['/', 'a', '/', 'b'] sA sBC (.int 7), .set ['/', 'a', '/', 'b'] sA sRO (.str ['n', 'o']),
   .assign 2 "p_c".toList (.int 10), .unexport ['/', 'z']]

theorem managed_example_ops_good : GoodOps exOps := by
  intro op hop
  simp only [exOps, List.mem_cons, List.not_mem_nil, or_false] at hop
  rcases hop with rfl | rfl | rfl | rfl | rfl | rfl | rfl | rfl | rfl | rfl | rfl | rfl | rfl | rfl | rfl | rfl <;>
    first | trivial | decide

theorem managed_example_paths_valid : ∀ n, TreeProps.Op.export n ∈ exOps → ValidText (exEnv.pathOf n) := by
  intro n hn
  simp only [exOps, List.mem_cons, List.not_mem_nil, or_false, reduceCtorEq, false_or,
    TreeProps.Op.export.injEq] at hn
  rcases hn with rfl | rfl | rfl <;> decide

/-- All hypotheses of `managed_eq_spec` hold for `/a` after `exOps` ... -/
example := managed_eq_spec exEnv exWorld_elab exWorld_attrConsistent exWorld_modelled repaired_sound
  (by decide) exOps managed_example_ops_good managed_example_paths_valid [['a']] (by decide) (by decide)

/-- ... and the reply is the dictionary one expects: `/a/b` with the value 7 written by the remote Set (the
Set of the read-only `ro` was refused), `/a/bc` with the value 10 assigned after the export; org.a's
properties collected from both classes, the Properties interface with an empty dict. -/
example :
    handleManaged exEnv (TreeProps.run exEnv exOps) ['/', 'a'] =
      .managed
        [(['/', 'a', '/', 'b'],
            [(sA, [(sBC, ['i'], .int 7), (sRO, ['s'], .str ['y'])]), (sAB, [(sC, ['i'], .int 6)]),
             (Props.propsIfaceName, [])]),
         (['/', 'a', '/', 'b', 'c'],
            [(sA, [(sBC, ['i'], .int 8), (sRO, ['s'], .str ['z'])]), (sAB, [(sC, ['i'], .int 10)]),
             (Props.propsIfaceName, [])])] := by
  decide

end ManagedExample

end Txdbus.C16

#print axioms Txdbus.C16.exports_eq_spec
#print axioms Txdbus.C16.children_eq_spec
#print axioms Txdbus.C16.children_nil_iff
#print axioms Txdbus.C16.introspect_fails_iff_nothing_there
#print axioms Txdbus.C16.interface_names_complete
#print axioms Txdbus.C16.interface_dict_complete
#print axioms Txdbus.C16.table_objects_sendable
#print axioms Txdbus.C16.managed_entries_abstract
#print axioms Txdbus.C16.managed_eq_spec
#print axioms Txdbus.C16.managed_example_ops_good
#print axioms Txdbus.C16.managed_example_paths_valid
#print axioms Txdbus.C16.isPair_iff
#print axioms Txdbus.C16.classify_ordinary_iff
#print axioms Txdbus.C16.ping_answered_everywhere
#print axioms Txdbus.C16.orig_failed_export_stays_visible
#print axioms Txdbus.C16.objectPath_alphabet_eq_source
#print axioms Txdbus.C16.unknown_object_iff_not_exported
#print axioms Txdbus.C16.export_signals
#print axioms Txdbus.C16.strictlyBelow_iff_text
#print axioms Txdbus.C16.parse_render_inverse
#print axioms Txdbus.C16.orig_introspect_root_lists_empty_child
#print axioms Txdbus.C16.orig_managed_reports_prefix_sibling
