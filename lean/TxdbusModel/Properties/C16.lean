/-! Property theorems for C16 (stub: none yet). -/
