/-
Property C16 - the exported-object tree seen remotely is exactly what was exported.

Code model: `Txdbus.Obj.Tree` (objects.py `DBusObjectHandler.exports/exportObject/unexportObject/
getManagedObjects/handleMethodCallMessage`, introspection.py `generateIntrospectionXML`, after the
repairs fixes/C16-01 and fixes/C16-02).  Spec: `Txdbus.Obj.TreeSpec` (paths as element lists).
All theorems quantify over ALL histories of export/unexport calls and all valid paths, the root
included; nothing is bounded.  The theorems named `orig_…` are `decide`-checked witnesses that the
code as it was before the two repairs violates the property (they are the replays of F23 / F24).
-/
import TxdbusModel.Obj.Tree
import TxdbusModel.Proofs.Obj.TreePath
import TxdbusModel.Proofs.Obj.Tree

namespace Txdbus.C16
open Txdbus.Obj Txdbus.Obj.Tree Txdbus.Obj.TreeSpec Txdbus.Obj.TreeLemmas Txdbus.Obj.TreePath

/-! ### the table -/

/-- After any history the table answers `exports.get(s)` with exactly the object the calls so
far imply for `s` (any text `s`, valid path or not). -/
theorem exports_eq_spec (h : List Op) (s : Str) : lookup (run h) s = exportedAfter h s :=
  lookup_run h s

/-! ### 1. introspection -/

/-- Introspecting any valid path (root included) after any history lists exactly the names of
its immediate children among the exported paths, each once. -/
theorem children_eq_spec (h : List Op) (wf : WfHistory h) (p : Path) (hp : ValidPath p) :
    (introspectChildren (render p) (run h)).Nodup ∧
      ∀ name, name ∈ introspectChildren (render p) (run h) ↔ name ∈ children p (exportedPaths h) := by
  refine ⟨nodup_childLoop _ _ _ (by simp), fun name => ?_⟩
  simp only [introspectChildren, mem_childLoop, List.not_mem_nil, false_or, mem_children]
  constructor
  · rintro ⟨k, hk, hsw, hc, hne⟩
    obtain ⟨q, hq, rfl, hqE⟩ := key_valid h wf k hk
    rcases (startsWith_dirPrefix p q hp hq).mp hsw with ⟨rfl, rfl⟩ | ⟨e, rest, rfl⟩
    · exfalso; apply hne; rw [← hc]; decide
    · rw [dirPrefix_render p hp, render_below,
        childOf_below p e rest (ValidPath.slashFree hq e (by simp))] at hc
      subst hc
      exact ⟨rest, hqE⟩
  · rintro ⟨rest, hqE⟩
    have hq := ((mem_exportedPaths h _).mp hqE).1
    refine ⟨_, mem_keys_of_exported h _ hqE, (startsWith_dirPrefix p _ hp hq).mpr (Or.inr ⟨name, rest, rfl⟩), ?_, ?_⟩
    · rw [dirPrefix_render p hp, render_below]
      exact childOf_below p name rest (ValidPath.slashFree hq name (by simp))
    · exact ne_nil_of_validElem (hq name (by simp))

theorem children_nil_iff (h : List Op) (wf : WfHistory h) (p : Path) (hp : ValidPath p) :
    introspectChildren (render p) (run h) = [] ↔ below p (exportedPaths h) = [] := by
  have hc := (children_eq_spec h wf p hp).2
  simp only [List.eq_nil_iff_forall_not_mem]
  constructor
  · intro hnone q hq
    obtain ⟨hqE, e, rest, rfl⟩ := (mem_below p q _).mp hq
    exact hnone e ((hc e).mpr ((mem_children p _ e).mpr ⟨rest, hqE⟩))
  · intro hnone name hn
    obtain ⟨rest, hqE⟩ := (mem_children p _ name).mp ((hc name).mp hn)
    exact hnone _ ((mem_below p _ _).mpr ⟨hqE, name, rest, rfl⟩)

/-- Introspect fails (the call is answered UnknownObject) exactly for a path with neither object
nor exported descendants; otherwise the reply carries the interfaces of the object there (if
any) and the child list of `children_eq_spec`. -/
theorem introspect_fails_iff_nothing_there (h : List Op) (wf : WfHistory h) (p : Path) (hp : ValidPath p) :
    (handle (run h) (render p) .introspect = .unknownObject (render p) ↔
        exportedAfter h (render p) = none ∧ below p (exportedPaths h) = []) ∧
    (¬ (exportedAfter h (render p) = none ∧ below p (exportedPaths h) = []) →
        handle (run h) (render p) .introspect =
          .introspection ((exportedAfter h (render p)).map (·.ifaces)) (introspectChildren (render p) (run h))) := by
  rw [handle_introspect, lookup_run]
  simp only [children_nil_iff h wf p hp]
  constructor
  · constructor
    · intro hh
      split at hh
      · assumption
      · cases hh
    · intro hh; rw [if_pos hh]
  · intro hh; rw [if_neg hh]

/-! ### 2. GetManagedObjects -/

/-- The interface names reported for an object (dict keys) are exactly its interfaces, each once. -/
theorem interface_names_complete (l : List Str) : (dictKeys l).Nodup ∧ ∀ i, i ∈ dictKeys l ↔ i ∈ l :=
  ⟨nodup_dictKeys l, mem_dictKeys l⟩

/-- GetManagedObjects on an exported valid path (root included) reports exactly the exported
objects strictly beneath it - one entry per path, each with all its interface names
(`interface_names_complete`) and its readable properties (the payload of the object visible
there). -/
theorem managed_eq_spec (h : List Op) (wf : WfHistory h) (p : Path) (hp : ValidPath p)
    (o0 : Obj) (hexp : exportedAfter h (render p) = some o0) :
    ∃ ents, handle (run h) (render p) .getManagedObjects = .managed ents ∧
      (ents.map (fun x => x.1)).Nodup ∧
      ∀ k ifs pl, (k, ifs, pl) ∈ ents ↔
        ∃ q o, q ∈ below p (exportedPaths h) ∧ k = render q ∧ exportedAfter h k = some o ∧
          ifs = dictKeys o.ifaces ∧ pl = o.payload := by
  have hpath : o0.path = render p := (exportedAfter_some hexp).2
  refine ⟨managed (render p) (run h), ?_, nodup_managed_keys _ _ (nodup_keys_run h), fun k ifs pl => ?_⟩
  · rw [handle_managed, lookup_run, hexp]
    simp only [hpath]
  · rw [mem_managed]
    constructor
    · rintro ⟨⟨hsw, hne⟩, o, ho, rfl, rfl⟩
      have hk : k ∈ keys (run h) := by rw [mem_keys_iff, ho]; rfl
      obtain ⟨q, hq, rfl, hqE⟩ := key_valid h wf k hk
      obtain ⟨e, rest, rfl⟩ := (startsWith_dirPrefix_ne p q hp hq).mp ⟨hsw, hne⟩
      rw [lookup_run] at ho
      exact ⟨_, o, (mem_below p _ _).mpr ⟨hqE, e, rest, rfl⟩, rfl, ho, rfl, rfl⟩
    · rintro ⟨q, o, hq, rfl, ho, rfl, rfl⟩
      obtain ⟨hqE, hbelow⟩ := (mem_below p q _).mp hq
      have hqv := ((mem_exportedPaths h q).mp hqE).1
      refine ⟨(startsWith_dirPrefix_ne p q hp hqv).mpr hbelow, o, ?_, rfl, rfl⟩
      rw [lookup_run]; exact ho

/-! ### 3. UnknownObject -/

/-- A call that is not one of the built-ins (Ping, Introspect, GetManagedObjects), to any path
text `s`: it is answered UnknownObject exactly when `s` is not currently exported, and otherwise
reaches the object exported there most recently.  GetManagedObjects on a path that is not
exported is answered UnknownObject as well. -/
theorem unknown_object_iff_not_exported (h : List Op) (s : Str) :
    (handle (run h) s .ordinary = .unknownObject s ↔ exportedAfter h s = none) ∧
    (∀ o, exportedAfter h s = some o → handle (run h) s .ordinary = .dispatch o) ∧
    (handle (run h) s .getManagedObjects = .unknownObject s ↔ exportedAfter h s = none) := by
  rw [handle_ordinary, handle_managed, lookup_run]
  cases exportedAfter h s with
  | none => simp
  | some o => simp

/-! ### 4. signals -/

/-- After any history: an export sends exactly one message, InterfacesAdded naming the object's
path (header and first argument) and its interface names; an unexport of an exported path sends
exactly one message, InterfacesRemoved naming that path and the interface names of the object
that was visible there; an unexport of a path that is not exported raises KeyError, sends nothing
and leaves the table unchanged. -/
theorem export_signals (h : List Op) :
    (∀ o : Obj, (step (run h) (.export o)).sent = [.interfacesAdded o.path o.path (dictKeys o.ifaces) o.payload] ∧
        (step (run h) (.export o)).keyError = false) ∧
    (∀ s o, exportedAfter h s = some o →
        (step (run h) (.unexport s)).sent = [.interfacesRemoved s s o.ifaces] ∧
        (step (run h) (.unexport s)).keyError = false) ∧
    (∀ s, exportedAfter h s = none → step (run h) (.unexport s) = ⟨run h, [], true⟩) := by
  refine ⟨fun o => ⟨rfl, rfl⟩, fun s o ho => ?_, fun s ho => ?_⟩
  · have hp := (exportedAfter_some ho).2
    rw [← lookup_run] at ho
    simp [step, ho, hp]
  · rw [← lookup_run] at ho
    simp [step, ho]

/-! ### text and elements -/

/-- For valid object paths `s`, `t` (texts) with elements `p`, `q`: `t` is strictly below `s`
(element-wise proper prefix) iff `t` starts with (`"/"` if `s = "/"`, else `s ++ "/"`) and `t ≠ s`. -/
theorem strictlyBelow_iff_text (s t : Str) (p q : Path) (hs : parse s = some p) (ht : parse t = some q) :
    properPrefix p q = true ↔
      (startsWith t (if s = ['/'] then ['/'] else s ++ ['/']) = true ∧ t ≠ s) := by
  obtain ⟨hp, rfl⟩ := render_parse s p hs
  obtain ⟨hq, rfl⟩ := render_parse t q ht
  exact strictlyBelow_text p q hp hq

/-- Text and element list determine each other on valid paths. -/
theorem parse_render_inverse :
    (∀ p, ValidPath p → parse (render p) = some p) ∧ (∀ s p, parse s = some p → ValidPath p ∧ render p = s) :=
  ⟨parse_render, render_parse⟩

/-! ### witnesses: the code before the repairs violates the property -/

private def oRoot : Obj := { path := ['/'], ifaces := [], payload := 1 }
private def oAB : Obj := { path := ['/', 'a', '/', 'b'], ifaces := [], payload := 1 }
private def oABC : Obj := { path := ['/', 'a', '/', 'b', 'c'], ifaces := [], payload := 2 }

/-- F23: with `/` exported, the unrepaired loop lists a child named "" for `/`; the spec has none. -/
theorem orig_introspect_root_lists_empty_child :
    introspectChildrenOrig (render []) (run [.export oRoot]) = [[]] ∧
    children [] (exportedPaths [.export oRoot]) = [] ∧
    introspectChildren (render []) (run [.export oRoot]) = [] := by decide

/-- F24: with `/a/b` and `/a/bc` exported, the unrepaired selection reports `/a/bc` beneath `/a/b`. -/
theorem orig_managed_reports_prefix_sibling :
    managedOrig oAB.path (run [.export oAB, .export oABC]) = [(oABC.path, [], 2)] ∧
    below [['a'], ['b']] (exportedPaths [.export oAB, .export oABC]) = [] ∧
    managed oAB.path (run [.export oAB, .export oABC]) = [] := by decide

/-! ### the hypotheses are satisfiable by non-trivial instances -/

private def hist : List Op :=
  [.export oRoot, .export oAB, .export oABC, .unexport ['/', 'z'], .export { oAB with payload := 7 },
   .unexport oABC.path]

example : WfHistory hist := by
  intro o ho
  simp only [hist, List.mem_cons, Op.export.injEq, List.not_mem_nil, or_false, reduceCtorEq, false_or] at ho
  rcases ho with rfl | rfl | rfl | rfl <;> decide

example : ValidPath [['a'], ['b']] ∧ exportedAfter hist (render [['a'], ['b']]) = some { oAB with payload := 7 } := by
  decide

example : children [] (exportedPaths hist) = [['a']] ∧ below [] (exportedPaths hist) = [[['a'], ['b']]] := by
  decide

end Txdbus.C16

#print axioms Txdbus.C16.exports_eq_spec
#print axioms Txdbus.C16.children_eq_spec
#print axioms Txdbus.C16.children_nil_iff
#print axioms Txdbus.C16.introspect_fails_iff_nothing_there
#print axioms Txdbus.C16.interface_names_complete
#print axioms Txdbus.C16.managed_eq_spec
#print axioms Txdbus.C16.unknown_object_iff_not_exported
#print axioms Txdbus.C16.export_signals
#print axioms Txdbus.C16.strictlyBelow_iff_text
#print axioms Txdbus.C16.parse_render_inverse
#print axioms Txdbus.C16.orig_introspect_root_lists_empty_child
#print axioms Txdbus.C16.orig_managed_reports_prefix_sibling
