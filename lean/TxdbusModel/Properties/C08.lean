/-! Property theorems for C08 (stub: none yet). -/
