/-
C08 - Each remote call completes exactly once, with the reply that belongs to it.

Property theorems about the code model `Txdbus.Calls` (lean/TxdbusModel/Client/Calls.lean,
mirror of callRemote / callRemoteMessage / _onMethodTimeout / methodReturnReceived /
errorReceived / _cbCvtReply / connectionLost in txdbus/client.py) against the specification
`Txdbus.Calls.Spec` (lean/TxdbusModel/Client/CallsSpec.lean, written from the property text).

Every theorem quantifies over ALL operation sequences `ops` (any number of calls, replies, error
replies, expiries, duplicates, unsolicited replies, losses, in any order) started on a ready
connection, under the one hypothesis of the property: the calls awaiting a reply carry pairwise
distinct serials (`DistinctSerials`), which `serials_distinct` proves for the process-wide
counter.  `asStr` (Python's `isinstance(v, str)`) and the value type are arbitrary.
-/
import TxdbusModel.Proofs.Client.CallsTrace
import TxdbusModel.Proofs.Client.CallsCvt
import TxdbusModel.Proofs.Client.CallsFirst
import TxdbusModel.Proofs.Client.CallsReentrant
import TxdbusModel.Proofs.Client.CallsCaller

namespace Txdbus.C08

open Txdbus.Calls Txdbus.Calls.Spec
open Txdbus.Gen

variable {V R : Type}

/-- The final state of a ready connection after `ops`. -/
abbrev final (asStr : V → Option (List Char)) (ops : List (Op V R)) : St V R :=
  run asStr (St.init V R true) ops

/-! ## 0. Refinement: the model delivers to every call exactly what the specification says -/

/-- For every `callRemote` in the sequence, the complete history of firings of the Deferred it
returned is the one the property prescribes: nothing while no event concerns the call, then the
delivery of the FIRST event that does (matching return, matching error, own expiry, loss), and
nothing ever after; `None` at once for `expectReply=False`; the failure at once when the message
could not be built. -/
theorem refinement (asStr : V → Option (List Char)) (ops : List (Op V R)) (hd : DistinctSerials ops)
    (i : Nat) (hc : ∃ op, ops[i]? = some op ∧ isCall op = true) :
    firingsOf (callId ops i) (final asStr ops).log = expectedFirings asStr ops i := by
  obtain ⟨op, hi, hcall⟩ := hc
  cases op with
  | call σ er tmo rs =>
    cases er with
    | true =>
      simp only [expectedFirings, hi]
      exact (trace_call_open asStr hd hi).1
    | false =>
      simp only [expectedFirings, hi]
      exact (trace_call_immediate asStr hd hi (.callback none) rs
        (fun s => by simp [Txdbus.Calls.step, callOp])).1
  | callBad rs =>
    simp only [expectedFirings, hi]
    exact (trace_call_immediate asStr hd hi .constructFailed rs
      (fun s => by simp [Txdbus.Calls.step, callBadOp])).1
  | ret _ _ => cases hcall
  | err _ _ _ => cases hcall
  | expire _ => cases hcall
  | lost _ => cases hcall

/-! ## 1. exactly_once -/

/-- In every reachable state, every Deferred handed out so far is either still in the table and has
not fired, or is in neither the table nor the timer list and has fired exactly once. -/
theorem exactly_once (asStr : V → Option (List Char)) (ops : List (Op V R)) (hd : DistinctSerials ops) :
    ∀ k < (final asStr ops).nextId,
      ((∃ e ∈ (final asStr ops).pending, e.2.did = k) ∧ firingsOf k (final asStr ops).log = []) ∨
      ((∀ e ∈ (final asStr ops).pending, e.2.did ≠ k) ∧ (∀ x ∈ (final asStr ops).timers, x.1 ≠ k) ∧
        (firingsOf k (final asStr ops).log).length = 1) := by
  intro k hk
  have hI : Inv (final asStr ops) := inv_reachable asStr hd true
  have ho := once_run asStr ops (Inv.init true) rfl (freshRun_init hd true) (once_init true) k hk
  by_cases hp : ∃ e ∈ (final asStr ops).pending, e.2.did = k
  · obtain ⟨e, he, hek⟩ := hp
    exact Or.inl ⟨⟨e, he, hek⟩, firingsOf_eq_nil (fun x hx => by rw [← hek]; exact hI.unfired e he x hx)⟩
  · have hp' : ∀ e ∈ (final asStr ops).pending, e.2.did ≠ k := fun e he hek => hp ⟨e, he, hek⟩
    refine Or.inr ⟨hp', ?_, ?_⟩
    · intro x hx hxk
      exact hp' _ (hI.timer_pending x hx) hxk
    · rcases ho with h | h
      · exact absurd h hp
      · exact h

/-- No reachable state holds a double completion: no Deferred, handed out or not, has two firings. -/
theorem no_double_completion (asStr : V → Option (List Char)) (ops : List (Op V R))
    (hd : DistinctSerials ops) (k : Nat) : (firingsOf k (final asStr ops).log).length ≤ 1 := by
  by_cases hk : k < (final asStr ops).nextId
  · rcases exactly_once asStr ops hd k hk with ⟨_, h⟩ | ⟨_, _, h⟩
    · rw [h]; exact Nat.zero_le _
    · omega
  · have hI : Inv (final asStr ops) := inv_reachable asStr hd true
    rw [firingsOf_eq_nil (fun x hx => by have := hI.log_lt x hx; omega)]
    exact Nat.zero_le _

/-! ## 2. attribution -/

/-- Whatever was delivered to a call awaiting a reply came from an event addressed to THAT call, later
in the sequence: a value only from a method return whose reply serial is the call's serial, a
RemoteError only from an error reply with the call's serial (with that reply's name, and the message and
values the specification derives from its arguments), TimeOut only from the call's own deadline, a loss
reason only from a connection loss. -/
theorem attribution (asStr : V → Option (List Char)) (ops : List (Op V R)) (hd : DistinctSerials ops)
    {i σ : Nat} {tmo : Option Nat} {rs : RetSig} (hi : ops[i]? = some (.call σ true tmo rs))
    (f : Firing V R) (hf : f ∈ firingsOf (callId ops i) (final asStr ops).log) :
    ∃ j, i < j ∧
      ((∃ msg, ops[j]? = some (.ret σ msg) ∧ f = .callback (some msg)) ∨
       (∃ name body, ops[j]? = some (.err σ name body) ∧
          f = .remoteError name (errorFields asStr body).1 (errorFields asStr body).2) ∨
       (ops[j]? = some (.expire (callId ops i)) ∧ truthyTimeout tmo = true ∧
          f = .timeOut localText) ∨
       (∃ r, ops[j]? = some (.lost r) ∧ f = .lost r)) := by
  rw [(trace_call_open asStr hd hi).1] at hf
  have hfc : firstCompletion asStr σ (callId ops i) (truthyTimeout tmo) (ops.drop (i + 1)) = some f := by
    cases h : firstCompletion asStr σ (callId ops i) (truthyTimeout tmo) (ops.drop (i + 1)) with
    | none => rw [h] at hf; simp at hf
    | some g => rw [h] at hf; simp at hf; rw [hf]
  obtain ⟨j, op, hget, hcomp, _⟩ := firstCompletion_some asStr σ _ _ _ hfc
  rw [List.getElem?_drop] at hget
  refine ⟨i + 1 + j, by omega, ?_⟩
  cases op with
  | call _ _ _ _ => simp [completes] at hcomp
  | callBad _ => simp [completes] at hcomp
  | ret rsn msg =>
    simp only [completes] at hcomp
    split at hcomp
    · next h => subst h; exact Or.inl ⟨msg, hget, by simpa using hcomp.symm⟩
    · cases hcomp
  | err rsn name body =>
    simp only [completes] at hcomp
    split at hcomp
    · next h => subst h; exact Or.inr (Or.inl ⟨name, body, hget, by simpa using hcomp.symm⟩)
    · cases hcomp
  | expire t =>
    simp only [completes] at hcomp
    split at hcomp
    · next h =>
      obtain ⟨h1, h2⟩ := h
      subst h2
      exact Or.inr (Or.inr (Or.inl ⟨hget, h1, by simpa using hcomp.symm⟩))
    · cases hcomp
  | lost r =>
    simp only [completes] at hcomp
    exact Or.inr (Or.inr (Or.inr ⟨r, hget, by simpa using hcomp.symm⟩))

/-- A reply (return or error) whose reply serial is not in the table - unsolicited, a duplicate of an
answered call, a reply to an expired call or to a call that expects none - changes nothing at all, in any
state. -/
theorem unsolicited_completes_nothing (asStr : V → Option (List Char)) (s : St V R) (rsn : Nat)
    (h : ∀ e ∈ s.pending, e.1 ≠ rsn) (msg : Reply V) (name : List Char) (body : Option (List V)) :
    step asStr s (.ret rsn msg) = s ∧ step asStr s (.err rsn name body) = s := by
  have hg := dGet_none_iff.mpr h
  simp [Txdbus.Calls.step, retOp, errOp, hg]

/-! ## 3. first_wins -/

/-- If the event at position `j` concerns the call issued at position `i` and no event strictly between
them does, the call's Deferred has fired exactly once, with the delivery of event `j` - whatever comes
later (other replies with the same serial, the deadline, a loss). -/
theorem first_wins (asStr : V → Option (List Char)) (ops : List (Op V R)) (hd : DistinctSerials ops)
    {i σ : Nat} {tmo : Option Nat} {rs : RetSig} (hi : ops[i]? = some (.call σ true tmo rs))
    {j : Nat} (hij : i < j) {opj : Op V R} (hj : ops[j]? = some opj) {f : Firing V R}
    (hcomp : completes asStr σ (callId ops i) (truthyTimeout tmo) opj = some f)
    (hfirst : ∀ (j' : Nat) (op' : Op V R), i < j' → j' < j → ops[j']? = some op' →
      completes asStr σ (callId ops i) (truthyTimeout tmo) op' = none) :
    firingsOf (callId ops i) (final asStr ops).log = [f] := by
  rw [(trace_call_open asStr hd hi).1]
  have : firstCompletion asStr σ (callId ops i) (truthyTimeout tmo) (ops.drop (i + 1)) = some f := by
    refine firstCompletion_of_first asStr σ _ _ _ (j - (i + 1)) opj ?_ hcomp ?_
    · rw [List.getElem?_drop]
      have : i + 1 + (j - (i + 1)) = j := by omega
      rw [this]; exact hj
    · intro j' op' hlt hget
      rw [List.getElem?_drop] at hget
      exact hfirst (i + 1 + j') op' (by omega) (by omega) hget
  rw [this]; rfl

/-- While no event concerns the call it has not fired and is still in the table (with its timer, if any). -/
theorem pending_until_completed (asStr : V → Option (List Char)) (ops : List (Op V R))
    (hd : DistinctSerials ops) {i σ : Nat} {tmo : Option Nat} {rs : RetSig}
    (hi : ops[i]? = some (.call σ true tmo rs))
    (hnone : ∀ op ∈ ops.drop (i + 1), completes asStr σ (callId ops i) (truthyTimeout tmo) op = none) :
    firingsOf (callId ops i) (final asStr ops).log = [] ∧
      (σ, (⟨callId ops i, if truthyTimeout tmo then some (callId ops i) else none⟩ : Pending))
        ∈ (final asStr ops).pending := by
  have hfc := (firstCompletion_none asStr σ (callId ops i) (truthyTimeout tmo) _).mpr hnone
  obtain ⟨h1, h2, _⟩ := trace_call_open asStr hd hi
  exact ⟨by rw [h1, hfc]; rfl, h2 hfc⟩

/-! ## 4. no_residue -/

/-- After a call has completed, nothing of it remains: no table entry under its serial or for its
Deferred, no timer for it; its deadline can no longer fire (the reactor has nothing to run) and a further
reply with its serial changes nothing. -/
theorem no_residue (asStr : V → Option (List Char)) (ops : List (Op V R)) (hd : DistinctSerials ops)
    {i σ : Nat} {tmo : Option Nat} {rs : RetSig} (hi : ops[i]? = some (.call σ true tmo rs))
    (hfired : firingsOf (callId ops i) (final asStr ops).log ≠ []) :
    (∀ e ∈ (final asStr ops).pending, e.1 ≠ σ ∧ e.2.did ≠ callId ops i) ∧
    (∀ x ∈ (final asStr ops).timers, x.1 ≠ callId ops i ∧ x.2 ≠ σ) ∧
    step asStr (final asStr ops) (.expire (callId ops i)) = final asStr ops ∧
    (∀ msg, step asStr (final asStr ops) (.ret σ msg) = final asStr ops) ∧
    (∀ name body, step asStr (final asStr ops) (.err σ name body) = final asStr ops) := by
  obtain ⟨h1, _, h3⟩ := trace_call_open asStr hd hi
  have hne : firstCompletion asStr σ (callId ops i) (truthyTimeout tmo) (ops.drop (i + 1)) ≠ none := by
    intro h
    rw [h1, h] at hfired
    exact hfired rfl
  obtain ⟨hcl, hkey⟩ := h3 hne
  have hI : Inv (final asStr ops) := inv_reachable asStr hd true
  have htim : ∀ x ∈ (final asStr ops).timers, x.1 ≠ callId ops i ∧ x.2 ≠ σ := by
    intro x hx
    have hp := hI.timer_pending x hx
    exact ⟨hcl.2 _ hp, hkey _ hp⟩
  refine ⟨fun e he => ⟨hkey e he, hcl.2 e he⟩, htim, ?_, ?_, ?_⟩
  · have : (final asStr ops).timers.find? (fun e => e.1 == callId ops i) = none := by
      rw [List.find?_eq_none]
      intro x hx
      simpa using (htim x hx).1
    simp [Txdbus.Calls.step, expireOp, this]
  · intro msg
    exact (unsolicited_completes_nothing asStr _ σ hkey msg [] none).1
  · intro name body
    exact (unsolicited_completes_nothing asStr _ σ hkey ⟨none, none⟩ name body).2

/-- After `connectionLost` the table and the timer list are empty. -/
theorem lost_leaves_nothing (asStr : V → Option (List Char)) (ops : List (Op V R)) (hd : DistinctSerials ops)
    (r : R) :
    (final asStr (ops ++ [.lost r])).pending = [] ∧ (final asStr (ops ++ [.lost r])).timers = [] := by
  have hI : Inv (final asStr ops) := inv_reachable asStr hd true
  have hr : (final asStr ops).ready = true := by simp only [final, run_ready]; rfl
  simp only [final, run_append]
  show (step asStr (final asStr ops) (.lost r)).pending = [] ∧ (step asStr (final asStr ops) (.lost r)).timers = []
  simp [Txdbus.Calls.step, lostOp_char hI hr]

/-- The code never raises (`KeyError` from `del`, `AlreadyCalled` from `cancel`) on any sequence. -/
theorem no_faults (asStr : V → Option (List Char)) (ops : List (Op V R)) (hd : DistinctSerials ops) :
    (final asStr ops).faults = [] :=
  (inv_reachable asStr hd true).faults

/-! ## 5. reply_convention -/

/-- The value handed to the caller for a method return as it comes off the wire: RemoteError when a
declared return signature differs from the reply's, otherwise `None` for no value, the value for one
non-struct value, the list of values in every other case.  (`expectReply=False`: `None`.) -/
theorem reply_convention (m : Reply V) (hw : WellFormed m) (rs : RetSig) :
    ((∃ d, declared rs = some d ∧ d ≠ sigOf m) → ∃ t, cvtReply (some m) rs = .remoteError t) ∧
    ((¬ ∃ d, declared rs = some d ∧ d ≠ sigOf m) →
      cvtReply (some m) rs = convention (sigOf m) (valuesOf m)) ∧
    cvtReply (none : Option (Reply V)) rs = .none := by
  have hiff := sigCheck_isSome_iff rs m.signature
  have hcv := cvtReply_wellFormed m hw rs
  refine ⟨?_, ?_, rfl⟩
  · intro hmis
    have := hiff.mpr hmis
    cases hs : sigCheck rs m.signature with
    | none => rw [hs] at this; cases this
    | some t => rw [hs] at hcv; exact ⟨t, hcv⟩
  · intro hok
    cases hs : sigCheck rs m.signature with
    | none => rw [hs] at hcv; exact hcv
    | some t => exact absurd (hiff.mp (by rw [hs]; rfl)) hok

/-- RemoteError from `_cbCvtReply` if AND ONLY IF a declared return signature differs. -/
theorem reply_convention_remote_error_iff (m : Reply V) (hw : WellFormed m) (rs : RetSig) :
    (∃ t, cvtReply (some m) rs = .remoteError t) ↔ ∃ d, declared rs = some d ∧ d ≠ sigOf m := by
  obtain ⟨h1, h2, _⟩ := reply_convention m hw rs
  constructor
  · intro ⟨t, ht⟩
    apply Classical.byContradiction
    intro hno
    rw [h2 hno] at ht
    unfold convention at ht
    split at ht
    · cases ht
    · split at ht <;> cases ht
    · cases ht
  · exact h1

/-- The RemoteError built by `errorReceived` has the message and values the specification derives from the
reply's arguments (first argument if it is a string, else empty; all arguments). -/
theorem remote_error_fields_spec (asStr : V → Option (List Char)) (body : Option (List V)) :
    remoteErrorFields asStr body = errorFields asStr body :=
  remoteErrorFields_eq_spec asStr body

/-! ## 6. The hypothesis: serials come from one strictly increasing counter -/

/-- Whatever else is constructed in the process in between, the calls of one connection get pairwise
distinct serials from `DBusMessage._nextSerial`. -/
theorem serials_distinct (evs : List (Ev V R)) (counter : Nat) : DistinctSerials (assign counter evs) :=
  assign_distinct evs counter

/-- Hence, for operation sequences whose serials come from the counter, the statements above hold with
no hypothesis left. -/
theorem counter_run_properties (asStr : V → Option (List Char)) (evs : List (Ev V R)) (counter : Nat) :
    (∀ i, (∃ op, (assign counter evs)[i]? = some op ∧ isCall op = true) →
      firingsOf (callId (assign counter evs) i) (final asStr (assign counter evs)).log
        = expectedFirings asStr (assign counter evs) i) ∧
    (∀ k, (firingsOf k (final asStr (assign counter evs)).log).length ≤ 1) ∧
    (final asStr (assign counter evs)).faults = [] :=
  ⟨fun i hc => refinement asStr _ (serials_distinct evs counter) i hc,
   fun k => no_double_completion asStr _ (serials_distinct evs counter) k,
   no_faults asStr _ (serials_distinct evs counter)⟩

/-! ## 7. What the CALLER receives: the raw firing composed with `_cbCvtReply` -/

/-- The Deferred returned by the `callRemote` at position `i` has THAT invocation's `returnSignature` bound
into its `_cbCvtReply` callback (not another call's, not looked up by serial). -/
theorem return_signature_binding (asStr : V → Option (List Char)) (ops : List (Op V R)) {i σ : Nat} {er : Bool}
    {tmo : Option Nat} {rs : RetSig} (hi : ops[i]? = some (.call σ er tmo rs)) :
    rsOf (final asStr ops) (callId ops i) = rs :=
  rsOf_call asStr ops hi rfl

/-- What the caller's callbacks of the `callRemote` at position `i` (declared `rs`) see, in order: the
specified firings, each passed through `_cbCvtReply` with `rs`. -/
theorem caller_outcome (asStr : V → Option (List Char)) (ops : List (Op V R)) (hd : DistinctSerials ops)
    {i σ : Nat} {er : Bool} {tmo : Option Nat} {rs : RetSig} (hi : ops[i]? = some (.call σ er tmo rs)) :
    (firingsOf (callId ops i) (final asStr ops).log).map (outcome (rsOf (final asStr ops) (callId ops i)))
      = (expectedFirings asStr ops i).map (outcome rs) := by
  rw [return_signature_binding asStr ops hi, refinement asStr ops hd i ⟨_, hi, rfl⟩]

/-- End to end for a return: if the first event concerning call `i` is a well-formed method return `m` with
the call's serial, the caller receives exactly one result: RemoteError when the signature declared in THAT
call differs from the reply's, otherwise the reply's values by the convention. -/
theorem caller_gets_convention (asStr : V → Option (List Char)) (ops : List (Op V R)) (hd : DistinctSerials ops)
    {i σ : Nat} {tmo : Option Nat} {rs : RetSig} (hi : ops[i]? = some (.call σ true tmo rs))
    {j : Nat} (hij : i < j) {m : Reply V} (hj : ops[j]? = some (.ret σ m)) (hw : WellFormed m)
    (hfirst : ∀ (j' : Nat) (op' : Op V R), i < j' → j' < j → ops[j']? = some op' →
      completes asStr σ (callId ops i) (truthyTimeout tmo) op' = none) :
    ((∃ d, declared rs = some d ∧ d ≠ sigOf m) →
      ∃ t, (firingsOf (callId ops i) (final asStr ops).log).map
        (outcome (rsOf (final asStr ops) (callId ops i))) = [.value (.remoteError t)]) ∧
    ((¬ ∃ d, declared rs = some d ∧ d ≠ sigOf m) →
      (firingsOf (callId ops i) (final asStr ops).log).map
        (outcome (rsOf (final asStr ops) (callId ops i))) = [.value (convention (sigOf m) (valuesOf m))]) := by
  have hfw := first_wins asStr ops hd hi hij hj (f := .callback (some m)) (by simp [completes]) hfirst
  rw [return_signature_binding asStr ops hi, hfw]
  obtain ⟨h1, h2, _⟩ := reply_convention m hw rs
  refine ⟨fun hm => ?_, fun hm => ?_⟩
  · obtain ⟨t, ht⟩ := h1 hm
    exact ⟨t, by simp [outcome, ht]⟩
  · simp [outcome, h2 hm]

/-! ## 8. Re-entrant callers: callbacks that issue new calls from inside the connection's functions -/

/-- The state of a ready connection after the re-entrant operations `ops`: operations; `onErr did calls` /
`onOk did calls` (the caller attaches to Deferred `did` an errback / a callback issuing `calls` when it runs -
inside `errorReceived`, `_onMethodTimeout`, `methodReturnReceived` or the loop of `connectionLost`);
`onDisconnect a` (`notifyOnDisconnect` of a callback that issues calls or raises - run by `connectionLost`
BEFORE it fails the pending calls). -/
abbrev finalR (asStr : V → Option (List Char)) (ops : List (OpR V R)) : StR V R :=
  runR asStr ⟨St.init V R true, [], []⟩ ops

/-- The sequential operation sequence the re-entrant run amounts to: every operation followed by the calls
its callbacks issued, as ordinary `call` operations; for `connectionLost` the disconnect callbacks' calls
BEFORE the `lost` (they are failed by it), the errbacks' retries AFTER it. -/
abbrev flatOps (asStr : V → Option (List Char)) (ops : List (OpR V R)) : List (Op V R) :=
  flat asStr ⟨St.init V R true, [], []⟩ ops

/-- Re-entrancy adds nothing - provided no disconnect callback lets an exception out of `connectionLost`
(`NoRaise`: the source guards each callback, or none raises): the state reached is exactly the state reached
by the flattened sequence, so every theorem above speaks about it; the calls issued by callbacks are calls like
any other. -/
theorem reentrant_reduces (asStr : V → Option (List Char)) (ops : List (OpR V R)) (hn : NoRaise ops)
    (hd : DistinctSerials (flatOps asStr ops)) :
    (finalR asStr ops).base = final asStr (flatOps asStr ops) :=
  runR_base asStr ops ⟨St.init V R true, [], []⟩ (Inv.init true) (Or.inr (by simp)) hn (freshRun_init hd true)

/-- With re-entrant callbacks too: every Deferred handed out is in the table unfired or out of table and
timer list with exactly one firing; nothing raises. -/
theorem reentrant_exactly_once (asStr : V → Option (List Char)) (ops : List (OpR V R)) (hn : NoRaise ops)
    (hd : DistinctSerials (flatOps asStr ops)) :
    (∀ k < (finalR asStr ops).base.nextId,
      ((∃ e ∈ (finalR asStr ops).base.pending, e.2.did = k) ∧ firingsOf k (finalR asStr ops).base.log = []) ∨
      ((∀ e ∈ (finalR asStr ops).base.pending, e.2.did ≠ k) ∧ (∀ x ∈ (finalR asStr ops).base.timers, x.1 ≠ k) ∧
        (firingsOf k (finalR asStr ops).base.log).length = 1)) ∧
    (finalR asStr ops).base.faults = [] := by
  rw [reentrant_reduces asStr ops hn hd]
  exact ⟨exactly_once asStr _ hd, no_faults asStr _ hd⟩

/-- Where a retry lands (stated directly, for every reachable state and any errbacks): `connectionLost` fires
every call that was in the table with the loss reason, exactly once; every call an errback issued meanwhile is
registered under its serial with a new, unfired Deferred - issued after the table was swapped, it is not owed
the loss reason; nothing older stays in the table. -/
theorem retry_lands_after_loss (asStr : V → Option (List Char)) (ops : List (Op V R)) (hd : DistinctSerials ops)
    (rx : Reactions) (r : R) :
    (∀ e ∈ (final asStr ops).pending,
      firingsOf e.2.did (lostOpR rx (final asStr ops) r).log = [Firing.lost r]) ∧
    (∀ e ∈ (final asStr ops).pending, ∀ c ∈ reactionOf rx e.2.did false,
      ∃ e' ∈ (lostOpR rx (final asStr ops) r).pending, e'.1 = c.serial ∧ (final asStr ops).nextId ≤ e'.2.did ∧
        firingsOf e'.2.did (lostOpR rx (final asStr ops) r).log = []) ∧
    (∀ e' ∈ (lostOpR rx (final asStr ops) r).pending, (final asStr ops).nextId ≤ e'.2.did) :=
  retry_lands_after_loss_state rx (inv_reachable asStr hd true) (by simp only [run_ready]; rfl) r

/-- Calls issued by `notifyOnDisconnect` callbacks while `connectionLost` is running (for every reachable state, any
number of callbacks each issuing any calls with or without deadline, any errbacks that retry, provided no callback
lets an exception out of `connectionLost`): `connectionLost` amounts to "the callbacks' calls as ordinary calls, then
the loss"; the `j`-th call issued by the callbacks - the call at position `ops.length + j` of that sequence - has
fired exactly once, with the loss reason, when `connectionLost` returns, and neither a table entry nor a timer of
its Deferred is left (what IS left belongs to the errbacks' retries: `retry_lands_after_loss`). -/
theorem disconnect_callback_calls_get_loss_reason (asStr : V → Option (List Char)) (ops : List (Op V R))
    (dcs : List DcAction) (hq : QuietDcs dcs) (rx : Reactions) (r : R)
    (hd : DistinctSerials (ops ++ (dcCalls dcs).map NewCall.toOp))
    {j : Nat} {c : NewCall} (hj : (dcCalls dcs)[j]? = some c) :
    lostOpD rx dcs (final asStr ops) r
      = lostOpR rx (final asStr (ops ++ (dcCalls dcs).map NewCall.toOp)) r ∧
    firingsOf (callId (ops ++ (dcCalls dcs).map NewCall.toOp) (ops.length + j))
      (lostOpD rx dcs (final asStr ops) r).log = [Firing.lost r] ∧
    (∀ e ∈ (lostOpD rx dcs (final asStr ops) r).pending,
      e.2.did ≠ callId (ops ++ (dcCalls dcs).map NewCall.toOp) (ops.length + j)) ∧
    (∀ x ∈ (lostOpD rx dcs (final asStr ops) r).timers,
      x.1 ≠ callId (ops ++ (dcCalls dcs).map NewCall.toOp) (ops.length + j)) := by
  have hr0 : (final asStr ops).ready = true := by simp only [final, run_ready]; rfl
  have heq : lostOpD rx dcs (final asStr ops) r
      = lostOpR rx (final asStr (ops ++ (dcCalls dcs).map NewCall.toOp)) r := by
    rw [lostOpD_eq asStr rx dcs hq _ hr0 r]
    simp only [final, run_append]
  have hI1 : Inv (final asStr (ops ++ (dcCalls dcs).map NewCall.toOp)) := inv_reachable asStr hd true
  have hr1 : (final asStr (ops ++ (dcCalls dcs).map NewCall.toOp)).ready = true := by
    simp only [final, run_ready]; rfl
  -- the call is in the sequence, and nothing after it concerns it: only further calls follow
  have hi : (ops ++ (dcCalls dcs).map NewCall.toOp)[ops.length + j]?
      = some (.call c.serial true c.timeout c.rs) := by
    rw [List.getElem?_append_right (Nat.le_add_right _ _), Nat.add_sub_cancel_left, List.getElem?_map, hj]
    rfl
  have hnone : ∀ op ∈ (ops ++ (dcCalls dcs).map NewCall.toOp).drop (ops.length + j + 1),
      completes asStr c.serial (callId (ops ++ (dcCalls dcs).map NewCall.toOp) (ops.length + j))
        (truthyTimeout c.timeout) op = none := by
    intro op hop
    obtain ⟨m, hm⟩ := List.mem_iff_getElem?.mp hop
    rw [List.getElem?_drop, List.getElem?_append_right (by omega), List.getElem?_map] at hm
    cases hg : (dcCalls dcs)[ops.length + j + 1 + m - ops.length]? with
    | none => rw [hg] at hm; cases hm
    | some c' =>
      rw [hg] at hm
      simp only [Option.map_some, Option.some.injEq] at hm
      rw [← hm]
      rfl
  obtain ⟨_, hmem⟩ := pending_until_completed asStr _ hd hi hnone
  obtain ⟨h1, _, h3⟩ := retry_lands_after_loss_state rx hI1 hr1 r
  have hlt := hI1.did_lt _ hmem
  refine ⟨heq, ?_, ?_, ?_⟩
  · rw [heq]; exact h1 _ hmem
  · rw [heq]
    intro e he hk
    have := h3 e he
    simp only at hlt
    omega
  · rw [heq]
    intro x hx hk
    have := lostOpR_timers_ge rx hI1 hr1 r x hx
    simp only at hlt
    omega

/-! ## Examples: the hypotheses are satisfiable, and the hypothesis is needed -/

section Examples

def exAsStr : Nat → Option (List Char) := fun n => if n = 7 then some ['m'] else none

/-- Two concurrent calls (serials 3 and 4, the first with a deadline), replies in the other order, a
duplicate, an unsolicited error, the deadline passing after the reply, then a loss. -/
def exOps : List (Op Nat Nat) :=
  [ .call 3 true (some 5) .noCheck,
    .call 4 true none (.str ['s']),
    .err 9 ['e'] none,
    .ret 4 ⟨some ['s'], some [7]⟩,
    .ret 3 ⟨none, none⟩,
    .ret 4 ⟨some ['i'], some [1]⟩,
    .expire 0,
    .call 5 true (some 2) .noCheck,
    .lost 1 ]

example : DistinctSerials exOps := by decide
example : ∃ op, exOps[1]? = some op ∧ isCall op = true := ⟨_, rfl, rfl⟩
example : expectedFirings exAsStr exOps 0 = [.callback (some ⟨none, none⟩)] := by decide
example : expectedFirings exAsStr exOps 1 = [.callback (some ⟨some ['s'], some [7]⟩)] := by decide
example : expectedFirings exAsStr exOps 7 = [.lost 1] := by decide
example : firingsOf 1 (final exAsStr exOps).log = [.callback (some ⟨some ['s'], some [7]⟩)] := by decide
example : WellFormed (⟨some ['s'], some [7]⟩ : Reply Nat) := ⟨by simp, 's', [], rfl⟩
example : cvtReply (some (⟨some ['s'], some [7]⟩ : Reply Nat)) (.str ['s']) = .one 7 := by decide
example : (assign 1 ([.call true none .noCheck, .otherMessage, .call true none .noCheck] : List (Ev Nat Nat)))
    = [.call 1 true none .noCheck, .call 3 true none .noCheck] := by decide

/-- A retry issued from the errback of a call failed by the loss of the connection, with a deadline: it is
registered in the NEW table while `connectionLost` is still walking the old one, survives the walk with its
timer, and its deadline completes it with TimeOut, exactly once, nothing raised. -/
def retryOps : List (OpR Nat Nat) :=
  [ .op (.call 3 true (some 5) .noCheck), .onErr 0 [⟨4, some 3, .noCheck⟩],
    .op (.call 5 true none .noCheck), .op (.lost 1), .op (.expire 2), .op (.expire 2) ]

example : NoRaise retryOps := Or.inr (by intro o ho a h; subst h; simp [retryOps] at ho)

theorem retry_during_loss_times_out :
    flatOps exAsStr retryOps =
      [.call 3 true (some 5) .noCheck, .call 5 true none .noCheck, .lost 1, .call 4 true (some 3) .noCheck,
       .expire 2, .expire 2] ∧
    DistinctSerials (flatOps exAsStr retryOps) ∧
    firingsOf 2 (finalR exAsStr retryOps).base.log = [.timeOut localText] ∧
    (finalR exAsStr retryOps).base.pending = [] ∧ (finalR exAsStr retryOps).base.timers = [] ∧
    (finalR exAsStr retryOps).base.faults = [] := by decide

/-- A disconnect callback (`notifyOnDisconnect`) that issues a call: the call goes into the table that
`connectionLost` then fails - it gets the loss reason like the others. -/
def dcCallOps : List (OpR Nat Nat) :=
  [ .op (.call 3 true (some 5) .noCheck), .onDisconnect (.issues [⟨4, some 2, .noCheck⟩]), .op (.lost 1) ]

theorem disconnect_callback_call_is_failed :
    flatOps exAsStr dcCallOps = [.call 3 true (some 5) .noCheck, .call 4 true (some 2) .noCheck, .lost 1] ∧
    firingsOf 0 (finalR exAsStr dcCallOps).base.log = [.lost 1] ∧
    firingsOf 1 (finalR exAsStr dcCallOps).base.log = [.lost 1] ∧
    (finalR exAsStr dcCallOps).base.pending = [] ∧ (finalR exAsStr dcCallOps).base.timers = [] := by decide

/-- The hypotheses of `disconnect_callback_calls_get_loss_reason` are satisfiable: two callbacks, three calls (with a
deadline, without, timeout=0) on top of `exOps` without its loss. -/
def exDcs : List DcAction := [.issues [⟨14, some 2, .noCheck⟩, ⟨16, none, .noCheck⟩], .issues [⟨17, some 0, .str ['s']⟩]]

example : QuietDcs exDcs := Or.inr (by decide)
example : DistinctSerials (exOps.dropLast ++ (dcCalls exDcs).map NewCall.toOp) := by decide
example : (dcCalls exDcs)[2]? = some ⟨17, some 0, .str ['s']⟩ := rfl

/-- F-1: `connectionLost` calls the disconnect callbacks BEFORE it fails the pending calls.  As long as the
source does not guard them (`dcGuarded = false`), a callback that raises aborts `connectionLost`: the
outstanding calls never get the loss reason and table and timer stay - the model of the unrepaired code violates
"each outstanding call completes ... with the connection-loss reason".  (With the guard in the source the same
sequence fails both calls: second half.) -/
def dcRaiseOps : List (OpR Nat Nat) :=
  [ .op (.call 3 true (some 5) .noCheck), .op (.call 4 true none .noCheck), .onDisconnect .raises, .op (.lost 1) ]

theorem raising_disconnect_callback_aborts_loss :
    (C08Client.dcGuarded = false →
      firingsOf 0 (finalR exAsStr dcRaiseOps).base.log = [] ∧
      firingsOf 1 (finalR exAsStr dcRaiseOps).base.log = [] ∧
      (finalR exAsStr dcRaiseOps).base.pending.length = 2 ∧ (finalR exAsStr dcRaiseOps).base.timers.length = 1 ∧
      (finalR exAsStr dcRaiseOps).base.faults = [.callbackRaised]) ∧
    (C08Client.dcGuarded = true →
      firingsOf 0 (finalR exAsStr dcRaiseOps).base.log = [.lost 1] ∧
      firingsOf 1 (finalR exAsStr dcRaiseOps).base.log = [.lost 1] ∧
      (finalR exAsStr dcRaiseOps).base.pending = [] ∧ (finalR exAsStr dcRaiseOps).base.timers = []) := by decide

/-- Without distinct serials the property fails in the model (as in the code: the same
`MethodCallMessage` object sent twice through `callRemoteMessage`): the second registration overwrites
the first, whose deadline then removes the second call's entry - the second call never completes although
its return arrives, and the return raises nothing but completes nothing. -/
def reuseOps : List (Op Nat Nat) :=
  [ .call 5 true (some 1) .noCheck, .call 5 true none .noCheck, .expire 0, .ret 5 ⟨none, none⟩ ]

theorem serial_reuse_violates :
    ¬ DistinctSerials reuseOps ∧
    firingsOf 1 (final exAsStr reuseOps).log = [] ∧
    expectedFirings exAsStr reuseOps 1 = [.callback (some ⟨none, none⟩)] := by decide

end Examples

end Txdbus.C08

#print axioms Txdbus.C08.refinement
#print axioms Txdbus.C08.exactly_once
#print axioms Txdbus.C08.no_double_completion
#print axioms Txdbus.C08.attribution
#print axioms Txdbus.C08.unsolicited_completes_nothing
#print axioms Txdbus.C08.first_wins
#print axioms Txdbus.C08.pending_until_completed
#print axioms Txdbus.C08.no_residue
#print axioms Txdbus.C08.lost_leaves_nothing
#print axioms Txdbus.C08.no_faults
#print axioms Txdbus.C08.reply_convention
#print axioms Txdbus.C08.reply_convention_remote_error_iff
#print axioms Txdbus.C08.remote_error_fields_spec
#print axioms Txdbus.C08.serials_distinct
#print axioms Txdbus.C08.counter_run_properties
#print axioms Txdbus.C08.serial_reuse_violates
#print axioms Txdbus.C08.return_signature_binding
#print axioms Txdbus.C08.caller_outcome
#print axioms Txdbus.C08.caller_gets_convention
#print axioms Txdbus.C08.retry_lands_after_loss
#print axioms Txdbus.C08.disconnect_callback_call_is_failed
#print axioms Txdbus.C08.disconnect_callback_calls_get_loss_reason
#print axioms Txdbus.C08.raising_disconnect_callback_aborts_loss
#print axioms Txdbus.C08.reentrant_reduces
#print axioms Txdbus.C08.reentrant_exactly_once
#print axioms Txdbus.C08.retry_during_loss_times_out
