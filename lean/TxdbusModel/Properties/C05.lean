import TxdbusModel.Proofs.Wire.CostWork
import TxdbusModel.Proofs.Wire.CostVsCode
/-!
Property C05 - malformed or hostile message bytes are rejected in bounded time.

The theorems are about the cost model `Wire/Cost.lean` of `marshal.unmarshal` / the `unmarshal_*` functions /
`message.parseMessage` instantiated with the tables of the current source (`Gen/C05Wire.lean`: alignments, kind
and size of every `unmarshallers` entry, `_headerFormat`, `_mtype`, the header code of `signature`), for EVERY
signature string (balanced or not, known codes or not, any length), every data, offset and byte order.

`steps` counts the invocations of entries of `marshal.unmarshallers` (what the harness counts on the real code).
Fuel bounds the longest chain of nested / consecutive calls; `unmarshal_fuel_adequate` says the decoder terminates
(and how deep the chain can get), `unmarshal_steps_linear` that its work is at most
`|sig| + (max |sig| 255 + 2) * (bytes from off) + 1` invocations: linear in the data length, the factor being the
longest signature in play (the caller's, or a variant's: at most 255 by its one-byte length).
What the tables have to satisfy is `Tables.Good` (every fixed-size reader reads and reports at least one byte;
struct and dict entry are 8-aligned), re-proved by `decide` from the generated tables: `tables_good`.

Extension 2026-09-30 (composition with C01 / C02): `cost_agrees_with_code` - the cost model and the VALUE model
`Code.unmarshal` of `Wire/Code.lean` (the decoder of the C01 round trip and of C02), each on its own generated tables,
are the same decoder as far as the outcome goes; `code_fuel_adequate`, `code_fuel_monotone`, `code_fuel_independent`,
`code_result_bounded` carry the termination and size bounds over to the value model.
-/
open Txdbus Txdbus.Cost

namespace Txdbus.C05

/-- The tables extracted from the current source satisfy what the proofs need. -/
theorem tables_good : genTables.Good := genTables_good

/-- Termination, with an explicit bound: `2*|sig| + 2*|data| + 2` units of fuel (or more) are always enough. -/
theorem unmarshal_fuel_adequate (fds : Option (List Nat)) (sig : List Char) (data : List UInt8) (off : Nat) (le : Bool) (fuel : Nat)
    (hf : fuelFor sig data ≤ fuel) :
    (unmarshal genTables true fds fuel sig data off le).st ≠ .outOfFuel :=
  fuel_adequate_gen genTables genTables_good fds sig data off le fuel hf

/-- Work is linear in the data length: whatever the outcome (value or exception), the number of unmarshaller
invocations is at most `|sig| + (max |sig| 255 + 2) * (|data| - off) + 1`. -/
theorem unmarshal_steps_linear (fds : Option (List Nat)) (sig : List Char) (data : List UInt8) (off : Nat) (le : Bool) (fuel : Nat)
    (hne : (unmarshal genTables true fds fuel sig data off le).st ≠ .outOfFuel) :
    (unmarshal genTables true fds fuel sig data off le).steps ≤
      sig.length + (max sig.length 255 + 2) * (data.length - off) + 1 :=
  steps_linear_gen genTables genTables_good fds sig data off le fuel hne

/-- `parseMessage` of the repaired code (signature header field: a `str` of at most 255 characters) terminates
with `2*255 + 2*|data| + 2` units of fuel and performs at most `266 + 257 * |data| + 2` invocations
(header signature `yyyyuua(yv)`: 11 characters). -/
theorem parseMessage_total (fds : Option (List Nat)) (data : List UInt8) (fuel : Nat)
    (hf : parseFuel Gen.C05Wire.headerFormat data ≤ fuel) :
    (parseMessage genTables Gen.C05Wire.headerFormat Gen.C05Wire.mtypeKeys Gen.C05Wire.signatureCode true fds fuel data).st
        ≠ .outOfFuel ∧
    (parseMessage genTables Gen.C05Wire.headerFormat Gen.C05Wire.mtypeKeys Gen.C05Wire.signatureCode true fds fuel data).steps
        ≤ Gen.C05Wire.headerFormat.length + 255 + (max Gen.C05Wire.headerFormat.length 255 + 2) * data.length + 2 :=
  parseMessage_gen genTables genTables_good _ _ _ fds data fuel hf

/-- The decoded value never has more nodes than invocations were made. -/
theorem result_size_bounded (fds : Option (List Nat)) (sig : List Char) (data : List UInt8) (off : Nat) (le : Bool) (fuel : Nat) :
    (unmarshal genTables true fds fuel sig data off le).size ≤ (unmarshal genTables true fds fuel sig data off le).steps :=
  size_le_steps_gen genTables genTables_good fds sig data off le fuel

/-- Work INCLUDING what one invocation costs - the characters of `ct` it slices, the data bytes a string / signature
read slices, and the characters `genCompleteTypes` scans / slices / concatenates to produce each piece (quadratic in a
run of `a`): at most `workUnit L * stepBound + (|data| - off) + (L+1)^2` with `L = max |sig| 255`,
`workUnit L = (L+1)^2 + L + 1`.  Linear in the data length for a bounded signature length (cubic in that bound). -/
theorem unmarshal_work_linear (fds : Option (List Nat)) (sig : List Char) (data : List UInt8) (off : Nat) (le : Bool) (fuel : Nat)
    (hne : (unmarshal genTables true fds fuel sig data off le).st ≠ .outOfFuel) :
    (unmarshal genTables true fds fuel sig data off le).work ≤
      ((max sig.length 255 + 1) * (max sig.length 255 + 1) + max sig.length 255 + 1)
          * (sig.length + (max sig.length 255 + 2) * (data.length - off) + 1)
        + (data.length - off) + (max sig.length 255 + 1) * (max sig.length 255 + 1) :=
  work_linear_gen genTables genTables_good fds sig data off le fuel hne

/-- Recursion is bounded by the input: every nesting level of unmarshaller invocations costs a signature character
or a data byte (a variant pays its signature with the bytes that carry it).  For a signature without `v` the data
term is not needed by the argument, but through variants the depth does grow with the data (one level per 3 bytes);
on CPython that ends in `RecursionError`, an ordinary exception (see ASSUMPTIONS of the harness). -/
theorem unmarshal_depth_bounded (fds : Option (List Nat)) (sig : List Char) (data : List UInt8) (off : Nat) (le : Bool) (fuel : Nat)
    (hne : (unmarshal genTables true fds fuel sig data off le).st ≠ .outOfFuel) :
    (unmarshal genTables true fds fuel sig data off le).depth ≤ sig.length + (data.length - off) :=
  depth_bounded_gen genTables fds sig data off le fuel hne

/-- The decoded strings together are no longer than the data they were cut from. -/
theorem result_chars_bounded (fds : Option (List Nat)) (sig : List Char) (data : List UInt8) (off : Nat) (le : Bool) (fuel : Nat)
    (hok : (unmarshal genTables true fds fuel sig data off le).st = .ok) :
    (unmarshal genTables true fds fuel sig data off le).chars ≤ data.length - off :=
  chars_bounded_gen genTables fds sig data off le fuel hok

/-- The property in one statement, at the fuel the driver runs the model with: the decode ends (value or exception),
within `stepBound` invocations and `workBound` units of work, nesting at most `|sig| + bytes`, having built at most
`steps` nodes (and, when it returns, at most `bytes` characters of strings). -/
theorem unmarshal_bounded (fds : Option (List Nat)) (sig : List Char) (data : List UInt8) (off : Nat) (le : Bool) :
    let r := unmarshal genTables true fds (fuelFor sig data) sig data off le
    r.st ≠ .outOfFuel ∧ r.steps ≤ stepBound sig data off ∧ r.work ≤ workBound sig data off ∧
      r.depth ≤ sig.length + (data.length - off) ∧ r.size ≤ r.steps ∧ (r.st = .ok → r.chars ≤ data.length - off) := by
  have hne := fuel_adequate_gen genTables genTables_good fds sig data off le (fuelFor sig data) (Nat.le_refl _)
  exact ⟨hne, steps_linear_gen genTables genTables_good fds sig data off le _ hne,
    work_linear_gen genTables genTables_good fds sig data off le _ hne,
    depth_bounded_gen genTables fds sig data off le _ hne,
    size_le_steps_gen genTables genTables_good fds sig data off le _,
    chars_bounded_gen genTables fds sig data off le _⟩

/-- `parseMessage` (repaired code): work incl. the three slices of the message, nesting, characters of strings. -/
theorem parseMessage_work_linear (fds : Option (List Nat)) (data : List UInt8) (fuel : Nat)
    (hf : parseFuel Gen.C05Wire.headerFormat data ≤ fuel) :
    let r := parseMessage genTables Gen.C05Wire.headerFormat Gen.C05Wire.mtypeKeys Gen.C05Wire.signatureCode true fds fuel data
    r.work ≤ parseWorkBound Gen.C05Wire.headerFormat data ∧
    r.depth ≤ max Gen.C05Wire.headerFormat.length 255 + data.length ∧
    (r.st = .ok → r.chars ≤ data.length) :=
  parseMessage_work_gen genTables genTables_good _ _ _ fds data fuel hf

/-- Witness (F1, repaired by commit 635620f): with the array loop as it was - no zero-length-element check -
`unmarshal('a()', data)` runs out of EVERY fuel as soon as the array length word is not zero. -/
theorem prefix_array_loop_never_terminates (fds : Option (List Nat)) (data : List UInt8) (le : Bool) (h4 : 4 ≤ data.length)
    (hw : uval le (slice data 0 4) ≠ 0) (n : Nat) :
    (unmarshal genTables false fds n ['a', '(', ')'] data 0 le).st = .outOfFuel :=
  prefix_array_unit fds data le h4 hw n

/-! ### Composition with the value model of C01 / C02 (`Wire/Code.lean`) -/

open Txdbus.CostVsCode (FdsRel FdsPlain toPy RelL)

/-- **The cost model and the value model are the same decoder as far as the OUTCOME goes** (success / exception class,
consumed bytes, number and size of the values; what the values ARE is C01 / C02's business - `RelL` only relates two
levels of list / hashable tags).  For EVERY signature string `sig` (balanced or not,
known type codes or not, empty, any length - both models are defined on all of them; an unknown code is `KeyError` in
both, an unbalanced bracket `TypeError`, a trailing `a` `RuntimeError`), every `data`, `off`, byte order, and
descriptor lists related by `FdsRel` (both `None` or both lists; the value model's descriptors not containers:
`CostValue.isFdScalar`);
with fuel `≥ fuelFor sig data` for the cost model and `≥ codeFuel sig data off = |sig| + (|data| - off) + 1` for the value
model (the two fuels count different things: longest call chain / nesting depth):
* the cost model returns iff `Code.unmarshal` returns,
* with the same number of consumed bytes and the same number of top-level values (whose shapes are related by `RelL`);
  the decoded values contain at most `size` objects (`nodesList`, Wire/CostValue.lean), `size` being the cost model's count,
* the cost model raises exception class `e` iff `Code.unmarshal` raises the same class,
* and `Code.unmarshal` raises nothing else - in particular neither `RecursionError` (its out-of-fuel outcome) nor the
  `other` error that stands for tables it does not understand.
Signatures that come from the DATA (variants) are covered: the variant case of the simulation runs both models on the
signature both read from the same bytes.  The generated tables of the two properties (`Gen/C05Wire.lean`,
`Gen/Wire.lean`) are related by `decide`-checked, order-independent checks (`CostVsCode.alignOk`, `CostVsCode.kindOk`):
if the two translators ever read the source differently, this theorem stops checking. -/
theorem cost_agrees_with_code (fc : Option (List Nat)) (fv : Code.Fds) (hfds : FdsRel fc fv) (sig : List Char)
    (data : List UInt8) (off : Nat) (le : Bool) (fuelC fuelV : Nat)
    (hC : fuelFor sig data ≤ fuelC) (hV : codeFuel sig data off ≤ fuelV) :
    let r := unmarshal genTables true fc fuelC sig data off le
    let c := Code.unmarshal fuelV sig data off le fv
    (r.st = .ok ↔ ∃ n vs, c = .ok (n, vs)) ∧
    (∀ n vs, c = .ok (n, vs) → r.off = off + n ∧ vs.length = r.vals.length ∧ RelL vs r.vals ∧ nodesList vs ≤ r.size) ∧
    (∀ e, r.st = .err e ↔ c = .error (toPy e)) ∧
    (∀ e', c = .error e' → ∃ e, e' = toPy e) :=
  CostVsCode.agree_gen fc fv hfds sig data off le fuelC fuelV hC hV

/-- The same statement without a fuel bound on either side: ANY run of the cost model that did not run out of fuel,
against the value model with more fuel than the nesting depth that run reports. -/
theorem cost_simulates_code (fc : Option (List Nat)) (fv : Code.Fds) (hfds : FdsRel fc fv) (sig : List Char)
    (data : List UInt8) (off : Nat) (le : Bool) (fuelC fuelV : Nat)
    (hne : (unmarshal genTables true fc fuelC sig data off le).st ≠ .outOfFuel)
    (hd : (unmarshal genTables true fc fuelC sig data off le).depth < fuelV) :
    ((unmarshal genTables true fc fuelC sig data off le).st = .ok →
      ∃ vs, Code.unmarshal fuelV sig data off le fv =
          .ok ((unmarshal genTables true fc fuelC sig data off le).off - off, vs) ∧
        off ≤ (unmarshal genTables true fc fuelC sig data off le).off ∧
        RelL vs (unmarshal genTables true fc fuelC sig data off le).vals ∧
        nodesList vs ≤ (unmarshal genTables true fc fuelC sig data off le).size) ∧
    (∀ e, (unmarshal genTables true fc fuelC sig data off le).st = .err e →
      Code.unmarshal fuelV sig data off le fv = .error (toPy e)) :=
  CostVsCode.sim_unmarshal fc fv hfds sig data off le fuelC fuelV hne hd

/-- **C05's fuel bound is sufficient for the value model**: with `|sig| + (|data| - off) + 1` units of fuel (or more) -
a bound computable from the lengths of signature and data alone - `Code.unmarshal` never runs out of fuel
(`RecursionError`): for every signature, data, offset, byte order and EVERY descriptor argument `fv` (no hypothesis:
proved by a direct depth argument on `Wire/Code.lean`, `CostVsCode.one_norec`, not through the simulation).  If the
descriptors are not containers (`FdsPlain`) it does not answer `other` (a table the model does not understand) either.
So the decoder of C01 / C02 (`Code.unmarshal`) can be run at this fuel without a hypothesis on the nesting depth.
(C03's codec `wireCodec fuel` fixes ONE fuel before any data exists and shares it with `Code.marshal`; to use this
bound there the codec would have to decode with `Code.unmarshal (codeFuel sg raw 0) ..` - not done.) -/
theorem code_fuel_adequate (fv : Code.Fds) (sig : List Char) (data : List UInt8) (off : Nat)
    (le : Bool) (fuelV : Nat) (hV : codeFuel sig data off ≤ fuelV) :
    Code.unmarshal fuelV sig data off le fv ≠ .error .recursion ∧
    (FdsPlain fv → Code.unmarshal fuelV sig data off le fv ≠ .error .other) :=
  ⟨CostVsCode.code_norec_gen fv sig data off le fuelV hV,
   fun hfv => (CostVsCode.code_fuel_gen fv hfv sig data off le fuelV hV).2⟩

/-- **Fuel monotonicity of the value model** (a statement about `Wire/Code.lean` alone; no hypothesis on signature, data
or descriptors): an outcome that is not `RecursionError` does not change when more fuel is given. -/
theorem code_fuel_monotone (fv : Code.Fds) (sig : List Char) (data : List UInt8) (off : Nat) (le : Bool) (g k : Nat)
    (hg : Code.unmarshal g sig data off le fv ≠ .error .recursion) :
    Code.unmarshal (g + k) sig data off le fv = Code.unmarshal g sig data off le fv :=
  CostVsCode.unmarshal_mono_add sig data off le fv g k hg

/-- **The fuel hypothesis of the DECODE theorems of C01 / C02 can be discharged**: from `codeFuel sig data off` on the
outcome of `Code.unmarshal` (value included) does not depend on the fuel - it equals the outcome at ANY fuel `g` that did
not run out; for every descriptor argument.  So a theorem `depthAll vs ≤ g → Code.unmarshal g sig data off le fds =
.ok (n, values)` (`C02_decode`; the decode CONJUNCT of `C01_roundtrip` only - its `Code.marshal` conjunct uses the same
`fuel` and is not covered) yields the same equation at every fuel `≥ |sig| + (|data| - off) + 1`, a bound that mentions
only the input.  (`code_fuel_monotone` + `code_fuel_adequate`.)  The corollaries themselves live with C01 / C02
(`Proofs/Wire/FuelFree.lean`), not here: importing their proof closure into C05 is avoided. -/
theorem code_fuel_independent (fv : Code.Fds) (sig : List Char) (data : List UInt8) (off : Nat)
    (le : Bool) (g : Nat) (hg : Code.unmarshal g sig data off le fv ≠ .error .recursion)
    (fuel : Nat) (hV : codeFuel sig data off ≤ fuel) :
    Code.unmarshal fuel sig data off le fv = Code.unmarshal g sig data off le fv :=
  CostVsCode.code_fuel_indep_free fv sig data off le g hg fuel hV

/-- **`result_size_bounded` for the value model**: whatever `Code.unmarshal` returns at that fuel, the Python objects in
it (`nodesList`: every list, dict, key, value, scalar) number at most `stepBound sig data off =
|sig| + (max |sig| 255 + 2) * (|data| - off) + 1` - the decoded value is linear in the data length. -/
theorem code_result_bounded (fv : Code.Fds) (hfv : FdsPlain fv) (sig : List Char) (data : List UInt8) (off : Nat)
    (le : Bool) (fuelV : Nat) (hV : codeFuel sig data off ≤ fuelV) (n : Nat) (vs : List PyVal)
    (h : Code.unmarshal fuelV sig data off le fv = .ok (n, vs)) :
    nodesList vs ≤ stepBound sig data off :=
  CostVsCode.code_result_gen fv hfv sig data off le fuelV hV n vs h

/-! The hypotheses are satisfiable and the statements are about non-trivial runs. -/

/-- descriptor lists as txdbus passes them (ints) are related. -/
example : FdsRel (some [4, 5]) (some [.int .plain 4, .int .plain 5]) :=
  ⟨rfl, fun l h v hv => by cases h; simp at hv; rcases hv with rfl | rfl <;> rfl⟩
example : FdsPlain (some [.int .plain 4, .int .plain 5]) := CostVsCode.fdsPlain_ints [4, 5]
example : FdsRel none none := ⟨rfl, fun l h => by cases h⟩

/-- both models on `(ay)` / `02 00 00 00 07 09` at the fuels of the theorem: value, 6 bytes, one top-level value. -/
example : (unmarshal genTables true (some []) (fuelFor ['(', 'a', 'y', ')'] [2, 0, 0, 0, 7, 9]) ['(', 'a', 'y', ')']
      [2, 0, 0, 0, 7, 9] 0 true).st = .ok ∧
    (match Code.unmarshal (codeFuel ['(', 'a', 'y', ')'] [2, 0, 0, 0, 7, 9] 0) ['(', 'a', 'y', ')'] [2, 0, 0, 0, 7, 9] 0 true
        (some []) with
     | .ok (n, vs) => n == 6 && vs.length == 1 && nodesList vs == 4
     | .error _ => false) = true := by decide +kernel

/-- `cost_simulates_code` instantiated: cost fuel 7 is adequate for `(ay)` (far below `fuelFor = 22`), the run reports
depth 3, value-model fuel 4 = depth + 1: the value model returns, 6 bytes. -/
example : ∃ vs, Code.unmarshal 4 ['(', 'a', 'y', ')'] [2, 0, 0, 0, 7, 9] 0 true (some []) = .ok (6, vs) := by
  have h := (cost_simulates_code (some []) (some []) ⟨rfl, fun l h v hv => by cases h; simp at hv⟩
    ['(', 'a', 'y', ')'] [2, 0, 0, 0, 7, 9] 0 true 7 4 (by decide +kernel) (by decide +kernel)).1 (by decide +kernel)
  obtain ⟨vs, hc, _⟩ := h
  have ho : (unmarshal genTables true (some []) 7 ['(', 'a', 'y', ')'] [2, 0, 0, 0, 7, 9] 0 true).off = 6 := by
    decide +kernel
  rw [ho] at hc
  exact ⟨vs, hc⟩

/-- ... and cost fuel 6 is NOT adequate (the hypothesis `st ≠ outOfFuel` of `cost_simulates_code` is not vacuous). -/
example : (unmarshal genTables true (some []) 6 ['(', 'a', 'y', ')'] [2, 0, 0, 0, 7, 9] 0 true).st = .outOfFuel := by
  decide +kernel

/-- a container as descriptor: outside `FdsPlain`, and `code_fuel_adequate`'s first conjunct still applies. -/
example : ¬ FdsPlain (some [.list []]) := fun h => by
  have := h _ rfl (.list []) (by simp)
  simp [CostValue.isFdScalar] at this

/-- `code_fuel_independent` applies: fuel 3 is enough for `(ay)`, far below `codeFuel = 11`. -/
example : (match Code.unmarshal 3 ['(', 'a', 'y', ')'] [2, 0, 0, 0, 7, 9] 0 true (some []) with
     | .error e => e != .recursion
     | .ok _ => true) = true ∧
    (match Code.unmarshal 2 ['(', 'a', 'y', ')'] [2, 0, 0, 0, 7, 9] 0 true (some []) with
     | .error e => e == .recursion
     | .ok _ => false) = true := by decide +kernel

/-- ... and on a hostile input (variant carrying the unbalanced signature `(`): `TypeError` in both. -/
example : (unmarshal genTables true (some []) (fuelFor ['v'] [1, 40, 0, 0]) ['v'] [1, 40, 0, 0] 0 true).st = .err .type ∧
    (match Code.unmarshal (codeFuel ['v'] [1, 40, 0, 0] 0) ['v'] [1, 40, 0, 0] 0 true (some []) with
     | .error e => e == .type
     | .ok _ => false) = true := by decide +kernel


/-- `fuelFor` itself is an admissible fuel; the F1 exemplar is now rejected with an exception after 2 invocations. -/
example : (unmarshal genTables true (some []) (fuelFor ['a', '(', ')'] [8, 0, 0, 0, 0, 0, 0, 0, 0, 0, 0, 0])
    ['a', '(', ')'] [8, 0, 0, 0, 0, 0, 0, 0, 0, 0, 0, 0] 0 true).st = .err .marshalling := by decide +kernel

/-- ... while the loop before the repair, on the same input, runs out of fuel (instance of the witness). -/
example : (unmarshal genTables false (some []) 1000 ['a', '(', ')'] [8, 0, 0, 0, 0, 0, 0, 0, 0, 0, 0, 0] 0 true).st = .outOfFuel :=
  prefix_array_loop_never_terminates _ _ _ (by decide) (by decide) 1000

/-- a valid array of two bytes inside a struct: value, 4 invocations, 6 bytes consumed. -/
example : let r := unmarshal genTables true (some []) 100 ['(', 'a', 'y', ')'] [2, 0, 0, 0, 7, 9] 0 true
    r.st = .ok ∧ r.steps = 4 ∧ r.off = 6 ∧ r.size = 4 ∧ r.depth = 3 ∧ r.work = 24 := by decide +kernel

end Txdbus.C05

#print axioms Txdbus.C05.tables_good
#print axioms Txdbus.C05.unmarshal_fuel_adequate
#print axioms Txdbus.C05.unmarshal_steps_linear
#print axioms Txdbus.C05.parseMessage_total
#print axioms Txdbus.C05.result_size_bounded
#print axioms Txdbus.C05.unmarshal_work_linear
#print axioms Txdbus.C05.unmarshal_depth_bounded
#print axioms Txdbus.C05.result_chars_bounded
#print axioms Txdbus.C05.unmarshal_bounded
#print axioms Txdbus.C05.parseMessage_work_linear
#print axioms Txdbus.C05.prefix_array_loop_never_terminates
#print axioms Txdbus.C05.cost_agrees_with_code
#print axioms Txdbus.C05.cost_simulates_code
#print axioms Txdbus.C05.code_fuel_adequate
#print axioms Txdbus.C05.code_fuel_monotone
#print axioms Txdbus.C05.code_fuel_independent
#print axioms Txdbus.C05.code_result_bounded
