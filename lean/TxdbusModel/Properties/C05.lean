import TxdbusModel.Proofs.Wire.Cost
/-!
Property C05 - malformed or hostile message bytes are rejected in bounded time.

The theorems are about the cost model `Wire/Cost.lean` of `marshal.unmarshal` / the `unmarshal_*` functions /
`message.parseMessage` instantiated with the tables of the current source (`Gen/C05Wire.lean`: alignments, kind
and size of every `unmarshallers` entry, `_headerFormat`, `_mtype`, the header code of `signature`), for EVERY
signature string (balanced or not, known codes or not, any length), every data, offset and byte order.

`steps` counts the invocations of entries of `marshal.unmarshallers` (what the harness counts on the real code).
Fuel bounds the longest chain of nested / consecutive calls; `unmarshal_fuel_adequate` says the decoder terminates
(and how deep the chain can get), `unmarshal_steps_linear` that its work is at most
`|sig| + (max |sig| 255 + 2) * (bytes from off) + 1` invocations: linear in the data length, the factor being the
longest signature in play (the caller's, or a variant's: at most 255 by its one-byte length).
What the tables have to satisfy is `Tables.Good` (every fixed-size reader reads and reports at least one byte;
struct and dict entry are 8-aligned), re-proved by `decide` from the generated tables: `tables_good`.
-/
open Txdbus Txdbus.Cost

namespace Txdbus.C05

/-- The tables extracted from the current source satisfy what the proofs need. -/
theorem tables_good : genTables.Good := genTables_good

/-- Termination, with an explicit bound: `2*|sig| + 2*|data| + 2` units of fuel (or more) are always enough. -/
theorem unmarshal_fuel_adequate (sig : List Char) (data : List UInt8) (off : Nat) (le : Bool) (fuel : Nat)
    (hf : fuelFor sig data ≤ fuel) :
    (unmarshal genTables true fuel sig data off le).st ≠ .outOfFuel :=
  fuel_adequate_gen genTables genTables_good sig data off le fuel hf

/-- Work is linear in the data length: whatever the outcome (value or exception), the number of unmarshaller
invocations is at most `|sig| + (max |sig| 255 + 2) * (|data| - off) + 1`. -/
theorem unmarshal_steps_linear (sig : List Char) (data : List UInt8) (off : Nat) (le : Bool) (fuel : Nat)
    (hne : (unmarshal genTables true fuel sig data off le).st ≠ .outOfFuel) :
    (unmarshal genTables true fuel sig data off le).steps ≤
      sig.length + (max sig.length 255 + 2) * (data.length - off) + 1 :=
  steps_linear_gen genTables genTables_good sig data off le fuel hne

/-- `parseMessage` of the repaired code (signature header field: a `str` of at most 255 characters) terminates
with `2*255 + 2*|data| + 2` units of fuel and performs at most `266 + 257 * |data| + 2` invocations
(header signature `yyyyuua(yv)`: 11 characters). -/
theorem parseMessage_total (data : List UInt8) (fuel : Nat)
    (hf : parseFuel Gen.C05Wire.headerFormat data ≤ fuel) :
    (parseMessage genTables Gen.C05Wire.headerFormat Gen.C05Wire.mtypeKeys Gen.C05Wire.signatureCode true fuel data).st
        ≠ .outOfFuel ∧
    (parseMessage genTables Gen.C05Wire.headerFormat Gen.C05Wire.mtypeKeys Gen.C05Wire.signatureCode true fuel data).steps
        ≤ Gen.C05Wire.headerFormat.length + 255 + (max Gen.C05Wire.headerFormat.length 255 + 2) * data.length + 2 :=
  parseMessage_gen genTables genTables_good _ _ _ data fuel hf

/-- The decoded value never has more nodes than invocations were made. -/
theorem result_size_bounded (sig : List Char) (data : List UInt8) (off : Nat) (le : Bool) (fuel : Nat) :
    (unmarshal genTables true fuel sig data off le).size ≤ (unmarshal genTables true fuel sig data off le).steps :=
  size_le_steps_gen genTables genTables_good sig data off le fuel

/-- Witness (F1, repaired by commit 635620f): with the array loop as it was - no zero-length-element check -
`unmarshal('a()', data)` runs out of EVERY fuel as soon as the array length word is not zero. -/
theorem prefix_array_loop_never_terminates (data : List UInt8) (le : Bool) (h4 : 4 ≤ data.length)
    (hw : uval le (slice data 0 4) ≠ 0) (n : Nat) :
    (unmarshal genTables false n ['a', '(', ')'] data 0 le).st = .outOfFuel :=
  prefix_array_unit data le h4 hw n

/-! The hypotheses are satisfiable and the statements are about non-trivial runs. -/

/-- `fuelFor` itself is an admissible fuel; the F1 exemplar is now rejected with an exception after 2 invocations. -/
example : (unmarshal genTables true (fuelFor ['a', '(', ')'] [8, 0, 0, 0, 0, 0, 0, 0, 0, 0, 0, 0])
    ['a', '(', ')'] [8, 0, 0, 0, 0, 0, 0, 0, 0, 0, 0, 0] 0 true).st = .err .marshalling := by decide +kernel

/-- ... while the loop before the repair, on the same input, runs out of fuel (instance of the witness). -/
example : (unmarshal genTables false 1000 ['a', '(', ')'] [8, 0, 0, 0, 0, 0, 0, 0, 0, 0, 0, 0] 0 true).st = .outOfFuel :=
  prefix_array_loop_never_terminates _ _ (by decide) (by decide) 1000

/-- a valid array of two bytes inside a struct: value, 4 invocations, 6 bytes consumed. -/
example : let r := unmarshal genTables true 100 ['(', 'a', 'y', ')'] [2, 0, 0, 0, 7, 9] 0 true
    r.st = .ok ∧ r.steps = 4 ∧ r.off = 6 ∧ r.size = 4 := by decide +kernel

end Txdbus.C05

#print axioms Txdbus.C05.tables_good
#print axioms Txdbus.C05.unmarshal_fuel_adequate
#print axioms Txdbus.C05.unmarshal_steps_linear
#print axioms Txdbus.C05.parseMessage_total
#print axioms Txdbus.C05.result_size_bounded
#print axioms Txdbus.C05.prefix_array_loop_never_terminates
