/-! Property theorems for C05 (stub: none yet). -/
