/-
Property C18 - "Name and path validators accept exactly the DBus grammar."

  The validators for object paths, interface names, error names, bus names and member names
  accept exactly the strings the DBus specification's grammar allows [...] and reject every
  other string with a marshalling error.  No message can be constructed carrying a path,
  interface, member, destination or error name that its validator rejects.

Code model  : Valid/Names.lean (the five validators, as written, after repairs C18-01/C18-02),
              Valid/MsgNames.lean (which validators the message constructors run),
              Valid/NamesPre.lean (the validators before the repairs, for the witnesses).
Spec        : Valid/Grammar.lean (the grammar, by splitting into elements; bytes, not characters).
Tables      : Gen/Validators.lean (character classes translated from the compiled regexes).

Every theorem quantifies over ALL strings (`List Char`, no bound on the length) and over every
behaviour `na` of Python's `str.isdigit` on non-ASCII characters (it is never relied upon).
-/
import TxdbusModel.Proofs.Valid.Validators
import TxdbusModel.Proofs.Valid.Msg
import TxdbusModel.Valid.NamesPre

namespace Txdbus.Valid

/-! ## The validators accept exactly the grammar -/

/-- `validateObjectPath` returns iff the string is an object path of the DBus grammar. -/
theorem validateObjectPath_iff_grammar (s : Str) :
    validateObjectPath s = .accept ↔ GrammarObjectPath s :=
  validateObjectPath_accept_iff s

/-- `validateInterfaceName` returns iff the string is an interface name of the DBus grammar. -/
theorem validateInterfaceName_iff_grammar (na : Char → Bool) (s : Str) :
    validateInterfaceName na s = .accept ↔ GrammarInterfaceName s :=
  validateInterfaceName_accept_iff na s

/-- `validateErrorName` returns iff the string is an error name of the DBus grammar. -/
theorem validateErrorName_iff_grammar (na : Char → Bool) (s : Str) :
    validateErrorName na s = .accept ↔ GrammarErrorName s := by
  rw [validateErrorName_eq]
  exact validateInterfaceName_accept_iff na s

/-- `validateBusName` returns iff the string is a bus name (unique or well-known) of the DBus grammar. -/
theorem validateBusName_iff_grammar (na : Char → Bool) (s : Str) :
    validateBusName na s = .accept ↔ GrammarBusName s :=
  validateBusName_accept_iff na s

/-- `validateMemberName` returns iff the string is a member name of the DBus grammar. -/
theorem validateMemberName_iff_grammar (na : Char → Bool) (s : Str) :
    validateMemberName na s = .accept ↔ GrammarMemberName s :=
  validateMemberName_accept_iff na s

/-- Every rejection is a `MarshallingError`: no IndexError (`n[0]`, `n[-1]` on the empty
string) and no bare `Exception` leaves a validator. -/
theorem validators_reject_with_marshallingError (na : Char → Bool) (s : Str) :
    (validateObjectPath s ≠ .accept → validateObjectPath s = .raised .marshallingError) ∧
    (validateInterfaceName na s ≠ .accept → validateInterfaceName na s = .raised .marshallingError) ∧
    (validateErrorName na s ≠ .accept → validateErrorName na s = .raised .marshallingError) ∧
    (validateBusName na s ≠ .accept → validateBusName na s = .raised .marshallingError) ∧
    (validateMemberName na s ≠ .accept → validateMemberName na s = .raised .marshallingError) := by
  refine ⟨?_, ?_, ?_, ?_, ?_⟩
  · intro h; exact (validateObjectPath_cases s).resolve_left h
  · intro h; exact (validateInterfaceName_cases na s).resolve_left h
  · rw [validateErrorName_eq]; intro h; exact (validateInterfaceName_cases na s).resolve_left h
  · intro h; exact (validateBusName_cases na s).resolve_left h
  · intro h; exact (validateMemberName_cases na s).resolve_left h

/-- Both halves in one statement: each validator IS the decision procedure of its grammar,
with `MarshallingError` as the only rejection. -/
theorem validators_decide_grammar (na : Char → Bool) (s : Str) :
    validateObjectPath s = (if Grammar.objectPath s then .accept else .raised .marshallingError) ∧
    validateInterfaceName na s = (if Grammar.interfaceName s then .accept else .raised .marshallingError) ∧
    validateErrorName na s = (if Grammar.errorName s then .accept else .raised .marshallingError) ∧
    validateBusName na s = (if Grammar.busName s then .accept else .raised .marshallingError) ∧
    validateMemberName na s = (if Grammar.memberName s then .accept else .raised .marshallingError) := by
  have key : ∀ (o : Outcome) (g : Bool), (o = .accept ↔ g = true) →
      (o ≠ .accept → o = .raised .marshallingError) →
      o = (if g then .accept else .raised .marshallingError) := by
    intro o g hiff hrej
    cases g with
    | true => simpa using hiff.mpr rfl
    | false =>
      have : o ≠ .accept := fun h => Bool.noConfusion (hiff.mp h)
      simpa using hrej this
  have hr := validators_reject_with_marshallingError na s
  exact ⟨key _ _ (validateObjectPath_iff_grammar s) hr.1,
    key _ _ (validateInterfaceName_iff_grammar na s) hr.2.1,
    key _ _ (validateErrorName_iff_grammar na s) hr.2.2.1,
    key _ _ (validateBusName_iff_grammar na s) hr.2.2.2.1,
    key _ _ (validateMemberName_iff_grammar na s) hr.2.2.2.2⟩

/-! ## No message carries a name its validator rejects -/

/-- If a constructor of `txdbus.message` returns, every path, member, interface, destination
and error name it was given belongs to its grammar (`None` for an optional field carries no
name).  Error names are checked through `validateInterfaceName`, which is the same grammar.
"Constructed" = returned by one of the four `__init__`s with `str`/`None` name arguments;
`parseMessage` (which builds objects with `object.__new__` and validates nothing) and
`path=None` are outside this statement. -/
theorem constructed_message_names_grammatical (na : Char → Bool) :
    (∀ path member iface dest, constructMethodCall na path member iface dest = .accept →
        GrammarObjectPath path ∧ GrammarMemberName member ∧
        (∀ i, iface = some i → GrammarInterfaceName i) ∧ (∀ d, dest = some d → GrammarBusName d)) ∧
    (∀ dest, constructMethodReturn na dest = .accept → ∀ d, dest = some d → GrammarBusName d) ∧
    (∀ errorName dest, constructError na errorName dest = .accept →
        GrammarErrorName errorName ∧ (∀ d, dest = some d → GrammarBusName d)) ∧
    (∀ path member iface dest, constructSignal na path member iface dest = .accept →
        GrammarObjectPath path ∧ GrammarMemberName member ∧ GrammarInterfaceName iface ∧
        (∀ d, dest = some d → GrammarBusName d)) := by
  refine ⟨?_, ?_, ?_, ?_⟩
  · intro path member iface dest h
    unfold constructMethodCall at h
    simp only [andThen_accept, ifNotNone_accept] at h
    obtain ⟨hm, hi, hd, _, hp⟩ := h
    exact ⟨(validateObjectPath_iff_grammar _).mp hp, (validateMemberName_iff_grammar na _).mp hm,
      fun i e => (validateInterfaceName_iff_grammar na _).mp (hi i e),
      fun d e => (validateBusName_iff_grammar na _).mp (hd d e)⟩
  · intro dest h d e
    unfold constructMethodReturn at h
    exact (validateBusName_iff_grammar na _).mp ((ifNotNone_accept _ _).mp h d e)
  · intro errorName dest h
    unfold constructError at h
    simp only [andThen_accept, ifNotNone_accept] at h
    obtain ⟨hd, he⟩ := h
    exact ⟨(validateInterfaceName_iff_grammar na _).mp he,
      fun d e => (validateBusName_iff_grammar na _).mp (hd d e)⟩
  · intro path member iface dest h
    unfold constructSignal at h
    simp only [andThen_accept, ifNotNone_accept] at h
    obtain ⟨hm, hi, hd, hp⟩ := h
    exact ⟨(validateObjectPath_iff_grammar _).mp hp, (validateMemberName_iff_grammar na _).mp hm,
      (validateInterfaceName_iff_grammar na _).mp hi,
      fun d e => (validateBusName_iff_grammar na _).mp (hd d e)⟩

/-- AS FAR AS THE NAME ARGUMENTS ARE CONCERNED, a constructor that does not return raises
`MarshallingError`: this is a statement about the name-only model `Valid/MsgNames.lean` (path,
member, interface, destination, error name as `str` / `None`; no body).  It does NOT say that a
real constructor can only raise `MarshallingError`: non-name arguments raise other classes in
the real code (`ErrorMessage('a.b', 'x')` -> ValueError from `UInt32('x')`, body/signature
mismatches, the message size limit), and those are outside C18. -/
theorem message_construction_rejects_with_marshallingError (na : Char → Bool) :
    (∀ path member iface dest, (constructMethodCall na path member iface dest).Clean) ∧
    (∀ dest, (constructMethodReturn na dest).Clean) ∧
    (∀ errorName dest, (constructError na errorName dest).Clean) ∧
    (∀ path member iface dest, (constructSignal na path member iface dest).Clean) := by
  have hi : ∀ s, (validateInterfaceName na s).Clean := validateInterfaceName_cases na
  have hb : ∀ s, (validateBusName na s).Clean := validateBusName_cases na
  have hm : ∀ s, (validateMemberName na s).Clean := validateMemberName_cases na
  have hp : ∀ s, (validateObjectPath s).Clean := validateObjectPath_cases
  refine ⟨?_, ?_, ?_, ?_⟩
  · intro path member iface dest
    exact andThen_clean (hm _) (andThen_clean (ifNotNone_clean hi _) (andThen_clean (ifNotNone_clean hb _)
      (andThen_clean (reservedCheck_clean _) (hp _))))
  · intro dest; exact ifNotNone_clean hb _
  · intro e dest; exact andThen_clean (ifNotNone_clean hb _) (hi _)
  · intro path member iface dest
    exact andThen_clean (hm _) (andThen_clean (hi _) (andThen_clean (ifNotNone_clean hb _) (hp _)))

/-! ## The hypotheses are satisfiable: each grammar and each validator accepts something, rejects something -/

example : GrammarObjectPath "/".toList ∧ GrammarObjectPath "/org/freedesktop/DBus".toList ∧
    ¬ GrammarObjectPath "/a/".toList ∧ ¬ GrammarObjectPath "//".toList ∧ ¬ GrammarObjectPath "".toList := by decide
example : GrammarInterfaceName "org.freedesktop.DBus".toList ∧ ¬ GrammarInterfaceName "a.".toList ∧
    ¬ GrammarInterfaceName "a.1b".toList ∧ ¬ GrammarInterfaceName "a".toList := by decide
example : GrammarBusName ":1.42".toList ∧ GrammarBusName "org.a-b._c".toList ∧ ¬ GrammarBusName ":1.".toList ∧
    ¬ GrammarBusName ":.a".toList ∧ ¬ GrammarBusName "a:b.c".toList ∧ ¬ GrammarBusName "a.1".toList := by decide
example : GrammarMemberName "GetAll".toList ∧ ¬ GrammarMemberName "a.b".toList ∧ ¬ GrammarMemberName "".toList := by decide
example (na : Char → Bool) : validateBusName na ":1.42".toList = .accept :=
  (validateBusName_iff_grammar na _).mpr (by decide)
example (na : Char → Bool) : validateInterfaceName na "".toList = .raised .marshallingError :=
  ((validators_reject_with_marshallingError na _).2.1)
    (fun h => absurd ((validateInterfaceName_iff_grammar na _).mp h) (by decide))
example (na : Char → Bool) :
    constructMethodCall na "/a".toList "m".toList (some "a.b".toList) (some ":1.2".toList) = .accept := rfl

/-! ## Witnesses: the validators BEFORE repairs C18-01 / C18-02 violate the property (F27) -/

/-- Pre-repair `validateInterfaceName` / `validateErrorName` accept `"a."` and `"a.b."`
(empty last element), which the grammar rejects. -/
theorem prefix_interfaceName_accepts_trailing_dot (na : Char → Bool) :
    Pre.validateInterfaceName na "a.".toList = .accept ∧ ¬ GrammarInterfaceName "a.".toList ∧
    Pre.validateErrorName na "a.b.".toList = .accept ∧ ¬ GrammarErrorName "a.b.".toList :=
  ⟨rfl, by decide, rfl, by decide⟩

/-- Pre-repair `validateBusName` accepts `"a."` (empty last element), `"a:b.c"` (colon inside
a name), `":.a"` and `":1."` (empty element of a unique name); the grammar rejects all four. -/
theorem prefix_busName_accepts_nongrammatical (na : Char → Bool) :
    Pre.validateBusName na "a.".toList = .accept ∧ ¬ GrammarBusName "a.".toList ∧
    Pre.validateBusName na "a:b.c".toList = .accept ∧ ¬ GrammarBusName "a:b.c".toList ∧
    Pre.validateBusName na ":.a".toList = .accept ∧ ¬ GrammarBusName ":.a".toList ∧
    Pre.validateBusName na ":1.".toList = .accept ∧ ¬ GrammarBusName ":1.".toList :=
  ⟨rfl, by decide, rfl, by decide, rfl, by decide, rfl, by decide⟩

end Txdbus.Valid

#print axioms Txdbus.Valid.validateObjectPath_iff_grammar
#print axioms Txdbus.Valid.validateInterfaceName_iff_grammar
#print axioms Txdbus.Valid.validateErrorName_iff_grammar
#print axioms Txdbus.Valid.validateBusName_iff_grammar
#print axioms Txdbus.Valid.validateMemberName_iff_grammar
#print axioms Txdbus.Valid.validators_reject_with_marshallingError
#print axioms Txdbus.Valid.validators_decide_grammar
#print axioms Txdbus.Valid.constructed_message_names_grammatical
#print axioms Txdbus.Valid.message_construction_rejects_with_marshallingError
#print axioms Txdbus.Valid.prefix_interfaceName_accepts_trailing_dot
#print axioms Txdbus.Valid.prefix_busName_accepts_nongrammatical
