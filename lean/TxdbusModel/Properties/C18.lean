/-! Property theorems for C18 (stub: none yet). -/
