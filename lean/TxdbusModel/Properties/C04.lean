import TxdbusModel.Proofs.Proto.Handoff
import TxdbusModel.Proofs.Proto.WithMsg
import TxdbusModel.Proofs.Msg.Tables
/-!
# C04 - message framing is independent of how the byte stream is split into reads

Code model: `Txdbus.Proto.step` / `run` (Proto/Framing.lean) = `BasicDBusProtocol.dataReceived`.
Spec: `Spec.frames` (Proto/FramesSpec.lean) = cut the stream at the lengths announced by the fixed
headers.  The authenticator is an arbitrary parameter `A` (any state type, any function).

Definitions used in the statements (Proofs/Proto/Handoff.lean): `Framed s` - the invariant of the
binary branch between two reads (nothing cached and fewer than 16 bytes buffered, or the cached length
is the announced length of the incomplete message at the front of the buffer); `Ready s` - a client,
or a server that has seen its NUL byte; `authRun A a hs = some a1` - the authenticator answers `cont`
to every line of `hs`, ending in state `a1`.

Theorems (for ALL states satisfying the stated invariant, ALL lists of reads of any lengths - empty
reads included -, ALL byte contents):

* `binary_partition_independent`  running the reads delivers exactly `frames (buffer ++ concatenation)`,
  each once, in order, and leaves its rest buffered (plus: two partitions of one stream give the same).
* `frames_of_messages`            the concatenation of well-formed messages (either byte order, mixed)
  is cut into exactly these messages.
* `line_partition_independent`    in every state (line mode or binary mode) the final state, the lines
  handed to the authenticator and the messages delivered depend only on the concatenation of the
  reads - including the behaviour at the 16 KiB limit; `loseConnection` may be called more than once.
* `handoff`                       handshake ++ arbitrary bytes, cut anywhere: the authenticator gets the
  handshake lines, the messages delivered are `frames rest`.
* `loop_bounded`                  one read delivers at most (buffered + read bytes) / 16 messages and
  conserves every byte (the loop of the model is a well-founded recursion on the buffer length).
* witnesses of the two repaired defects on models of the old code.
* composed with C03 (extension 2026-09-30; section "C04 composed with C03" below):
  `wellFormed_of_constructed`  every message the C03 model of message.py constructs is `Spec.WellFormed`;
  `delivers_parsed_messages` (+ `_c01`, `_after_handshake`, `_after_handshake_c01`, `receive_delivers_sent_c01`)
  constructed messages sent back to back, cut into reads in any way: the receiver delivers exactly their
  frames and C03's `parseMessage` on the delivered frames returns exactly the messages sent (type, serial,
  flags, header attributes, body), in order, each once; buffer empty.
  `recv_delivers_sent` (+ `_c01`, `_after_handshake_c01`), `recv_delivers_calls_c01` (review 3): the same about
  `recvRun` = the whole of `rawDBusMessageReceived` (parse, `_receivedFDs[m.unix_fds:]`, dispatch to the four
  hooks, exceptions escaping): every message reaches the hook of its class and is handed the expected content,
  `otherFlags = 0`, the raw parts; `_calls_` states the content from the CONSTRUCTOR ARGUMENTS.
  LIMITS of all composed theorems: the senders are txdbus's own constructors, i.e. LITTLE-ENDIAN frames only (the
  property's "whatever mix of byte orders" is proved for the framing - `binary_partition_independent`,
  `frames_of_messages` - and only TESTED for the parsed delivery of big-endian frames); descriptor-free, or the
  receiver's descriptor list a free parameter per delivery (its evolution is C05); in the generic (`SentOK`) forms
  the body clause is relative to the codec; hooks return normally.
-/
namespace Txdbus.Proto
open Txdbus.Gen.ProtoConst
open Txdbus.Proto.Receive

variable {α : Type}

/-- **C04.1**  For every list of reads (any lengths, empty reads included) delivered to a protocol
in binary mode: the effects are exactly the deliveries of `(frames (buffer ++ concatenation)).1`, in
order, each once; the rest stays buffered; the invariant holds again. -/
theorem binary_partition_independent (A : Auth α) (s : St α) (reads : List Bytes)
    (ha : s.authenticated = true) (hf : Framed s) :
    (run A s reads).2 = (Spec.frames (s.buffer ++ reads.flatten)).1.map Effect.msg ∧
    (run A s reads).1.buffer = (Spec.frames (s.buffer ++ reads.flatten)).2 ∧
    Framed (run A s reads).1 ∧ (run A s reads).1.authenticated = true := by
  cases reads with
  | nil =>
    have hn := framed_noFrame s hf
    simp only [run, List.flatten_nil, List.append_nil]
    rw [frames_unfold, if_neg hn]
    exact ⟨rfl, rfl, hf, ha⟩
  | cons d ds =>
    rw [run_flatten_binary A s d ds ha]
    have := binStep_frames s (d :: ds).flatten hf
    exact ⟨this.1, this.2.1, this.2.2, by rw [binStep_auth]; exact ha⟩

/-- Corollary in the words of the property: two ways of cutting one stream into reads deliver the same
messages and leave the same bytes buffered. -/
theorem binary_two_partitions (A : Auth α) (s : St α) (rs rs' : List Bytes)
    (ha : s.authenticated = true) (hf : Framed s) (h : rs.flatten = rs'.flatten) :
    (run A s rs).2 = (run A s rs').2 ∧ (run A s rs).1.buffer = (run A s rs').1.buffer := by
  have a := binary_partition_independent A s rs ha hf
  have b := binary_partition_independent A s rs' ha hf
  rw [h] at a
  exact ⟨a.1.trans b.1.symm, a.2.1.trans b.2.1.symm⟩

/-- **C04.2**  The concatenation of well-formed messages - the length fields of the fixed header agree
with the total length; either byte order, freely mixed - is cut into exactly these messages. -/
theorem frames_of_messages (ms : List Bytes) (h : ∀ m ∈ ms, Spec.WellFormed m) :
    Spec.frames ms.flatten = (ms, []) := by
  have := frames_flatten_wellFormed ms h []
  have hnil : Spec.frames [] = ([], []) := by
    rw [frames_unfold, if_neg (by intro hf; exact absurd hf.1 (by decide))]
  simpa [hnil] using this

/-- **C04.3**  In every state that accepts arbitrary reads (`Ready`: a client, or a server that has
seen its NUL byte; line mode or binary mode, any buffer content, any authenticator): two non-empty
lists of reads with the same concatenation end in the same state, hand the same lines to the
authenticator and deliver the same messages.  This includes lines at and over the 16 KiB limit. -/
theorem line_partition_independent (A : Auth α) (s : St α) (rs rs' : List Bytes) (hr : Ready s)
    (hne : rs ≠ []) (hne' : rs' ≠ []) (h : rs.flatten = rs'.flatten) :
    (run A s rs).1 = (run A s rs').1 ∧
    linesOf (run A s rs).2 = linesOf (run A s rs').2 ∧
    msgsOf (run A s rs).2 = msgsOf (run A s rs').2 := by
  cases rs with
  | nil => exact absurd rfl hne
  | cons d ds =>
    cases rs' with
    | nil => exact absurd rfl hne'
    | cons d' ds' =>
      have a := run_flatten A s d ds hr
      have b := run_flatten A s d' ds' hr
      rw [h] at a
      refine ⟨a.1.trans b.1.symm, ?_, ?_⟩
      · rw [← linesOf_noLose, a.2, ← b.2, linesOf_noLose]
      · rw [← msgsOf_noLose, a.2, ← b.2, msgsOf_noLose]

/-- C04.3 for a freshly connected server: the stream starts with the NUL byte, no read before it is
empty (the code indexes `data[0]`). -/
theorem line_partition_independent_server (A : Auth α) (s : St α) (d d' : Bytes) (ds ds' : List Bytes)
    (hc : s.client = false) (hfb : s.firstByte = true) (ha : s.authenticated = false)
    (h : (d :: ds).flatten = (d' :: ds').flatten) :
    (run A s ((0 :: d) :: ds)).1 = (run A s ((0 :: d') :: ds')).1 ∧
    linesOf (run A s ((0 :: d) :: ds)).2 = linesOf (run A s ((0 :: d') :: ds')).2 ∧
    msgsOf (run A s ((0 :: d) :: ds)).2 = msgsOf (run A s ((0 :: d') :: ds')).2 := by
  have e1 : run A s ((0 :: d) :: ds) = run A { s with firstByte := false } (d :: ds) := by
    rw [run_cons, run_cons, (server_first_read A s d hc hfb ha).1]
  have e2 : run A s ((0 :: d') :: ds') = run A { s with firstByte := false } (d' :: ds') := by
    rw [run_cons, run_cons, (server_first_read A s d' hc hfb ha).1]
  rw [e1, e2]
  exact line_partition_independent A _ _ _ (Or.inr rfl) (by simp) (by simp) h

/-- **C04.4**  The stream is a handshake - lines without CR LF, none over the limit, each followed by
CR LF, the authenticator reporting success after the last one and not before - followed by arbitrary
bytes `rest`.  However it is cut into reads (for instance with the final handshake line and message
bytes in one read): the authenticator receives exactly the handshake lines, the messages delivered are
`frames rest`, the rest of `rest` stays buffered, the protocol is in binary mode (invariant `Framed`).
No assumption on the content of `rest` (it may contain CR LF anywhere). -/
theorem handoff (A : Auth α) (s : St α) (hs : List Bytes) (last rest : Bytes) (reads : List Bytes) (a1 a' : α)
    (hr : Ready s) (ha : s.authenticated = false) (hbuf : s.buffer = []) (hcl : s.closed = false)
    (hnext : s.nextMsgLen = 0)
    (hlines : ∀ l ∈ hs ++ [last], Spec.hasCRLF l = false ∧ l.length ≤ maxAuthLength)
    (hrun : authRun A s.auth hs = some a1) (hlast : A.handle a1 last = (a', .success))
    (hne : reads ≠ []) (hreads : reads.flatten = Spec.unlines (hs ++ [last]) ++ rest) :
    linesOf (run A s reads).2 = hs ++ [last] ∧
    msgsOf (run A s reads).2 = (Spec.frames rest).1 ∧
    (run A s reads).1.buffer = (Spec.frames rest).2 ∧
    (run A s reads).1.authenticated = true ∧
    (run A s reads).1.closed = false ∧
    Framed (run A s reads).1 := by
  cases reads with
  | nil => exact absurd rfl hne
  | cons d ds =>
    have hrf := run_flatten A s d ds hr
    rw [hreads] at hrf
    -- the single read
    have hsp := split_unlines (hs ++ [last]) rest (fun l hl => (hlines l hl).1)
    have hone : step A s (Spec.unlines (hs ++ [last]) ++ rest) =
        lineFinish s (splitCRLF rest).2
          ⟨.success, a', false, (hs ++ [last]).map Effect.line, (splitCRLF rest).1⟩ := by
      rw [step_line A s _ ha hr, lineBody_eq, hbuf, List.nil_append, hsp, hcl,
        lineLoop_handshake A s.auth a1 a' hs last _ (fun l hl => (hlines l hl).2) hrun hlast]
    rw [lineFinish_success _ _ _ rfl] at hone
    simp only [join_split] at hone
    have hfr : Framed (handoffState s ⟨.success, a', false, (hs ++ [last]).map Effect.line, (splitCRLF rest).1⟩) := by
      refine Or.inl ⟨hnext, ?_⟩
      show ([] : Bytes).length < 16
      decide
    have hb := binStep_frames _ rest hfr
    simp only [handoffState, List.nil_append] at hb
    simp only [handoffState] at hone
    rw [hone] at hrf
    refine ⟨?_, ?_, ?_, ?_, ?_, ?_⟩
    · rw [← linesOf_noLose, hrf.2, linesOf_noLose]
      show linesOf (_ ++ _) = _
      rw [hb.1]
      exact (linesOf_lines_msgs _ _).1
    · rw [← msgsOf_noLose, hrf.2, msgsOf_noLose]
      show msgsOf (_ ++ _) = _
      rw [hb.1]
      exact (linesOf_lines_msgs _ _).2
    · rw [hrf.1]; exact hb.2.1
    · rw [hrf.1]; rfl
    · rw [hrf.1]; rfl
    · rw [hrf.1]; exact hb.2.2

/-- **C04 in one sentence, binary mode.**  The messages `ms` (well-formed for framing - which every
message `_marshal` constructs is: `wellFormed_of_constructed` below = `wellFormed_of_layout` applied to C03
`marshal_wellformed`; `delivers_parsed_messages` is this theorem for constructed messages, continued through
`parseMessage`) are sent
back to back and the stream is cut into reads in ANY way: the receiver's effects are exactly the
deliveries of `ms`, each once, in order, and nothing stays buffered. -/
theorem delivers_messages_sent (A : Auth α) (s : St α) (ms reads : List Bytes)
    (ha : s.authenticated = true) (hbuf : s.buffer = []) (hnext : s.nextMsgLen = 0)
    (hwf : ∀ m ∈ ms, Spec.WellFormed m) (h : reads.flatten = ms.flatten) :
    (run A s reads).2 = ms.map Effect.msg ∧ (run A s reads).1.buffer = [] := by
  have hf : Framed s := Or.inl ⟨hnext, by show s.buffer.length < 16; rw [hbuf]; decide⟩
  have hb := binary_partition_independent A s reads ha hf
  rw [hbuf, List.nil_append, h, frames_of_messages ms hwf] at hb
  exact ⟨hb.1, hb.2.1⟩

/-- **C04 in one sentence, behind a handshake.**  Handshake as in `handoff`, followed by the messages
`ms`; any cutting (the first messages may share a read with the final handshake line): exactly `ms` is
delivered, in order, each once. -/
theorem delivers_messages_sent_after_handshake (A : Auth α) (s : St α) (hs : List Bytes) (last : Bytes)
    (ms reads : List Bytes) (a1 a' : α)
    (hr : Ready s) (ha : s.authenticated = false) (hbuf : s.buffer = []) (hcl : s.closed = false)
    (hnext : s.nextMsgLen = 0)
    (hlines : ∀ l ∈ hs ++ [last], Spec.hasCRLF l = false ∧ l.length ≤ maxAuthLength)
    (hrun : authRun A s.auth hs = some a1) (hlast : A.handle a1 last = (a', .success))
    (hwf : ∀ m ∈ ms, Spec.WellFormed m)
    (hne : reads ≠ []) (hreads : reads.flatten = Spec.unlines (hs ++ [last]) ++ ms.flatten) :
    linesOf (run A s reads).2 = hs ++ [last] ∧ msgsOf (run A s reads).2 = ms ∧
    (run A s reads).1.buffer = [] := by
  have h := handoff A s hs last ms.flatten reads a1 a' hr ha hbuf hcl hnext hlines hrun hlast hne hreads
  rw [frames_of_messages ms hwf] at h
  exact ⟨h.1, h.2.1, h.2.2.1⟩

/-- C04.4 for a freshly connected server (NUL byte first, first read not empty). -/
theorem handoff_server (A : Auth α) (s : St α) (hs : List Bytes) (last rest d : Bytes) (ds : List Bytes)
    (a1 a' : α)
    (hc : s.client = false) (hfb : s.firstByte = true)
    (ha : s.authenticated = false) (hbuf : s.buffer = []) (hcl : s.closed = false)
    (hnext : s.nextMsgLen = 0)
    (hlines : ∀ l ∈ hs ++ [last], Spec.hasCRLF l = false ∧ l.length ≤ maxAuthLength)
    (hrun : authRun A s.auth hs = some a1) (hlast : A.handle a1 last = (a', .success))
    (hreads : (d :: ds).flatten = Spec.unlines (hs ++ [last]) ++ rest) :
    linesOf (run A s ((0 :: d) :: ds)).2 = hs ++ [last] ∧
    msgsOf (run A s ((0 :: d) :: ds)).2 = (Spec.frames rest).1 ∧
    (run A s ((0 :: d) :: ds)).1.buffer = (Spec.frames rest).2 ∧
    (run A s ((0 :: d) :: ds)).1.authenticated = true ∧
    (run A s ((0 :: d) :: ds)).1.closed = false ∧
    Framed (run A s ((0 :: d) :: ds)).1 := by
  have e1 : run A s ((0 :: d) :: ds) = run A { s with firstByte := false } (d :: ds) := by
    rw [run_cons, run_cons, (server_first_read A s d hc hfb ha).1]
  rw [e1]
  exact handoff A { s with firstByte := false } hs last rest (d :: ds) a1 a' (Or.inr rfl) ha hbuf hcl hnext
    hlines hrun hlast (by simp) hreads

/-- **C04.5**  The binary branch is a loop (well-founded recursion on the buffer length in the model:
every delivered message removes its own length, at least 16 bytes).  One read delivers at most
(buffered + read bytes) / 16 messages, every delivered message has at least 16 bytes, and no byte is
lost, duplicated or reordered: the delivered messages followed by the new buffer are the old buffer
followed by the read. -/
theorem loop_bounded (A : Auth α) (s : St α) (d : Bytes) (ha : s.authenticated = true) (hf : Framed s) :
    (msgsOf (step A s d).2).length * 16 ≤ s.buffer.length + d.length ∧
    (∀ m ∈ msgsOf (step A s d).2, 16 ≤ m.length) ∧
    (msgsOf (step A s d).2).flatten ++ (step A s d).1.buffer = s.buffer ++ d := by
  rw [step_auth A s d ha]
  have hb := binStep_frames s d hf
  have hm : msgsOf (binStep s d).2 = (Spec.frames (s.buffer ++ d)).1 := by
    rw [hb.1]
    have := (linesOf_lines_msgs [] (Spec.frames (s.buffer ++ d)).1).2
    simpa using this
  rw [hm, hb.2.1]
  have hlen := frames_len (s.buffer ++ d)
  have hcons := frames_conserve (s.buffer ++ d)
  refine ⟨?_, hlen, hcons⟩
  -- count * 16 ≤ total length
  have key : ∀ (ms : List Bytes), (∀ m ∈ ms, 16 ≤ m.length) → ms.length * 16 ≤ ms.flatten.length := by
    intro ms
    induction ms with
    | nil => intro _; simp
    | cons m t ih =>
      intro h
      have h1 := h m (by simp)
      have h2 := ih (fun x hx => h x (by simp [hx]))
      simp only [List.length_cons, List.flatten_cons, List.length_append]
      omega
  have h1 := key _ hlen
  have h2 : ((Spec.frames (s.buffer ++ d)).1.flatten ++ (Spec.frames (s.buffer ++ d)).2).length
      = (s.buffer ++ d).length := by rw [hcons]
  simp only [List.length_append] at h2
  omega

/-- **Tie to the source (control flow).**  Three facts of `dataReceived` that the model mirrors by
hand and that no constant captures are measured on the running code by tools/tables/c04_proto.py on
every run: the binary branch is a loop (more coalesced messages than the interpreter allows nested
calls are delivered - `binLoop`), the hand-off re-joins exactly the bytes that follow the final line
(`lines[lineno + 1:] + [buffer]` - `lineFinish`), and the remainder length check is not applied to
message bytes behind the final line (`for ... else` position - `lineFinish`, case `done` only).  A
fourth fact is read from the AST: `dataReceived` does not mention `MAX_MSG_LENGTH` at all - the framing
model has no size limit, so code that starts to apply one while framing breaks this theorem (and is
exercised at a scaled-down limit by the harness stream `limit-scaled`). -/
theorem model_control_flow_matches_source :
    binaryBranchIterates = true ∧ handoffRejoinsRest = true ∧ remainderCheckAfterLoop = true ∧
    dataReceivedUsesMaxMsgLength = false := by decide

/-! ## Witnesses: the models of the code before the repairs violate the property -/

/-- A 16-byte message (little endian, no header fields, no body). -/
def tinyMsg : Bytes := [108, 2, 0, 1, 0, 0, 0, 0, 1, 0, 0, 0, 0, 0, 0, 0]

/-- Before c1e0b2e: three messages in one read nest three calls of `dataReceived` - one Python frame
per coalesced message (F2; the harness replays 1,500 messages: RecursionError). -/
theorem prefix_recursion_depth_grows :
    (binRecOld 10 (tinyMsg ++ tinyMsg ++ tinyMsg) 0 false 1).map (fun r => (r.2.1.length, r.2.2)) = some (3, 3) := by
  decide

/-- `BEGIN` -/
def beginLine : Bytes := [66, 69, 71, 73, 78]

/-- A 24-byte message whose serial is 2573 = 0x0A0D: its bytes contain CR LF. -/
def crlfMsg : Bytes :=
  [108, 2, 0, 1, 0, 0, 0, 0, 13, 10, 0, 0, 8, 0, 0, 0, 5, 1, 117, 0, 1, 0, 0, 0]

/-- The authenticator that reports success on its first line. -/
def okAuth : Auth Unit := ⟨fun _ _ => ((), .success)⟩

/-- Before 4e9e31b: `BEGIN\r\n` and a message containing 0d 0a in one read - the message bytes are cut
at the CR LF, the fragment goes to the discarded authenticator (AttributeError), no message is
delivered (F3). -/
theorem prefix_handoff_loses_message :
    lineBodyOld okAuth (St.init true ()) (beginLine ++ [13, 10] ++ crlfMsg) = [.line beginLine, .crash] := by
  decide

/-! ## The hypotheses are satisfiable -/

example : Framed (α := Unit) { St.init true () with authenticated := true } := Or.inl ⟨rfl, by decide⟩

example : Spec.WellFormed tinyMsg ∧ Spec.WellFormed crlfMsg := by decide

/-- a big-endian message (method return, reply serial 1, body `u` 7) -/
example : Spec.WellFormed
    [66, 2, 0, 1, 0, 0, 0, 4, 0, 0, 0, 9, 0, 0, 0, 15, 5, 1, 117, 0, 0, 0, 0, 1, 8, 1, 103, 0, 1, 117, 0, 0,
     0, 0, 0, 7] := by decide

/-- the repaired code on the F3 input, cut between CR and LF of the final handshake line -/
example : msgsOf (run okAuth (St.init true ()) [beginLine ++ [13], 10 :: crlfMsg]).2 = (Spec.frames crlfMsg).1 :=
  (handoff okAuth (St.init true ()) [] beginLine crlfMsg _ () () (Or.inl rfl) rfl rfl rfl rfl
    (by decide) rfl rfl (by simp) (by decide)).2.1

/-! ## C04 composed with C03 (extension 2026-09-30): the frames of constructed messages parse back to the messages sent

The theorems above end at `Effect.msg raw` and take "well-formed for framing" as a premise.  Below, the
messages are the ones C03's code model of message.py CONSTRUCTS (`Msg.construct`: the four constructors and
`_marshal`), the receiver is the framing model followed by C03's model of `parseMessage` on every delivered
frame (`parseFrames` / `receive`, Proto/Receive.lean - what `rawDBusMessageReceived` does first), and the
tables of message.py are the ones extracted from the repository (`Gen.Message.tables`, with
`Msg.genTables_ok` re-checking on every run the facts C03's proofs use).  Proofs: Proofs/Proto/WithMsg.lean,
from C03's `marshal_wellformed`, `parse_marshal`, `parse_marshal_c01`, `parse_marshal_no_body` (their
table-generic forms in Proofs/Msg - the statements Properties/C03.lean instantiates with the same tables).

Vocabulary (Proto/Receive.lean, Proofs/Proto/WithMsg.lean): `Sent β` = (constructed message `msg`, the receiver's
descriptor list `fds` at the moment it parses that message, `decoded` = what the body codec decodes the body to);
`x.expected T` = the `Msg.View` of `x.msg` (message type, serial, both flags, every header attribute as a Python
value) with body `some x.decoded` (`none` without signature); `SentOK T C na maxLen x` = the premises of C03
`marshal_wellformed` + `parse_marshal` for `x` (some constructor call at some counter value ≥ 1, NUL-free
signature, returned `x.msg`; the codec round-trips this body: `hC`); `SentC01 T na maxLen fuel x` = the premises
of `parse_marshal_c01` or of `parse_marshal_no_body` (codec = C01's code model `wireCodec fuel`, nothing assumed
about it). -/

/-- **The bridge (named).**  For every message the C03 model constructs and serialises successfully - the
premises of C03 `marshal_wellformed`, nothing more: any body codec `C`, any of the four constructor calls `c`
made when the counter stood at `st.nextSerial ≥ 1`, `signature` argument without NUL, size limit of the class at
most 2^27 - the raw bytes satisfy C04's `Spec.WellFormed` (at least 16 bytes; the UINT32 body length and the
UINT32 header-array length of the fixed header announce exactly the length of the message). -/
theorem wellFormed_of_constructed {β : Type} (C : Msg.BodyCodec β) (na : Char → Bool) (maxLen : Nat)
    (hmax : maxLen ≤ Msg.Spec.maxMessage) (st st' : Msg.St) (c : Msg.Call β) (m : Msg.Msg β)
    (hs : 1 ≤ st.nextSerial) (hsig : Msg.Main.SigNoNul c)
    (h : Msg.construct Gen.Message.tables C na maxLen st c = (st', .ok m)) :
    Spec.WellFormed m.raw :=
  WithMsg.wellFormed_of_constructed_gen Gen.Message.tables Msg.genTables_ok C na maxLen hmax st st' c m hs hsig h

/-- The two facts the composition needs per sent message - its frame is well-formed for framing and the
receiver's `parseMessage` returns the expected content - under the premises of C03's theorems (`hC` carried
inside `SentOK`). -/
theorem sent_wellFormed_and_parses {β : Type} (C : Msg.BodyCodec β) (na : Char → Bool) (maxLen : Nat)
    (hmax : maxLen ≤ Msg.Spec.maxMessage) (x : Sent β) (h : WithMsg.SentOK Gen.Message.tables C na maxLen x) :
    Spec.WellFormed x.msg.raw ∧
    ∃ m', Msg.parseMessage Gen.Message.tables C x.msg.raw x.fds = .ok m' ∧
      m'.view Gen.Message.tables = x.expected Gen.Message.tables :=
  ⟨WithMsg.wellFormed_of_sentOK _ Msg.genTables_ok C na maxLen hmax x h,
   WithMsg.parsesTo_of_sentOK _ Msg.genTables_ok C na maxLen x h⟩

/-- ... and with C01's codec in the place of `C`: no hypothesis about the codec. -/
theorem sent_wellFormed_and_parses_c01 (na : Char → Bool) (maxLen : Nat) (hmax : maxLen ≤ Msg.Spec.maxMessage)
    (fuel : Nat) (x : Sent PyVal) (h : WithMsg.SentC01 Gen.Message.tables na maxLen fuel x) :
    Spec.WellFormed x.msg.raw ∧
    ∃ m', Msg.parseMessage Gen.Message.tables (Msg.wireCodec fuel) x.msg.raw x.fds = .ok m' ∧
      m'.view Gen.Message.tables = x.expected Gen.Message.tables :=
  ⟨WithMsg.wellFormed_of_sentC01 _ Msg.genTables_ok na maxLen hmax fuel x h,
   WithMsg.parsesTo_of_sentC01 _ Msg.genTables_ok na maxLen fuel x h⟩

/-- **C04 ∘ C03, binary mode.**  `xs` are sent messages - each constructed by the C03 model under the premises
of `parse_marshal` (`SentOK`: any constructor, any optional arguments, any body the codec accepted; `hC` for the
body codec) - serialised back to back; the stream is cut into reads in ANY way (any number of reads, any
lengths, empty reads included: `reads.flatten = …` is the only premise on `reads`); the receiver is authenticated
with nothing buffered.  Then:
* the effects are exactly the deliveries of the frames `x.msg.raw`, in order, each once (no other effect);
* C03's `parseMessage` on the delivered frames (each with the receiver's descriptor list for that delivery)
  succeeds on every one and yields, in order, exactly the contents `x.expected`: message type, serial, both
  flags, all header attributes, body;
* nothing stays buffered.
LIMITS.  (i) The body clause is RELATIVE TO THE CODEC: `x.decoded` is whatever `C.unmarshal` returns for the bytes
`C.marshal` produced (`hC`); a codec that decodes every body to garbage satisfies the premises - only the `_c01` forms
tie the body to what the sender passed.  (ii) Constructed messages are little-endian: big-endian frames are outside
this theorem (stream only).  (iii) `x.fds` is a free parameter per delivery; `parseFrames` does not model the slice
`_receivedFDs[m.unix_fds:]`, the dispatch, nor `otherFlags` / raw parts - `recv_delivers_sent` does. -/
theorem delivers_parsed_messages {β : Type} (C : Msg.BodyCodec β) (na : Char → Bool) (maxLen : Nat)
    (hmax : maxLen ≤ Msg.Spec.maxMessage) (A : Auth α) (s : St α) (xs : List (Sent β)) (reads : List Bytes)
    (ha : s.authenticated = true) (hbuf : s.buffer = []) (hnext : s.nextMsgLen = 0)
    (hxs : ∀ x ∈ xs, WithMsg.SentOK Gen.Message.tables C na maxLen x)
    (h : reads.flatten = (xs.map (·.msg.raw)).flatten) :
    (run A s reads).2 = xs.map (fun x => Effect.msg x.msg.raw) ∧
    (parseFrames Gen.Message.tables C (msgsOf (run A s reads).2) (xs.map (·.fds))).map
        (Except.map (Msg.Msg.view Gen.Message.tables))
      = xs.map (fun x => .ok (x.expected Gen.Message.tables)) ∧
    (run A s reads).1.buffer = [] := by
  have hwf : ∀ m ∈ xs.map (·.msg.raw), Spec.WellFormed m := by
    intro m hm
    obtain ⟨x, hx, rfl⟩ := List.mem_map.1 hm
    exact (sent_wellFormed_and_parses C na maxLen hmax x (hxs x hx)).1
  have hd := delivers_messages_sent A s (xs.map (·.msg.raw)) reads ha hbuf hnext hwf h
  refine ⟨by rw [hd.1, List.map_map]; rfl, ?_, hd.2⟩
  rw [hd.1, WithMsg.msgsOf_map_msg]
  exact WithMsg.parseFrames_sent _ C xs (fun x hx => (sent_wellFormed_and_parses C na maxLen hmax x (hxs x hx)).2)

/-- **C04 ∘ C03 ∘ C01, binary mode**: `delivers_parsed_messages` with C01's code model of `marshal.marshal` /
`marshal.unmarshal` as the body codec and C01's round trip in the place of `hC` (`SentC01`: the premises of
`parse_marshal_c01` - non-empty signature, body in C01's domain, `oobFDs` None or `[]`, the receiver's descriptor
list = the collected one - or of `parse_marshal_no_body`).  The expected body is C01's normal form of the sent
body (`Code.plainList items`: tuples as lists, wrapper instances as plain values). -/
theorem delivers_parsed_messages_c01 (na : Char → Bool) (maxLen : Nat) (hmax : maxLen ≤ Msg.Spec.maxMessage)
    (fuel : Nat) (A : Auth α) (s : St α) (xs : List (Sent PyVal)) (reads : List Bytes)
    (ha : s.authenticated = true) (hbuf : s.buffer = []) (hnext : s.nextMsgLen = 0)
    (hxs : ∀ x ∈ xs, WithMsg.SentC01 Gen.Message.tables na maxLen fuel x)
    (h : reads.flatten = (xs.map (·.msg.raw)).flatten) :
    (run A s reads).2 = xs.map (fun x => Effect.msg x.msg.raw) ∧
    (parseFrames Gen.Message.tables (Msg.wireCodec fuel) (msgsOf (run A s reads).2) (xs.map (·.fds))).map
        (Except.map (Msg.Msg.view Gen.Message.tables))
      = xs.map (fun x => .ok (x.expected Gen.Message.tables)) ∧
    (run A s reads).1.buffer = [] := by
  have hwf : ∀ m ∈ xs.map (·.msg.raw), Spec.WellFormed m := by
    intro m hm
    obtain ⟨x, hx, rfl⟩ := List.mem_map.1 hm
    exact (sent_wellFormed_and_parses_c01 na maxLen hmax fuel x (hxs x hx)).1
  have hd := delivers_messages_sent A s (xs.map (·.msg.raw)) reads ha hbuf hnext hwf h
  refine ⟨by rw [hd.1, List.map_map]; rfl, ?_, hd.2⟩
  rw [hd.1, WithMsg.msgsOf_map_msg]
  exact WithMsg.parseFrames_sent _ _ xs
    (fun x hx => (sent_wellFormed_and_parses_c01 na maxLen hmax fuel x (hxs x hx)).2)

/-- The same about `receive` (Proto/Receive.lean) - the function the driver command `P` of Driver/C04.lean
executes and the harness stream `parsed-after-framing` compares with the real `rawDBusMessageReceived` +
`parseMessage`: a connection on which the receiver's descriptor list is `fds` at every delivery. -/
theorem receive_delivers_sent_c01 (na : Char → Bool) (maxLen : Nat) (hmax : maxLen ≤ Msg.Spec.maxMessage)
    (fuel : Nat) (A : Auth α) (s : St α) (xs : List (Sent PyVal)) (reads : List Bytes) (fds : Option (List PyVal))
    (ha : s.authenticated = true) (hbuf : s.buffer = []) (hnext : s.nextMsgLen = 0)
    (hxs : ∀ x ∈ xs, WithMsg.SentC01 Gen.Message.tables na maxLen fuel x) (hfds : ∀ x ∈ xs, x.fds = fds)
    (h : reads.flatten = (xs.map (·.msg.raw)).flatten) :
    (receive Gen.Message.tables (Msg.wireCodec fuel) A s reads fds).2.1 = xs.map (fun x => Effect.msg x.msg.raw) ∧
    (receive Gen.Message.tables (Msg.wireCodec fuel) A s reads fds).2.2.map
        (Except.map (Msg.Msg.view Gen.Message.tables))
      = xs.map (fun x => .ok (x.expected Gen.Message.tables)) ∧
    (receive Gen.Message.tables (Msg.wireCodec fuel) A s reads fds).1.buffer = [] := by
  have hd := delivers_parsed_messages_c01 na maxLen hmax fuel A s xs reads ha hbuf hnext hxs h
  refine ⟨hd.1, ?_, hd.2.2⟩
  show (parseFramesConst _ _ (msgsOf (run A s reads).2) fds).map _ = _
  have hm : xs.map (fun x => Effect.msg x.msg.raw) = (xs.map (·.msg.raw)).map Effect.msg := by
    rw [List.map_map]; rfl
  rw [hd.1, hm, WithMsg.msgsOf_map_msg]
  exact WithMsg.parseFramesConst_sent _ _ xs fds hfds
    (fun x hx => (sent_wellFormed_and_parses_c01 na maxLen hmax fuel x (hxs x hx)).2)

/-- **C04 ∘ C03 behind a handshake.**  Handshake as in `handoff` (lines without CR LF, within the limit, the
authenticator answering cont … cont success), followed by the sent messages `xs` (as in
`delivers_parsed_messages`); the stream is cut ANYWHERE (the first messages may share a read with the final
handshake line; message bytes may contain CR LF): the authenticator is handed exactly the handshake lines, the
frames delivered are exactly those of `xs`, in order, each once, they parse to exactly the expected contents,
and nothing stays buffered. -/
theorem delivers_parsed_messages_after_handshake {β : Type} (C : Msg.BodyCodec β) (na : Char → Bool) (maxLen : Nat)
    (hmax : maxLen ≤ Msg.Spec.maxMessage) (A : Auth α) (s : St α) (hs : List Bytes) (last : Bytes)
    (xs : List (Sent β)) (reads : List Bytes) (a1 a' : α)
    (hr : Ready s) (ha : s.authenticated = false) (hbuf : s.buffer = []) (hcl : s.closed = false)
    (hnext : s.nextMsgLen = 0)
    (hlines : ∀ l ∈ hs ++ [last], Spec.hasCRLF l = false ∧ l.length ≤ maxAuthLength)
    (hrun : authRun A s.auth hs = some a1) (hlast : A.handle a1 last = (a', .success))
    (hxs : ∀ x ∈ xs, WithMsg.SentOK Gen.Message.tables C na maxLen x)
    (hne : reads ≠ []) (hreads : reads.flatten = Spec.unlines (hs ++ [last]) ++ (xs.map (·.msg.raw)).flatten) :
    linesOf (run A s reads).2 = hs ++ [last] ∧
    msgsOf (run A s reads).2 = xs.map (·.msg.raw) ∧
    (parseFrames Gen.Message.tables C (msgsOf (run A s reads).2) (xs.map (·.fds))).map
        (Except.map (Msg.Msg.view Gen.Message.tables))
      = xs.map (fun x => .ok (x.expected Gen.Message.tables)) ∧
    (run A s reads).1.buffer = [] := by
  have hwf : ∀ m ∈ xs.map (·.msg.raw), Spec.WellFormed m := by
    intro m hm
    obtain ⟨x, hx, rfl⟩ := List.mem_map.1 hm
    exact (sent_wellFormed_and_parses C na maxLen hmax x (hxs x hx)).1
  have hd := delivers_messages_sent_after_handshake A s hs last (xs.map (·.msg.raw)) reads a1 a' hr ha hbuf hcl hnext
    hlines hrun hlast hwf hne hreads
  refine ⟨hd.1, hd.2.1, ?_, hd.2.2⟩
  rw [hd.2.1]
  exact WithMsg.parseFrames_sent _ C xs (fun x hx => (sent_wellFormed_and_parses C na maxLen hmax x (hxs x hx)).2)

/-- ... behind a handshake, with C01's codec (no hypothesis about the codec). -/
theorem delivers_parsed_messages_after_handshake_c01 (na : Char → Bool) (maxLen : Nat)
    (hmax : maxLen ≤ Msg.Spec.maxMessage) (fuel : Nat) (A : Auth α) (s : St α) (hs : List Bytes) (last : Bytes)
    (xs : List (Sent PyVal)) (reads : List Bytes) (a1 a' : α)
    (hr : Ready s) (ha : s.authenticated = false) (hbuf : s.buffer = []) (hcl : s.closed = false)
    (hnext : s.nextMsgLen = 0)
    (hlines : ∀ l ∈ hs ++ [last], Spec.hasCRLF l = false ∧ l.length ≤ maxAuthLength)
    (hrun : authRun A s.auth hs = some a1) (hlast : A.handle a1 last = (a', .success))
    (hxs : ∀ x ∈ xs, WithMsg.SentC01 Gen.Message.tables na maxLen fuel x)
    (hne : reads ≠ []) (hreads : reads.flatten = Spec.unlines (hs ++ [last]) ++ (xs.map (·.msg.raw)).flatten) :
    linesOf (run A s reads).2 = hs ++ [last] ∧
    msgsOf (run A s reads).2 = xs.map (·.msg.raw) ∧
    (parseFrames Gen.Message.tables (Msg.wireCodec fuel) (msgsOf (run A s reads).2) (xs.map (·.fds))).map
        (Except.map (Msg.Msg.view Gen.Message.tables))
      = xs.map (fun x => .ok (x.expected Gen.Message.tables)) ∧
    (run A s reads).1.buffer = [] := by
  have hwf : ∀ m ∈ xs.map (·.msg.raw), Spec.WellFormed m := by
    intro m hm
    obtain ⟨x, hx, rfl⟩ := List.mem_map.1 hm
    exact (sent_wellFormed_and_parses_c01 na maxLen hmax fuel x (hxs x hx)).1
  have hd := delivers_messages_sent_after_handshake A s hs last (xs.map (·.msg.raw)) reads a1 a' hr ha hbuf hcl hnext
    hlines hrun hlast hwf hne hreads
  refine ⟨hd.1, hd.2.1, ?_, hd.2.2⟩
  rw [hd.2.1]
  exact WithMsg.parseFrames_sent _ _ xs
    (fun x hx => (sent_wellFormed_and_parses_c01 na maxLen hmax fuel x (hxs x hx)).2)

/-! ### The composed theorem on two concrete messages and a concrete 3-way split -/

/-- `MethodCallMessage('/a', 'm', signature='i', body=[7])` - a method call with a body. -/
def exCall : Msg.Call PyVal :=
  .methodCall { path := some "/a".toList, member := some "m".toList, signature := some "i".toList,
                body := some (.list [.int .plain 7]) }

/-- `SignalMessage('/a', 'm', 'a.b')` - a signal without body. -/
def exSignal : Msg.Call PyVal :=
  .signal { path := some "/a".toList, member := some "m".toList, interface := some "a.b".toList }

/-- The 60 bytes the real constructor produces for `exCall` as the first message of a process (serial 1). -/
def exCallBytes : Bytes :=
  [108, 1, 0, 1, 4, 0, 0, 0, 1, 0, 0, 0, 39, 0, 0, 0, 1, 1, 111, 0, 2, 0, 0, 0, 47, 97, 0, 0, 0, 0, 0, 0,
   3, 1, 115, 0, 1, 0, 0, 0, 109, 0, 0, 0, 0, 0, 0, 0, 8, 1, 103, 0, 1, 105, 0, 0, 7, 0, 0, 0]

/-- The 64 bytes of `exSignal` as the second message (serial 2). -/
def exSignalBytes : Bytes :=
  [108, 4, 0, 1, 0, 0, 0, 0, 2, 0, 0, 0, 42, 0, 0, 0, 1, 1, 111, 0, 2, 0, 0, 0, 47, 97, 0, 0, 0, 0, 0, 0,
   2, 1, 115, 0, 3, 0, 0, 0, 97, 46, 98, 0, 0, 0, 0, 0, 3, 1, 115, 0, 1, 0, 0, 0, 109, 0, 0, 0, 0, 0, 0, 0]

/-- `delivers_parsed_messages_c01` instantiated: the two constructor calls above, made one after the other on the
counter of a fresh process with C01's codec, construct messages whose bytes are the 60 + 64 bytes above; the 124-byte
stream is cut into THREE reads - after byte 7 (inside the fixed header of the call), after byte 70 (inside the fixed
header of the signal), the rest.  Every premise of the theorem is discharged here (`SentC01` for both messages: the
relational premises of `parse_marshal_c01` for the call, those of `parse_marshal_no_body` for the signal), and the
theorem yields: exactly two deliveries, the two frames, in order; parsed: a method call (type 1) with serial 1 and body
`[7]`, then a signal (type 4) with serial 2 and no body; nothing left in the buffer. -/
example :
    ∃ (st1 st2 : Msg.St) (m1 m2 : Msg.Msg PyVal),
      Msg.construct Gen.Message.tables (Msg.wireCodec 2) (fun _ => false) Gen.Message.maxMsgLen
        (Msg.St.init Gen.Message.tables) exCall = (st1, .ok m1) ∧
      Msg.construct Gen.Message.tables (Msg.wireCodec 2) (fun _ => false) Gen.Message.maxMsgLen st1 exSignal
        = (st2, .ok m2) ∧
      m1.raw = exCallBytes ∧ m2.raw = exSignalBytes ∧
      (run okAuth { St.init true () with authenticated := true }
          [(exCallBytes ++ exSignalBytes).take 7, ((exCallBytes ++ exSignalBytes).drop 7).take 63,
           (exCallBytes ++ exSignalBytes).drop 70]).2 = [.msg exCallBytes, .msg exSignalBytes] ∧
      ((parseFrames Gen.Message.tables (Msg.wireCodec 2)
          (msgsOf (run okAuth { St.init true () with authenticated := true }
            [(exCallBytes ++ exSignalBytes).take 7, ((exCallBytes ++ exSignalBytes).drop 7).take 63,
             (exCallBytes ++ exSignalBytes).drop 70]).2) [some [], none]).map
          (Except.map (Msg.Msg.view Gen.Message.tables))).map
          (Except.map fun v => (v.messageType, v.serial, v.expectReply, v.body))
        = [.ok (1, 1, true, some (.list [.int .plain 7])), .ok (4, 2, true, none)] ∧
      (run okAuth { St.init true () with authenticated := true }
          [(exCallBytes ++ exSignalBytes).take 7, ((exCallBytes ++ exSignalBytes).drop 7).take 63,
           (exCallBytes ++ exSignalBytes).drop 70]).1.buffer = [] := by
  -- the first constructor call
  obtain ⟨st1, m1, h1⟩ := WithMsg.construct_shape (T := Gen.Message.tables) (C := Msg.wireCodec 2)
    (na := fun _ => false) (maxLen := Gen.Message.maxMsgLen) (st := Msg.St.init Gen.Message.tables) (c := exCall)
    (by decide +kernel)
  have e1 : (Msg.construct Gen.Message.tables (Msg.wireCodec 2) (fun _ => false) Gen.Message.maxMsgLen
      (Msg.St.init Gen.Message.tables) exCall).1 = ⟨2⟩ := by decide +kernel
  have f1 : (Msg.construct Gen.Message.tables (Msg.wireCodec 2) (fun _ => false) Gen.Message.maxMsgLen
      (Msg.St.init Gen.Message.tables) exCall).2.toOption.map
        (fun m => (m.raw, Gen.Message.tables.messageType m.cls, m.serial, m.expectReply, Msg.truthy (m.attrs .signature)))
      = some (exCallBytes, 1, 1, true, true) := by decide +kernel
  rw [h1] at e1 f1
  simp only [Except.toOption, Option.map_some, Option.some.injEq, Prod.mk.injEq] at e1 f1
  subst e1
  -- the second one, on the advanced counter
  obtain ⟨st2, m2, h2⟩ := WithMsg.construct_shape (T := Gen.Message.tables) (C := Msg.wireCodec 2)
    (na := fun _ => false) (maxLen := Gen.Message.maxMsgLen) (st := ⟨2⟩) (c := exSignal) (by decide +kernel)
  have f2 : (Msg.construct Gen.Message.tables (Msg.wireCodec 2) (fun _ => false) Gen.Message.maxMsgLen
      ⟨2⟩ exSignal).2.toOption.map
        (fun m => (m.raw, Gen.Message.tables.messageType m.cls, m.serial, m.expectReply, Msg.truthy (m.attrs .signature)))
      = some (exSignalBytes, 4, 2, true, false) := by decide +kernel
  rw [h2] at f2
  simp only [Except.toOption, Option.map_some, Option.some.injEq, Prod.mk.injEq] at f2
  obtain ⟨r1, t1, s1, er1, g1⟩ := f1
  obtain ⟨r2, t2, s2, er2, g2⟩ := f2
  -- the premises of the theorem
  let x1 : Sent PyVal := ⟨m1, some [], .list [.int .plain 7]⟩
  let x2 : Sent PyVal := ⟨m2, none, .none⟩
  have hrep : Code.RepFields [] [.int 7] false [.basic .i] [.int .plain 7] 0 0 := by
    refine ⟨_, _, _, _, 0, rfl, rfl, ?_, ⟨rfl, rfl, rfl⟩⟩
    simp only [Code.Rep]
    exact ⟨.i, rfl, Or.inr ⟨by decide, ⟨_, rfl⟩, rfl⟩⟩
  have hx1 : WithMsg.SentC01 Gen.Message.tables (fun _ => false) Gen.Message.maxMsgLen 2 x1 :=
    ⟨Msg.St.init Gen.Message.tables, ⟨2⟩, exCall, by decide, h1,
      Or.inr ⟨[.basic .i], .list [.int .plain 7], [.int .plain 7], [.int 7], [], [7, 0, 0, 0], rfl, rfl, rfl,
        by decide, rfl, Or.inl rfl, by decide, rfl, hrep, by simp [Code.KeysOKList, Code.KeysOK],
        by decide +kernel, by decide⟩⟩
  have hx2 : WithMsg.SentC01 Gen.Message.tables (fun _ => false) Gen.Message.maxMsgLen 2 x2 :=
    ⟨⟨2⟩, st2, exSignal, by decide, h2, Or.inl (Or.inl rfl)⟩
  have hflat : [(exCallBytes ++ exSignalBytes).take 7, ((exCallBytes ++ exSignalBytes).drop 7).take 63,
      (exCallBytes ++ exSignalBytes).drop 70].flatten = ([x1, x2].map (·.msg.raw)).flatten := by
    show _ = ([m1.raw, m2.raw] : List Bytes).flatten
    rw [r1, r2]
    decide
  obtain ⟨c1, c2, c3⟩ := delivers_parsed_messages_c01 (fun _ => false) Gen.Message.maxMsgLen (by decide) 2 okAuth
    { St.init true () with authenticated := true } [x1, x2] _ rfl rfl rfl
    (by intro x hx; simp only [List.mem_cons, List.not_mem_nil, or_false] at hx; rcases hx with rfl | rfl <;> assumption)
    hflat
  refine ⟨⟨2⟩, st2, m1, m2, h1, h2, r1, r2, ?_, ?_, c3⟩
  · rw [c1]; show [Effect.msg m1.raw, Effect.msg m2.raw] = _; rw [r1, r2]
  · have := congrArg (List.map (Except.map fun (v : Msg.View PyVal) => (v.messageType, v.serial, v.expectReply, v.body))) c2
    refine Eq.trans this ?_
    show [Except.ok (Gen.Message.tables.messageType m1.cls, m1.serial, m1.expectReply,
            if Msg.truthy (m1.attrs .signature) then some (PyVal.list [.int .plain 7]) else none),
          Except.ok (Gen.Message.tables.messageType m2.cls, m2.serial, m2.expectReply,
            if Msg.truthy (m2.attrs .signature) then some PyVal.none else none)] = _
    rw [t1, s1, er1, g1, t2, s2, er2, g2]
    rfl

/-- A body codec for the instances of the general theorems: bodies are byte strings that travel as they are. -/
def idCodec : Msg.BodyCodec Bytes where
  marshal := fun _ body fds => .ok (body.getD [], fds)
  unmarshal := fun _ raw _ _ => .ok raw

/-- `SentOK` (the premise of `delivers_parsed_messages` / `…_after_handshake`) is satisfiable: with the byte-identity
codec the hypothesis `hC` holds for EVERY constructed message, whatever the receiver's descriptor list. -/
example (na : Char → Bool) (maxLen : Nat) (st st' : Msg.St) (c : Msg.Call Bytes) (m : Msg.Msg Bytes)
    (fds : Option (List PyVal)) (hs : 1 ≤ st.nextSerial) (hsig : Msg.Main.SigNoNul c)
    (h : Msg.construct Gen.Message.tables idCodec na maxLen st c = (st', .ok m)) :
    WithMsg.SentOK Gen.Message.tables idCodec na maxLen ⟨m, fds, m.body.getD []⟩ :=
  ⟨st, st', c, hs, hsig, h, fun _ _ _ => ⟨_, _, rfl, rfl⟩⟩

/-- ... and such constructions exist: `ErrorMessage('a.E', 5, signature='ay', body=<3 bytes>)` constructs, its
signature has no NUL, and `wellFormed_of_constructed` gives the well-formedness of its frame. -/
example : ∃ st' m, Msg.construct Gen.Message.tables idCodec (fun _ => false) Gen.Message.maxMsgLen
      (Msg.St.init Gen.Message.tables)
      (.error { errorName := some "a.E".toList, replySerial := 5, signature := some "ay".toList, body := some [1, 2, 3] })
        = (st', .ok m) ∧ Spec.WellFormed m.raw := by
  obtain ⟨st', m, h⟩ := WithMsg.construct_shape (T := Gen.Message.tables) (C := idCodec) (na := fun _ => false)
    (maxLen := Gen.Message.maxMsgLen) (st := Msg.St.init Gen.Message.tables)
    (c := .error { errorName := some "a.E".toList, replySerial := 5, signature := some "ay".toList, body := some [1, 2, 3] })
    (by decide +kernel)
  refine ⟨st', m, h, wellFormed_of_constructed idCodec _ _ (by decide) _ st' _ m (by decide) ?_ h⟩
  intro sg hsg
  cases hsg
  rfl

/-! ## After review 3: the whole of `rawDBusMessageReceived` (dispatch, descriptor list, exceptions), raw parts,
constructor arguments

`recvRun` (Proto/Receive.lean) = framing, then per delivered frame `parseMessage(raw, self._receivedFDs)`, the slice
`self._receivedFDs[m.unix_fds:]`, the dispatch `mt == 1 … 4` to the four hooks; an exception of `parseMessage` escapes
`dataReceived` where the code lets it escape.  The theorems below conclude about the COMPLETE observation of every hook
call (`Handed`: which hook, the content `Msg.View`, `otherFlags`, `rawHeader` / `rawPadding` / `rawBody`).

Limits, stated once for all `delivers_parsed_messages*` / `recv_delivers_*` theorems (relative to their explicit
hypotheses they are full strength):
* SENDERS ARE txdbus's OWN CONSTRUCTORS, hence LITTLE-ENDIAN frames.  The property text says "whatever mix of byte
  orders": for the FRAMING that is `binary_partition_independent` / `frames_of_messages` (any first byte); for the
  PARSED delivery big-endian frames are covered by the correspondence stream only (C03 `parse_foreign` is not composed).
* DESCRIPTOR-FREE in the `recv_*` forms (`x.msg.attrs .unixFds = .none`: no descriptor was collected, `_receivedFDs`
  is the same list at every delivery); in the `delivers_parsed_messages*` forms the receiver's list is a FREE parameter
  per delivery (`Sent.fds`) - how `_receivedFDs[m.unix_fds:]` evolves over a run is C05's subject;  `_c01`: `oobFDs`
  None or `[]`.
* In the generic forms (`SentOK`, any `BodyCodec`) the body clause is RELATIVE TO THE CODEC: `x.decoded` is whatever
  `C.unmarshal` returns for the bytes `C.marshal` produced - nothing ties it to the body the sender passed.  The `_c01`
  forms pin it (`Code.plainList items` of the sender's `variableList`), and `recv_delivers_calls_c01` states type,
  flags, serial and every header attribute from the constructor ARGUMENTS (C03 `constructed_from_arguments` composed).
* The hooks return normally (no re-entry, no exception of a handler). -/

/-- Tie to the extracted tables: the dispatch chain of `rawDBusMessageReceived` (`hookOfType`) sends the type code of
every message class of message.py to the hook named after that class, and the type codes are those of the
specification (METHOD_CALL 1, METHOD_RETURN 2, ERROR 3, SIGNAL 4). -/
theorem dispatch_table_ok :
    (∀ cls, hookOfType (Gen.Message.tables.messageType cls) = some (Hook.ofClass cls)) ∧
    (Gen.Message.tables.messageType .methodCall = 1 ∧ Gen.Message.tables.messageType .methodReturn = 2 ∧
     Gen.Message.tables.messageType .error = 3 ∧ Gen.Message.tables.messageType .signal = 4) :=
  ⟨fun cls => by cases cls <;> decide, by decide, by decide, by decide, by decide⟩

/-- **C04 ∘ C03 with the whole of `rawDBusMessageReceived`, any codec** (`hC` carried in `SentOK`; the body clause is
relative to the codec).  Sent messages `xs` without descriptors, receiver's descriptor list `fds`, ANY cutting into
reads: `recvRun` raises nothing; its effects are exactly the frames of `xs`; EVERY MESSAGE REACHES THE HOOK OF ITS CLASS
(`methodCallReceived` for a method call, ...), each hook call once, in order, and is handed exactly the expected
content, `otherFlags = 0` and the three raw parts of the constructed message; `_receivedFDs` is unchanged; nothing
stays buffered. -/
theorem recv_delivers_sent {β : Type} (C : Msg.BodyCodec β) (na : Char → Bool) (maxLen : Nat)
    (hmax : maxLen ≤ Msg.Spec.maxMessage) (A : Auth α) (s : St α) (xs : List (Sent β)) (reads : List Bytes)
    (fds : List PyVal)
    (ha : s.authenticated = true) (hbuf : s.buffer = []) (hnext : s.nextMsgLen = 0)
    (hxs : ∀ x ∈ xs, WithMsg.SentOK Gen.Message.tables C na maxLen x)
    (hfds : ∀ x ∈ xs, x.fds = some fds) (hnofd : ∀ x ∈ xs, x.msg.attrs .unixFds = .none)
    (h : reads.flatten = (xs.map (·.msg.raw)).flatten) :
    (recvRun Gen.Message.tables C A s fds reads).2.1 = xs.map (fun x => Effect.msg x.msg.raw) ∧
    (recvRun Gen.Message.tables C A s fds reads).2.2.1.map (Except.map (handedOf Gen.Message.tables))
      = xs.map (fun x => .ok (x.handed Gen.Message.tables)) ∧
    (recvRun Gen.Message.tables C A s fds reads).2.2.2 = fds ∧
    (recvRun Gen.Message.tables C A s fds reads).1.buffer = [] := by
  have hd := delivers_parsed_messages C na maxLen hmax A s xs reads ha hbuf hnext hxs h
  have hm : msgsOf (run A s reads).2 = xs.map (·.msg.raw) := by
    have e : xs.map (fun x => Effect.msg x.msg.raw) = (xs.map (·.msg.raw)).map Effect.msg := by
      rw [List.map_map]; rfl
    rw [hd.1, e, WithMsg.msgsOf_map_msg]
  have hr := WithMsg.recvRun_sent Gen.Message.tables C A fds s reads xs hm (fun x hx =>
    WithMsg.handsOver_of_sentOK _ Msg.genTables_ok dispatch_table_ok.1 C na maxLen fds x (hxs x hx) (hfds x hx)
      (hnofd x hx))
  exact ⟨hr.2.1.trans hd.1, hr.2.2.1, hr.2.2.2, by rw [hr.1]; exact hd.2.2⟩

/-- The same with C01's codec: no hypothesis about the codec; the body handed over is C01's normal form of the body
the sender passed. -/
theorem recv_delivers_sent_c01 (na : Char → Bool) (maxLen : Nat) (hmax : maxLen ≤ Msg.Spec.maxMessage)
    (fuel : Nat) (A : Auth α) (s : St α) (xs : List (Sent PyVal)) (reads : List Bytes) (fds : List PyVal)
    (ha : s.authenticated = true) (hbuf : s.buffer = []) (hnext : s.nextMsgLen = 0)
    (hxs : ∀ x ∈ xs, WithMsg.SentC01 Gen.Message.tables na maxLen fuel x)
    (hfds : ∀ x ∈ xs, x.fds = some fds) (hnofd : ∀ x ∈ xs, x.msg.attrs .unixFds = .none)
    (h : reads.flatten = (xs.map (·.msg.raw)).flatten) :
    (recvRun Gen.Message.tables (Msg.wireCodec fuel) A s fds reads).2.1 = xs.map (fun x => Effect.msg x.msg.raw) ∧
    (recvRun Gen.Message.tables (Msg.wireCodec fuel) A s fds reads).2.2.1.map
        (Except.map (handedOf Gen.Message.tables))
      = xs.map (fun x => .ok (x.handed Gen.Message.tables)) ∧
    (recvRun Gen.Message.tables (Msg.wireCodec fuel) A s fds reads).2.2.2 = fds ∧
    (recvRun Gen.Message.tables (Msg.wireCodec fuel) A s fds reads).1.buffer = [] := by
  have hd := delivers_parsed_messages_c01 na maxLen hmax fuel A s xs reads ha hbuf hnext hxs h
  have hm : msgsOf (run A s reads).2 = xs.map (·.msg.raw) := by
    have e : xs.map (fun x => Effect.msg x.msg.raw) = (xs.map (·.msg.raw)).map Effect.msg := by
      rw [List.map_map]; rfl
    rw [hd.1, e, WithMsg.msgsOf_map_msg]
  have hr := WithMsg.recvRun_sent Gen.Message.tables (Msg.wireCodec fuel) A fds s reads xs hm (fun x hx =>
    WithMsg.handsOver_of_sentC01 _ Msg.genTables_ok dispatch_table_ok.1 na maxLen fuel fds x (hxs x hx) (hfds x hx)
      (hnofd x hx))
  exact ⟨hr.2.1.trans hd.1, hr.2.2.1, hr.2.2.2, by rw [hr.1]; exact hd.2.2⟩

/-- ... behind a handshake (as `delivers_parsed_messages_after_handshake_c01`): the authenticator is handed exactly
the handshake lines, then every sent message reaches the hook of its class with the expected observation. -/
theorem recv_delivers_sent_after_handshake_c01 (na : Char → Bool) (maxLen : Nat)
    (hmax : maxLen ≤ Msg.Spec.maxMessage) (fuel : Nat) (A : Auth α) (s : St α) (hs : List Bytes) (last : Bytes)
    (xs : List (Sent PyVal)) (reads : List Bytes) (fds : List PyVal) (a1 a' : α)
    (hr : Ready s) (ha : s.authenticated = false) (hbuf : s.buffer = []) (hcl : s.closed = false)
    (hnext : s.nextMsgLen = 0)
    (hlines : ∀ l ∈ hs ++ [last], Spec.hasCRLF l = false ∧ l.length ≤ maxAuthLength)
    (hrun : authRun A s.auth hs = some a1) (hlast : A.handle a1 last = (a', .success))
    (hxs : ∀ x ∈ xs, WithMsg.SentC01 Gen.Message.tables na maxLen fuel x)
    (hfds : ∀ x ∈ xs, x.fds = some fds) (hnofd : ∀ x ∈ xs, x.msg.attrs .unixFds = .none)
    (hne : reads ≠ []) (hreads : reads.flatten = Spec.unlines (hs ++ [last]) ++ (xs.map (·.msg.raw)).flatten) :
    linesOf (recvRun Gen.Message.tables (Msg.wireCodec fuel) A s fds reads).2.1 = hs ++ [last] ∧
    msgsOf (recvRun Gen.Message.tables (Msg.wireCodec fuel) A s fds reads).2.1 = xs.map (·.msg.raw) ∧
    (recvRun Gen.Message.tables (Msg.wireCodec fuel) A s fds reads).2.2.1.map
        (Except.map (handedOf Gen.Message.tables))
      = xs.map (fun x => .ok (x.handed Gen.Message.tables)) ∧
    (recvRun Gen.Message.tables (Msg.wireCodec fuel) A s fds reads).2.2.2 = fds ∧
    (recvRun Gen.Message.tables (Msg.wireCodec fuel) A s fds reads).1.buffer = [] := by
  have hd := delivers_parsed_messages_after_handshake_c01 na maxLen hmax fuel A s hs last xs reads a1 a' hr ha hbuf hcl
    hnext hlines hrun hlast hxs hne hreads
  have hrr := WithMsg.recvRun_sent Gen.Message.tables (Msg.wireCodec fuel) A fds s reads xs hd.2.1 (fun x hx =>
    WithMsg.handsOver_of_sentC01 _ Msg.genTables_ok dispatch_table_ok.1 na maxLen fuel fds x (hxs x hx) (hfds x hx)
      (hnofd x hx))
  refine ⟨by rw [hrr.2.1]; exact hd.1, by rw [hrr.2.1]; exact hd.2.1, hrr.2.2.1, hrr.2.2.2, by rw [hrr.1]; exact hd.2.2.2⟩

/-- **... stated from the CONSTRUCTOR ARGUMENTS** (C03 `constructed_from_arguments` composed).  `ys` are constructor
calls as the sender made them (`SentCallC01`: call `y.call` made when `DBusMessage._nextSerial` stood at `y.counter ≥ 1`,
codec = C01's, premises of `parse_marshal_c01` / `parse_marshal_no_body`), without descriptors.  However the stream of
the constructed messages is cut into reads, call number k reaches the hook of the constructor that was called
(`MethodCallMessage` -> `methodCallReceived`, ...) and that hook is handed: the message type of that constructor (the
specification's code), serial = `y.counter`, the REQUESTED `expectReply` / `autoStart`, EVERY ARGUMENT UNDER ITS OWN
HEADER ATTRIBUTE and None elsewhere (`callAttr`; a constructor that stored an argument under another attribute would
break this), the body = C01's normal form of the body argument (`y.sent.decoded`, tied to `y.call.body` inside
`SentCallC01`), `otherFlags = 0`, and the raw parts of the message that was sent. -/
theorem recv_delivers_calls_c01 (na : Char → Bool) (maxLen : Nat) (hmax : maxLen ≤ Msg.Spec.maxMessage)
    (fuel : Nat) (A : Auth α) (s : St α) (ys : List (SentCall PyVal)) (reads : List Bytes) (fds : List PyVal)
    (ha : s.authenticated = true) (hbuf : s.buffer = []) (hnext : s.nextMsgLen = 0)
    (hys : ∀ y ∈ ys, WithMsg.SentCallC01 Gen.Message.tables na maxLen fuel y)
    (hfds : ∀ y ∈ ys, y.sent.fds = some fds) (hnofd : ∀ y ∈ ys, y.sent.msg.attrs .unixFds = .none)
    (h : reads.flatten = (ys.map (·.sent.msg.raw)).flatten) :
    (recvRun Gen.Message.tables (Msg.wireCodec fuel) A s fds reads).2.1 = ys.map (fun y => Effect.msg y.sent.msg.raw) ∧
    (recvRun Gen.Message.tables (Msg.wireCodec fuel) A s fds reads).2.2.1.map
        (Except.map (handedOf Gen.Message.tables))
      = ys.map (fun y => .ok y.handed) ∧
    (recvRun Gen.Message.tables (Msg.wireCodec fuel) A s fds reads).2.2.2 = fds ∧
    (recvRun Gen.Message.tables (Msg.wireCodec fuel) A s fds reads).1.buffer = [] := by
  have hmem : ∀ x ∈ ys.map (·.sent), ∃ y ∈ ys, y.sent = x := fun x hx => by
    obtain ⟨y, hy, rfl⟩ := List.mem_map.1 hx; exact ⟨y, hy, rfl⟩
  have hd := recv_delivers_sent_c01 na maxLen hmax fuel A s (ys.map (·.sent)) reads fds ha hbuf hnext
    (fun x hx => by obtain ⟨y, hy, rfl⟩ := hmem x hx; exact WithMsg.sentC01_of_sentCallC01 _ na maxLen fuel y (hys y hy))
    (fun x hx => by obtain ⟨y, hy, rfl⟩ := hmem x hx; exact hfds y hy)
    (fun x hx => by obtain ⟨y, hy, rfl⟩ := hmem x hx; exact hnofd y hy)
    (by rw [List.map_map]; exact h)
  rw [List.map_map, List.map_map] at hd
  refine ⟨hd.1, ?_, hd.2.2⟩
  rw [hd.2.1]
  apply List.map_congr_left
  intro y hy
  obtain ⟨st', _, hc, _⟩ := hys y hy
  show Except.ok (y.sent.handed Gen.Message.tables) = Except.ok y.handed
  rw [WithMsg.handed_eq_of_call _ Msg.genTables_ok dispatch_table_ok.2 (Msg.wireCodec fuel) na maxLen y st' hc]

/-! ### Instances of the remaining composed theorems (review 3, F5) -/

/-- The shared premise of the instances below: `exCall` as the first message of a process constructs (C01's codec) a
message with the 60 bytes `exCallBytes`, without descriptors, and satisfies `SentCallC01` - hence `SentC01`. -/
theorem exCall_sent : ∃ m1 : Msg.Msg PyVal,
    Msg.construct Gen.Message.tables (Msg.wireCodec 2) (fun _ => false) Gen.Message.maxMsgLen ⟨1⟩ exCall
      = (⟨2⟩, .ok m1) ∧
    m1.raw = exCallBytes ∧ m1.attrs .unixFds = .none ∧
    WithMsg.SentCallC01 Gen.Message.tables (fun _ => false) Gen.Message.maxMsgLen 2
      ⟨1, exCall, ⟨m1, some [], .list [.int .plain 7]⟩⟩ := by
  obtain ⟨st1, m1, h1⟩ := WithMsg.construct_shape (T := Gen.Message.tables) (C := Msg.wireCodec 2)
    (na := fun _ => false) (maxLen := Gen.Message.maxMsgLen) (st := ⟨1⟩) (c := exCall) (by decide +kernel)
  have e1 : (Msg.construct Gen.Message.tables (Msg.wireCodec 2) (fun _ => false) Gen.Message.maxMsgLen
      ⟨1⟩ exCall).1 = ⟨2⟩ := by decide +kernel
  have f1 : (Msg.construct Gen.Message.tables (Msg.wireCodec 2) (fun _ => false) Gen.Message.maxMsgLen
      ⟨1⟩ exCall).2.toOption.map (fun m => (m.raw, Msg.isNone (m.attrs .unixFds)))
      = some (exCallBytes, true) := by decide +kernel
  rw [h1] at e1 f1
  simp only [Except.toOption, Option.map_some, Option.some.injEq, Prod.mk.injEq] at e1 f1
  subst e1
  have hnone : m1.attrs .unixFds = .none := by
    have := f1.2
    cases hv : m1.attrs .unixFds <;> rw [hv] at this <;> first | rfl | cases this
  have hrep : Code.RepFields [] [.int 7] false [.basic .i] [.int .plain 7] 0 0 := by
    refine ⟨_, _, _, _, 0, rfl, rfl, ?_, ⟨rfl, rfl, rfl⟩⟩
    simp only [Code.Rep]
    exact ⟨.i, rfl, Or.inr ⟨by decide, ⟨_, rfl⟩, rfl⟩⟩
  exact ⟨m1, h1, f1.1, hnone, ⟨2⟩, Nat.le_refl 1, h1,
    Or.inr ⟨[.basic .i], .list [.int .plain 7], [.int .plain 7], [.int 7], [], [7, 0, 0, 0], rfl, rfl, rfl,
      by decide, rfl, Or.inl rfl, by decide, rfl, hrep, by simp [Code.KeysOKList, Code.KeysOK],
      by decide +kernel, by decide⟩⟩

/-- `delivers_parsed_messages` ITSELF (any codec, `hC` carried): `ErrorMessage('a.E', 5, signature='ay', body=<3 bytes>)`
with the byte-identity codec, its frame cut after byte 10 (inside the fixed header) and an empty read in between. -/
example : ∃ st' m, Msg.construct Gen.Message.tables idCodec (fun _ => false) Gen.Message.maxMsgLen
      (Msg.St.init Gen.Message.tables)
      (.error { errorName := some "a.E".toList, replySerial := 5, signature := some "ay".toList, body := some [1, 2, 3] })
        = (st', .ok m) ∧
    (run okAuth { St.init true () with authenticated := true } [m.raw.take 10, [], m.raw.drop 10]).2 = [.msg m.raw] ∧
    (parseFrames Gen.Message.tables idCodec
        (msgsOf (run okAuth { St.init true () with authenticated := true } [m.raw.take 10, [], m.raw.drop 10]).2)
        [none]).map (Except.map (Msg.Msg.view Gen.Message.tables))
      = [.ok (Sent.expected Gen.Message.tables ⟨m, none, m.body.getD []⟩)] := by
  obtain ⟨st', m, h⟩ := WithMsg.construct_shape (T := Gen.Message.tables) (C := idCodec) (na := fun _ => false)
    (maxLen := Gen.Message.maxMsgLen) (st := Msg.St.init Gen.Message.tables)
    (c := .error { errorName := some "a.E".toList, replySerial := 5, signature := some "ay".toList, body := some [1, 2, 3] })
    (by decide +kernel)
  have hs : Msg.Main.SigNoNul (β := Bytes)
      (.error { errorName := some "a.E".toList, replySerial := 5, signature := some "ay".toList, body := some [1, 2, 3] }) := by
    intro sg hsg; cases hsg; rfl
  have hd := delivers_parsed_messages idCodec (fun _ => false) Gen.Message.maxMsgLen (by decide) okAuth
    { St.init true () with authenticated := true } [⟨m, none, m.body.getD []⟩] [m.raw.take 10, [], m.raw.drop 10]
    rfl rfl rfl
    (by intro x hx
        simp only [List.mem_cons, List.not_mem_nil, or_false] at hx
        subst hx
        exact ⟨_, st', _, by decide, hs, h, fun _ _ _ => ⟨_, _, rfl, rfl⟩⟩)
    (by simp)
  exact ⟨st', m, h, hd.1, hd.2.1⟩

/-- `delivers_parsed_messages_after_handshake_c01` and `recv_delivers_sent_after_handshake_c01`: `BEGIN` CR LF followed
by the frame of `exCall`, cut BETWEEN CR AND LF of the handshake line (the LF shares a read with the whole message):
the authenticator gets `BEGIN`, `methodCallReceived` gets the call with body `[7]`. -/
example : ∃ m1 : Msg.Msg PyVal, m1.raw = exCallBytes ∧
    linesOf (run okAuth (St.init true ()) [beginLine ++ [13], 10 :: exCallBytes]).2 = [beginLine] ∧
    msgsOf (run okAuth (St.init true ()) [beginLine ++ [13], 10 :: exCallBytes]).2 = [exCallBytes] ∧
    (parseFrames Gen.Message.tables (Msg.wireCodec 2)
        (msgsOf (run okAuth (St.init true ()) [beginLine ++ [13], 10 :: exCallBytes]).2) [some []]).map
        (Except.map (Msg.Msg.view Gen.Message.tables))
      = [.ok (Sent.expected Gen.Message.tables ⟨m1, some [], .list [.int .plain 7]⟩)] ∧
    (recvRun Gen.Message.tables (Msg.wireCodec 2) okAuth (St.init true ()) []
        [beginLine ++ [13], 10 :: exCallBytes]).2.2.1.map (Except.map (handedOf Gen.Message.tables))
      = [.ok (Sent.handed Gen.Message.tables ⟨m1, some [], .list [.int .plain 7]⟩)] := by
  obtain ⟨m1, _, hraw, hnone, hy⟩ := exCall_sent
  have hx := WithMsg.sentC01_of_sentCallC01 _ _ _ _ _ hy
  have hreads : [beginLine ++ [13], 10 :: exCallBytes].flatten
      = Spec.unlines ([] ++ [beginLine]) ++ ([(⟨m1, some [], .list [.int .plain 7]⟩ : Sent PyVal)].map (·.msg.raw)).flatten := by
    show _ = _ ++ ([m1.raw] : List Bytes).flatten
    rw [hraw]; decide
  have hd := delivers_parsed_messages_after_handshake_c01 (fun _ => false) Gen.Message.maxMsgLen (by decide) 2 okAuth
    (St.init true ()) [] beginLine [⟨m1, some [], .list [.int .plain 7]⟩] _ () () (Or.inl rfl) rfl rfl rfl rfl
    (by decide) rfl rfl
    (by intro x hx'; simp only [List.mem_cons, List.not_mem_nil, or_false] at hx'; subst hx'; exact hx)
    (by simp) hreads
  have hr := recv_delivers_sent_after_handshake_c01 (fun _ => false) Gen.Message.maxMsgLen (by decide) 2 okAuth
    (St.init true ()) [] beginLine [⟨m1, some [], .list [.int .plain 7]⟩] _ [] () () (Or.inl rfl) rfl rfl rfl rfl
    (by decide) rfl rfl
    (by intro x hx'; simp only [List.mem_cons, List.not_mem_nil, or_false] at hx'; subst hx'; exact hx)
    (by intro x hx'; simp only [List.mem_cons, List.not_mem_nil, or_false] at hx'; subst hx'; rfl)
    (by intro x hx'; simp only [List.mem_cons, List.not_mem_nil, or_false] at hx'; subst hx'; exact hnone)
    (by simp) hreads
  refine ⟨m1, hraw, hd.1, ?_, hd.2.2.1, hr.2.2.1⟩
  rw [hd.2.1]; show [m1.raw] = _; rw [hraw]

/-- `receive_delivers_sent_c01` and `recv_delivers_calls_c01` on `exCall`, frame cut after bytes 7 and 30, receiver's
descriptor list `[]`.  The second conclusion is stated FROM THE ARGUMENTS of the constructor call: the hook is
`methodCallReceived`; it is handed type 1, serial 1 (the counter), path '/a', member 'm', signature 'i', no interface /
destination / sender / error name / reply serial, both flags True, body `[7]`, `otherFlags = 0`. -/
example :
    (receive Gen.Message.tables (Msg.wireCodec 2) okAuth { St.init true () with authenticated := true }
        [exCallBytes.take 7, (exCallBytes.drop 7).take 23, exCallBytes.drop 30] (some [])).2.1 = [.msg exCallBytes] ∧
    ((recvRun Gen.Message.tables (Msg.wireCodec 2) okAuth { St.init true () with authenticated := true } []
        [exCallBytes.take 7, (exCallBytes.drop 7).take 23, exCallBytes.drop 30]).2.2.1.map
        (Except.map (handedOf Gen.Message.tables))).map
        (Except.map fun h => (h.hook, h.view.messageType, h.view.serial, h.view.expectReply, h.view.autoStart,
          Msg.Attr.all.map h.view.attrs, h.view.body, h.otherFlags))
      = [.ok (some .methodCallReceived, 1, 1, true, true,
              [.str .plain "/a".toList, .none, .str .plain "m".toList, .none, .none, .none, .none,
               .str .plain "i".toList, .none],
              some (.list [.int .plain 7]), 0)] := by
  obtain ⟨m1, _, hraw, hnone, hy⟩ := exCall_sent
  have hx := WithMsg.sentC01_of_sentCallC01 _ _ _ _ _ hy
  have hflat : [exCallBytes.take 7, (exCallBytes.drop 7).take 23, exCallBytes.drop 30].flatten = exCallBytes := by decide
  have h1 := receive_delivers_sent_c01 (fun _ => false) Gen.Message.maxMsgLen (by decide) 2 okAuth
    { St.init true () with authenticated := true } [⟨m1, some [], .list [.int .plain 7]⟩]
    [exCallBytes.take 7, (exCallBytes.drop 7).take 23, exCallBytes.drop 30] (some []) rfl rfl rfl
    (by intro x hx'; simp only [List.mem_cons, List.not_mem_nil, or_false] at hx'; subst hx'; exact hx)
    (by intro x hx'; simp only [List.mem_cons, List.not_mem_nil, or_false] at hx'; subst hx'; rfl)
    (by show _ = ([m1.raw] : List Bytes).flatten; rw [hraw, hflat]; simp)
  have h2 := recv_delivers_calls_c01 (fun _ => false) Gen.Message.maxMsgLen (by decide) 2 okAuth
    { St.init true () with authenticated := true } [⟨1, exCall, ⟨m1, some [], .list [.int .plain 7]⟩⟩]
    [exCallBytes.take 7, (exCallBytes.drop 7).take 23, exCallBytes.drop 30] [] rfl rfl rfl
    (by intro y hy'; simp only [List.mem_cons, List.not_mem_nil, or_false] at hy'; subst hy'; exact hy)
    (by intro y hy'; simp only [List.mem_cons, List.not_mem_nil, or_false] at hy'; subst hy'; rfl)
    (by intro y hy'; simp only [List.mem_cons, List.not_mem_nil, or_false] at hy'; subst hy'; exact hnone)
    (by show _ = ([m1.raw] : List Bytes).flatten; rw [hraw, hflat]; simp)
  refine ⟨by rw [h1.1]; show [Effect.msg m1.raw] = _; rw [hraw], ?_⟩
  rw [h2.2.1]
  show [Except.ok (some (callHook exCall), _, _, _, _, _, _, _)] = _
  simp only [SentCall.handed, SentCall.expectedView, hnone]
  rfl

/-- A method return with header field array length 0 and no body, and the same with the unknown message type 9. -/
def badTypeMsg : Bytes := [108, 9, 0, 1, 0, 0, 0, 0, 1, 0, 0, 0, 0, 0, 0, 0]

/-- The hooks called, per delivery (none for an exception). -/
def hooksOf (r : St Unit × List Effect × List (Except PyErr (Option Hook × Msg.Msg PyVal)) × List PyVal) :
    List (Option (Option Hook)) :=
  r.2.2.1.map (fun c => c.toOption.map (·.1))

/-- `[type-9 message ++ good message, good message]`: two reads. -/
def abortRun1 := recvRun Gen.Message.tables (Msg.wireCodec 2) okAuth { St.init true () with authenticated := true } []
  [badTypeMsg ++ tinyMsg, tinyMsg]

/-- `[good ++ type-9 ++ good]`: one read. -/
def abortRun2 := recvRun Gen.Message.tables (Msg.wireCodec 2) okAuth { St.init true () with authenticated := true } []
  [tinyMsg ++ badTypeMsg ++ tinyMsg]

/-- **What `recvRun` does on a frame that does not parse** (review 3, F3; the reviewer's probe on the real code: 0 hook
calls, MarshallingError escapes `dataReceived`, the good message stays in `_buffer`, `_nextMsgLen == 0`): `[type-9 message,
good message]` in ONE read - the bad frame is delivered, the exception escapes (`crash`), the 16 bytes of the good message
stay buffered, no hook is called, the next read is not delivered; with the good message FIRST it reaches its hook
(`methodReturnReceived`) before the exception. -/
theorem recvRun_aborts_at_parse_error :
    (abortRun1.2.1 = [.msg badTypeMsg, .crash] ∧ abortRun1.1.buffer = tinyMsg ∧ abortRun1.1.nextMsgLen = 0 ∧
      hooksOf abortRun1 = [none]) ∧
    (abortRun2.2.1 = [.msg tinyMsg, .msg badTypeMsg, .crash] ∧ abortRun2.1.buffer = tinyMsg ∧
      abortRun2.1.nextMsgLen = 0 ∧ hooksOf abortRun2 = [some (some .methodReturnReceived), none]) := by
  refine ⟨⟨?_, ?_, ?_, ?_⟩, ⟨?_, ?_, ?_, ?_⟩⟩ <;> decide +kernel

/-! ## Several connections of one process (state-leak round 2026-09-30)

The statement speaks of "a connection's byte stream"; a process has many connections, served by the reactor in any
order.  `Receive.Conns.runHist` (Proto/Receive.lean) is a history of `dataReceived` calls over an indexed family of
protocol states.  `history_independent`: in ANY history, from ANY states, connection `c` ends in the state and has the
effects of `run` over its own reads alone - whatever the other connections received in between (mid-message,
mid-handshake, garbage, an over-long line that closed them, a read that raised).  So every single-connection theorem
above holds per connection of a history: `interleaved_delivers_messages_sent`,
`interleaved_delivers_messages_sent_after_handshake`.  A connection that is lost gets no further events; a connection made
afterwards is an index still at `St.init`.  In the MODEL this is by construction (`step` takes one state); that the CODE
keeps `_buffer` / `_nextMsgLen` / `_endian` / `_authenticated` / `_firstByte` per instance is what the stream
`connections-interleaved` checks against `runHist` (driver command `H`) and judges by the statement per connection. -/
section Connections
open Txdbus.Proto.Receive.Conns

theorem effectsOf_tag_same (c : Nat) (l : List Effect) (t : List (Nat × Effect)) :
    effectsOf c (l.map (fun e => (c, e)) ++ t) = l ++ effectsOf c t := by
  induction l with
  | nil => rfl
  | cons e l ih => simp [effectsOf, ih]

theorem effectsOf_tag_other (c k : Nat) (h : k ≠ c) (l : List Effect) (t : List (Nat × Effect)) :
    effectsOf c (l.map (fun e => (k, e)) ++ t) = effectsOf c t := by
  induction l with
  | nil => rfl
  | cons e l ih => simp [effectsOf, h, ih]

/-- **Connections of one process do not see each other.**  For every authenticator, every family of protocol states,
every history of reads and every connection `c`: the state of `c` after the history and the effects that happened on `c`
are those of `run` over the reads `c` was handed, from the state `c` had - nothing of the other connections' reads. -/
theorem history_independent (A : Auth α) (w : Nat → St α) (es : List Event) (c : Nat) :
    (runHist A w es).1 c = (run A (w c) (readsOf c es)).1 ∧
    effectsOf c (runHist A w es).2 = (run A (w c) (readsOf c es)).2 := by
  induction es generalizing w with
  | nil => exact ⟨rfl, rfl⟩
  | cons ev es ih =>
    obtain ⟨k, d⟩ := ev
    have h := ih (stepAt A w k d).1
    by_cases hk : k = c
    · subst hk
      have hw : (stepAt A w k d).1 k = (step A (w k) d).1 := by simp [stepAt]
      rw [hw] at h
      simp only [runHist, readsOf, if_pos, run]
      rw [effectsOf_tag_same]
      refine ⟨h.1, ?_⟩
      rw [h.2]
      rfl
    · have hw : (stepAt A w k d).1 c = w c := by
        simp only [stepAt]
        rw [if_neg (fun e => hk e.symm)]
      rw [hw] at h
      simp only [runHist, readsOf, if_neg hk]
      rw [effectsOf_tag_other c k hk]
      exact h

/-- **C04 for a connection among others, binary mode.**  Any history over any number of connections in any states;
connection `c` is authenticated with nothing buffered and is handed, cut up in ANY way and interleaved in ANY way with the
reads of the others, the well-formed messages `ms`: on `c` exactly `ms` is delivered, each once, in order, nothing stays
buffered. -/
theorem interleaved_delivers_messages_sent (A : Auth α) (w : Nat → St α) (es : List Event) (c : Nat) (ms : List Bytes)
    (ha : (w c).authenticated = true) (hbuf : (w c).buffer = []) (hnext : (w c).nextMsgLen = 0)
    (hwf : ∀ m ∈ ms, Spec.WellFormed m) (h : (readsOf c es).flatten = ms.flatten) :
    effectsOf c (runHist A w es).2 = ms.map Effect.msg ∧ ((runHist A w es).1 c).buffer = [] := by
  have hi := history_independent A w es c
  have hd := delivers_messages_sent A (w c) ms (readsOf c es) ha hbuf hnext hwf h
  rw [hi.1, hi.2]
  exact hd

/-- **C04 for a connection among others, behind its handshake.**  Connection `c` is fresh (premises of
`delivers_messages_sent_after_handshake`); its handshake and its messages `ms` arrive cut anywhere and interleaved in any
way with what the other connections receive (their handshakes, their messages, their failures): the authenticator of `c`
is handed exactly the handshake lines of `c`, exactly `ms` is delivered on `c`, nothing stays buffered. -/
theorem interleaved_delivers_messages_sent_after_handshake (A : Auth α) (w : Nat → St α) (es : List Event) (c : Nat)
    (hs : List Bytes) (last : Bytes) (ms : List Bytes) (a1 a' : α)
    (hr : Ready (w c)) (ha : (w c).authenticated = false) (hbuf : (w c).buffer = []) (hcl : (w c).closed = false)
    (hnext : (w c).nextMsgLen = 0)
    (hlines : ∀ l ∈ hs ++ [last], Spec.hasCRLF l = false ∧ l.length ≤ maxAuthLength)
    (hrun : authRun A (w c).auth hs = some a1) (hlast : A.handle a1 last = (a', .success))
    (hwf : ∀ m ∈ ms, Spec.WellFormed m)
    (hne : readsOf c es ≠ []) (hreads : (readsOf c es).flatten = Spec.unlines (hs ++ [last]) ++ ms.flatten) :
    linesOf (effectsOf c (runHist A w es).2) = hs ++ [last] ∧ msgsOf (effectsOf c (runHist A w es).2) = ms ∧
    ((runHist A w es).1 c).buffer = [] := by
  have hi := history_independent A w es c
  have hd := delivers_messages_sent_after_handshake A (w c) hs last ms (readsOf c es) a1 a' hr ha hbuf hcl hnext
    hlines hrun hlast hwf hne hreads
  rw [hi.1, hi.2]
  exact hd

/-- Instance: two connections, each sent one 16-byte message; A gets its fixed header minus one byte, then B gets the
first 8 bytes of its message, then A its last byte, then B the rest: each delivers its own message. -/
example :
    let mA : Bytes := [108, 2, 1, 1, 0, 0, 0, 0, 1, 0, 0, 0, 0, 0, 0, 0]
    let mB : Bytes := [66, 2, 1, 1, 0, 0, 0, 0, 0, 0, 0, 2, 0, 0, 0, 0]
    let w : Nat → St Unit := fun _ => { St.init true () with authenticated := true }
    let es : List Event := [(0, mA.take 15), (1, mB.take 8), (0, mA.drop 15), (1, mB.drop 8)]
    effectsOf 0 (runHist ⟨fun a _ => (a, .cont)⟩ w es).2 = [.msg mA] ∧
    effectsOf 1 (runHist ⟨fun a _ => (a, .cont)⟩ w es).2 = [.msg mB] := by
  decide +kernel

end Connections

end Txdbus.Proto

open Txdbus.Proto in
#print axioms binary_partition_independent
open Txdbus.Proto in
#print axioms binary_two_partitions
open Txdbus.Proto in
#print axioms frames_of_messages
open Txdbus.Proto in
#print axioms line_partition_independent
open Txdbus.Proto in
#print axioms line_partition_independent_server
open Txdbus.Proto in
#print axioms handoff
open Txdbus.Proto in
#print axioms delivers_messages_sent
open Txdbus.Proto in
#print axioms delivers_messages_sent_after_handshake
open Txdbus.Proto in
#print axioms handoff_server
open Txdbus.Proto in
#print axioms loop_bounded
open Txdbus.Proto in
#print axioms model_control_flow_matches_source
open Txdbus.Proto in
#print axioms prefix_recursion_depth_grows
open Txdbus.Proto in
#print axioms prefix_handoff_loses_message
open Txdbus.Proto in
#print axioms wellFormed_of_constructed
open Txdbus.Proto in
#print axioms sent_wellFormed_and_parses
open Txdbus.Proto in
#print axioms sent_wellFormed_and_parses_c01
open Txdbus.Proto in
#print axioms delivers_parsed_messages
open Txdbus.Proto in
#print axioms delivers_parsed_messages_c01
open Txdbus.Proto in
#print axioms receive_delivers_sent_c01
open Txdbus.Proto in
#print axioms delivers_parsed_messages_after_handshake
open Txdbus.Proto in
#print axioms delivers_parsed_messages_after_handshake_c01
open Txdbus.Proto in
#print axioms dispatch_table_ok
open Txdbus.Proto in
#print axioms recv_delivers_sent
open Txdbus.Proto in
#print axioms recv_delivers_sent_c01
open Txdbus.Proto in
#print axioms recv_delivers_sent_after_handshake_c01
open Txdbus.Proto in
#print axioms recv_delivers_calls_c01
open Txdbus.Proto in
#print axioms exCall_sent
open Txdbus.Proto in
#print axioms recvRun_aborts_at_parse_error
open Txdbus.Proto in
#print axioms history_independent
open Txdbus.Proto in
#print axioms interleaved_delivers_messages_sent
open Txdbus.Proto in
#print axioms interleaved_delivers_messages_sent_after_handshake
open Txdbus.Proto in
#print axioms effectsOf_tag_same
open Txdbus.Proto in
#print axioms effectsOf_tag_other
