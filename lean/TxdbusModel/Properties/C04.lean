/-! Property theorems for C04 (stub: none yet). -/
