import TxdbusModel.Proofs.Proto.Handoff
/-!
# C04 - message framing is independent of how the byte stream is split into reads

Code model: `Txdbus.Proto.step` / `run` (Proto/Framing.lean) = `BasicDBusProtocol.dataReceived`.
Spec: `Spec.frames` (Proto/FramesSpec.lean) = cut the stream at the lengths announced by the fixed
headers.  The authenticator is an arbitrary parameter `A` (any state type, any function).

Definitions used in the statements (Proofs/Proto/Handoff.lean): `Framed s` - the invariant of the
binary branch between two reads (nothing cached and fewer than 16 bytes buffered, or the cached length
is the announced length of the incomplete message at the front of the buffer); `Ready s` - a client,
or a server that has seen its NUL byte; `authRun A a hs = some a1` - the authenticator answers `cont`
to every line of `hs`, ending in state `a1`.

Theorems (for ALL states satisfying the stated invariant, ALL lists of reads of any lengths - empty
reads included -, ALL byte contents):

* `binary_partition_independent`  running the reads delivers exactly `frames (buffer ++ concatenation)`,
  each once, in order, and leaves its rest buffered (plus: two partitions of one stream give the same).
* `frames_of_messages`            the concatenation of well-formed messages (either byte order, mixed)
  is cut into exactly these messages.
* `line_partition_independent`    in every state (line mode or binary mode) the final state, the lines
  handed to the authenticator and the messages delivered depend only on the concatenation of the
  reads - including the behaviour at the 16 KiB limit; `loseConnection` may be called more than once.
* `handoff`                       handshake ++ arbitrary bytes, cut anywhere: the authenticator gets the
  handshake lines, the messages delivered are `frames rest`.
* `loop_bounded`                  one read delivers at most (buffered + read bytes) / 16 messages and
  conserves every byte (the loop of the model is a well-founded recursion on the buffer length).
* witnesses of the two repaired defects on models of the old code.
-/
namespace Txdbus.Proto
open Txdbus.Gen.ProtoConst

variable {α : Type}

/-- **C04.1**  For every list of reads (any lengths, empty reads included) delivered to a protocol
in binary mode: the effects are exactly the deliveries of `(frames (buffer ++ concatenation)).1`, in
order, each once; the rest stays buffered; the invariant holds again. -/
theorem binary_partition_independent (A : Auth α) (s : St α) (reads : List Bytes)
    (ha : s.authenticated = true) (hf : Framed s) :
    (run A s reads).2 = (Spec.frames (s.buffer ++ reads.flatten)).1.map Effect.msg ∧
    (run A s reads).1.buffer = (Spec.frames (s.buffer ++ reads.flatten)).2 ∧
    Framed (run A s reads).1 ∧ (run A s reads).1.authenticated = true := by
  cases reads with
  | nil =>
    have hn := framed_noFrame s hf
    simp only [run, List.flatten_nil, List.append_nil]
    rw [frames_unfold, if_neg hn]
    exact ⟨rfl, rfl, hf, ha⟩
  | cons d ds =>
    rw [run_flatten_binary A s d ds ha]
    have := binStep_frames s (d :: ds).flatten hf
    exact ⟨this.1, this.2.1, this.2.2, by rw [binStep_auth]; exact ha⟩

/-- Corollary in the words of the property: two ways of cutting one stream into reads deliver the same
messages and leave the same bytes buffered. -/
theorem binary_two_partitions (A : Auth α) (s : St α) (rs rs' : List Bytes)
    (ha : s.authenticated = true) (hf : Framed s) (h : rs.flatten = rs'.flatten) :
    (run A s rs).2 = (run A s rs').2 ∧ (run A s rs).1.buffer = (run A s rs').1.buffer := by
  have a := binary_partition_independent A s rs ha hf
  have b := binary_partition_independent A s rs' ha hf
  rw [h] at a
  exact ⟨a.1.trans b.1.symm, a.2.1.trans b.2.1.symm⟩

/-- **C04.2**  The concatenation of well-formed messages - the length fields of the fixed header agree
with the total length; either byte order, freely mixed - is cut into exactly these messages. -/
theorem frames_of_messages (ms : List Bytes) (h : ∀ m ∈ ms, Spec.WellFormed m) :
    Spec.frames ms.flatten = (ms, []) := by
  have := frames_flatten_wellFormed ms h []
  have hnil : Spec.frames [] = ([], []) := by
    rw [frames_unfold, if_neg (by intro hf; exact absurd hf.1 (by decide))]
  simpa [hnil] using this

/-- **C04.3**  In every state that accepts arbitrary reads (`Ready`: a client, or a server that has
seen its NUL byte; line mode or binary mode, any buffer content, any authenticator): two non-empty
lists of reads with the same concatenation end in the same state, hand the same lines to the
authenticator and deliver the same messages.  This includes lines at and over the 16 KiB limit. -/
theorem line_partition_independent (A : Auth α) (s : St α) (rs rs' : List Bytes) (hr : Ready s)
    (hne : rs ≠ []) (hne' : rs' ≠ []) (h : rs.flatten = rs'.flatten) :
    (run A s rs).1 = (run A s rs').1 ∧
    linesOf (run A s rs).2 = linesOf (run A s rs').2 ∧
    msgsOf (run A s rs).2 = msgsOf (run A s rs').2 := by
  cases rs with
  | nil => exact absurd rfl hne
  | cons d ds =>
    cases rs' with
    | nil => exact absurd rfl hne'
    | cons d' ds' =>
      have a := run_flatten A s d ds hr
      have b := run_flatten A s d' ds' hr
      rw [h] at a
      refine ⟨a.1.trans b.1.symm, ?_, ?_⟩
      · rw [← linesOf_noLose, a.2, ← b.2, linesOf_noLose]
      · rw [← msgsOf_noLose, a.2, ← b.2, msgsOf_noLose]

/-- C04.3 for a freshly connected server: the stream starts with the NUL byte, no read before it is
empty (the code indexes `data[0]`). -/
theorem line_partition_independent_server (A : Auth α) (s : St α) (d d' : Bytes) (ds ds' : List Bytes)
    (hc : s.client = false) (hfb : s.firstByte = true) (ha : s.authenticated = false)
    (h : (d :: ds).flatten = (d' :: ds').flatten) :
    (run A s ((0 :: d) :: ds)).1 = (run A s ((0 :: d') :: ds')).1 ∧
    linesOf (run A s ((0 :: d) :: ds)).2 = linesOf (run A s ((0 :: d') :: ds')).2 ∧
    msgsOf (run A s ((0 :: d) :: ds)).2 = msgsOf (run A s ((0 :: d') :: ds')).2 := by
  have e1 : run A s ((0 :: d) :: ds) = run A { s with firstByte := false } (d :: ds) := by
    rw [run_cons, run_cons, (server_first_read A s d hc hfb ha).1]
  have e2 : run A s ((0 :: d') :: ds') = run A { s with firstByte := false } (d' :: ds') := by
    rw [run_cons, run_cons, (server_first_read A s d' hc hfb ha).1]
  rw [e1, e2]
  exact line_partition_independent A _ _ _ (Or.inr rfl) (by simp) (by simp) h

/-- **C04.4**  The stream is a handshake - lines without CR LF, none over the limit, each followed by
CR LF, the authenticator reporting success after the last one and not before - followed by arbitrary
bytes `rest`.  However it is cut into reads (for instance with the final handshake line and message
bytes in one read): the authenticator receives exactly the handshake lines, the messages delivered are
`frames rest`, the rest of `rest` stays buffered, the protocol is in binary mode (invariant `Framed`).
No assumption on the content of `rest` (it may contain CR LF anywhere). -/
theorem handoff (A : Auth α) (s : St α) (hs : List Bytes) (last rest : Bytes) (reads : List Bytes) (a1 a' : α)
    (hr : Ready s) (ha : s.authenticated = false) (hbuf : s.buffer = []) (hcl : s.closed = false)
    (hnext : s.nextMsgLen = 0)
    (hlines : ∀ l ∈ hs ++ [last], Spec.hasCRLF l = false ∧ l.length ≤ maxAuthLength)
    (hrun : authRun A s.auth hs = some a1) (hlast : A.handle a1 last = (a', .success))
    (hne : reads ≠ []) (hreads : reads.flatten = Spec.unlines (hs ++ [last]) ++ rest) :
    linesOf (run A s reads).2 = hs ++ [last] ∧
    msgsOf (run A s reads).2 = (Spec.frames rest).1 ∧
    (run A s reads).1.buffer = (Spec.frames rest).2 ∧
    (run A s reads).1.authenticated = true ∧
    (run A s reads).1.closed = false ∧
    Framed (run A s reads).1 := by
  cases reads with
  | nil => exact absurd rfl hne
  | cons d ds =>
    have hrf := run_flatten A s d ds hr
    rw [hreads] at hrf
    -- the single read
    have hsp := split_unlines (hs ++ [last]) rest (fun l hl => (hlines l hl).1)
    have hone : step A s (Spec.unlines (hs ++ [last]) ++ rest) =
        lineFinish s (splitCRLF rest).2
          ⟨.success, a', false, (hs ++ [last]).map Effect.line, (splitCRLF rest).1⟩ := by
      rw [step_line A s _ ha hr, lineBody_eq, hbuf, List.nil_append, hsp, hcl,
        lineLoop_handshake A s.auth a1 a' hs last _ (fun l hl => (hlines l hl).2) hrun hlast]
    rw [lineFinish_success _ _ _ rfl] at hone
    simp only [join_split] at hone
    have hfr : Framed (handoffState s ⟨.success, a', false, (hs ++ [last]).map Effect.line, (splitCRLF rest).1⟩) := by
      refine Or.inl ⟨hnext, ?_⟩
      show ([] : Bytes).length < 16
      decide
    have hb := binStep_frames _ rest hfr
    simp only [handoffState, List.nil_append] at hb
    simp only [handoffState] at hone
    rw [hone] at hrf
    refine ⟨?_, ?_, ?_, ?_, ?_, ?_⟩
    · rw [← linesOf_noLose, hrf.2, linesOf_noLose]
      show linesOf (_ ++ _) = _
      rw [hb.1]
      exact (linesOf_lines_msgs _ _).1
    · rw [← msgsOf_noLose, hrf.2, msgsOf_noLose]
      show msgsOf (_ ++ _) = _
      rw [hb.1]
      exact (linesOf_lines_msgs _ _).2
    · rw [hrf.1]; exact hb.2.1
    · rw [hrf.1]; rfl
    · rw [hrf.1]; rfl
    · rw [hrf.1]; exact hb.2.2

/-- **C04 in one sentence, binary mode.**  The messages `ms` (well-formed for framing - which every
message `_marshal` constructs is: `wellFormed_of_layout` applied to C03 `marshal_wellformed`) are sent
back to back and the stream is cut into reads in ANY way: the receiver's effects are exactly the
deliveries of `ms`, each once, in order, and nothing stays buffered. -/
theorem delivers_messages_sent (A : Auth α) (s : St α) (ms reads : List Bytes)
    (ha : s.authenticated = true) (hbuf : s.buffer = []) (hnext : s.nextMsgLen = 0)
    (hwf : ∀ m ∈ ms, Spec.WellFormed m) (h : reads.flatten = ms.flatten) :
    (run A s reads).2 = ms.map Effect.msg ∧ (run A s reads).1.buffer = [] := by
  have hf : Framed s := Or.inl ⟨hnext, by show s.buffer.length < 16; rw [hbuf]; decide⟩
  have hb := binary_partition_independent A s reads ha hf
  rw [hbuf, List.nil_append, h, frames_of_messages ms hwf] at hb
  exact ⟨hb.1, hb.2.1⟩

/-- **C04 in one sentence, behind a handshake.**  Handshake as in `handoff`, followed by the messages
`ms`; any cutting (the first messages may share a read with the final handshake line): exactly `ms` is
delivered, in order, each once. -/
theorem delivers_messages_sent_after_handshake (A : Auth α) (s : St α) (hs : List Bytes) (last : Bytes)
    (ms reads : List Bytes) (a1 a' : α)
    (hr : Ready s) (ha : s.authenticated = false) (hbuf : s.buffer = []) (hcl : s.closed = false)
    (hnext : s.nextMsgLen = 0)
    (hlines : ∀ l ∈ hs ++ [last], Spec.hasCRLF l = false ∧ l.length ≤ maxAuthLength)
    (hrun : authRun A s.auth hs = some a1) (hlast : A.handle a1 last = (a', .success))
    (hwf : ∀ m ∈ ms, Spec.WellFormed m)
    (hne : reads ≠ []) (hreads : reads.flatten = Spec.unlines (hs ++ [last]) ++ ms.flatten) :
    linesOf (run A s reads).2 = hs ++ [last] ∧ msgsOf (run A s reads).2 = ms ∧
    (run A s reads).1.buffer = [] := by
  have h := handoff A s hs last ms.flatten reads a1 a' hr ha hbuf hcl hnext hlines hrun hlast hne hreads
  rw [frames_of_messages ms hwf] at h
  exact ⟨h.1, h.2.1, h.2.2.1⟩

/-- C04.4 for a freshly connected server (NUL byte first, first read not empty). -/
theorem handoff_server (A : Auth α) (s : St α) (hs : List Bytes) (last rest d : Bytes) (ds : List Bytes)
    (a1 a' : α)
    (hc : s.client = false) (hfb : s.firstByte = true)
    (ha : s.authenticated = false) (hbuf : s.buffer = []) (hcl : s.closed = false)
    (hnext : s.nextMsgLen = 0)
    (hlines : ∀ l ∈ hs ++ [last], Spec.hasCRLF l = false ∧ l.length ≤ maxAuthLength)
    (hrun : authRun A s.auth hs = some a1) (hlast : A.handle a1 last = (a', .success))
    (hreads : (d :: ds).flatten = Spec.unlines (hs ++ [last]) ++ rest) :
    linesOf (run A s ((0 :: d) :: ds)).2 = hs ++ [last] ∧
    msgsOf (run A s ((0 :: d) :: ds)).2 = (Spec.frames rest).1 ∧
    (run A s ((0 :: d) :: ds)).1.buffer = (Spec.frames rest).2 ∧
    (run A s ((0 :: d) :: ds)).1.authenticated = true ∧
    (run A s ((0 :: d) :: ds)).1.closed = false ∧
    Framed (run A s ((0 :: d) :: ds)).1 := by
  have e1 : run A s ((0 :: d) :: ds) = run A { s with firstByte := false } (d :: ds) := by
    rw [run_cons, run_cons, (server_first_read A s d hc hfb ha).1]
  rw [e1]
  exact handoff A { s with firstByte := false } hs last rest (d :: ds) a1 a' (Or.inr rfl) ha hbuf hcl hnext
    hlines hrun hlast (by simp) hreads

/-- **C04.5**  The binary branch is a loop (well-founded recursion on the buffer length in the model:
every delivered message removes its own length, at least 16 bytes).  One read delivers at most
(buffered + read bytes) / 16 messages, every delivered message has at least 16 bytes, and no byte is
lost, duplicated or reordered: the delivered messages followed by the new buffer are the old buffer
followed by the read. -/
theorem loop_bounded (A : Auth α) (s : St α) (d : Bytes) (ha : s.authenticated = true) (hf : Framed s) :
    (msgsOf (step A s d).2).length * 16 ≤ s.buffer.length + d.length ∧
    (∀ m ∈ msgsOf (step A s d).2, 16 ≤ m.length) ∧
    (msgsOf (step A s d).2).flatten ++ (step A s d).1.buffer = s.buffer ++ d := by
  rw [step_auth A s d ha]
  have hb := binStep_frames s d hf
  have hm : msgsOf (binStep s d).2 = (Spec.frames (s.buffer ++ d)).1 := by
    rw [hb.1]
    have := (linesOf_lines_msgs [] (Spec.frames (s.buffer ++ d)).1).2
    simpa using this
  rw [hm, hb.2.1]
  have hlen := frames_len (s.buffer ++ d)
  have hcons := frames_conserve (s.buffer ++ d)
  refine ⟨?_, hlen, hcons⟩
  -- count * 16 ≤ total length
  have key : ∀ (ms : List Bytes), (∀ m ∈ ms, 16 ≤ m.length) → ms.length * 16 ≤ ms.flatten.length := by
    intro ms
    induction ms with
    | nil => intro _; simp
    | cons m t ih =>
      intro h
      have h1 := h m (by simp)
      have h2 := ih (fun x hx => h x (by simp [hx]))
      simp only [List.length_cons, List.flatten_cons, List.length_append]
      omega
  have h1 := key _ hlen
  have h2 : ((Spec.frames (s.buffer ++ d)).1.flatten ++ (Spec.frames (s.buffer ++ d)).2).length
      = (s.buffer ++ d).length := by rw [hcons]
  simp only [List.length_append] at h2
  omega

/-- **Tie to the source (control flow).**  Three facts of `dataReceived` that the model mirrors by
hand and that no constant captures are measured on the running code by tools/tables/c04_proto.py on
every run: the binary branch is a loop (more coalesced messages than the interpreter allows nested
calls are delivered - `binLoop`), the hand-off re-joins exactly the bytes that follow the final line
(`lines[lineno + 1:] + [buffer]` - `lineFinish`), and the remainder length check is not applied to
message bytes behind the final line (`for ... else` position - `lineFinish`, case `done` only).  A
fourth fact is read from the AST: `dataReceived` does not mention `MAX_MSG_LENGTH` at all - the framing
model has no size limit, so code that starts to apply one while framing breaks this theorem (and is
exercised at a scaled-down limit by the harness stream `limit-scaled`). -/
theorem model_control_flow_matches_source :
    binaryBranchIterates = true ∧ handoffRejoinsRest = true ∧ remainderCheckAfterLoop = true ∧
    dataReceivedUsesMaxMsgLength = false := by decide

/-! ## Witnesses: the models of the code before the repairs violate the property -/

/-- A 16-byte message (little endian, no header fields, no body). -/
def tinyMsg : Bytes := [108, 2, 0, 1, 0, 0, 0, 0, 1, 0, 0, 0, 0, 0, 0, 0]

/-- Before c1e0b2e: three messages in one read nest three calls of `dataReceived` - one Python frame
per coalesced message (F2; the harness replays 1,500 messages: RecursionError). -/
theorem prefix_recursion_depth_grows :
    (binRecOld 10 (tinyMsg ++ tinyMsg ++ tinyMsg) 0 false 1).map (fun r => (r.2.1.length, r.2.2)) = some (3, 3) := by
  decide

/-- `BEGIN` -/
def beginLine : Bytes := [66, 69, 71, 73, 78]

/-- A 24-byte message whose serial is 2573 = 0x0A0D: its bytes contain CR LF. -/
def crlfMsg : Bytes :=
  [108, 2, 0, 1, 0, 0, 0, 0, 13, 10, 0, 0, 8, 0, 0, 0, 5, 1, 117, 0, 1, 0, 0, 0]

/-- The authenticator that reports success on its first line. -/
def okAuth : Auth Unit := ⟨fun _ _ => ((), .success)⟩

/-- Before 4e9e31b: `BEGIN\r\n` and a message containing 0d 0a in one read - the message bytes are cut
at the CR LF, the fragment goes to the discarded authenticator (AttributeError), no message is
delivered (F3). -/
theorem prefix_handoff_loses_message :
    lineBodyOld okAuth (St.init true ()) (beginLine ++ [13, 10] ++ crlfMsg) = [.line beginLine, .crash] := by
  decide

/-! ## The hypotheses are satisfiable -/

example : Framed (α := Unit) { St.init true () with authenticated := true } := Or.inl ⟨rfl, by decide⟩

example : Spec.WellFormed tinyMsg ∧ Spec.WellFormed crlfMsg := by decide

/-- a big-endian message (method return, reply serial 1, body `u` 7) -/
example : Spec.WellFormed
    [66, 2, 0, 1, 0, 0, 0, 4, 0, 0, 0, 9, 0, 0, 0, 15, 5, 1, 117, 0, 0, 0, 0, 1, 8, 1, 103, 0, 1, 117, 0, 0,
     0, 0, 0, 7] := by decide

/-- the repaired code on the F3 input, cut between CR and LF of the final handshake line -/
example : msgsOf (run okAuth (St.init true ()) [beginLine ++ [13], 10 :: crlfMsg]).2 = (Spec.frames crlfMsg).1 :=
  (handoff okAuth (St.init true ()) [] beginLine crlfMsg _ () () (Or.inl rfl) rfl rfl rfl rfl
    (by decide) rfl rfl (by simp) (by decide)).2.1

end Txdbus.Proto

open Txdbus.Proto in
#print axioms binary_partition_independent
open Txdbus.Proto in
#print axioms binary_two_partitions
open Txdbus.Proto in
#print axioms frames_of_messages
open Txdbus.Proto in
#print axioms line_partition_independent
open Txdbus.Proto in
#print axioms line_partition_independent_server
open Txdbus.Proto in
#print axioms handoff
open Txdbus.Proto in
#print axioms delivers_messages_sent
open Txdbus.Proto in
#print axioms delivers_messages_sent_after_handshake
open Txdbus.Proto in
#print axioms handoff_server
open Txdbus.Proto in
#print axioms loop_bounded
open Txdbus.Proto in
#print axioms model_control_flow_matches_source
open Txdbus.Proto in
#print axioms prefix_recursion_depth_grows
open Txdbus.Proto in
#print axioms prefix_handoff_loses_message
