/-! Property theorems for C14 (stub: none yet). -/
