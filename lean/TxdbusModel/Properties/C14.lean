import TxdbusModel.Proofs.Bus.RouteMain
import TxdbusModel.Proofs.Bus.RouteFull
import TxdbusModel.Proofs.Bus.RouteSim
import TxdbusModel.Properties.C12
import TxdbusModel.Gen.Route
/-!
# C14 - the built-in bus delivers each message to the right peer with the true sender

Property theorems about the code model `TxdbusModel/Bus/Route.lean` (the routing part of
`txdbus/bus.py` as repaired: F21 unicast messages are not routed through the match rules, F22
AddMatch records the rule id on the connection).  All theorems quantify over **every** history of
events (connects, messages with arbitrary content from any connection, disconnects, any name-table
effects - no bound on the number of connections, names, rules or steps) and over **every** rule
predicate `cfg.holds`; the state they speak about is the one the model reaches from the empty bus,
`final cfg State.init h`.

Vocabulary (Bus/RouteSpec.lean): `allocated` - the (connection, name) pairs handed out, in order;
`nameOf s j` - unique name of connection `j`; `Live s j` - `j` is connected; `Owns s j d` - `j` owns
destination name `d` (unique name of a live connection / head of the name table for a well-known
name); `Addressed m d` - `m` has destination `d`, non-empty and not the bus; `withSender`,
`eraseSender`; `arrivedFrom`, `sentTo`; `heldAfter h` - who holds which rule after history `h`,
computed from the history alone.
-/
namespace Txdbus.BusRoute

variable {ρ : Type}

/-! ## 1. unique names -/

/-- Every allocated name is `':1.n'`, and the n-th allocation gets `n` (1, 2, 3, ... strictly
increasing by one), whatever else happened in between (disconnects included). -/
theorem unique_names_fresh (cfg : Cfg ρ) (hr : cfg.Repaired) (h : List (Event ρ)) :
    (allocated (exec cfg State.init h)).map (·.2) =
      (List.range' 1 (allocated (exec cfg State.init h)).length).map uniqueNameOf :=
  allocated_from hr Inv.init h

/-- No name is ever handed out twice; two connections - connected or gone - never have the same
name; a connection's name is the one it was allocated and it keeps it for ever. -/
theorem unique_names_never_reused (cfg : Cfg ρ) (hr : cfg.Repaired) (h : List (Event ρ)) :
    ((allocated (exec cfg State.init h)).map (·.2)).Nodup ∧
    (∀ j j' n, nameOf (final cfg State.init h) j = some n → nameOf (final cfg State.init h) j' = some n → j = j') ∧
    (∀ j n, nameOf (final cfg State.init h) j = some n ↔ (j, n) ∈ allocated (exec cfg State.init h)) ∧
    (∀ h' j n, nameOf (final cfg State.init h) j = some n → nameOf (final cfg State.init (h ++ h')) j = some n) := by
  have inv := final_inv hr (Inv.init (ρ := ρ)) h
  refine ⟨?_, inv.names_inj, ?_, ?_⟩
  · rw [unique_names_fresh cfg hr h]
    exact List.Pairwise.map _ (fun a b hab e => hab (uniqueNameOf_injective e)) List.nodup_range'
  · intro j n
    rw [name_iff_allocated hr Inv.init h j n]
    simp [nameOf, State.init]
  · intro h' j n hn
    rw [final_append, name_iff_allocated hr inv h' j n]
    exact Or.inl hn

/-! ## 2. unicast -/

/-- A message with a destination other than the bus, sent by a live connection `i`: the step's
deliveries are exactly one - to the connection owning the destination at that step, carrying the
message as re-marshalled by the bus under `i`'s unique name (`remarshal`, see section 3) - or none at all
when nobody owns the name.  Nothing else is delivered to anybody in that step. -/
theorem unicast_exact (cfg : Cfg ρ) (hr : cfg.Repaired) (h : List (Event ρ)) (i : ConnId) (m : Msg)
    (op : BusOp ρ) (d : Name) (ha : Addressed m d) (hl : Live (final cfg State.init h) i) :
    let r := step cfg (final cfg State.init h) (.msg i m op)
    ∃ n, nameOf r.1 i = some n ∧
    (∀ j, Owns r.1 j d → r.2.deliveries = [⟨j, .fwd i (remarshal m n)⟩]) ∧
    ((∀ j, ¬ Owns r.1 j d) → r.2.deliveries = []) :=
  unicast_exact_from hr (final_inv hr Inv.init h) i m op d ha hl

/-- At most one connection owns a destination name (so "the owner" above is well defined); the
owner of a unique name is connected. -/
theorem owner_unique (cfg : Cfg ρ) (hr : cfg.Repaired) (h : List (Event ρ)) (d : Name) (j j' : ConnId)
    (hj : Owns (final cfg State.init h) j d) (hj' : Owns (final cfg State.init h) j' d) : j = j' :=
  owns_unique (final_inv hr Inv.init h) d j j' hj hj'

/-! ## 3. the sender is the true one, everything else is unchanged -/

/-- Every forwarded or routed message that any connection receives in any step is the message of
that step's event, sent by the connection `o` the delivery is attributed to, after the bus's parse +
re-marshal step (`remarshal`, which mirrors `parseMessage`, `msg.sender = uniqueName`,
`_marshal(False, rawBody=...)` against the per-class header tables generated from message.py) under the
unique name that was ALLOCATED to `o` - whatever the originator wrote in the sender field. -/
theorem sender_is_true (cfg : Cfg ρ) (hr : cfg.Repaired) (h : List (Event ρ)) (e : Event ρ) (dl : Delivery)
    (hdl : dl ∈ (step cfg (final cfg State.init h) e).2.deliveries) (o : ConnId) (m' : Msg)
    (hw : dl.what = .fwd o m') :
    ∃ m op n, e = .msg o m op ∧ m' = remarshal m n ∧ m'.sender = some n ∧
      (o, n) ∈ allocated (exec cfg State.init (h ++ [e])) := by
  obtain ⟨m, op, n, he, hn, hm⟩ := sender_is_true_from hr (final_inv hr Inv.init h) e dl hdl o m' hw
  refine ⟨m, op, n, he, hm, by rw [hm]; exact remarshal_sender m n, ?_⟩
  have := (name_iff_allocated hr (Inv.init (ρ := ρ)) (h ++ [e]) o n).mp (by
    rw [final_append]; exact hn)
  rcases this with h0 | h1
  · simp [nameOf, State.init] at h0
  · exact h1

/-- What the re-marshalling keeps, for EVERY message: type, serial, all three parts of the flags byte,
destination, body (bytes and byte order); the sender becomes the given name. -/
theorem remarshal_keeps (m : Msg) (n : Name) :
    (remarshal m n).mtype = m.mtype ∧ (remarshal m n).serial = m.serial ∧
    (remarshal m n).noReply = m.noReply ∧ (remarshal m n).noAutoStart = m.noAutoStart ∧
    (remarshal m n).otherFlags = m.otherFlags ∧ (remarshal m n).dest = m.dest ∧
    (remarshal m n).body = m.body ∧ (remarshal m n).sender = some n :=
  ⟨rfl, rfl, rfl, rfl, rfl, remarshal_dest m n, rfl, remarshal_sender m n⟩

/-- "Unchanged except the sender": for a message that carries only the header fields the DBus
specification lists for its type (the per-class tables) and no field with an unknown code, the
re-marshalled message differs from the original in the sender field and in nothing else. -/
theorem unchanged_except_sender (m : Msg) (n : Name) (hc : Canonical m) :
    remarshal m n = withSender m (some n) :=
  remarshal_canonical m n hc

/-- ... and for other messages it does not hold (known finding `forward-drops-unknown-header-fields`):
a method return that also carries PATH and an unknown header field loses both. -/
theorem remarshal_drops_extra_fields :
    let m : Msg := { mtype := .ret, serial := 12, noReply := false, noAutoStart := false, otherFlags := 4,
                     path := some "/p".toList, iface := none, member := none, errorName := none,
                     replySerial := some 3, dest := some ":1.2".toList, sender := none,
                     extra := "20:u".toList, body := "s:tok".toList }
    (remarshal m ":1.1".toList).path = none ∧ (remarshal m ":1.1".toList).extra = [] ∧
    (remarshal m ":1.1".toList).otherFlags = 4 ∧ ¬ Canonical m := by
  refine ⟨by decide, by decide, by decide, ?_⟩
  intro h
  exact absurd h.1 (by decide)

/-! ## 4. order -/

/-- For every connection `i` and destination `d`: the forwarded messages from `i` for `d`, in the
order in which they were delivered over the whole history, are - up to the sender field - a
subsequence of (the wire forms of) the messages `i` sent to `d`, in the order sent: nothing is
reordered, nothing is duplicated.  `wireForm m = eraseSender m` for canonical messages. -/
theorem order_preserved (cfg : Cfg ρ) (hr : cfg.Repaired) (h : List (Event ρ)) (i : ConnId) (d : Name)
    (hd : d ≠ []) :
    List.Sublist ((arrivedFrom i d (exec cfg State.init h)).map eraseSender)
      ((sentTo i d h).map wireForm) :=
  arrived_sublist_sent hr Inv.init h i d hd

/-! ## 5. messages addressed to the bus -/

/-- A message addressed to the bus itself is forwarded to nobody.  If it is a method call the bus
answers it - exactly one reply, to the caller, carrying the call's serial - when it is the
connection's first Hello, when the dispatch answers regardless of flags, or when a reply is
expected; otherwise (no-reply flag) there is no reply.  The reply of the Hello short-cut goes to the
caller and its body is the caller's own (allocated) unique name. -/
theorem bus_calls_answered_not_forwarded (cfg : Cfg ρ) (hr : cfg.Repaired) (h : List (Event ρ)) (i : ConnId)
    (m : Msg) (op : BusOp ρ) (hd : m.dest = some busName) (hl : Live (final cfg State.init h) i) :
    let s := final cfg State.init h
    let r := step cfg s (.msg i m op)
    (∀ dl ∈ r.2.deliveries, dl.what.isFwd = false) ∧
    r.2.deliveries.filterMap replyOf = (if answered (helloCalled s i) m op then [(i, m.serial)] else []) ∧
    (∀ dl ∈ r.2.deliveries, ∀ j nm, helloNameOf dl = some (j, nm) → j = i ∧ nameOf r.1 i = some nm) :=
  bus_calls_from hr (final_inv hr Inv.init h) i m op hd hl

/-- `connectionLost` always completes: in no reachable state does `clientDisconnected` hit a missing
rule id or a missing client-table entry (the KeyError that would leave the name in `Bus.clients`). -/
theorem disconnect_completes (cfg : Cfg ρ) (hr : cfg.Repaired) (h : List (Event ρ)) (i : ConnId)
    (effs : List Effect) :
    (step cfg (final cfg State.init h) (.disconnect i effs)).2.raised = false := by
  have inv := final_inv hr (Inv.init (ρ := ρ)) h
  show (stepDisconnect cfg (final cfg State.init h) i effs).2.raised = false
  cases hc : (final cfg State.init h).conns[i]? with
  | none => simp [stepDisconnect, hc]
  | some c =>
    by_cases hconn : c.isConnected = false
    · simp [stepDisconnect, hc, hconn]
    · have hconn' : c.isConnected = true := by simpa using hconn
      exact (stepDisconnect_fields cfg _ i effs c hc hconn' (disconnectOk_of_inv inv i c hc hconn')).2.2.2.2.2.2.2

/-! ## 6. broadcast -/

/-- The router's table is, after every history, exactly the rules of the AddMatch calls processed so
far minus those of connections that disconnected (`heldAfter`, a function of the history alone), and
every holder is connected. -/
theorem rules_held_by_connected_clients (cfg : Cfg ρ) (hr : cfg.Repaired) (h : List (Event ρ))
    (wf : ∀ e ∈ h, e.wf) :
    heldBy (final cfg State.init h) = heldAfter h ∧
    ∀ j r, (j, r) ∈ heldAfter h → Live (final cfg State.init h) j := by
  have sim := Sim.run hr Inv.init Sim.init h wf
  have e : heldBy (final cfg State.init h) = heldAfter h := sim.2.symm
  refine ⟨e, fun j r hjr => ?_⟩
  rw [← e] at hjr
  exact held_live (final_inv hr Inv.init h) j r hjr

/-- A message without destination (a broadcast signal) sent by a live connection `i`: the deliveries
of the step are one copy per held rule that matches the message object (all parsed attributes, true
sender - what `Rule.match` looks at), to the rule's holder, in registration order; hence connection `j` receives the signal iff
it is connected and holds a matching rule. -/
theorem broadcast_exact (cfg : Cfg ρ) (hr : cfg.Repaired) (h : List (Event ρ)) (wf : ∀ e ∈ h, e.wf)
    (i : ConnId) (m : Msg) (op : BusOp ρ) (hd : truthy m.dest = false) (hl : Live (final cfg State.init h) i) :
    let r := step cfg (final cfg State.init h) (.msg i m op)
    ∃ n, nameOf r.1 i = some n ∧
    r.2.deliveries = ((heldAfter h).filter (fun e => cfg.holds e.2 (withSender m (some n)))).map
      (fun e => ⟨e.1, .fwd i (remarshal m n)⟩) ∧
    (∀ j, (∃ dl ∈ r.2.deliveries, dl.to = j) ↔
      (Live r.1 j ∧ ∃ p, (j, p) ∈ heldAfter h ∧ cfg.holds p (withSender m (some n)) = true)) := by
  intro r
  have inv := final_inv hr (Inv.init (ρ := ρ)) h
  obtain ⟨hheld, hlive⟩ := rules_held_by_connected_clients cfg hr h wf
  obtain ⟨n, hn, hdl, hcn⟩ := broadcast_exact_from hr inv i m op hd hl
  rw [hheld] at hdl
  refine ⟨n, hn, hdl, fun j => ?_⟩
  show (∃ dl ∈ r.2.deliveries, dl.to = j) ↔ _
  rw [show r.2.deliveries = _ from hdl]
  constructor
  · rintro ⟨dl, hmem, hto⟩
    simp only [List.mem_map, List.mem_filter] at hmem
    obtain ⟨⟨j', p⟩, ⟨hin, hholds⟩, rfl⟩ := hmem
    simp only at hto
    subst hto
    refine ⟨?_, p, hin, hholds⟩
    show connected r.1 j' = true
    rw [show connected r.1 j' = connected (final cfg State.init h) j' from hcn j']
    exact hlive j' p hin
  · rintro ⟨_, p, hin, hholds⟩
    exact ⟨⟨j, .fwd i (remarshal m n)⟩, by
      simp only [List.mem_map, List.mem_filter]
      exact ⟨(j, p), ⟨hin, hholds⟩, rfl⟩, rfl⟩


/-! ## 7. the full rule language: C14 composed with C12 (extension 2026-09-30)

The router the bus routes through is the `router.MessageRouter` of C12, filled by `Bus.dbus_AddMatch`.  The
bus model is instantiated with `FullRule` (= the kwargs `dbus_AddMatch` hands to `router.addMatch`, C12's
`RuleArgs`) and the predicate `fullCfg b` = C12's code models `mkRule` and `Rule.matchWith b` on `ruleView m`
(what `Rule.match` sees of the bus's message object, true sender).  `b` says whether the router evaluates
`arg0namespace` (`false`: txdbus as found - finding `arg0namespace-constraint-ignored`; `true`: after
fixes/C14-05); the driver takes it from C12's table `Gen.Route.evaluatesArg0ns`, probed from router.py on every run
(one switch for both properties).

The matching relation of the statements is ONE fixed relation, `busSpecMatches ownerName` (Bus/RouteFullSpec.lean):
C12's `Spec.specMatchesFull` (the DBus rule language over all keys, written from the specification text) and the
`sender` clause (true unique name / owner of the well-known name).  It does not depend on `b`.  txdbus evaluates
neither `sender` nor (as found) `arg0namespace`, so the theorems carry the hypothesis `FullRule.InSpec b` on the HELD
rules: values not empty (C12's `WFAll`), no `sender` constraint, no `arg0namespace` constraint unless `b`.  Without it
the statements are false for txdbus: witnesses `sender_constraint_is_ignored_full`, `arg0namespace_is_ignored`. -/

open Txdbus.Route (RuleArgs Tables renderRule parseRuleGen)

/-- C12's equivalence theorem `match_eq_spec`, carried over to the bus as found: the rule stored for the
kwargs `a` hands the bus's message object `m` to the holder iff `ruleView m` satisfies `a` in the sense of C12's
relation `specMatches` (all keys but `sender` and `arg0namespace`) - for every well-formed rule and every message. -/
theorem bus_rule_matches_iff_c12_spec (a : FullRule) (m : Msg) (hwf : RuleArgs.WF a) :
    (fullCfg false).holds a m = true ↔ Txdbus.Route.Spec.specMatches a (ruleView m) = true := by
  obtain ⟨r, hr, hiff⟩ := Txdbus.Route.match_eq_spec a (ruleView m) hwf
  show FullRule.holdsWith Tables.gen false a m = true ↔ _
  unfold FullRule.holdsWith
  rw [hr, ← hiff]
  simp only [beq_iff_eq]
  unfold Txdbus.Route.Rule.matchWith
  cases r.match (ruleView m) <;> simp

/-- C12's `match_eq_spec_with`, carried over: for either router `b`, every rule without empty values (any keys,
`sender` and `arg0namespace` included) and every message, the bus's rule predicate is C12's relation FOR THAT ROUTER
(`specMatchesWith b`: `arg0namespace` in it iff evaluated, `sender` never).  This is "the code is its model's
relation"; the property's relation is the next theorem. -/
theorem bus_rule_matches_iff_c12_relation (b : Bool) (a : FullRule) (m : Msg) (hwf : RuleArgs.WFAll a) :
    (fullCfg b).holds a m = true ↔ Txdbus.Route.Spec.specMatchesWith b a (ruleView m) = true := by
  obtain ⟨r, hr, hiff⟩ := Txdbus.Route.match_eq_spec_with b a (ruleView m) hwf
  show FullRule.holdsWith Tables.gen b a m = true ↔ _
  unfold FullRule.holdsWith
  rw [hr, ← hiff]
  simp only [beq_iff_eq]

/-- For a rule inside `InSpec b` the bus's rule predicate is the PROPERTY's relation (all keys of the DBus rule
language, `sender` clause included - vacuous here because `InSpec` excludes `sender` constraints). -/
theorem full_rule_matches_iff_spec (b : Bool) (ownerName : Name → Option Name) (a : FullRule) (m : Msg)
    (h : FullRule.InSpec b a) :
    (fullCfg b).holds a m = true ↔ busSpecMatches ownerName a (ruleView m) = true := by
  show FullRule.holdsWith Tables.gen b a m = true ↔ _
  rw [Txdbus.Route.gen_eq_cur]
  exact holds_iff_spec_cur b ownerName a m h

/-- The rules the router holds were registered by AddMatch events of the history, by their holders (together
with `rules_held_by_connected_clients`: the table is `heldAfter h`, every holder is connected). -/
theorem held_rules_were_registered (h : List (Event ρ)) (j : ConnId) (r : ρ) (hm : (j, r) ∈ heldAfter h) :
    ∃ m, Event.msg j m (.addMatch r) ∈ h :=
  heldAfter_mem h j r hm

/-- `broadcast_exact` for the full rule language, against the property's relation.  After any history (any
registrations by anybody, earlier or elsewhere) such that the rules HELD at that moment are inside `InSpec b`, a
message without destination from a live connection `i` is delivered - one copy per held rule, to its holder, in
registration order, re-marshalled under `i`'s true name - for exactly the held rules that the message object
SATISFIES (`busSpecMatches`: every key of the DBus rule language, true sender); so connection `j` receives it iff it
is connected and holds a rule the signal satisfies. -/
theorem broadcast_exact_full (b : Bool) (ownerName : Name → Option Name) (h : List (Event FullRule))
    (wf : ∀ e ∈ h, e.wf) (hheld : ∀ e ∈ heldAfter h, FullRule.InSpec b e.2) (i : ConnId) (m : Msg)
    (op : BusOp FullRule) (hd : truthy m.dest = false) (hl : Live (final (fullCfg b) State.init h) i) :
    let r := step (fullCfg b) (final (fullCfg b) State.init h) (.msg i m op)
    ∃ n, nameOf r.1 i = some n ∧
    r.2.deliveries = ((heldAfter h).filter
        (fun e => busSpecMatches ownerName e.2 (ruleView (withSender m (some n))))).map
      (fun e => ⟨e.1, .fwd i (remarshal m n)⟩) ∧
    (∀ j, (∃ dl ∈ r.2.deliveries, dl.to = j) ↔
      (Live r.1 j ∧ ∃ a, (j, a) ∈ heldAfter h ∧
        busSpecMatches ownerName a (ruleView (withSender m (some n))) = true)) := by
  intro r
  obtain ⟨n, hn, hdl, hiff⟩ := broadcast_exact (fullCfg b) ⟨rfl, rfl⟩ h wf i m op hd hl
  have heq : ∀ e ∈ heldAfter h, (fullCfg b).holds e.2 (withSender m (some n))
      = busSpecMatches ownerName e.2 (ruleView (withSender m (some n))) := by
    intro e he
    exact Bool.eq_iff_iff.mpr (full_rule_matches_iff_spec b ownerName e.2 _ (hheld e he))
  refine ⟨n, hn, ?_, fun j => ?_⟩
  · rw [show r.2.deliveries = _ from hdl]
    congr 1
    exact List.filter_congr heq
  · rw [hiff j]
    constructor
    · rintro ⟨hlive, a, ha, hh⟩
      exact ⟨hlive, a, ha, by rw [← heq (j, a) ha]; exact hh⟩
    · rintro ⟨hlive, a, ha, hh⟩
      exact ⟨hlive, a, ha, by rw [heq (j, a) ha]; exact hh⟩

/-- PARTIAL (the relation is not the property's): txdbus as found, held rules with ANY keys (only: no empty
values), against C12's `Route.Spec.specMatches` verbatim - which has no `sender` and no `arg0namespace` clause.
Missing for the full statement: for held rules with a `sender` or an `arg0namespace` constraint the bus delivers
although the property's relation says no (the two findings); the full statement is `broadcast_exact_full`, which
excludes such rules by hypothesis. -/
theorem broadcast_exact_found_router_partial (h : List (Event FullRule)) (wf : ∀ e ∈ h, e.wf)
    (hheld : ∀ e ∈ heldAfter h, RuleArgs.WF e.2) (i : ConnId) (m : Msg) (op : BusOp FullRule)
    (hd : truthy m.dest = false) (hl : Live (final (fullCfg false) State.init h) i) :
    let r := step (fullCfg false) (final (fullCfg false) State.init h) (.msg i m op)
    ∃ n, nameOf r.1 i = some n ∧
    (∀ j, (∃ dl ∈ r.2.deliveries, dl.to = j) ↔
      (Live r.1 j ∧ ∃ a, (j, a) ∈ heldAfter h ∧
        Txdbus.Route.Spec.specMatches a (ruleView (withSender m (some n))) = true)) := by
  intro r
  obtain ⟨n, hn, _, hiff⟩ := broadcast_exact (fullCfg false) ⟨rfl, rfl⟩ h wf i m op hd hl
  refine ⟨n, hn, fun j => ?_⟩
  rw [hiff j]
  constructor
  · rintro ⟨hlive, a, ha, hh⟩
    exact ⟨hlive, a, ha, (bus_rule_matches_iff_c12_spec a _ (hheld (j, a) ha)).mp hh⟩
  · rintro ⟨hlive, a, ha, hh⟩
    exact ⟨hlive, a, ha, (bus_rule_matches_iff_c12_spec a _ (hheld (j, a) ha)).mpr hh⟩

/-! ### the bus's own broadcasts (NameOwnerChanged) -/

/-- The signals the bus itself sends while it executes a method for connection `i` (a call addressed to the bus that
reaches a method - `exec effs`: RequestName, ReleaseName ... - and is not the Hello short-cut): for every effect
list, the bus signals of the step are, in order, exactly what the SPECIFICATION prescribes for each effect
(`specEffectDeliveries`): a `signalTo j` goes to `j`; a `broadcast` (NameOwnerChanged) goes, one copy per held rule
that the signal SATISFIES (`busSpecMatches`; held rules of the history, inside `InSpec b`), to the holders and to nobody
else. -/
theorem bus_broadcast_exact_full (b : Bool) (ownerName : Name → Option Name) (h : List (Event FullRule))
    (wf : ∀ e ∈ h, e.wf) (hheld : ∀ e ∈ heldAfter h, FullRule.InSpec b e.2) (i : ConnId) (m : Msg)
    (effs : List Effect) (hcall : m.mtype = .call) (hd : m.dest = some busName)
    (hl : Live (final (fullCfg b) State.init h) i)
    (hnh : ¬ (helloCalled (final (fullCfg b) State.init h) i = false ∧ m.member = some helloMember)) :
    let r := step (fullCfg b) (final (fullCfg b) State.init h) (.msg i m (.exec effs))
    r.2.deliveries.filter Delivery.isSig
      = effs.flatMap (specEffectDeliveries ownerName (heldAfter h) (nameOf r.1)) := by
  intro r
  have hr : (fullCfg b).Repaired := ⟨rfl, rfl⟩
  have inv := final_inv hr (Inv.init (ρ := FullRule)) h
  obtain ⟨hheldBy, _⟩ := rules_held_by_connected_clients (fullCfg b) hr h wf
  obtain ⟨c, hc, hconn⟩ := live_conn hl
  have ns := ensureNamed_spec inv i c hc hconn
  have hcalled : helloCalled (final (fullCfg b) State.init h) i = c.calledHello := by
    simp [helloCalled, hc]
  rw [hcalled] at hnh
  have hstep : r = stepNamed (fullCfg b) (ensureNamed (final (fullCfg b) State.init h) i c).1 i
      (ensureNamed (final (fullCfg b) State.init h) i c).2.1 (ensureNamed (final (fullCfg b) State.init h) i c).2.2
      c.calledHello m (.exec effs) := step_msg_live (fullCfg b) _ i m (.exec effs) c hc hconn
  obtain ⟨hsigs, hconns⟩ := stepNamed_exec_sigs hr (ensureNamed (final (fullCfg b) State.init h) i c).1 i
    (ensureNamed (final (fullCfg b) State.init h) i c).2.1 (ensureNamed (final (fullCfg b) State.init h) i c).2.2
    c.calledHello m effs hcall hd hnh
  rw [hstep, hsigs]
  congr 1
  funext e
  have hname : ∀ j, nameOf (stepNamed (fullCfg b) (ensureNamed (final (fullCfg b) State.init h) i c).1 i
      (ensureNamed (final (fullCfg b) State.init h) i c).2.1 (ensureNamed (final (fullCfg b) State.init h) i c).2.2
      c.calledHello m (.exec effs)).1 j = ((ensureNamed (final (fullCfg b) State.init h) i c).1.conns[j]?).bind (·.uniqueName) := by
    intro j; unfold nameOf; rw [hconns]
  cases e with
  | setOwner n j => rfl
  | unsetOwner n => rfl
  | signalTo j member body args =>
    simp only [applyEffect, specEffectDeliveries, hname]
  | broadcast member body args =>
    simp only [applyEffect, specEffectDeliveries]
    rw [route_eq_held]
    have hhb : heldBy (ensureNamed (final (fullCfg b) State.init h) i c).1 = heldAfter h := by
      rw [← hheldBy]; unfold heldBy; rw [ns.rules]
    rw [hhb]
    congr 1
    apply List.filter_congr
    intro e he
    exact Bool.eq_iff_iff.mpr (full_rule_matches_iff_spec b ownerName e.2 _ (hheld e he))

/-! ### the AddMatch text -/

/-- The text path, composed from C12's `rule_text_roundtrip` and `bus_rule_is_client_rule`: for EVERY set of
constraints `a`, the text a txdbus client writes (`renderRule a`, C12's model of
`DBusClientConnection.addMatch`) is read by the bus (`addMatchOp`: C12's model of `_parseMatchRule` and the
kwargs loop of `dbus_AddMatch`) as a registration - never a ValueError, never outside the modelled domain -
of `a.normalize` (`arg=[]` and `arg=None` being the same), and the rule registered that way selects exactly
the messages the rule stored for `a` itself selects. -/
theorem addmatch_text_roundtrip (a : RuleArgs) :
    addMatchOp (renderRule a) = some (.addMatch a.normalize) ∧
    ∀ b m, (fullCfg b).holds a.normalize m = (fullCfg b).holds a m := by
  refine ⟨?_, fun b m => ?_⟩
  · unfold addMatchOp
    rw [Txdbus.Route.rule_text_roundtrip a]
  · show FullRule.holdsWith Tables.gen b a.normalize m = FullRule.holdsWith Tables.gen b a m
    unfold FullRule.holdsWith
    rw [Txdbus.Route.bus_rule_is_client_rule a]

/-- A rule registered through the text a txdbus client sends for constraints `a` inside `InSpec b` matches exactly
the messages that satisfy `a`. -/
theorem client_text_rule_matches_spec (b : Bool) (ownerName : Name → Option Name) (a : RuleArgs)
    (hwf : FullRule.InSpec b a) (m : Msg) :
    ∃ r, addMatchOp (renderRule a) = some (.addMatch r) ∧
      ((fullCfg b).holds r m = true ↔ busSpecMatches ownerName a (ruleView m) = true) := by
  obtain ⟨h1, h2⟩ := addmatch_text_roundtrip a
  exact ⟨a.normalize, h1, by rw [h2 b m]; exact full_rule_matches_iff_spec b ownerName a m hwf⟩

/-- Histories whose AddMatch calls carry client-written texts of constraints inside `InSpec b` satisfy the
hypothesis of `broadcast_exact_full` / `bus_broadcast_exact_full`. -/
theorem client_text_history_held_in_spec (b : Bool) (h : List (Event FullRule))
    (hct : ∀ e ∈ h, e.fromClientText b) : ∀ e ∈ heldAfter h, FullRule.InSpec b e.2 := by
  intro e he
  obtain ⟨m, hm⟩ := heldAfter_mem h e.1 e.2 he
  obtain ⟨a, hwf, _, hop⟩ := hct _ hm
  rw [(addmatch_text_roundtrip a).1] at hop
  have hn : a.normalize = e.2 := by
    injection hop with h1
    injection h1
  rw [← hn]
  exact hwf.normalize

/-- ANY text (a foreign client's too): in a history whose AddMatch events are what the model reads from the text the
call carries (`Event.textOK`: the driver enforces it on every line, `textOp`), every held rule is `dbus_AddMatch`'s
reading (`parseRuleGen`: C12's model of `_parseMatchRule` + the kwargs loop) of the text of an AddMatch call that its
holder sent.  (What that reading MEANS in terms of the DBus grammar is C12's `bus_scanner_follows_spec` /
`client_text_means_constraints`; an end-to-end relation text -> `Spec.textMatches` for texts no txdbus client writes
is not proved there.) -/
theorem held_rules_come_from_texts (h : List (Event FullRule)) (ht : ∀ e ∈ h, e.textOK) (j : ConnId) (r : FullRule)
    (hm : (j, r) ∈ heldAfter h) :
    ∃ m t, Event.msg j m (.addMatch r) ∈ h ∧ ruleTextOf m = some t ∧ parseRuleGen t = .ok r := by
  obtain ⟨m, hmem⟩ := heldAfter_mem h j r hm
  obtain ⟨_, h2⟩ := ht _ hmem
  obtain ⟨t, ht1, ht2⟩ := h2 r rfl
  refine ⟨m, t, hmem, ht1, ?_⟩
  unfold addMatchOp at ht2
  cases hp : parseRuleGen t with
  | ok a => rw [hp] at ht2; simp only [Option.some.injEq, BusOp.addMatch.injEq] at ht2; rw [ht2]
  | error e => rw [hp] at ht2; cases e <;> simp at ht2

/-! ### order of broadcasts -/

/-- For every sender `i` and receiver `j`: in the step of the k-th event, every destination-less forward from
`i` that `j` receives is (the wire form of) the k-th event's own message, which `i` sent without destination -
nothing is held back, nothing arrives in a later or earlier step, nothing is invented.  (Copies: one per
matching rule held by `j`, see `broadcast_exact_full`.) -/
theorem broadcast_order_preserved (cfg : Cfg ρ) (hr : cfg.Repaired) (h : List (Event ρ)) (i j : ConnId) :
    Stepwise (fun e o => ∀ x ∈ o.deliveries.filterMap (bcastOf i j),
        (bcastSent i e).map wireForm = some (eraseSender x))
      h (exec cfg State.init h) :=
  exec_stepwise hr Inv.init h _ (fun _ inv e => step_bcast hr inv e i j)

/-- Sublist form (as `order_preserved` for addressed messages): the first copy per step of what `j` receives
from `i`'s broadcasts is, up to the sender field, a subsequence of what `i` broadcast, in the order sent. -/
theorem broadcast_first_copies_in_order (cfg : Cfg ρ) (hr : cfg.Repaired) (h : List (Event ρ)) (i j : ConnId) :
    List.Sublist (((exec cfg State.init h).filterMap (firstBcast i j)).map eraseSender)
      ((h.filterMap (bcastSent i)).map wireForm) :=
  firstBcast_sublist i j h _ (broadcast_order_preserved cfg hr h i j)

/-! ### the first version's simple rules are a fragment -/

/-- Embedding: a `SimpleRule` (equality on type / interface / member / path / destination, `sender` stored) is
the full rule with the same constraints and none of the other keys; on either router the full predicate
computes what `SimpleRule.holds` computes.  So sections 1-6, instantiated with `repaired`, are statements about a
fragment of `fullCfg b`. -/
theorem simple_rules_embed (b : Bool) (r : SimpleRule) (hne : r.NonEmpty) (m : Msg) :
    (fullCfg b).holds r.toFull m = r.holds m := by
  apply Bool.eq_iff_iff.mpr
  rw [bus_rule_matches_iff_c12_relation b r.toFull m (SimpleRule.toFull_wf r hne),
    specMatchesWith_inSpec b r.toFull _ (Or.inr rfl), ← specMatches_toFull]
  unfold Txdbus.Route.Spec.specMatchesFull
  have : r.toFull.arg0ns = none := rfl
  rw [this]
  simp [Txdbus.Route.Spec.optAll]

/-- ... and whole histories: over simple rules without empty values, the first version of the model (`repaired`,
`SimpleRule.holds`) and the full model on the embedded rules (`fullCfg b`, C12's `Rule.matchWith`) produce the same
outputs, event by event - deliveries, names, `loseConnection`, everything observable.  Every statement of sections
1-6 about `exec repaired` is therefore a statement about the full model. -/
theorem simple_histories_embed (b : Bool) (h : List (Event { r : SimpleRule // r.NonEmpty })) :
    exec repaired State.init (h.map (Event.mapRule Subtype.val))
      = exec (fullCfg b) State.init (h.map (Event.mapRule (fun r => r.1.toFull))) := by
  let sub : Cfg { r : SimpleRule // r.NonEmpty } := { holds := fun r m => r.1.holds m }
  have h1 : CfgAlong (Subtype.val : { r : SimpleRule // r.NonEmpty } → SimpleRule) sub repaired :=
    ⟨fun _ _ => rfl, rfl, rfl⟩
  have h2 : CfgAlong (fun r : { r : SimpleRule // r.NonEmpty } => r.1.toFull) sub (fullCfg b) :=
    ⟨fun r m => simple_rules_embed b r.1 r.2 m, rfl, rfl⟩
  have e1 := exec_map h1 State.init h
  have e2 := exec_map h2 State.init h
  rw [init_map] at e1 e2
  rw [e1, e2]

/-! ## the hypotheses are satisfiable, the statements are not vacuous -/

section examples
private def nm (s : String) : Name := s.toList

private def helloMsg (serial : Nat) : Msg :=
  { mtype := .call, serial := serial, noReply := false, noAutoStart := false, path := some busPath,
    iface := some busName, member := some helloMember, errorName := none, replySerial := none,
    dest := some busName, sender := none, otherFlags := 0, extra := [], body := nm "nobody" }

private def addMatchMsg (serial : Nat) : Msg :=
  { helloMsg serial with member := some addMatchMember, body := nm "s:rule" }

private def callTo (serial : Nat) (dest : Option Name) (forged : Option Name) : Msg :=
  { mtype := .call, serial := serial, noReply := false, noAutoStart := false, path := some (nm "/x"),
    iface := some (nm "org.ex.I"), member := some (nm "Foo"), errorName := none, replySerial := none,
    dest := dest, sender := forged, otherFlags := 4, extra := [], body := nm "v:tok" }

private def sigFrom (serial : Nat) : Msg :=
  { callTo serial none (some (nm ":1.7")) with mtype := .sig }

private def ruleI : SimpleRule := { iface := some (nm "org.ex.I") }

example : Canonical (callTo 5 (some (nm ":1.2")) none) := by unfold Canonical; decide
example : Canonical (sigFrom 6) := by unfold Canonical; decide

/-- The driver's rule predicate mirrors router.py: a `sender=` constraint is stored and never evaluated
(known finding `sender-constraint-ignored`): a rule for sender ':1.2' holds for a message from ':1.1'. -/
theorem sender_constraint_is_ignored :
    SimpleRule.holds { sender := some (nm ":1.2") } { sigFrom 6 with sender := some (nm ":1.1") } = true := by
  decide

/-- three clients say Hello; client 2 adds a rule on interface org.ex.I -/
private def setup : List (Event SimpleRule) :=
  [.connect, .connect, .connect,
   .msg 0 (helloMsg 1) (.exec []), .msg 1 (helloMsg 2) (.exec []), .msg 2 (helloMsg 3) (.exec []),
   .msg 2 (addMatchMsg 4) (.addMatch ruleI)]

/-- Names :1.1, :1.2, :1.3 in this order. -/
example : (allocated (exec repaired State.init setup)).map (·.2) = [nm ":1.1", nm ":1.2", nm ":1.3"] := by decide

/-- A call from client 0 to :1.2 with a forged sender reaches client 1 only, as coming from :1.1. -/
example : (step repaired (final repaired State.init setup) (.msg 0 (callTo 5 (some (nm ":1.2")) (some (nm ":1.3"))) (.exec []))).2.deliveries
    = [⟨1, .fwd 0 (callTo 5 (some (nm ":1.2")) (some (nm ":1.1")))⟩] := by decide

example : Addressed (callTo 5 (some (nm ":1.2")) none) (nm ":1.2") := by unfold Addressed; decide
example : Live (final repaired State.init setup) 0 := by unfold Live; decide
example : Owns (final repaired State.init setup) 1 (nm ":1.2") := by
  unfold Owns Live; decide
example : ∀ e ∈ setup, e.wf := by simp [setup, Event.wf, addMatchMsg]
example : repaired.Repaired := ⟨rfl, rfl⟩

/-- A broadcast from client 0 reaches the rule holder (client 2) with the true sender. -/
example : (step repaired (final repaired State.init setup) (.msg 0 (sigFrom 6) (.exec []))).2.deliveries
    = [⟨2, .fwd 0 { sigFrom 6 with sender := some (nm ":1.1") }⟩] := by decide

/-- After client 2 disconnects nobody holds a rule. -/
example : heldAfter (setup ++ [.disconnect 2 []]) = [] := by decide
example : heldAfter setup = [(2, ruleI)] := by decide

/-- The driver's rule predicate evaluates exactly the keys of the tuple in `router.Rule.add` (table generated
from router.py by C12's translator): if router.py starts to evaluate another key - `sender`, say - this
stops checking and `SimpleRule.holds` has to follow. -/
theorem simple_rule_keys_are_the_routers : SimpleRule.evaluatedKeys = Txdbus.Gen.Route.simpleKeys := by decide

/-! ## the code before the repairs violates the property (these are the replays) -/

/-- F21: before the repair, the call from client 0 to :1.2 ALSO reaches client 2, which only holds a
match rule (`unicast_exact` fails for `original`). -/
theorem original_unicast_reaches_rule_holder :
    (step original (final original State.init setup)
        (.msg 0 (callTo 5 (some (nm ":1.2")) none) (.exec []))).2.deliveries
      = [⟨1, .fwd 0 (callTo 5 (some (nm ":1.2")) (some (nm ":1.1")))⟩,
         ⟨2, .fwd 0 (callTo 5 (some (nm ":1.2")) (some (nm ":1.1")))⟩] := by decide

/-- F22: before the repair, the rule of client 2 survives its disconnect and the next broadcast is
written to the dead connection (`rules_held_by_connected_clients` / `broadcast_exact` fail for
`original`; with `repaired` the same history delivers nothing). -/
theorem original_rule_outlives_its_client :
    (step original (final original State.init (setup ++ [.disconnect 2 []]))
        (.msg 0 (sigFrom 6) (.exec []))).2.deliveries
      = [⟨2, .fwd 0 { sigFrom 6 with sender := some (nm ":1.1") }⟩]
    ∧ (step repaired (final repaired State.init (setup ++ [.disconnect 2 []]))
        (.msg 0 (sigFrom 6) (.exec []))).2.deliveries = [] := by decide

/-! ## the full rule language: examples and witnesses -/

section fullExamples
open Txdbus.Route (Arg)

private def fsig (path : String) (args : Option (List Arg)) : Msg :=
  { mtype := .sig, serial := 9, noReply := false, noAutoStart := false, otherFlags := 0, path := some (nm path),
    iface := some (nm "org.ex.I"), member := some (nm "Foo"), errorName := none, replySerial := none, dest := none,
    sender := some (nm ":1.7"), extra := [], body := nm "ss:tok", args := args }

private def ruleNsArg : FullRule := { pathNs := some (nm "/x"), args := some [(0, nm "hi")] }
private def ruleNs0 : FullRule := { arg0ns := some (nm "org.ex") }
private def ruleArgPath : FullRule := { mtype := some (nm "signal"), argPaths := some [(1, nm "/x/")] }

private def addMatchCall (serial : Nat) (text : String) : Msg :=
  { helloMsg serial with member := some addMatchMember, body := nm "s:rule", args := some [.str text.toList] }

/-- The text the txdbus client writes for these constraints, and what the bus's parser makes of it. -/
example : renderRule ruleNsArg = "path_namespace='/x',arg0='hi'".toList := by decide
example : addMatchOp "path_namespace='/x',arg0='hi'".toList = some (.addMatch ruleNsArg) := by rfl
example : addMatchOp "type='signal',arg1path='/x/'".toList = some (.addMatch ruleArgPath) := by rfl
/-- A text without `=` is a ValueError inside `dbus_AddMatch`: an executed method that registers nothing. -/
example : addMatchOp "nonsense".toList = some (.exec []) := by rfl

private theorem ruleNsArg_wf (b : Bool) : FullRule.InSpec b ruleNsArg :=
  ⟨⟨⟨by decide, by decide, by decide, by decide, by decide, by decide⟩, by decide⟩, rfl, Or.inr rfl⟩
private theorem ruleNs0_wf : FullRule.InSpec true ruleNs0 :=
  ⟨⟨⟨by decide, by decide, by decide, by decide, by decide, by decide⟩, by decide⟩, rfl, Or.inl rfl⟩

/-- three clients say Hello; client 2 registers `path_namespace='/x',arg0='hi'`, client 1 `arg0namespace='org.ex'` -/
private def setupFull : List (Event FullRule) :=
  [.connect, .connect, .connect,
   .msg 0 (helloMsg 1) (.exec []), .msg 1 (helloMsg 2) (.exec []), .msg 2 (helloMsg 3) (.exec []),
   .msg 2 (addMatchCall 4 "path_namespace='/x',arg0='hi'") (.addMatch ruleNsArg),
   .msg 1 (addMatchCall 5 "arg0namespace='org.ex'") (.addMatch ruleNs0)]

example : heldAfter setupFull = [(2, ruleNsArg), (1, ruleNs0)] := by decide
example : heldAfter setupFull.dropLast = [(2, ruleNsArg)] := by decide

/-- The hypotheses of `broadcast_exact_full` / `bus_broadcast_exact_full` hold for this history on the repaired router,
and for the history without the `arg0namespace` registration on txdbus as found. -/
example : ∀ e ∈ setupFull, e.wf := by simp [setupFull, Event.wf, addMatchCall]
example : ∀ e ∈ heldAfter setupFull, FullRule.InSpec true e.2 := by
  rw [show heldAfter setupFull = [(2, ruleNsArg), (1, ruleNs0)] by decide]
  intro e he
  simp only [List.mem_cons, List.mem_nil_iff, or_false] at he
  rcases he with rfl | rfl
  · exact ruleNsArg_wf true
  · exact ruleNs0_wf
example : ∀ e ∈ heldAfter setupFull.dropLast, FullRule.InSpec false e.2 := by
  rw [show heldAfter setupFull.dropLast = [(2, ruleNsArg)] by decide]
  intro e he
  simp only [List.mem_cons, List.mem_nil_iff, or_false] at he
  subst he
  exact ruleNsArg_wf false
/-- ... its AddMatch calls are what a txdbus client sends for those constraints, and what the model reads from the text
they carry. -/
example (b : Bool) : Event.fromClientText b (.msg 2 (addMatchCall 4 "path_namespace='/x',arg0='hi'") (.addMatch ruleNsArg)) :=
  ⟨ruleNsArg, ruleNsArg_wf b, by decide, by rfl⟩
example : Event.textOK (.msg 2 (addMatchCall 4 "path_namespace='/x',arg0='hi'") (.addMatch ruleNsArg)) :=
  ⟨by rfl, fun r hr => ⟨"path_namespace='/x',arg0='hi'".toList, by decide, by
    have : r = ruleNsArg := by injection hr with h; exact h.symm
    rw [this]; rfl⟩⟩
/-- a foreign client's text: unquoted value, unknown key - the model's reading of it -/
example : textOp (addMatchCall 4 "type=signal,eavesdrop=true,arg0='hi'") (.addMatch {})
    = .addMatch { mtype := some (nm "signal"), args := some [(0, nm "hi")] } := by rfl
example : textOp (addMatchCall 4 "nonsense") (.addMatch {}) = .exec [] := by rfl
example : Live (final (fullCfg false) State.init setupFull) 0 := by unfold Live; decide
/-- A broadcast on /x/y with first argument 'hi': client 2's rule is satisfied (descendant of /x, arg0 = 'hi').
txdbus as found also delivers to client 1, whose rule asks for the namespace org.ex (finding
`arg0namespace-constraint-ignored`); the repaired router does not. -/
example : ((step (fullCfg false) (final (fullCfg false) State.init setupFull)
      (.msg 0 (fsig "/x/y" (some [.str (nm "hi")])) (.exec []))).2.deliveries.map (·.to)) = [2, 1] := by decide
example : ((step (fullCfg true) (final (fullCfg true) State.init setupFull)
      (.msg 0 (fsig "/x/y" (some [.str (nm "hi")])) (.exec []))).2.deliveries.map (·.to)) = [2] := by decide
/-- The sibling path /xy is outside the namespace /x; a first argument inside org.ex reaches client 1. -/
example : ((step (fullCfg true) (final (fullCfg true) State.init setupFull)
      (.msg 0 (fsig "/xy" (some [.str (nm "hi")])) (.exec []))).2.deliveries.map (·.to)) = [] := by decide
example : ((step (fullCfg true) (final (fullCfg true) State.init setupFull)
      (.msg 0 (fsig "/xy" (some [.str (nm "org.ex.A"), .other])) (.exec []))).2.deliveries.map (·.to)) = [1] := by decide
example : busSpecMatches (fun _ => none) ruleNsArg (ruleView (fsig "/x/y" (some [.str (nm "hi")]))) = true := by decide
example : busSpecMatches (fun _ => none) ruleNsArg (ruleView (fsig "/xy" (some [.str (nm "hi")]))) = false := by decide

/-- Finding `arg0namespace-constraint-ignored`, on the model of txdbus as found: the rule
`arg0namespace='org.ex.A'` selects a signal whose first argument is 'org.ex.B', which the specification's clause
rejects; the model of the repaired router (fixes/C14-05) rejects it too. -/
theorem arg0namespace_is_ignored :
    let r : FullRule := { arg0ns := some (nm "org.ex.A") }
    let m := fsig "/x" (some [.str (nm "org.ex.B")])
    (fullCfg false).holds r m = true ∧ busSpecMatches (fun _ => none) r (ruleView m) = false ∧
    (fullCfg true).holds r m = false := by decide

/-- The known finding `sender-constraint-ignored` is unchanged on the full model, for either router: a rule for
sender ':1.2' selects a signal from ':1.7'. -/
theorem sender_constraint_is_ignored_full :
    (fullCfg false).holds { sender := some (nm ":1.2") } (fsig "/x" none) = true ∧
    (fullCfg true).holds { sender := some (nm ":1.2") } (fsig "/x" none) = true ∧
    busSpecMatches (fun _ => none) { sender := some (nm ":1.2") } (ruleView (fsig "/x" none)) = false := by decide

/-- The defect's exemplar path, the bus's OWN broadcast: connection 1 holds `arg0namespace='org.ex.A'`; connection 0
calls RequestName('org.ex.B'), the name function broadcasts NameOwnerChanged('org.ex.B', '', ':1.1').  txdbus as found
delivers it to connection 1; the repaired router, like `specEffectDeliveries`, to nobody. -/
theorem bus_signal_ignores_arg0namespace :
    let setup : List (Event FullRule) :=
      [.connect, .connect, .msg 0 (helloMsg 1) (.exec []), .msg 1 (helloMsg 2) (.exec []),
       .msg 1 (addMatchCall 3 "arg0namespace='org.ex.A'") (.addMatch { arg0ns := some (nm "org.ex.A") })]
    let req : Msg := { helloMsg 4 with member := some (nm "RequestName"), body := nm "su:tok",
                                       args := some [.str (nm "org.ex.B"), .other] }
    let effs : List Effect := [.setOwner (nm "org.ex.B") 0,
      .broadcast (nm "NameOwnerChanged") (nm "sss:tok") (some [.str (nm "org.ex.B"), .str [], .str (nm ":1.1")])]
    ((step (fullCfg false) (final (fullCfg false) State.init setup) (.msg 0 req (.exec effs))).2.deliveries.filter
        Delivery.isSig).map (·.to) = [1] ∧
    ((step (fullCfg true) (final (fullCfg true) State.init setup) (.msg 0 req (.exec effs))).2.deliveries.filter
        Delivery.isSig).map (·.to) = [] ∧
    (effs.flatMap (specEffectDeliveries (fun _ => none) (heldAfter setup) (fun _ => none))).map (·.to) = [] := by decide

/-- The embedding on an instance: the simple rule of the first examples and its full form select the same. -/
example : SimpleRule.NonEmpty ruleI := by unfold SimpleRule.NonEmpty; decide
example : (fullCfg false).holds ruleI.toFull (sigFrom 6) = ruleI.holds (sigFrom 6) := by decide

/-- `simple_histories_embed` on the first example history (`setup` has one rule, on interface org.ex.I). -/
example :
    let h : List (Event SimpleRule) := setup ++ [Event.msg 0 (sigFrom 6) (.exec [])]
    (exec repaired State.init h).map (·.deliveries)
      = (exec (fullCfg false) State.init (h.map (Event.mapRule SimpleRule.toFull))).map (·.deliveries) := by
  decide

/-- Order of broadcasts on the example: the copy client 2 receives in the last step is the message of that step. -/
example : (exec (fullCfg false) State.init (setupFull ++ [.msg 0 (fsig "/x/y" (some [.str (nm "hi")])) (.exec [])])).filterMap
      (firstBcast 0 2) = [{ fsig "/x/y" (some [.str (nm "hi")]) with sender := some (nm ":1.1") }] := by decide

end fullExamples

end examples

end Txdbus.BusRoute

#print axioms Txdbus.BusRoute.unique_names_fresh
#print axioms Txdbus.BusRoute.unique_names_never_reused
#print axioms Txdbus.BusRoute.unicast_exact
#print axioms Txdbus.BusRoute.owner_unique
#print axioms Txdbus.BusRoute.sender_is_true
#print axioms Txdbus.BusRoute.remarshal_keeps
#print axioms Txdbus.BusRoute.unchanged_except_sender
#print axioms Txdbus.BusRoute.remarshal_drops_extra_fields
#print axioms Txdbus.BusRoute.order_preserved
#print axioms Txdbus.BusRoute.bus_calls_answered_not_forwarded
#print axioms Txdbus.BusRoute.disconnect_completes
#print axioms Txdbus.BusRoute.rules_held_by_connected_clients
#print axioms Txdbus.BusRoute.broadcast_exact
#print axioms Txdbus.BusRoute.sender_constraint_is_ignored
#print axioms Txdbus.BusRoute.simple_rule_keys_are_the_routers
#print axioms Txdbus.BusRoute.original_unicast_reaches_rule_holder
#print axioms Txdbus.BusRoute.original_rule_outlives_its_client
#print axioms Txdbus.BusRoute.bus_rule_matches_iff_c12_spec
#print axioms Txdbus.BusRoute.full_rule_matches_iff_spec
#print axioms Txdbus.BusRoute.held_rules_were_registered
#print axioms Txdbus.BusRoute.broadcast_exact_full
#print axioms Txdbus.BusRoute.broadcast_exact_found_router_partial
#print axioms Txdbus.BusRoute.bus_rule_matches_iff_c12_relation
#print axioms Txdbus.BusRoute.bus_broadcast_exact_full
#print axioms Txdbus.BusRoute.held_rules_come_from_texts
#print axioms Txdbus.BusRoute.bus_signal_ignores_arg0namespace
#print axioms Txdbus.BusRoute.addmatch_text_roundtrip
#print axioms Txdbus.BusRoute.client_text_rule_matches_spec
#print axioms Txdbus.BusRoute.client_text_history_held_in_spec
#print axioms Txdbus.BusRoute.broadcast_order_preserved
#print axioms Txdbus.BusRoute.broadcast_first_copies_in_order
#print axioms Txdbus.BusRoute.simple_rules_embed
#print axioms Txdbus.BusRoute.simple_histories_embed
#print axioms Txdbus.BusRoute.arg0namespace_is_ignored
#print axioms Txdbus.BusRoute.sender_constraint_is_ignored_full
#print axioms Txdbus.BusRoute.ruleNsArg_wf
#print axioms Txdbus.BusRoute.ruleNs0_wf
