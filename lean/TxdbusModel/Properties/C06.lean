/-! Property theorems for C06 (stub: none yet). -/
