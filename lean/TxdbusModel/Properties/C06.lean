import TxdbusModel.Proofs.Auth.ServerClose
import TxdbusModel.Proofs.Auth.ServerConform
/-!
# C06 - the bus authenticates a peer only after a mechanism accepted it

Code model: `Auth/Server.lean` (BusAuthenticator), `Auth/Mechs.lean` (scripted and real mechanisms),
`Auth/ServerLines.lean` (line mode of dataReceived).  Spec: `Auth/SpecServer.lean`.  Vocabulary over the
ghost log: `Auth/ServerTrace.lean`.  All theorems quantify over every mechanism system `S` (so over every
script of outcomes of the scripted mechanisms and every environment of the real ones), every initial
world `w`, every list of reads.
-/
namespace Txdbus.C06

open Txdbus.AuthServer Txdbus.Gen.ServerAuth

/-! ## tables (regenerated from the source on every run; editing the source breaks these) -/

theorem table_maxAuthLength : maxAuthLength = 16384 := by decide
theorem table_maxRejects : maxRejects = 5 := by decide
theorem table_delimiter : authDelimiter = [13, 10] := by decide
/-- `MAX_AUTH_LENGTH + len(delimiter) - 1` (repair 839b5f3): a remainder may hold a maximum-length line
and the first byte of its delimiter. -/
theorem table_remainderLimit : remainderLimit = maxAuthLength + 1 := remainderLimit_eq
theorem table_mechanisms :
    real.offered = [lit "EXTERNAL", lit "DBUS_COOKIE_SHA1", lit "ANONYMOUS"] := by decide
/-- The REJECTED line the model computes is the `reject_msg` the constructor computes. -/
theorem table_rejectMsg : rejectLine real = rejectMsg := by decide
theorem table_commands :
    commands = ["AUTH", "BEGIN", "CANCEL", "DATA", "ERROR", "NEGOTIATE_UNIX_FD"] := by decide
theorem table_states : stateNames = ["WaitingForAuth", "WaitingForBegin", "WaitingForData"] := by decide
theorem table_words :
    wRejected = lit "REJECTED " ∧ wOk = lit "OK " ∧ wData = lit "DATA " ∧ wError = lit "ERROR" ∧
    wErrorSp = lit "ERROR " ∧ wUnknown = lit "\"Unknown command\"" := by decide

variable {W I : Type} (S : MechSys W I)

/-! ## 1. safety -/

/-- If a run ends authenticated (`connectionAuthenticated()` ran), the handled lines decompose as
`pre ++ a :: (mid ++ [b])`: the mechanism step of line `a` returned accept for a mechanism of the offered
table, `b` is BEGIN and the last line handled, and no line between them caused a rejection. -/
theorem authenticated_only_after_accept (guid : Bytes) (w : W) (reads : List Bytes)
    (h : (runReads S (Proto.init guid w) reads).authenticated = true) :
    AuthWitness S.offered (runReads S (Proto.init guid w) reads).log :=
  ((runReads_inv S guid _ reads (inv_init S guid w)).2.1 h).1

/-! ## 2. the specification's state table -/

/-- One line: from a state where BEGIN has not been accepted and (outside WaitingForAuth) a mechanism is in
progress, unless an exception other than DBusAuthenticationFailed escapes, the reply and the next state
are those of the DBus specification's server table; REJECTED carries the mechanism list (`Reply.matches`). -/
theorem refines_spec_server_line (s : Server W I) (line : Bytes) (hinv : Inv2 s)
    (h : (handle S s line).res ≠ .crash) :
    (Spec.step S.offered maxRejects (absSrv s) (Spec.parse line) (verdictOf (handle S s line).mech)).1
      = absOut (handle S s line) ∧
    (Spec.step S.offered maxRejects (absSrv s) (Spec.parse line) (verdictOf (handle S s line).mech)).2.matches
      s.serverGuid (handle S s line).sent = true :=
  handle_refines S s line hinv h

/-- A whole run: feeding the handled lines (with the mechanisms' verdicts) to the specification's table
reproduces every reply (`ok`); as long as the connection is open and unauthenticated the table's state is
the authenticator's state and reject count; an authenticated run ends in the table's `authenticated`
phase; an exception can only be the last thing that happened. -/
theorem refines_spec_server (guid : Bytes) (w : W) (reads : List Bytes) :
    let p := runReads S (Proto.init guid w) reads
    (specRun S.offered maxRejects guid p.log).ok = true ∧
    (p.crashed = false → (specRun S.offered maxRejects guid p.log).crashSeen = false) ∧
    (p.closed = false → p.crashed = false → p.authenticated = false →
      (specRun S.offered maxRejects guid p.log).st = ⟨phaseOf p.srv.state, p.srv.rejects⟩) ∧
    (p.authenticated = true → (specRun S.offered maxRejects guid p.log).st.phase = .authenticated) := by
  intro p
  have h := runReads_inv S guid _ reads (inv_init S guid w)
  exact ⟨h.2.2.1, h.2.2.2, fun a b c => (h.1 a b c).2.2.2.2.1, fun a => (h.2.1 a).2.1⟩

/-! ## 3. closing -/

/-- `loseConnection` happened exactly when: the initial NUL is missing, or a handled line was BEGIN out of
turn or a rejection over `MAX_REJECTS_ALLOWED`, or a complete line is longer than `MAX_AUTH_LENGTH`, or the
unterminated remainder is longer than `MAX_AUTH_LENGTH + 1` - for every run that neither authenticated nor
died of an exception, under every splitting into non-empty reads. -/
theorem closes_exactly_when (guid : Bytes) (w : W) (reads : List Bytes) (hne : reads ≠ [])
    (hall : ∀ r ∈ reads, r ≠ [])
    (hcr : (runReads S (Proto.init guid w) reads).crashed = false)
    (hau : (runReads S (Proto.init guid w) reads).authenticated = false) :
    (runReads S (Proto.init guid w) reads).closed = true ↔
      CloseCause reads.flatten (runReads S (Proto.init guid w) reads).log := by
  have hs := (runReads_sim_whole S (Proto.init guid w) reads hne hall).obs
  have e1 : (runReads S (Proto.init guid w) reads).closed = (recv S (Proto.init guid w) reads.flatten).closed :=
    congrArg Obs.closed hs
  have e2 : (runReads S (Proto.init guid w) reads).crashed = (recv S (Proto.init guid w) reads.flatten).crashed :=
    congrArg Obs.crashed hs
  have e3 : (runReads S (Proto.init guid w) reads).authenticated =
      (recv S (Proto.init guid w) reads.flatten).authenticated := congrArg Obs.authenticated hs
  have e4 : (runReads S (Proto.init guid w) reads).log = (recv S (Proto.init guid w) reads.flatten).log :=
    congrArg Obs.log hs
  have hflat : reads.flatten ≠ [] := by
    cases reads with
    | nil => exact absurd rfl hne
    | cons a t =>
      have := hall a (by simp)
      simp [this]
  rw [e1, e4]
  exact whole_read_closed S guid w reads.flatten hflat (e2 ▸ hcr) (e3 ▸ hau)

/-- An authenticated connection was not closed by the handshake. -/
theorem authenticated_not_closed (guid : Bytes) (w : W) (reads : List Bytes)
    (h : (runReads S (Proto.init guid w) reads).authenticated = true) :
    (runReads S (Proto.init guid w) reads).closed = false :=
  ((runReads_inv S guid _ reads (inv_init S guid w)).2.1 h).2.2

/-- After `loseConnection` (before authentication) no further line is processed: nothing more is handed to
the authenticator, nothing is written, the connection never becomes authenticated. -/
theorem no_line_processed_after_close (p : Proto W I) (d : Bytes) (hd : d ≠ []) (hc : p.closed = true)
    (ha : p.authenticated = false) :
    (recv S p d).log = p.log ∧ (recv S p d).sent = p.sent ∧ (recv S p d).authenticated = false ∧
    (recv S p d).closed = true := by
  have := recv_dead S p d hd ⟨Or.inl hc, ha⟩
  have ho := this.2
  refine ⟨congrArg Obs.log ho, congrArg Obs.sent ho, ?_, ?_⟩
  · exact (congrArg Obs.authenticated ho).trans ha
  · exact (congrArg Obs.closed ho).trans hc

/-- The reject counter of an open connection is the number of rejections in the log. -/
theorem rejections_counted (guid : Bytes) (w : W) (reads : List Bytes) :
    let p := runReads S (Proto.init guid w) reads
    p.closed = false → p.crashed = false → p.authenticated = false →
      p.srv.rejects = countRejections p.log := by
  intro p a b c
  exact ((runReads_inv S guid _ reads (inv_init S guid w)).1 a b c).2.2.2.2.2

/-! ## 4. conforming clients, wrong cookies -/

/-- The three conforming conversations of the property statement are accepted by the real mechanisms,
under every splitting of their bytes into non-empty reads:
ANONYMOUS; EXTERNAL when the peer credentials are available and the peer uid has a passwd entry;
DBUS_COOKIE_SHA1 for a user name with a passwd entry whose keyring directory is usable or absent, answering
the challenge with `hexlify(sha1(challenge:cc:cookie))`. -/
theorem conforming_client_accepted (guid : Bytes) (w : RealWorld) :
    (∀ reads : List Bytes, (∀ r ∈ reads, r ≠ []) →
        reads.flatten = 0 :: encodeLines [lit "AUTH ANONYMOUS", lit "BEGIN"] →
        (runReads real (Proto.init guid w) reads).authenticated = true ∧
        (runReads real (Proto.init guid w) reads).closed = false) ∧
    (∀ (uid : Int) (e : PwEnt), w.cfg.creds = some uid → getpwuidI w.cfg uid = some e →
      ∀ reads : List Bytes, (∀ r ∈ reads, r ≠ []) →
        reads.flatten = 0 :: encodeLines [lit "AUTH EXTERNAL", lit "DATA", lit "BEGIN"] →
        (runReads real (Proto.init guid w) reads).authenticated = true ∧
        (runReads real (Proto.init guid w) reads).closed = false ∧
        (runReads real (Proto.init guid w) reads).guid = some e.name) ∧
    (∀ (user cc : Bytes) (e : PwEnt),
      user ≠ [] → isAscii user = true → parseInt user = none → user.length ≤ 8000 →
      getpwnam w.cfg user = some e → lookupDir w e.home ≠ .bad →
      cc ≠ [] → NoSpace cc → isAscii cc = true → cc.length ≤ 8000 →
      (∀ x, (w.cfg.sha1 x).length = 20) →
      ∃ chal cookie : Bytes, ∀ reads : List Bytes, (∀ r ∈ reads, r ≠ []) →
        reads.flatten =
          0 :: encodeLines [cookieAuthLine user, cookieDataLine w.cfg.sha1 chal cc cookie, lit "BEGIN"] →
        (runReads real (Proto.init guid w) reads).authenticated = true ∧
        (runReads real (Proto.init guid w) reads).closed = false ∧
        (runReads real (Proto.init guid w) reads).guid = some user) := by
  refine ⟨?_, ?_, ?_⟩
  · intro reads hall hflat
    have := anonymous_accepted guid w reads hall hflat
    exact ⟨this.1, this.2.1⟩
  · intro uid e hc hu reads hall hflat
    exact external_accepted guid w uid e hc hu reads hall hflat
  · intro user cc e h1 h2 h3 h4 h5 h6 h7 h8 h9 h10 h11
    exact cookie_accepted guid w user cc e h1 h2 h3 h4 h5 h6 h7 h8 h9 h10 h11

/-- The line-level form with what the client reads: after `AUTH DBUS_COOKIE_SHA1 <hex user>` the DATA reply
carries `<context> <id> <challenge>` and the user's keyring file ends with the entry `(id, now, cookie)`;
answering with that challenge and cookie gives OK, and BEGIN authenticates as `user`. -/
theorem cookie_conversation (s : Server RealWorld Inst) (user cc : Bytes) (e : PwEnt)
    (hs : s.state = .waitingForAuth)
    (hu0 : user ≠ []) (hua : isAscii user = true) (hup : parseInt user = none)
    (hun : getpwnam s.world.cfg user = some e) (hud : lookupDir s.world e.home ≠ .bad)
    (hcc : cc ≠ []) (hncc : NoSpace cc) (hcca : isAscii cc = true)
    (hsha : ∀ x, s.world.cfg.sha1 x ≠ []) :
    ∃ (c1 : CookieSt) (cid : Nat),
      (handle real s (cookieAuthLine user)).sent =
        [wData ++ hexlify (s.world.cfg.ctx ++ 32 :: natToDec cid ++ 32 :: c1.challenge)] ∧
      (∃ old, lookupFile (handle real s (cookieAuthLine user)).srv.world e.home =
        some (old ++ [⟨cid, s.world.cfg.now, c1.cookie⟩])) ∧
      (handle real (handle real s (cookieAuthLine user)).srv
        (cookieDataLine s.world.cfg.sha1 c1.challenge cc c1.cookie)).sent = [wOk ++ s.serverGuid] ∧
      (handle real (handle real (handle real s (cookieAuthLine user)).srv
        (cookieDataLine s.world.cfg.sha1 c1.challenge cc c1.cookie)).srv (lit "BEGIN")).srv.authenticated = true ∧
      (handle real (handle real (handle real s (cookieAuthLine user)).srv
        (cookieDataLine s.world.cfg.sha1 c1.challenge cc c1.cookie)).srv (lit "BEGIN")).srv.guid = some user := by
  obtain ⟨c1, cid, _, _, a3, a4, _, a6, _, _, a9, a10⟩ :=
    cookie_lines s user cc e hs hu0 hua hup hun hud hcc hncc hcca hsha
  exact ⟨c1, cid, a3, a4, a6, a9, a10⟩

/-- DBUS_COOKIE_SHA1 returns accept only on its second step and only for a response `<cc> <hash>` with
`hash = hexlify(sha1(server_challenge:cc:cookie))`: a wrong cookie response is never accepted. -/
theorem wrong_cookie_never_accepted (w : RealWorld) (c : CookieSt) (arg : Option Bytes)
    (h : (real.step w (.cookie c) arg).2.2 = .accept) :
    c.stepNum = 1 ∧ ∃ a cc hh, arg = some a ∧ splitWs a = [cc, hh] ∧
      hh = cookieHash w.cfg.sha1 c.challenge cc c.cookie :=
  cookieStep_accept w c arg h

/-! ## 5. the line framing does not depend on the splitting -/

/-- Two splittings of the same bytes into non-empty reads give the same lines handed to the authenticator
(`log`), the same lines written, the same closed / authenticated / crashed flags, guid, authenticator state
and bytes handed to the binary branch. -/
theorem line_partition_independent (guid : Bytes) (w : W) (r1 r2 : List Bytes)
    (h1 : ∀ r ∈ r1, r ≠ []) (h2 : ∀ r ∈ r2, r ≠ []) (hflat : r1.flatten = r2.flatten) :
    (runReads S (Proto.init guid w) r1).obs = (runReads S (Proto.init guid w) r2).obs := by
  cases r1 with
  | nil =>
    cases r2 with
    | nil => rfl
    | cons a t =>
      have := h2 a (by simp)
      simp at hflat
      exact absurd hflat.1 this
  | cons a t =>
    have hne1 : a :: t ≠ [] := by simp
    have hne2 : r2 ≠ [] := by
      intro h0
      rw [h0] at hflat
      have := h1 a (by simp)
      simp at hflat
      exact this hflat.1
    have s1 := (runReads_sim_whole S (Proto.init guid w) (a :: t) hne1 h1).obs
    have s2 := (runReads_sim_whole S (Proto.init guid w) r2 hne2 h2).obs
    rw [s1, s2, hflat]

/-! ## the hypotheses are satisfiable -/

section examples

private def g : Bytes := lit "guid"

/-- a run that ends authenticated exists (hypothesis of `authenticated_only_after_accept`,
`authenticated_not_closed`): the ANONYMOUS conversation, here split between CR and LF -/
example (w : RealWorld) :
    (runReads real (Proto.init g w) [0 :: lit "AUTH ANONYMOUS\r", lit "\nBEGIN\r\n"]).authenticated = true :=
  (anonymous_accepted g w _ (by decide) (by decide)).1

/-- a run that neither crashed nor authenticated exists (hypotheses of `closes_exactly_when`) -/
example (w : W) : (runReads S (Proto.init g w) [[0]]).crashed = false ∧
    (runReads S (Proto.init g w) [[0]]).authenticated = false := by
  simp [runReads, recv, Proto.init, recvLines, Proto.dropFirst, Proto.setBuf, splitCRLF, lineLoop, remainderLimit,
    maxAuthLength, authDelimiter, remainderSlack]

/-- `Inv2` holds initially (hypothesis of `refines_spec_server_line`) -/
example (w : W) : Inv2 (Server.init (W := W) (I := I) g w) := ⟨fun h => absurd rfl h, rfl⟩

/-- a closed, unauthenticated state exists (hypotheses of `no_line_processed_after_close`) -/
example (w : W) : (Proto.init (W := W) (I := I) g w).close.closed = true ∧
    (Proto.init (W := W) (I := I) g w).close.authenticated = false := ⟨rfl, rfl⟩

/-- the environment hypotheses of the cookie conversation are satisfiable: a user name that is not a number -/
example : parseInt (lit "alice") = none ∧ isAscii (lit "alice") = true ∧ NoSpace (lit "636c69656e74") := by
  refine ⟨by decide, by decide, ?_⟩
  unfold NoSpace; decide

end examples

end Txdbus.C06

#print axioms Txdbus.C06.authenticated_only_after_accept
#print axioms Txdbus.C06.refines_spec_server_line
#print axioms Txdbus.C06.refines_spec_server
#print axioms Txdbus.C06.closes_exactly_when
#print axioms Txdbus.C06.authenticated_not_closed
#print axioms Txdbus.C06.no_line_processed_after_close
#print axioms Txdbus.C06.rejections_counted
#print axioms Txdbus.C06.conforming_client_accepted
#print axioms Txdbus.C06.cookie_conversation
#print axioms Txdbus.C06.wrong_cookie_never_accepted
#print axioms Txdbus.C06.line_partition_independent
#print axioms Txdbus.C06.table_maxAuthLength
#print axioms Txdbus.C06.table_maxRejects
#print axioms Txdbus.C06.table_delimiter
#print axioms Txdbus.C06.table_remainderLimit
#print axioms Txdbus.C06.table_mechanisms
#print axioms Txdbus.C06.table_rejectMsg
#print axioms Txdbus.C06.table_commands
#print axioms Txdbus.C06.table_states
#print axioms Txdbus.C06.table_words
