import TxdbusModel.Proofs.Auth.ServerClose
import TxdbusModel.Proofs.Auth.ServerConform
import TxdbusModel.Proofs.Auth.ServerRealSafe
import TxdbusModel.Proofs.Auth.ServerMulti
import TxdbusModel.Proofs.Auth.ServerMultiExt
/-!
# C06 - the bus authenticates a peer only after a mechanism accepted it

Code model: `Auth/Server.lean` (BusAuthenticator), `Auth/Mechs.lean` (scripted and real mechanisms),
`Auth/ServerLines.lean` (line mode of dataReceived).  Spec: `Auth/SpecServer.lean`.  Vocabulary over the
ghost log: `Auth/ServerTrace.lean`.  All theorems quantify over every mechanism system `S` (so over every
script of outcomes of the scripted mechanisms and every environment of the real ones), every initial
world `w`, every list of reads.
-/
namespace Txdbus.C06

open Txdbus.AuthServer Txdbus.Gen.ServerAuth

/-! ## tables (regenerated from the source on every run; editing the source breaks these) -/

theorem table_maxAuthLength : maxAuthLength = 16384 := by decide
theorem table_maxRejects : maxRejects = 5 := by decide
theorem table_delimiter : authDelimiter = [13, 10] := by decide
/-- `MAX_AUTH_LENGTH + len(delimiter) - 1` (repair 839b5f3): a remainder may hold a maximum-length line
and the first byte of its delimiter. -/
theorem table_remainderLimit : remainderLimit = maxAuthLength + 1 := remainderLimit_eq
theorem table_mechanisms :
    real.offered = [lit "EXTERNAL", lit "DBUS_COOKIE_SHA1", lit "ANONYMOUS"] := by decide
/-- The REJECTED line the model computes is the `reject_msg` the constructor computes. -/
theorem table_rejectMsg : rejectLine real = rejectMsg := by decide
theorem table_commands :
    commands = ["AUTH", "BEGIN", "CANCEL", "DATA", "ERROR", "NEGOTIATE_UNIX_FD"] := by decide
theorem table_states : stateNames = ["WaitingForAuth", "WaitingForBegin", "WaitingForData"] := by decide
theorem table_words :
    wRejected = lit "REJECTED " ∧ wOk = lit "OK " ∧ wData = lit "DATA " ∧ wError = lit "ERROR" ∧
    wErrorSp = lit "ERROR " ∧ wUnknown = lit "\"Unknown command\"" := by decide

/-- cookie expiry (seconds) and the sizes of the two `os.urandom` calls -/
theorem table_cookie : cookieExpiry = 30 ∧ cookieRandomBytes = 24 ∧ challengeRandomBytes = 8 := by decide

variable {W I : Type} (S : MechSys W I)

/-! ## 1. safety -/

/-- If a run ends authenticated (`connectionAuthenticated()` ran), the handled lines decompose as
`pre ++ a :: (mid ++ [b])`: the mechanism step of line `a` returned accept for a mechanism of the offered
table, `b` is BEGIN and the last line handled, and no line between them caused a rejection. -/
theorem authenticated_only_after_accept (guid : Bytes) (w : W) (reads : List Bytes)
    (h : (runReads S (Proto.init guid w) reads).authenticated = true) :
    AuthWitness S.offered (runReads S (Proto.init guid w) reads).log :=
  ((runReads_inv S guid _ reads (inv_init S guid w)).2.1 h).1

/-! ## 2. the specification's state table -/

/-- One line: from a state where BEGIN has not been accepted and (outside WaitingForAuth) a mechanism is in
progress, unless an exception other than DBusAuthenticationFailed escapes, the reply and the next state
are those of the DBus specification's server table; REJECTED carries the mechanism list (`Reply.matches`). -/
theorem refines_spec_server_line (s : Server W I) (line : Bytes) (hinv : Inv2 s)
    (h : (handle S s line).res ≠ .crash) :
    (Spec.step S.offered maxRejects (absSrv s) (Spec.parse line) (verdictOf (handle S s line).mech)).1
      = absOut (handle S s line) ∧
    (Spec.step S.offered maxRejects (absSrv s) (Spec.parse line) (verdictOf (handle S s line).mech)).2.matches
      s.serverGuid (handle S s line).sent = true :=
  handle_refines S s line hinv h

/-- A whole run: feeding the handled lines (with the mechanisms' verdicts) to the specification's table
reproduces every reply (`ok`); as long as the connection is open and unauthenticated the table's state is
the authenticator's state and reject count; an authenticated run ends in the table's `authenticated`
phase; an exception can only be the last thing that happened. -/
theorem refines_spec_server (guid : Bytes) (w : W) (reads : List Bytes) :
    let p := runReads S (Proto.init guid w) reads
    (specRun S.offered maxRejects guid p.log).ok = true ∧
    (p.crashed = false → (specRun S.offered maxRejects guid p.log).crashSeen = false) ∧
    (p.closed = false → p.crashed = false → p.authenticated = false →
      (specRun S.offered maxRejects guid p.log).st = ⟨phaseOf p.srv.state, p.srv.rejects⟩) ∧
    (p.authenticated = true → (specRun S.offered maxRejects guid p.log).st.phase = .authenticated) := by
  intro p
  have h := runReads_inv S guid _ reads (inv_init S guid w)
  exact ⟨h.2.2.1, h.2.2.2.1, fun a b c => (h.1 a b c).2.2.2.2.1, fun a => (h.2.1 a).2.1⟩

/-- The connection is authenticated exactly when the specification's table, run over the handled lines, is in
its `authenticated` phase: whenever the table says "accept + BEGIN", `connectionAuthenticated()` ran (liveness),
and never otherwise (safety). -/
theorem authenticated_iff_spec (guid : Bytes) (w : W) (reads : List Bytes) :
    (runReads S (Proto.init guid w) reads).authenticated = true ↔
      (specRun S.offered maxRejects guid (runReads S (Proto.init guid w) reads).log).st.phase = .authenticated := by
  have h := runReads_inv S guid _ reads (inv_init S guid w)
  constructor
  · exact fun a => (h.2.1 a).2.1
  · intro hp
    cases ha : (runReads S (Proto.init guid w) reads).authenticated with
    | true => rfl
    | false => exact absurd hp (h.2.2.2.2 ha)

/-- A mechanism step happens on a line exactly when the table consults the mechanism there: AUTH of an offered
mechanism with a usable response in WaitingForAuth, DATA with a usable response in WaitingForData (so "answered by
the mechanism's verdict" is not vacuous: a model that never stepped the mechanism would fail this). -/
theorem mechanism_consulted_iff_table_asks (s : Server W I) (line : Bytes) (hinv : Inv2 s)
    (hu : utf8Valid (splitCmd line).1 = true) :
    (handle S s line).mech.isSome = asksMech S.offered s.state (Spec.parse line) :=
  mechanism_consulted_iff S s line hinv hu

/-! ## 2b. no exception escapes -/

/-- The real mechanisms never raise: over `real`, for every environment and every list of non-empty reads, if an
exception escaped `dataReceived` then one of the handled lines has a command word that is not valid UTF-8 (the
stated assumption).  In particular `cancel()` after any history and `getUserName()` at BEGIN cannot raise
(repairs C06-04, C06-05; undoing either in `Auth/Mechs.lean` breaks `real_safe`). -/
theorem real_mechanisms_never_raise (guid : Bytes) (w : RealWorld) (reads : List Bytes)
    (hall : ∀ r ∈ reads, r ≠ [])
    (hc : (runReads real (Proto.init guid w) reads).crashed = true) :
    ∃ e ∈ (runReads real (Proto.init guid w) reads).log, utf8Valid (splitCmd e.line).1 = false :=
  (runReads_nc real real_safe guid _ reads hall (inv_init real guid w) (nc_init guid w)).2 hc

/-- The same for the scripted mechanisms (every outcome script). -/
theorem scripted_never_raise (offered : List Bytes) (guid : Bytes) (w : ScriptWorld) (reads : List Bytes)
    (hall : ∀ r ∈ reads, r ≠ [])
    (hc : (runReads (scripted offered) (Proto.init guid w) reads).crashed = true) :
    ∃ e ∈ (runReads (scripted offered) (Proto.init guid w) reads).log, utf8Valid (splitCmd e.line).1 = false :=
  (runReads_nc (scripted offered) (scripted_safe offered) guid _ reads hall
    (inv_init (scripted offered) guid w) (nc_init guid w)).2 hc

/-- One line, any mechanism system that keeps its `cancel()` / `getUserName()` from raising (`MechSafe`). -/
theorem line_never_raises {Fresh : I → Prop} {G : W → I → Prop} (hs : MechSafe S Fresh G) (s : Server W I)
    (line : Bytes) (hg : CurGood G s) (hinv : Inv2 s) (hu : utf8Valid (splitCmd line).1 = true) :
    (handle S s line).res ≠ .crash :=
  (handle_no_crash S hs s line hg hinv hu).1

/-- Witness: before repair C06-04 `cancel()` raised after a rejected cookie response. -/
theorem prefix_double_delete_witness :
    (real.cancel (cookieStepTwoPre w0 c0 []).1 (.cookie (cookieStepTwoPre w0 c0 []).2.1)).isNone = true ∧
    (real.cancel (cookieStepTwo w0 c0 []).1 (.cookie (cookieStepTwo w0 c0 []).2.1)).isSome = true :=
  prefix_cookie_double_delete_raises

/-! ## 3. closing -/

/-- `loseConnection` happened exactly when: the initial NUL is missing, or a handled line was BEGIN out of
turn or a rejection over `MAX_REJECTS_ALLOWED`, or a complete line is longer than `MAX_AUTH_LENGTH`, or the
unterminated remainder is longer than `MAX_AUTH_LENGTH + 1` - for every run that neither authenticated nor
died of an exception, under every splitting into non-empty reads. -/
theorem closes_exactly_when (guid : Bytes) (w : W) (reads : List Bytes) (hne : reads ≠ [])
    (hall : ∀ r ∈ reads, r ≠ [])
    (hcr : (runReads S (Proto.init guid w) reads).crashed = false)
    (hau : (runReads S (Proto.init guid w) reads).authenticated = false) :
    (runReads S (Proto.init guid w) reads).closed = true ↔
      CloseCause reads.flatten (runReads S (Proto.init guid w) reads).log := by
  have hs := (runReads_sim_whole S (Proto.init guid w) reads hne hall).obs
  have e1 : (runReads S (Proto.init guid w) reads).closed = (recv S (Proto.init guid w) reads.flatten).closed :=
    congrArg Obs.closed hs
  have e2 : (runReads S (Proto.init guid w) reads).crashed = (recv S (Proto.init guid w) reads.flatten).crashed :=
    congrArg Obs.crashed hs
  have e3 : (runReads S (Proto.init guid w) reads).authenticated =
      (recv S (Proto.init guid w) reads.flatten).authenticated := congrArg Obs.authenticated hs
  have e4 : (runReads S (Proto.init guid w) reads).log = (recv S (Proto.init guid w) reads.flatten).log :=
    congrArg Obs.log hs
  have hflat : reads.flatten ≠ [] := by
    cases reads with
    | nil => exact absurd rfl hne
    | cons a t =>
      have := hall a (by simp)
      simp [this]
  rw [e1, e4]
  exact whole_read_closed S guid w reads.flatten hflat (e2 ▸ hcr) (e3 ▸ hau)

/-- An authenticated connection was not closed by the handshake. -/
theorem authenticated_not_closed (guid : Bytes) (w : W) (reads : List Bytes)
    (h : (runReads S (Proto.init guid w) reads).authenticated = true) :
    (runReads S (Proto.init guid w) reads).closed = false :=
  ((runReads_inv S guid _ reads (inv_init S guid w)).2.1 h).2.2

/-- After `loseConnection` (before authentication) no further line is processed: nothing more is handed to
the authenticator, nothing is written, the connection never becomes authenticated. -/
theorem no_line_processed_after_close (p : Proto W I) (d : Bytes) (hd : d ≠ []) (hc : p.closed = true)
    (ha : p.authenticated = false) :
    (recv S p d).log = p.log ∧ (recv S p d).sent = p.sent ∧ (recv S p d).authenticated = false ∧
    (recv S p d).closed = true := by
  have := recv_dead S p d hd ⟨Or.inl hc, ha⟩
  have ho := this.2
  refine ⟨congrArg Obs.log ho, congrArg Obs.sent ho, ?_, ?_⟩
  · exact (congrArg Obs.authenticated ho).trans ha
  · exact (congrArg Obs.closed ho).trans hc

/-- The reject counter of an open connection is the number of rejections in the log. -/
theorem rejections_counted (guid : Bytes) (w : W) (reads : List Bytes) :
    let p := runReads S (Proto.init guid w) reads
    p.closed = false → p.crashed = false → p.authenticated = false →
      p.srv.rejects = countRejections p.log := by
  intro p a b c
  exact ((runReads_inv S guid _ reads (inv_init S guid w)).1 a b c).2.2.2.2.2

/-! ## 4. conforming clients, wrong cookies -/

/-- The three conforming conversations of the property statement are accepted by the real mechanisms,
under every splitting of their bytes into non-empty reads:
ANONYMOUS; EXTERNAL when the peer credentials are available and the peer uid has a passwd entry;
DBUS_COOKIE_SHA1 for a user name with a passwd entry whose keyring directory is usable or absent, answering
the challenge with `hexlify(sha1(challenge:cc:cookie))`. -/
theorem conforming_client_accepted (guid : Bytes) (w : RealWorld) :
    (∀ reads : List Bytes, (∀ r ∈ reads, r ≠ []) →
        reads.flatten = 0 :: encodeLines [lit "AUTH ANONYMOUS", lit "BEGIN"] →
        (runReads real (Proto.init guid w) reads).authenticated = true ∧
        (runReads real (Proto.init guid w) reads).closed = false) ∧
    (∀ (uid : Int) (e : PwEnt), w.cfg.creds = some uid → getpwuidI w.cfg uid = some e →
      ∀ reads : List Bytes, (∀ r ∈ reads, r ≠ []) →
        reads.flatten = 0 :: encodeLines [lit "AUTH EXTERNAL", lit "DATA", lit "BEGIN"] →
        (runReads real (Proto.init guid w) reads).authenticated = true ∧
        (runReads real (Proto.init guid w) reads).closed = false ∧
        (runReads real (Proto.init guid w) reads).guid = some e.name) ∧
    (∀ (arg user cc : Bytes) (e : PwEnt),
      arg ≠ [] → isAscii arg = true → resolveUser w.cfg arg = some user → arg.length ≤ 8000 →
      getpwnam w.cfg user = some e → lookupDir w e.home ≠ .bad →
      cc ≠ [] → NoSpace cc → isAscii cc = true → cc.length ≤ 8000 →
      (∀ x, (w.cfg.sha1 x).length = 20) →
      ∃ chal cookie : Bytes, ∀ reads : List Bytes, (∀ r ∈ reads, r ≠ []) →
        reads.flatten =
          0 :: encodeLines [cookieAuthLine arg, cookieDataLine w.cfg.sha1 chal cc cookie, lit "BEGIN"] →
        (runReads real (Proto.init guid w) reads).authenticated = true ∧
        (runReads real (Proto.init guid w) reads).closed = false ∧
        (runReads real (Proto.init guid w) reads).guid = some user) := by
  refine ⟨?_, ?_, ?_⟩
  · intro reads hall hflat
    have := anonymous_accepted guid w reads hall hflat
    exact ⟨this.1, this.2.1⟩
  · intro uid e hc hu reads hall hflat
    exact external_accepted guid w uid e hc hu reads hall hflat
  · intro arg user cc e h1 h2 h3 h4 h5 h6 h7 h8 h9 h10 h11
    exact cookie_accepted guid w arg user cc e h1 h2 h3 h4 h5 h6 h7 h8 h9 h10 h11

/-- The line-level form with what the client reads: after `AUTH DBUS_COOKIE_SHA1 <hex user>` the DATA reply
carries `<context> <id> <challenge>` and the user's keyring file ends with the entry `(id, now, cookie)`;
answering with that challenge and cookie gives OK, and BEGIN authenticates as `user`. -/
theorem cookie_conversation (s : Server RealWorld Inst) (arg user cc : Bytes) (e : PwEnt)
    (hs : s.state = .waitingForAuth)
    (hu0 : arg ≠ []) (hua : isAscii arg = true) (hup : resolveUser s.world.cfg arg = some user)
    (hun : getpwnam s.world.cfg user = some e) (hud : lookupDir s.world e.home ≠ .bad)
    (hcc : cc ≠ []) (hncc : NoSpace cc) (hcca : isAscii cc = true)
    (hsha : ∀ x, s.world.cfg.sha1 x ≠ []) :
    ∃ (c1 : CookieSt) (cid : Nat),
      (handle real s (cookieAuthLine arg)).sent =
        [wData ++ hexlify (s.world.cfg.ctx ++ 32 :: natToDec cid ++ 32 :: c1.challenge)] ∧
      (∃ old, lookupFile (handle real s (cookieAuthLine arg)).srv.world e.home =
        some (old ++ [⟨cid, s.world.cfg.now, c1.cookie⟩])) ∧
      (handle real (handle real s (cookieAuthLine arg)).srv
        (cookieDataLine s.world.cfg.sha1 c1.challenge cc c1.cookie)).sent = [wOk ++ s.serverGuid] ∧
      (handle real (handle real (handle real s (cookieAuthLine arg)).srv
        (cookieDataLine s.world.cfg.sha1 c1.challenge cc c1.cookie)).srv (lit "BEGIN")).srv.authenticated = true ∧
      (handle real (handle real (handle real s (cookieAuthLine arg)).srv
        (cookieDataLine s.world.cfg.sha1 c1.challenge cc c1.cookie)).srv (lit "BEGIN")).srv.guid = some user := by
  obtain ⟨c1, cid, _, _, a3, a4, _, a6, _, _, a9, a10⟩ :=
    cookie_lines s arg user cc e hs hu0 hua hup hun hud hcc hncc hcca hsha
  exact ⟨c1, cid, a3, a4, a6, a9, a10⟩

/-- The forms real clients use, from every open state at a line boundary that waits for AUTH (fresh after the
NUL byte, or after earlier rejected attempts below the limit), under every splitting:
ANONYMOUS with or without an initial response (txdbus's own client sends the trace `AUTH ANONYMOUS 747864627573`);
EXTERNAL with or without a claimed identity (`AUTH EXTERNAL 31303030`) then DATA; each followed by any number of
NEGOTIATE_UNIX_FD (answered ERROR) and BEGIN; DBUS_COOKIE_SHA1 with the user given by name or by uid. -/
theorem conforming_client_accepted_from (p : Proto RealWorld Inst) (hp : ReadyForAuth p) :
    (∀ (resp : Option Bytes) (k : Nat), GoodResp resp → (∀ t, resp = some t → t.length ≤ 8000) →
      ∀ reads : List Bytes, (∀ r ∈ reads, r ≠ []) →
        reads.flatten = encodeLines (authLineOf (lit "ANONYMOUS") resp :: tailLines k) →
        (runReads real p reads).authenticated = true ∧ (runReads real p reads).closed = false ∧
        (runReads real p reads).guid = some anonymousUser) ∧
    (∀ (uid : Int) (e : PwEnt) (resp : Option Bytes) (k : Nat),
      p.srv.world.cfg.creds = some uid → getpwuidI p.srv.world.cfg uid = some e →
      GoodResp resp → (∀ t, resp = some t → t.length ≤ 8000) →
      ∀ reads : List Bytes, (∀ r ∈ reads, r ≠ []) →
        reads.flatten = encodeLines (authLineOf (lit "EXTERNAL") resp :: lit "DATA" :: tailLines k) →
        (runReads real p reads).authenticated = true ∧ (runReads real p reads).closed = false ∧
        (runReads real p reads).guid = some e.name) ∧
    (∀ (arg user cc : Bytes) (e : PwEnt),
      arg ≠ [] → isAscii arg = true → resolveUser p.srv.world.cfg arg = some user → arg.length ≤ 8000 →
      getpwnam p.srv.world.cfg user = some e → lookupDir p.srv.world e.home ≠ .bad →
      cc ≠ [] → NoSpace cc → isAscii cc = true → cc.length ≤ 8000 →
      (∀ x, (p.srv.world.cfg.sha1 x).length = 20) →
      ∃ chal cookie : Bytes, ∀ reads : List Bytes, (∀ r ∈ reads, r ≠ []) →
        reads.flatten =
          encodeLines [cookieAuthLine arg, cookieDataLine p.srv.world.cfg.sha1 chal cc cookie, lit "BEGIN"] →
        (runReads real p reads).authenticated = true ∧ (runReads real p reads).closed = false ∧
        (runReads real p reads).guid = some user) := by
  refine ⟨?_, ?_, ?_⟩
  · intro resp k hr hrl reads hall hflat
    exact anonymous_accepted_from p hp resp hr hrl k reads hall hflat
  · intro uid e resp k hc hu hr hrl reads hall hflat
    exact external_accepted_from p hp uid e hc hu resp hr hrl k reads hall hflat
  · intro arg user cc e h1 h2 h3 h4 h5 h6 h7 h8 h9 h10 h11
    exact cookie_accepted_from p hp arg user cc e h1 h2 h3 h4 h5 h6 h7 h8 h9 h10 h11

/-- The accepted hash is over the challenge that was sent and the cookie that is in the file: if a fresh
DBUS_COOKIE_SHA1 instance answers a challenge `msg` and then accepts, `msg = <context> <id> <chal>`, the keyring file
ends with `(id, now, cookie)` right after the first step, and the response was `<cc> <hexlify(sha1(chal:cc:cookie))>`. -/
theorem cookie_accept_tied_to_challenge (w : RealWorld) (a1 a2 : Option Bytes) (msg : Bytes)
    (h1 : (cookieStep w CookieSt.init a1).2.2 = .challenge msg)
    (h2 : (cookieStep (cookieStep w CookieSt.init a1).1 (cookieStep w CookieSt.init a1).2.1 a2).2.2 = .accept) :
    ∃ (id : Nat) (chal cookie cc resp : Bytes),
      msg = w.cfg.ctx ++ 32 :: natToDec id ++ 32 :: chal ∧
      (∃ old, lookupFile (cookieStep w CookieSt.init a1).1 (cookieStep w CookieSt.init a1).2.1.home =
        some (old ++ [⟨id, w.cfg.now, cookie⟩])) ∧
      a2 = some resp ∧ splitWs resp = [cc, cookieHash w.cfg.sha1 chal cc cookie] :=
  cookie_exchange_tied w a1 a2 msg h1 h2

/-- DBUS_COOKIE_SHA1 returns accept only on its second step and only for a response `<cc> <hash>` with
`hash = hexlify(sha1(server_challenge:cc:cookie))`: a wrong cookie response is never accepted. -/
theorem wrong_cookie_never_accepted (w : RealWorld) (c : CookieSt) (arg : Option Bytes)
    (h : (real.step w (.cookie c) arg).2.2 = .accept) :
    c.stepNum = 1 ∧ ∃ a cc hh, arg = some a ∧ splitWs a = [cc, hh] ∧
      hh = cookieHash w.cfg.sha1 c.challenge cc c.cookie :=
  cookieStep_accept w c arg h

/-! ## 5. the line framing does not depend on the splitting -/

/-- Two splittings of the same bytes into non-empty reads give the same lines handed to the authenticator
(`log`), the same lines written, the same closed / authenticated / crashed flags, guid, authenticator state
and bytes handed to the binary branch. -/
theorem line_partition_independent (guid : Bytes) (w : W) (r1 r2 : List Bytes)
    (h1 : ∀ r ∈ r1, r ≠ []) (h2 : ∀ r ∈ r2, r ≠ []) (hflat : r1.flatten = r2.flatten) :
    (runReads S (Proto.init guid w) r1).obs = (runReads S (Proto.init guid w) r2).obs := by
  cases r1 with
  | nil =>
    cases r2 with
    | nil => rfl
    | cons a t =>
      have := h2 a (by simp)
      simp at hflat
      exact absurd hflat.1 this
  | cons a t =>
    have hne1 : a :: t ≠ [] := by simp
    have hne2 : r2 ≠ [] := by
      intro h0
      rw [h0] at hflat
      have := h1 a (by simp)
      simp at hflat
      exact this hflat.1
    have s1 := (runReads_sim_whole S (Proto.init guid w) (a :: t) hne1 h1).obs
    have s2 := (runReads_sim_whole S (Proto.init guid w) r2 hne2 h2).obs
    rw [s1, s2, hflat]

/-! ## the hypotheses are satisfiable -/


/-! ## several connections of one bus process (`Auth/ServerMulti.lean`)

A bus serves many connections at once; their reads interleave arbitrarily, connections come and go, the clock
advances, and the connections of the real mechanisms share one keyring.  `G` is the state outside the protocol
objects, `V` how a connection finds its world in it (`Multi.scriptedView`: private scripts; `Multi.realView`:
one environment, private peer credentials). -/

section bus
open Txdbus.AuthServer.Multi
variable {G : Type} (V : View G W)

/-- 1 on a shared bus.  After ANY history of connects, reads on any connection, losses and changes of the outside,
every connection for which `connectionAuthenticated()` ran has in its OWN log an accept of an offered mechanism,
then only non-rejecting lines, then BEGIN as the last line it handled - whatever the other connections did to the
shared world in between - and it is not closed. -/
theorem bus_authenticated_only_after_accept (guid : Bytes) (g : G) (evs : List (Event G)) :
    ∀ c ∈ (Multi.run S V guid (Bus.init g : Bus G W I) evs).conns,
      c.proto.authenticated = true → AuthWitness S.offered c.proto.log ∧ c.proto.closed = false :=
  Multi.bus_authenticated_only_after_accept S V guid g evs

/-- 2 on a shared bus: every connection's replies are the specification table's along its own log, an unauthenticated
connection's table is not in `authenticated`, and the rejection counter of an open connection counts ITS rejections. -/
theorem bus_refines_spec (guid : Bytes) (g : G) (evs : List (Event G)) :
    ∀ c ∈ (Multi.run S V guid (Bus.init g : Bus G W I) evs).conns,
      (specRun S.offered maxRejects guid c.proto.log).ok = true ∧
      (c.proto.authenticated = false →
        (specRun S.offered maxRejects guid c.proto.log).st.phase ≠ .authenticated) ∧
      (c.proto.closed = false → c.proto.crashed = false → c.proto.authenticated = false →
        c.proto.srv.rejects = countRejections c.proto.log) :=
  Multi.bus_refines_spec S V guid g evs

/-- With a private view (the scripted mechanisms: one outcome script per connection) a connection is a function of
its own reads: after any history of the whole bus its state is what the single-connection model (`runReads`, the
subject of every theorem above) reaches on the reads delivered to it - rejections, cancelled or half-finished
exchanges, closed or crashed neighbours leave no trace on it. -/
theorem bus_connections_independent (hV : Private V) (guid : Bytes) (b : Bus G W I) (evs : List (Event G))
    (hb : Coherent V b) (he : EnvKeeps V evs) (k : Nat) (c : Conn W I) (hk : b.conns[k]? = some c)
    (hl : c.lost = false) :
    ∃ c', (Multi.run S V guid b evs).conns[k]? = some c' ∧ c'.proto = runReads S c.proto (readsOf k evs) :=
  Multi.private_independent S V guid hV b evs hb he k c hk hl

/-- The scripted mechanisms of the harness are such a private view. -/
theorem bus_scripted_private : Private scriptedView := scriptedView_private

/-- EXTERNAL on a shared bus (real mechanisms, one environment, every connection with the peer credentials its own
socket reported): after any history in which the outside does not rewrite those credentials, the EXTERNAL instance
that connection `k` holds was built from the credentials of connection `k`. -/
theorem bus_external_own_credentials (guid : Bytes) (g : RealBus) (evs : List (Event RealBus))
    (he : EnvKeepsCreds evs) :
    ∀ k c, (Multi.run real realView guid (Bus.init g) evs).conns[k]? = some c →
      ∀ n ok cr, c.proto.srv.cur = some (n, .ext ok cr) → cr = g.creds k :=
  Multi.bus_external_own_credentials guid g evs he

/-- ... and such an instance says accept only when those credentials have a passwd entry (whose name is what
`getUserName()` returns, i.e. the identity BEGIN records: `real_user_ext`). -/
theorem external_accept_has_entry (w : RealWorld) (ok : Bool) (cr : Option Int) (a : Option Bytes)
    (h : (real.step w (.ext ok cr) a).2.2 = .accept) :
    ∃ uid e, cr = some uid ∧ getpwuidI w.cfg uid = some e :=
  Multi.external_accept_has_entry w ok cr a h

end bus

section examples

private def g : Bytes := lit "guid"

/-- a run that ends authenticated exists (hypothesis of `authenticated_only_after_accept`,
`authenticated_not_closed`): the ANONYMOUS conversation, here split between CR and LF -/
example (w : RealWorld) :
    (runReads real (Proto.init g w) [0 :: lit "AUTH ANONYMOUS\r", lit "\nBEGIN\r\n"]).authenticated = true :=
  (anonymous_accepted g w _ (by decide) (by decide)).1

/-- a run that neither crashed nor authenticated exists (hypotheses of `closes_exactly_when`) -/
example (w : W) : (runReads S (Proto.init g w) [[0]]).crashed = false ∧
    (runReads S (Proto.init g w) [[0]]).authenticated = false := by
  simp [runReads, recv, Proto.init, recvLines, Proto.dropFirst, Proto.setBuf, splitCRLF, lineLoop, remainderLimit,
    maxAuthLength, authDelimiter, remainderSlack]

/-- `Inv2` holds initially (hypothesis of `refines_spec_server_line`) -/
example (w : W) : Inv2 (Server.init (W := W) (I := I) g w) := ⟨fun h => absurd rfl h, rfl⟩

/-- a closed, unauthenticated state exists (hypotheses of `no_line_processed_after_close`) -/
example (w : W) : (Proto.init (W := W) (I := I) g w).close.closed = true ∧
    (Proto.init (W := W) (I := I) g w).close.authenticated = false := ⟨rfl, rfl⟩

/-- the environment hypotheses of the cookie conversation are satisfiable: a user name that is not a number -/
example : parseInt (lit "alice") = none ∧ isAscii (lit "alice") = true ∧ NoSpace (lit "636c69656e74") := by
  refine ⟨by decide, by decide, ?_⟩
  unfold NoSpace; decide

/-- `ReadyForAuth` is satisfiable: a fresh connection after its NUL byte -/
example (w : RealWorld) : ReadyForAuth (Proto.init g w : Proto RealWorld Inst).dropFirst :=
  ⟨rfl, rfl, rfl, rfl, rfl, rfl, rfl⟩

/-- a user given by uid resolves through passwd (hypothesis `resolveUser ... = some user`) -/
example : resolveUser ⟨none, [⟨lit "alice", 1000, 1001, lit "/home/alice"⟩], 0, false, fun _ _ => [], fun _ => [], []⟩
    (lit "1000") = some (lit "alice") := by decide

end examples

end Txdbus.C06

#print axioms Txdbus.C06.authenticated_only_after_accept
#print axioms Txdbus.C06.refines_spec_server_line
#print axioms Txdbus.C06.refines_spec_server
#print axioms Txdbus.C06.closes_exactly_when
#print axioms Txdbus.C06.authenticated_not_closed
#print axioms Txdbus.C06.no_line_processed_after_close
#print axioms Txdbus.C06.rejections_counted
#print axioms Txdbus.C06.conforming_client_accepted
#print axioms Txdbus.C06.cookie_conversation
#print axioms Txdbus.C06.wrong_cookie_never_accepted
#print axioms Txdbus.C06.line_partition_independent
#print axioms Txdbus.C06.authenticated_iff_spec
#print axioms Txdbus.C06.mechanism_consulted_iff_table_asks
#print axioms Txdbus.C06.real_mechanisms_never_raise
#print axioms Txdbus.C06.scripted_never_raise
#print axioms Txdbus.C06.line_never_raises
#print axioms Txdbus.C06.prefix_double_delete_witness
#print axioms Txdbus.C06.conforming_client_accepted_from
#print axioms Txdbus.C06.cookie_accept_tied_to_challenge
#print axioms Txdbus.C06.table_maxAuthLength
#print axioms Txdbus.C06.table_maxRejects
#print axioms Txdbus.C06.table_delimiter
#print axioms Txdbus.C06.table_remainderLimit
#print axioms Txdbus.C06.table_mechanisms
#print axioms Txdbus.C06.table_rejectMsg
#print axioms Txdbus.C06.table_commands
#print axioms Txdbus.C06.table_states
#print axioms Txdbus.C06.table_words
#print axioms Txdbus.C06.table_cookie
#print axioms Txdbus.C06.bus_authenticated_only_after_accept
#print axioms Txdbus.C06.bus_refines_spec
#print axioms Txdbus.C06.bus_connections_independent
#print axioms Txdbus.C06.bus_scripted_private
#print axioms Txdbus.C06.bus_external_own_credentials
#print axioms Txdbus.C06.external_accept_has_entry
