import TxdbusModel.Proofs.Net.EndToEnd
import TxdbusModel.Proofs.Net.Link
import TxdbusModel.Proofs.Net.Progress
import TxdbusModel.Net.OldBus
/-!
# C11 - a call through a proxy reaches the remote method and returns what it returned

Model: `TxdbusModel/Net/Compose.lean` - N clients and the bus at message level; the scheduler is the
list of steps (`call`, `toBus`, `toClient`, `resolve`).  The behaviour of every exported method
invocation is part of the step that triggers it, so the theorems quantify over ALL worlds (exported
declarations, encodability, validator), ALL numbers of clients, ALL calls, ALL behaviours and ALL
schedules; there is no bound on anything.  Quiescence (all queues empty, no unfired Deferred) replaces
a fairness assumption.

* `link_refinement`       a byte FIFO cut into arbitrary reads, framed and parsed, is a FIFO of messages
                          (from the codec laws proved by C04 `binary_partition_independent`,
                          `frames_of_messages` and C03 `parse_marshal`; see Proofs/Net/Link.lean)
* `call_stage_invariant`  in every reachable state every issued call holds exactly one token (one of
                          seven stages) and every item in every queue belongs to an issued call and
                          sits where that call's record says; replies carry the logged answer
* `C11_end_to_end`        in every quiescent reachable state every issued call to an attached client is
                          completed exactly once, answered exactly once, its completion is the
                          conversion of that answer; it was invoked exactly once on the exporter with
                          equal arguments iff the exporter's declaration accepts it
* `quiescence_reachable`, `C11_completion_always_reachable`   from every state some schedule reaches quiescence
                          (no message or Deferred can get stuck), hence every issued call can be completed
* `C11_returns_what_it_returned`   what that completion is, in the words of the property: the returned
                          value / the list of returned values / None, or RemoteError mirroring the
                          exception (and the two documented conventions: a single struct comes back
                          wrapped in a list, an invalid error name is replaced)
-/
namespace Txdbus.Net

variable {V : Type}

/-! ## 1. the link assumption -/

/-- **C11.1**  For every codec satisfying the framing/parsing laws, every list of messages and every way
of cutting their byte stream into reads (empty reads, several messages per read, cuts inside a message):
the receiver completes exactly the sent messages, in order, each once, normalised, with nothing left in
its buffer; and after any prefix of the reads it has completed a prefix of them. -/
theorem link_refinement {M B : Type} (C : Codec M B) (h : C.Laws) (ms : List M) (reads : List (List B))
    (hcut : reads.flatten = C.stream ms) :
    C.recv [] reads = (ms.map C.norm, []) ∧
    ∀ k, ∃ later, (C.recv [] (reads.take k)).1 ++ later = ms.map C.norm := by
  have total : C.recv [] reads = (ms.map C.norm, []) := by
    rw [C.recv_flatten h, hcut, C.feed_stream h]
  refine ⟨total, fun k => ?_⟩
  have hsplit : reads.flatten = (reads.take k).flatten ++ (reads.drop k).flatten := by
    rw [← List.flatten_append, List.take_append_drop]
  have := C.recv_flatten h [] reads
  rw [total, hsplit, h.split] at this
  refine ⟨(C.feed (C.feed [] (reads.take k).flatten).2 (reads.drop k).flatten).1, ?_⟩
  rw [C.recv_flatten h]
  exact (congrArg Prod.fst this).symm

/-- The laws are satisfiable: messages are their own single "byte". -/
example : (⟨fun m => [m], fun buf x => (x, buf), id⟩ : Codec Nat Nat).Laws :=
  ⟨fun buf x y => by simp, fun m => by simp, fun buf => by simp⟩

/-! ## 2. the stage invariant -/

/-- **C11.2**  Every reachable state satisfies the invariant `Inv` (Proofs/Net/Invariant.lean): for any
world, any number of clients, any first serial numbers and any list of steps. -/
theorem call_stage_invariant (w : World V) (n : Nat) (first : Nat → Nat) (steps : List (Step V)) :
    Inv w (run w (Net.init n first) steps) :=
  (Inv.init w n first).run steps

/-- The counting part spelled out: the seven stage counters of an issued call add up to one - it is in
exactly one stage - and the answers the exporter logged for it are as many as there are replies in
flight plus completions (so nothing else in any queue can complete it). -/
theorem call_in_exactly_one_stage (w : World V) (n : Nat) (first : Nat → Nat) (steps : List (Step V))
    (a : Nat) (r : CallRec V) (hr : r ∈ ((run w (Net.init n first) steps).cl a).issued) :
    let net := run w (Net.init n first) steps
    let s := stages net a r
    s.callUp + s.callDown + s.dropped + s.executing + s.replyUp + s.replyDown + s.completed = 1 ∧
    answersFor net a r = s.replyUp + s.replyDown + s.completed ∧
    invocationsFor net a r = s.executing + resultsFor net a r := by
  have inv := call_stage_invariant w n first steps
  exact ⟨inv.tok a r hr, inv.ans_cnt a r hr, inv.inv_cnt a r hr⟩

/-- The "nothing else" part spelled out for the queue that matters: every reply waiting in a client's
`down` queue answers a call that client issued, and carries `replyOf` an answer the call's destination
logged for exactly that caller and serial; every call waiting there carries the true sender. -/
theorem queues_hold_only_issued_calls (w : World V) (n : Nat) (first : Nat → Nat) (steps : List (Step V))
    (j : Nat) (m : Msg V) (hm : m ∈ ((run w (Net.init n first) steps).cl j).down) :
    DownOK w (run w (Net.init n first) steps) j m :=
  (call_stage_invariant w n first steps).down_ok j m hm

/-! ## 3. end to end -/

theorem step_n (w : World V) (net : Net V) (st : Step V) : (step w net st).n = net.n := by
  cases st <;> simp only [step] <;> split <;> try rfl
  · rename_i c hc
    rw [busStep_eq]
    cases (net.cl c).up with
    | nil => rfl
    | cons m rest =>
      simp only
      cases (m.withSender c).dest with
      | none => rfl
      | some d => simp only; split <;> rfl
  · unfold clientStep
    cases (net.cl _).down <;> rfl
  · unfold resolveStep
    cases takeExec _ (net.cl _).exec with
    | none => rfl
    | some pr => rfl

theorem run_n (w : World V) (net : Net V) (steps : List (Step V)) : (run w net steps).n = net.n := by
  induction steps generalizing net with
  | nil => rfl
  | cons st rest ih =>
    have := ih (step w net st)
    simp only [run, List.foldl] at this ⊢
    rw [this, step_n]

/-- **C11.3**  In every quiescent reachable state, every call issued by an attached client `a` to an
attached client `r.dest` is `Completed` (Proofs/Net/EndToEnd.lean): its Deferred fired exactly once with
some outcome `o`; the exporter logged exactly one answer `ans` for it, which is the verdict of
`handleMethodCallMessage` for this call; `o` is `_cbCvtReply` applied to the reply built from `ans`; and
the exported method was invoked exactly once, with the path, member and arguments of the call, if the
exporter's declaration accepts the call, and not at all otherwise. -/
theorem C11_end_to_end (w : World V) (n : Nat) (first : Nat → Nat) (steps : List (Step V))
    (hq : (run w (Net.init n first) steps).Quiescent)
    (a : Nat) (ha : a < n) (r : CallRec V) (hr : r ∈ ((run w (Net.init n first) steps).cl a).issued)
    (hd : r.dest < n) :
    ∃ o ans, Completed w (run w (Net.init n first) steps) a r o ans := by
  have inv := call_stage_invariant w n first steps
  have hn : (run w (Net.init n first) steps).n = n := run_n w _ steps
  exact inv.completed hq (by rw [hn]; exact ha) hr (by rw [hn]; exact hd)

/-- **C11.3b**  Quiescence is always within reach: from EVERY state some finite schedule of deliveries and
Deferred firings leads to a quiescent state (nothing can get stuck in a queue).  So the premise of
`C11_end_to_end` is never vacuous. -/
theorem quiescence_reachable (w : World V) (net : Net V) : ∃ steps, (run w net steps).Quiescent :=
  quiescence_reachable_aux w (potential net) net (Nat.le_refl _)

/-- **C11.3c**  The two together: whatever has happened so far (`steps`), the schedule can be continued
(`more`) to a quiescent state, and there every call issued to an attached client is `Completed`. -/
theorem C11_completion_always_reachable (w : World V) (n : Nat) (first : Nat → Nat) (steps : List (Step V)) :
    ∃ more, (run w (Net.init n first) (steps ++ more)).Quiescent ∧
      ∀ a, a < n → ∀ r, r ∈ ((run w (Net.init n first) (steps ++ more)).cl a).issued → r.dest < n →
        ∃ o ans, Completed w (run w (Net.init n first) (steps ++ more)) a r o ans := by
  obtain ⟨more, hq⟩ := quiescence_reachable w (run w (Net.init n first) steps)
  have e : run w (Net.init n first) (steps ++ more) = run w (run w (Net.init n first) steps) more := by
    simp [run, List.foldl_append]
  refine ⟨more, by rw [e]; exact hq, fun a ha r hr hd => ?_⟩
  exact C11_end_to_end w n first (steps ++ more) (by rw [e]; exact hq) a ha r hr hd

/-! ## 4. what the completion is -/

/-- **C11.4**  The completion of an accepted call whose proxy declares the same return signature as the
exporter (`retSig = some sigOut`: explicit declaration, or introspection by C15), in terms of what the
method did:

1. it returned an object that is not a list/tuple (one declared return value that is not a struct,
   encodable): the completion is that value;
2. it returned a list/tuple for one declared non-struct return value: the completion is that object;
3. it returned a sequence of values for several (or no) declared return values: the completion is the
   list of these values;
4. nothing is declared: the completion is None, whatever was returned;
5. it raised an exception: the completion is RemoteError with the exception's DBus name (its
   `dbusErrorName`, else `org.txdbus.PythonException.<class>`) and its text - provided that name is a
   valid error name; otherwise the name is `org.txdbus.InvalidErrorName` (documented);
6. one declared return value that IS a struct: the completion is the one-element list holding it (the
   convention of `_cbCvtReply` that the upstream tests pin down). -/
theorem C11_returns_what_it_returned (w : World V) (sigOut : String) (nret : Nat) :
    (∀ v, sigOut ≠ "" → sigOut.toList.head? ≠ some '(' → w.encErr sigOut [v] = none →
      outcomeOf (some sigOut) (replyOf w (.result sigOut nret (.value (.obj v)))) = .single v) ∧
    (∀ self elems, sigOut ≠ "" → sigOut.toList.head? ≠ some '(' → nret = 1 → w.encErr sigOut [self] = none →
      outcomeOf (some sigOut) (replyOf w (.result sigOut nret (.value (.seq self elems)))) = .single self) ∧
    (∀ self e1 e2 rest, sigOut ≠ "" → nret ≠ 1 → w.encErr sigOut (e1 :: e2 :: rest) = none →
      outcomeOf (some sigOut) (replyOf w (.result sigOut nret (.value (.seq self (e1 :: e2 :: rest))))) =
        .many (e1 :: e2 :: rest)) ∧
    (∀ r, sigOut = "" → outcomeOf (some sigOut) (replyOf w (.result sigOut nret (.value r))) = .none) ∧
    (∀ e : Exc, w.validErrorName (e.dbusName.getD ("org.txdbus.PythonException." ++ e.cls)) = true →
      outcomeOf (some sigOut) (replyOf w (.result sigOut nret (.raised e))) =
        .remoteError (e.dbusName.getD ("org.txdbus.PythonException." ++ e.cls)) e.text) ∧
    (∀ v, sigOut.toList.head? = some '(' → w.encErr sigOut [v] = none →
      outcomeOf (some sigOut) (replyOf w (.result sigOut nret (.value (.obj v)))) = .many [v]) := by
  refine ⟨?_, ?_, ?_, ?_, ?_, ?_⟩
  · intro v h1 h2 h3
    simp [outcomeOf, replyOf, valueReply, replyBody, cvtReply, h1, h2, h3]
  · intro self elems h1 h2 h3 h4
    simp [outcomeOf, replyOf, valueReply, replyBody, cvtReply, h1, h2, h3, h4]
  · intro self e1 e2 rest h1 h2 h3
    simp [outcomeOf, replyOf, valueReply, replyBody, cvtReply, h1, h2, h3]
  · intro r h1
    simp [outcomeOf, replyOf, valueReply, cvtReply, h1]
  · intro e h
    cases hdn : e.dbusName with
    | none =>
      simp only [hdn, Option.getD] at h
      simp [outcomeOf, replyOf, errorReply, hdn, h]
    | some nm =>
      simp only [hdn, Option.getD] at h
      simp [outcomeOf, replyOf, errorReply, hdn, h]
  · intro v h2 h3
    have h1 : sigOut ≠ "" := by
      intro e; rw [e] at h2; simp at h2
    simp [outcomeOf, replyOf, valueReply, replyBody, cvtReply, h1, h2, h3]

/-! ## 5. the hypotheses are satisfiable; the unrepaired bus violates the property -/

def exIface : Iface :=
  { name := "org.t.I", methods := [{ name := "echo", sigIn := "v", sigOut := "v", nargs := 1, nret := 1 },
                                   { name := "slow", sigIn := "", sigOut := "ss", nargs := 0, nret := 2 }] }

/-- client 2 exports `/o`; every body encodes; every error name is valid -/
def exWorld : World Nat :=
  { exports := fun j => if j = 2 then [{ path := "/o", ifaces := [exIface] }] else [],
    introspect := fun _ _ => none, managed := fun _ _ => 0, encErr := fun _ _ => none,
    validErrorName := fun _ => true }

def exProxy : Proxy := { dest := 2, path := "/o", ifaces := [exIface] }

/-- Clients 0 and 1 (both start at serial 1: the serials collide) call client 2 concurrently; the second
call returns a Deferred that fires after the first call has completed; the replies overtake each other. -/
def exSteps : List (Step Nat) :=
  [ .call 0 (.viaProxy exProxy none "echo" [7]),
    .call 1 (.viaProxy exProxy (some "org.t.I") "slow" []),
    .toBus 1, .toBus 0,
    .toClient 2 .deferred,
    .toClient 2 (.now (.value (.obj 8))),
    .toBus 2, .toClient 0 .deferred,
    .resolve 2 0 (.value (.seq 99 [5, 6])),
    .toBus 2, .toClient 1 .deferred ]

def exNet : Net Nat := run exWorld (Net.init 3 (fun _ => 1)) exSteps

/-- The example reaches a quiescent state with two issued calls to an attached client: the hypotheses of
`C11_end_to_end` are met by a non-trivial instance ... -/
example : exNet.Quiescent ∧
    (exNet.cl 0).issued.map (fun r => (r.serial, r.dest)) = [(1, 2)] ∧
    (exNet.cl 1).issued.map (fun r => (r.serial, r.dest)) = [(1, 2)] := by
  refine ⟨?_, by decide, by decide⟩
  intro j hj
  match j, hj with
  | 0, _ => decide
  | 1, _ => decide
  | 2, _ => decide
  | k + 3, h => exact absurd h (by simp [exNet, run_n, Net.init])

/-- ... and its conclusion reads: each call completed once with what its method returned, each method
ran once with the call's arguments and the true sender. -/
example : (exNet.cl 0).completions = [(1, .single 8)] ∧ (exNet.cl 1).completions = [(1, .many [5, 6])] ∧
    (exNet.cl 2).invocations =
      [{ sender := some 1, serial := 1, path := "/o", iface := "org.t.I", member := "slow", args := [] },
       { sender := some 0, serial := 1, path := "/o", iface := "org.t.I", member := "echo", args := [7] }] := by
  decide

/-- The model of the bus BEFORE the repair (Net/OldBus.lean), with a re-encoding that raises for the body
of a `v` call (the implementation: argument `(1, 2**40)`, sent as `(ix)`, re-inferred as `ai`): the call
of client 0 is issued to an attached client, the network becomes quiescent, and the call is neither
invoked nor completed.  This is the replay corpus/C11/bus-reencode-variant-struct.json. -/
theorem prefix_model_violates :
    let reenc : String → List Nat → Option (List Nat) := fun sig body => if sig = "v" then none else some body
    let net := runOld reenc exWorld (Net.init 3 (fun _ => 1)) [.call 0 (.viaProxy exProxy none "echo" [7]), .toBus 0]
    (∀ j, j < 3 → (net.cl j).up = [] ∧ (net.cl j).down = [] ∧ (net.cl j).exec = []) ∧
    (net.cl 0).issued.map (fun r => (r.serial, r.dest)) = [(1, 2)] ∧
    (net.cl 0).completions = [] ∧ (net.cl 2).invocations = [] := by
  decide

end Txdbus.Net

#print axioms Txdbus.Net.link_refinement
#print axioms Txdbus.Net.call_stage_invariant
#print axioms Txdbus.Net.call_in_exactly_one_stage
#print axioms Txdbus.Net.queues_hold_only_issued_calls
#print axioms Txdbus.Net.step_n
#print axioms Txdbus.Net.run_n
#print axioms Txdbus.Net.C11_end_to_end
#print axioms Txdbus.Net.quiescence_reachable
#print axioms Txdbus.Net.C11_completion_always_reachable
#print axioms Txdbus.Net.C11_returns_what_it_returned
#print axioms Txdbus.Net.prefix_model_violates
