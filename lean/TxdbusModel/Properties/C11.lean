/-! Property theorems for C11 (stub: none yet). -/
