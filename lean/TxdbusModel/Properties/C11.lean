import TxdbusModel.Proofs.Net.EndToEnd
import TxdbusModel.Proofs.Net.Link
import TxdbusModel.Proofs.Net.LinkTxdbus
import TxdbusModel.Proofs.Net.Progress
import TxdbusModel.Proofs.Net.Agree
import TxdbusModel.Proofs.Net.Introspected
import TxdbusModel.Proofs.Net.BytesSim
import TxdbusModel.Proofs.Net.BytesProgress
import TxdbusModel.Proofs.Net.GetProxy
import TxdbusModel.Proofs.Net.BytesHandshake
import TxdbusModel.Proofs.Net.CodecC03
import TxdbusModel.Net.OldBus
/-!
# C11 - a call through a proxy reaches the remote method and returns what it returned

Model: `TxdbusModel/Net/Compose.lean` - N clients and the bus at message level; the scheduler is the
list of steps (`call`, `toBus`, `toClient`, `resolve`).  The behaviour of every exported method
invocation is part of the step that triggers it, so the theorems quantify over all worlds (exported class
chains and declarations, encodability, validator), all numbers of clients, all calls, all behaviours of the
forms `now value | now raised | deferred` and all schedules; nothing is bounded.  Quiescence (all queues
empty, no unfired Deferred) replaces a fairness assumption.

What is proved about the MODEL, in full:
* `call_stage_invariant`, `call_in_exactly_one_stage`, `queues_hold_only_issued_calls`
* `C11_end_to_end`, `quiescence_reachable`, `C11_completion_always_reachable`
* `agreeing_proxy_accepted` - the lemma joining the proxy rule with the exporter's dispatch (incl. the
  documented binding order of `executeMethod`), `issued_from_call_steps`, `result_from_step`
* `C11_call_through_agreeing_proxy` - the headline: a call through an agreeing proxy runs the bound function
  exactly once with equal arguments and completes exactly once with the conversion of what a step of the
  schedule gave as its result (cannot hold in a model whose dispatch refuses the call)
* `C11_returns_what_it_returned` - that conversion, clause by clause

What is proved about the LINK (bytes -> messages):
* `link_refinement` - abstractly, for every codec with the three laws;
* `link_refinement_framing_laws`, `link_refinement_txdbus_framing` - the laws hold for C04's model of the
  framing, and C04's code model `Proto.run` of `dataReceived` delivers exactly the well-formed messages written,
  however the bytes are cut (composition of C04 `binary_partition_independent` / `frames_of_messages`).

What is proved about INTROSPECTED proxies and BYTES (added later):
* `C11_call_through_introspected_proxy` - the headline without an agreement hypothesis, for a proxy built by
  introspection: composition with C15 `handler_gen_fresh` (fresh cache or replacement requested);
* `bytes_run_simulated`, `C11_bytes_any_delivery_order_partial` - a byte-level network over C04's code model of
  `dataReceived`; every byte-level run is matched by a message-level run; byte-level quiescence gives `Completed`.

Extension 2026-09-30:
* `bytes_quiescence_reachable_in_domain`, `bytes_quiescence_reachable_in_class_in_domain`,
  `C11_bytes_completion_always_reachable_partial` - byte-level PROGRESS, conditional on the codec's domain containing
  what the draining schedule serialises: the schedule reaches byte-level quiescence; the run can be extended by reads and
  firings only to a quiescent one in which every call to an attached client is `Completed`;
* `bytes_run_from_handshake_reduces_partial`, `C11_bytes_from_handshake_partial` - C04's hand-off lifted to the network
  for a SYNTHETIC prefilled handshake (not the real dialogue; see the theorem's doc);
* `getRemoteObject_introspects_iff_unknown_name`, `getRemoteObject_built_lists_every_requested`,
  `getRemoteObject_built_agrees` - the `interfaces=` argument of `getRemoteObject` (Net/GetProxy.lean).

What is NOT a theorem here (PARTIAL with respect to the statement's wording; see notes/C11.md):
* `C11_wire_codec_laws_c03` instantiates `WireCodec.Laws` with C03's model of message.py (constructors, `parseMessage`,
  the bus's `forward`) on the domain of C03's premises - up to the representation of `Msg V` in constructor arguments,
  which stays a parameter; the first read of a link must take the whole remaining handshake;
* the stale-cache case of introspection (name known, no replacement) is excluded by hypothesis;
-/
namespace Txdbus.Net

variable {V : Type}

/-! ## 1. the link assumption -/

/-- **C11.1 (abstract)**  For every codec satisfying the framing/parsing laws, every list of valid messages
and every way of cutting their byte stream into reads (empty reads, several messages per read, cuts inside a
message): the receiver completes exactly the sent messages, in order, each once, normalised, with nothing left
in its buffer; and after any prefix of the reads it has completed a prefix of them. -/
theorem link_refinement {M B : Type} (C : Codec M B) (h : C.Laws) (ms : List M) (reads : List (List B))
    (hv : ∀ m, m ∈ ms → C.Valid m) (hcut : reads.flatten = C.stream ms) :
    C.recv [] reads = (ms.map C.norm, []) ∧
    ∀ k, ∃ later, (C.recv [] (reads.take k)).1 ++ later = ms.map C.norm := by
  have total : C.recv [] reads = (ms.map C.norm, []) := by
    rw [C.recv_flatten h [] reads h.empty, hcut, C.feed_stream h ms hv]
  refine ⟨total, fun k => ?_⟩
  have hsplit : reads.flatten = (reads.take k).flatten ++ (reads.drop k).flatten := by
    rw [← List.flatten_append, List.take_append_drop]
  have := C.recv_flatten h [] reads h.empty
  rw [total, hsplit, h.split] at this
  refine ⟨(C.feed (C.feed [] (reads.take k).flatten).2 (reads.drop k).flatten).1, ?_⟩
  rw [C.recv_flatten h [] _ h.empty]
  exact (congrArg Prod.fst this).symm

/-- The laws are satisfiable: messages are their own single "byte". -/
example : (⟨fun m => [m], fun buf x => (x, buf), id, fun _ => True⟩ : Codec Nat Nat).Laws :=
  ⟨fun buf x y => by simp, fun m _ => by simp, by simp⟩

/-- **C11.1 (txdbus framing)**  The laws hold for C04's model of the framing: `feed` = the specification
`Spec.frames` of buffer ++ read that C04 proves `dataReceived` computes, valid = well-formed raw messages.
So `link_refinement` applies to it. -/
theorem link_refinement_framing_laws : framingCodec.Laws := framingCodec_laws

/-- **C11.1 (txdbus framing, code model)**  C04's code model `Txdbus.Proto.run` of
`BasicDBusProtocol.dataReceived`, in binary mode with nothing buffered, given ANY cut into reads of the bytes
of well-formed messages `ms` (what C03 `marshal_wellformed` says every constructed message is): it calls
`rawDBusMessageReceived` exactly on `ms`, in order, each once, and ends with an empty buffer; after the first
`k` reads it has delivered a prefix of `ms`.  Each delivered message being the raw bytes written, C03's
`parse_marshal` applies to it verbatim (that half is cited, not composed: see notes/C11.md). -/
theorem link_refinement_txdbus_framing {α : Type} (A : Txdbus.Proto.Auth α) (s : Txdbus.Proto.St α)
    (ms : List Txdbus.Bytes) (reads : List Txdbus.Bytes)
    (ha : s.authenticated = true) (hf : Txdbus.Proto.Framed s) (hbuf : s.buffer = [])
    (hwf : ∀ m ∈ ms, Txdbus.Proto.Spec.WellFormed m) (hcut : reads.flatten = ms.flatten) :
    (Txdbus.Proto.run A s reads).2 = ms.map Txdbus.Proto.Effect.msg ∧
    (Txdbus.Proto.run A s reads).1.buffer = [] ∧
    ∀ k, ∃ later, (framingCodec.recv [] (reads.take k)).1 ++ later = ms := by
  obtain ⟨h1, h2⟩ := link_framing_txdbus A s ms reads ha hf hbuf hwf hcut
  refine ⟨h1, h2, fun k => ?_⟩
  have hc : reads.flatten = framingCodec.stream ms := by
    rw [hcut]; simp [Codec.stream, framingCodec]
  obtain ⟨later, hl⟩ := (link_refinement framingCodec framingCodec_laws ms reads hwf hc).2 k
  exact ⟨later, by simpa [framingCodec] using hl⟩

/-! ## 2. the stage invariant -/

/-- **C11.2**  Every reachable state satisfies the invariant `Inv` (Proofs/Net/Invariant.lean): for any
world, any number of clients, any first serial numbers and any list of steps. -/
theorem call_stage_invariant (w : World V) (n : Nat) (first : Nat → Nat) (steps : List (Step V)) :
    Inv w (run w (Net.init n first) steps) :=
  (Inv.init w n first).run steps

/-- The counting part spelled out: the stage counters of an issued call (the seven stages, plus "the reply came
after the deadline and was ignored") add up to one - it is in
exactly one stage - and the answers the exporter logged for it are as many as there are replies in
flight plus completions (so nothing else in any queue can complete it). -/
theorem call_in_exactly_one_stage (w : World V) (n : Nat) (first : Nat → Nat) (steps : List (Step V))
    (a : Nat) (r : CallRec V) (hr : r ∈ ((run w (Net.init n first) steps).cl a).issued) :
    let net := run w (Net.init n first) steps
    let s := stages net a r
    s.callUp + s.callDown + s.dropped + s.executing + s.replyUp + s.replyDown + s.completed + s.late = 1 ∧
    answersFor net a r = s.replyUp + s.replyDown + s.completed + s.late ∧
    invocationsFor net a r = s.executing + resultsFor net a r := by
  have inv := call_stage_invariant w n first steps
  exact ⟨inv.tok a r hr, inv.ans_cnt a r hr, inv.inv_cnt a r hr⟩

/-- The "nothing else" part spelled out for the queue that matters: every reply waiting in a client's
`down` queue answers a call that client issued, and carries `replyOf` an answer the call's destination
logged for exactly that caller and serial; every call waiting there carries the true sender. -/
theorem queues_hold_only_issued_calls (w : World V) (n : Nat) (first : Nat → Nat) (steps : List (Step V))
    (j : Nat) (m : Msg V) (hm : m ∈ ((run w (Net.init n first) steps).cl j).down) :
    DownOK w (run w (Net.init n first) steps) j m :=
  (call_stage_invariant w n first steps).down_ok j m hm

/-! ## 3. end to end -/

theorem step_n (w : World V) (net : Net V) (st : Step V) : (step w net st).n = net.n := by
  cases st <;> simp only [step] <;> split <;> try rfl
  · rename_i c hc
    rw [busStep_eq]
    cases (net.cl c).up with
    | nil => rfl
    | cons m rest =>
      simp only
      cases (m.withSender c).dest with
      | none => rfl
      | some d => simp only; split <;> rfl
  · unfold clientStep
    cases (net.cl _).down <;> rfl
  · unfold resolveStep
    cases takeExec _ (net.cl _).exec with
    | none => rfl
    | some pr => rfl
  · unfold expireStep
    cases pLookup (net.cl _).pending _ <;> rfl

theorem run_n (w : World V) (net : Net V) (steps : List (Step V)) : (run w net steps).n = net.n := by
  induction steps generalizing net with
  | nil => rfl
  | cons st rest ih =>
    have := ih (step w net st)
    simp only [run, List.foldl] at this ⊢
    rw [this, step_n]

/-- **C11.3**  In every quiescent reachable state, every call issued by an attached client `a` to an
attached client `r.dest` is `Completed` (Proofs/Net/EndToEnd.lean): its Deferred fired exactly once with
some outcome `o`; the exporter logged exactly one answer `ans` for it, which is the verdict of
`handleMethodCallMessage` for this call; `o` is `_cbCvtReply` applied to the reply built from `ans`; and
the exported method was invoked exactly once, with the path, member and arguments of the call, if the
exporter's declaration accepts the call, and not at all otherwise. -/
theorem C11_end_to_end (w : World V) (n : Nat) (first : Nat → Nat) (steps : List (Step V))
    (hq : (run w (Net.init n first) steps).Quiescent)
    (a : Nat) (ha : a < n) (r : CallRec V) (hr : r ∈ ((run w (Net.init n first) steps).cl a).issued)
    (hd : r.dest < n) :
    ∃ o ans, Completed w (run w (Net.init n first) steps) a r o ans := by
  have inv := call_stage_invariant w n first steps
  have hn : (run w (Net.init n first) steps).n = n := run_n w _ steps
  exact inv.completed hq (by rw [hn]; exact ha) hr (by rw [hn]; exact hd)

/-- **C11.3b**  Quiescence is always within reach: from EVERY state some finite schedule of deliveries and
Deferred firings leads to a quiescent state (nothing can get stuck in a queue).  So the premise of
`C11_end_to_end` is never vacuous. -/
theorem quiescence_reachable (w : World V) (net : Net V) : ∃ steps, (run w net steps).Quiescent :=
  quiescence_reachable_aux w (potential net) net (Nat.le_refl _)

/-- **C11.3c**  The two together: whatever has happened so far (`steps`), the schedule can be continued
(`more`) to a quiescent state, and there every call issued to an attached client is `Completed`. -/
theorem C11_completion_always_reachable (w : World V) (n : Nat) (first : Nat → Nat) (steps : List (Step V)) :
    ∃ more, (run w (Net.init n first) (steps ++ more)).Quiescent ∧
      ∀ a, a < n → ∀ r, r ∈ ((run w (Net.init n first) (steps ++ more)).cl a).issued → r.dest < n →
        ∃ o ans, Completed w (run w (Net.init n first) (steps ++ more)) a r o ans := by
  obtain ⟨more, hq⟩ := quiescence_reachable w (run w (Net.init n first) steps)
  have e : run w (Net.init n first) (steps ++ more) = run w (run w (Net.init n first) steps) more := by
    simp [run, List.foldl_append]
  refine ⟨more, by rw [e]; exact hq, fun a ha r hr hd => ?_⟩
  exact C11_end_to_end w n first (steps ++ more) (by rw [e]; exact hq) a ha r hr hd

/-! ## 3d. the proxy side meets the exporter side -/

/-- **C11.3d**  A call made through a proxy whose interface list AGREES with the exported object
(`Proxy.AgreesWith`: every listed interface is the first interface of that name the object exports - an
explicit proxy declared like the exporter; an introspected one by C15's round trip) is accepted by
`handleMethodCallMessage` for exactly the interface `i` and method `m` the proxy rule selected, bound to the
function `f` the documented resolution order of `executeMethod` gives; and the record handed to
`conn.callRemote` asks for `m`'s return signature.  Side conditions, all informative: the selected interface has a
non-empty name, `(i.name, member)` is not one of the three pairs the handler answers itself
(`Peer.Ping`, `Introspectable.Introspect`, `ObjectManager.GetManagedObjects` shadow user methods), the argument
count fits, and some function is bound (`resolveImpl`; otherwise the answer is `NotImplementedError`). -/
theorem agreeing_proxy_accepted (w : World V) (px : Proxy) (o : ExpObj) (kw : Option String) (member : String)
    (args : List V) (i : Iface) (m : MethodDecl) (f : Func)
    (hobj : lookupObj px.path (w.exports px.dest) = some o)
    (hag : px.AgreesWith o)
    (hl : proxyLookup kw member px.ifaces = some (i, m))
    (hn : args.length = m.nargs)
    (hname : i.name ≠ "")
    (hnb : NotBuiltin i.name member)
    (himpl : o.resolveImpl i.name member = some f) :
    ∃ (r0 : CallRec V) (d : Iface), proxyResolve (.viaProxy px kw member args) = .ok r0 ∧
      r0.dest = px.dest ∧ r0.args = args ∧ r0.retSig = some m.sigOut ∧ d.name = i.name ∧
      check w r0.dest r0.path r0.iface r0.member r0.sig = .run d m f := by
  obtain ⟨d, hdn, hck⟩ := agreeing_proxy_check w hobj hag hl hname hnb himpl
  exact ⟨_, d, proxyResolve_ok hl hn, rfl, rfl, rfl, hdn, hck⟩

/-- Every issued call was made by a `call` step of the schedule (the logs are not free-floating). -/
theorem issued_from_call_steps (w : World V) (n : Nat) (first : Nat → Nat) (steps : List (Step V))
    (a : Nat) (r : CallRec V) (hr : r ∈ ((run w (Net.init n first) steps).cl a).issued) :
    ∃ req r0, Step.call a req ∈ steps ∧ proxyResolve req = .ok r0 ∧ r = { r0 with serial := r.serial } := by
  rcases run_issued w steps _ a r hr with h | h
  · simp [Net.init, Client.init] at h
  · exact h

/-- Every result an exporter answered with is the result a step of the schedule gave the method: "what it
returned" is the `res` of a `toClient j (now res)` or of a `resolve j tok res`. -/
theorem result_from_step (w : World V) (n : Nat) (first : Nat → Nat) (steps : List (Step V))
    (j : Nat) (sender : Option Nat) (serial : Nat) (so : String) (nr : Nat) (res : Result V)
    (h : (sender, serial, Answer.result so nr res) ∈ ((run w (Net.init n first) steps).cl j).answers) :
    Step.toClient j (.now res) ∈ steps ∨ ∃ tok, Step.resolve j tok res ∈ steps := by
  rcases run_answers w steps _ j _ h with g | g
  · simp [Net.init, Client.init] at g
  · exact g so nr res rfl

/-- A completion by `TimeOut` comes from an `expire` step of the schedule for exactly that call. -/
theorem timedOut_from_expire_step (w : World V) (n : Nat) (first : Nat → Nat) (steps : List (Step V))
    (a : Nat) (s : Nat) (h : (s, Outcome.timedOut) ∈ ((run w (Net.init n first) steps).cl a).completions) :
    Step.expire a s ∈ steps := by
  rcases run_completions w steps _ a _ h with g | g | g
  · simp [Net.init, Client.init] at g
  · simp [Outcome.isTimeout] at g
  · exact g

/-- **C11 (headline).**  In every quiescent reachable state, for every call that client `a` made through a
proxy agreeing with the object `o` exported by the attached client `px.dest` (hypotheses of
`agreeing_proxy_accepted`): the function `f` bound to the selected method ran exactly once on the exporter,
with the proxy's path, the selected interface, the member and EQUAL ARGUMENTS; it produced some result `res`
given by a step of the schedule; the exporter answered exactly once; and the caller's Deferred fired exactly
once with `outcomeOf (some m.sigOut) (replyOf w (result …  res))` - which `C11_returns_what_it_returned`
spells out as the returned value or the mirrored RemoteError - provided no `expire` step of the schedule let the
call's deadline pass first (then the completion is `TimeOut`, exactly once, and the late reply is ignored: C08's
first-wins rule, `Completed.outcome`).  Not satisfiable by a model whose dispatch
refuses the call: the invocation list is non-empty. -/
theorem C11_call_selected_interface_agrees (w : World V) (n : Nat) (first : Nat → Nat) (steps : List (Step V))
    (hq : (run w (Net.init n first) steps).Quiescent)
    (a : Nat) (ha : a < n) (px : Proxy) (o : ExpObj) (kw : Option String) (member : String) (args : List V)
    (i : Iface) (m : MethodDecl) (f : Func)
    (hpd : px.dest < n)
    (hobj : lookupObj px.path (w.exports px.dest) = some o)
    (hag : i.AgreesIn o)
    (hl : proxyLookup kw member px.ifaces = some (i, m))
    (hn : args.length = m.nargs)
    (hname : i.name ≠ "")
    (hnb : NotBuiltin i.name member)
    (himpl : o.resolveImpl i.name member = some f)
    (r : CallRec V) (hr : r ∈ ((run w (Net.init n first) steps).cl a).issued)
    (hfrom : ∃ r0, proxyResolve (.viaProxy px kw member args) = .ok r0 ∧ r = { r0 with serial := r.serial })
    (hno : Step.expire a r.serial ∉ steps) :
    ∃ res,
      ((run w (Net.init n first) steps).cl px.dest).invocations.filter (invKey a r.serial) =
        [{ sender := some a, serial := r.serial, path := px.path, iface := i.name, member := member,
           args := args, impl := f.id }] ∧
      ((run w (Net.init n first) steps).cl px.dest).answers.filter (ansKey a r.serial) =
        [(some a, r.serial, .result m.sigOut m.nret res)] ∧
      ((run w (Net.init n first) steps).cl a).completions.filter (complKey r.serial) =
        [(r.serial, outcomeOf (some m.sigOut) (replyOf w (.result m.sigOut m.nret res)))] ∧
      (Step.toClient px.dest (.now res) ∈ steps ∨ ∃ tok, Step.resolve px.dest tok res ∈ steps) := by
  obtain ⟨r0, hp, hr0⟩ := hfrom
  rw [proxyResolve_ok hl hn] at hp
  injection hp with hp
  subst hp
  have hdest : r.dest = px.dest := by rw [hr0]
  have hpath : r.path = px.path := by rw [hr0]
  have hif : r.iface = some i.name := by rw [hr0]
  have hmem : r.member = member := by rw [hr0]
  have hsig : r.sig = m.sigIn := by rw [hr0]
  have hargs : r.args = args := by rw [hr0]
  have hret : r.retSig = some m.sigOut := by rw [hr0]
  obtain ⟨d, hdn, hck0⟩ := agreeing_iface_check w hobj hag (proxyLookup_spec hl).2 hname hnb himpl
  have hck : check w r.dest r.path r.iface r.member r.sig = .run d m f := by
    rw [hdest, hpath, hif, hmem, hsig]
    exact hck0
  obtain ⟨oc, ans, hc⟩ := C11_end_to_end w n first steps hq a ha r hr (by rw [hdest]; exact hpd)
  have hfit := hc.fits
  simp only [AnswerFits, hck] at hfit
  obtain ⟨res, hans⟩ := hfit
  have hinv := hc.invoked
  simp only [hck] at hinv
  have hansw := hc.answered
  have honce := hc.once
  have hout : oc = outcomeOf r.retSig (replyOf w ans) := by
    rcases hc.outcome with h | h
    · exfalso
      apply hno
      apply timedOut_from_expire_step w n first steps a r.serial
      have : (r.serial, oc) ∈ ((run w (Net.init n first) steps).cl a).completions.filter (complKey r.serial) := by
        rw [honce]; exact List.mem_singleton.mpr rfl
      rw [← h]; exact (List.mem_filter.mp this).1
    · exact h
  rw [hout, hans, hret] at honce
  rw [hans] at hansw
  rw [hdest] at hinv hansw
  rw [hpath, hmem, hargs, hdn] at hinv
  refine ⟨res, hinv, hansw, honce, ?_⟩
  have hin : (some a, r.serial, Answer.result m.sigOut m.nret res) ∈
      ((run w (Net.init n first) steps).cl px.dest).answers := by
    have : (some a, r.serial, Answer.result m.sigOut m.nret res) ∈
        ((run w (Net.init n first) steps).cl px.dest).answers.filter (ansKey a r.serial) := by
      rw [hansw]; exact List.mem_singleton.mpr rfl
    exact (List.mem_filter.mp this).1
  exact result_from_step w n first steps px.dest _ _ _ _ res hin

/-- The headline for a proxy ALL of whose interfaces agree with the exported object (an explicit proxy declared like
the exporter): `C11_call_selected_interface_agrees` with the agreement of the selected interface taken from
`Proxy.AgreesWith`. -/
theorem C11_call_through_agreeing_proxy (w : World V) (n : Nat) (first : Nat → Nat) (steps : List (Step V))
    (hq : (run w (Net.init n first) steps).Quiescent)
    (a : Nat) (ha : a < n) (px : Proxy) (o : ExpObj) (kw : Option String) (member : String) (args : List V)
    (i : Iface) (m : MethodDecl) (f : Func)
    (hpd : px.dest < n)
    (hobj : lookupObj px.path (w.exports px.dest) = some o)
    (hag : px.AgreesWith o)
    (hl : proxyLookup kw member px.ifaces = some (i, m))
    (hn : args.length = m.nargs)
    (hname : i.name ≠ "")
    (hnb : NotBuiltin i.name member)
    (himpl : o.resolveImpl i.name member = some f)
    (r : CallRec V) (hr : r ∈ ((run w (Net.init n first) steps).cl a).issued)
    (hfrom : ∃ r0, proxyResolve (.viaProxy px kw member args) = .ok r0 ∧ r = { r0 with serial := r.serial })
    (hno : Step.expire a r.serial ∉ steps) :
    ∃ res,
      ((run w (Net.init n first) steps).cl px.dest).invocations.filter (invKey a r.serial) =
        [{ sender := some a, serial := r.serial, path := px.path, iface := i.name, member := member,
           args := args, impl := f.id }] ∧
      ((run w (Net.init n first) steps).cl px.dest).answers.filter (ansKey a r.serial) =
        [(some a, r.serial, .result m.sigOut m.nret res)] ∧
      ((run w (Net.init n first) steps).cl a).completions.filter (complKey r.serial) =
        [(r.serial, outcomeOf (some m.sigOut) (replyOf w (.result m.sigOut m.nret res)))] ∧
      (Step.toClient px.dest (.now res) ∈ steps ∨ ∃ tok, Step.resolve px.dest tok res ∈ steps) :=
  C11_call_selected_interface_agrees w n first steps hq a ha px o kw member args i m f hpd hobj
    (hag i (proxyLookup_spec hl).1) hl hn hname hnb himpl r hr hfrom hno

/-- **C11, "…or discovered by introspection".**  The headline WITHOUT an agreement hypothesis, for a proxy built
by introspection.  `introspectedProxy` is `getRemoteObject(busName, path)` without `interfaces`: C15's code models
of the exporter's `generateIntrospectionXML` and of the caller's `getInterfacesFromXML`, run on ANY heap of interface
objects, ANY `knownInterfaces` cache `known` and either value of `replaceKnownInterfaces`, translated into this model's
interface type.  Hypotheses: the exported object's interfaces `cs` were declared through the `DBusInterface` API
(`Declared`); their names and the three standard names are pairwise distinct; this model's exported object at that
path lists the same declared interfaces (`ho`: the link between the two models of the exporter).  Then the proxy
exists, with one interface per declared-or-standard interface, in order; and every call through it whose SELECTED
interface `i` sits at a position `j` whose declaration `d` is `FreshOrSame` - the parse creates a new object for it
(replacement requested, or the name not cached), or the caller's cache holds the SAME definition under that name (the
state of a real process for `org.freedesktop.DBus.Properties`, registered at import, and for whatever it introspected
before from a peer of the same revision) - and is not one of the three standard interfaces, satisfies the conclusion
of the headline theorem.  What the hypothesis excludes is exactly a STALE cache entry for the selected interface with
`replaceKnownInterfaces=False`: then the cached definition is used as it is (C15 `known_reused_unless_replaced`), the
documented behaviour that seeded change C11d turns against explicit proxies.

Not part of this theorem (see notes/C11.md): the proxy is the pure composition generate-then-parse, not the result of
an `Introspect` call travelling through `run` (`World.introspect` is an opaque value); the by-name branch of
`getRemoteObject` and the write-back of the cache for later introspections are not modelled. -/
theorem C11_call_through_introspected_proxy (w : World V) (n : Nat) (first : Nat → Nat) (steps : List (Step V))
    (hq : (run w (Net.init n first) steps).Quiescent)
    {path : Intro.Str} {exported : List (Intro.Str × List Intro.Cached)} {cs : List Intro.Cached}
    (hobj15 : Intro.exportedGet? exported path = some cs) (hdecl : Intro.Declared cs)
    (hnames : ((Intro.decl cs).map (·.name)).Nodup)
    (heap : List Intro.Interface) (known : List (Intro.Str × Nat)) (replace : Bool)
    (dest : Nat) (hpd : dest < n) (o : ExpObj)
    (hobj : lookupObj (String.ofList path) (w.exports dest) = some o)
    (ho : o.ifaces = (cs.map (·.iface)).map ifaceOfIntro) :
    ∃ px, introspectedProxy dest path exported heap known replace = some px ∧
      px.ifaces.length = (Intro.decl cs).length ∧
      ∀ (a : Nat) (_ : a < n) (kw : Option String) (member : String) (args : List V) (i : Iface) (m : MethodDecl)
        (f : Func) (j : Nat) (d : Intro.Interface),
        proxyLookup kw member px.ifaces = some (i, m) →
        (Intro.decl cs)[j]? = some d → px.ifaces[j]? = some i → FreshOrSame heap known replace d →
        i.name ∉ stdNames → i.name ≠ "" →
        args.length = m.nargs → o.resolveImpl i.name member = some f →
        ∀ (r : CallRec V), r ∈ ((run w (Net.init n first) steps).cl a).issued →
          (∃ r0, proxyResolve (.viaProxy px kw member args) = .ok r0 ∧ r = { r0 with serial := r.serial }) →
          Step.expire a r.serial ∉ steps →
          ∃ res,
            ((run w (Net.init n first) steps).cl dest).invocations.filter (invKey a r.serial) =
              [{ sender := some a, serial := r.serial, path := String.ofList path, iface := i.name,
                 member := member, args := args, impl := f.id }] ∧
            ((run w (Net.init n first) steps).cl dest).answers.filter (ansKey a r.serial) =
              [(some a, r.serial, .result m.sigOut m.nret res)] ∧
            ((run w (Net.init n first) steps).cl a).completions.filter (complKey r.serial) =
              [(r.serial, outcomeOf (some m.sigOut) (replyOf w (.result m.sigOut m.nret res)))] ∧
            (Step.toClient dest (.now res) ∈ steps ∨ ∃ tok, Step.resolve dest tok res ∈ steps) := by
  obtain ⟨px, hpx, hd, hp, hlen, hag⟩ :=
    introspected_position_agrees hobj15 hdecl hnames heap known replace o ho dest
  refine ⟨px, hpx, hlen, ?_⟩
  intro a ha kw member args i m f j d hl hdj hij hcond hstd hname hn himpl r hr hfrom hno
  have hagi : i.AgreesIn o := by
    rcases hag j d i hdj hij hcond with h | h
    · exact h
    · exact absurd h hstd
  have hobj' : lookupObj px.path (w.exports px.dest) = some o := by rw [hd, hp]; exact hobj
  have := C11_call_selected_interface_agrees w n first steps hq a ha px o kw member args i m f
    (by rw [hd]; exact hpd) hobj' hagi hl hn hname (notBuiltin_of_not_std hstd member) himpl r hr hfrom hno
  rw [hd, hp] at this
  exact this

/-! ## 3e. bytes: any delivery order -/

/-- **Simulation of the byte-level network** (Net/Bytes.lean) **by the message-level one.**  The byte-level network
has, per client, a byte queue in each direction and, per receiver, C04's CODE MODEL of `dataReceived`
(`Txdbus.Proto.step`); a read step hands the receiver ANY prefix of what is queued as one read.  For every codec
satisfying `WireCodec.Laws` on a domain `Ok` (frames well-formed in C04's sense = C03 `marshal_wellformed`; parsing
returns the message = C03 `parse_marshal`), every authenticator, world, number of clients and every byte-level run all
of whose serialised messages are in `Ok`: there is a message-level schedule whose final state abstracts the final
byte-level state (`Sim`: same clients up to the queues, and on every link receiver-buffer ++ wire = serialisation of
the message queue).  One read is matched by the `toBus` / `toClient` steps for exactly the messages it completes. -/
theorem bytes_run_simulated {α : Type} (C : WireCodec V) (Ok : Msg V → Prop) (hC : C.Laws Ok)
    (A : Txdbus.Proto.Auth α) (a0 : α) (w : World V) (n : Nat) (first : Nat → Nat) (bsteps : List (BStep V))
    (hok : ∀ m, m ∈ (brun C A w (BNet.init n first a0) bsteps).sent → Ok m) :
    ∃ msteps, Sim C (brun C A w (BNet.init n first a0) bsteps) (run w (Net.init n first) msteps) noPre noPre :=
  brun_simulated hC A w bsteps (sim_init C n first a0) hok

/-- **C11, "for any order in which the transports deliver their bytes"** (PARTIAL: the codec enters through the
stated laws `WireCodec.Laws`, not through C03's concrete model; see below).  For every byte-level run (any
interleaving of calls, reads of any sizes on any link, Deferred firings, deadlines) that ends with nothing on any
wire, nothing buffered by any receiver and no unfired Deferred: a message-level schedule `msteps` exists whose final
state has the same client logs, is quiescent, and therefore (`C11_end_to_end`) has every call issued to an attached
client `Completed`: exactly one completion, exactly one answer, the invocation exactly once iff accepted.

Missing for the unqualified name (state of 2026-09-30, after review 3):
(1) [closed up to the representation by `C11_wire_codec_laws_c03` / `C11_bytes_any_delivery_order_c03_partial`, section
    3e'' below: `c03Codec` = C03's model of message.py - constructor calls for what clients write, `parseMessage` +
    `forward` for what the bus writes - satisfies `WireCodec.Laws` on the domain `C03Ok` = the premises of C03's
    theorems; the forwarding premises (ALL FIELDS IN THE CLASS TABLE, attribute shapes, no NUL) are derived for every
    constructed message without descriptors (`constructed_fwd_premises`)].  Still open: the REPRESENTATION `R` of `Msg V`
    in constructor arguments (client index <-> bus name, strings, error text <-> body value) is a parameter and "the
    receiver's view determines the message" (`R.back`) a clause of the domain - evaluated for `byteRep` on one call,
    unstamped and stamped (`exM0_ok`), proved for no `R` in general; the body codec enters through its round-trip clauses
    (C01's `parse_marshal_with_C01` is not composed); descriptors (`unix_fds`) are excluded; `c03Codec` itself is tied to
    the code only through C03's streams (its parts are C03's model), not by a C11 stream - `bytes-net` runs the TABLE codec;
(2) the handshake before binary mode: NOT closed.  `bytes_run_from_handshake_reduces_partial` /
    `C11_bytes_from_handshake_partial` lift C04's single-read hand-off to the network for a SYNTHETIC start (`BNet.initH`:
    the lines a receiver still expects are constants in front of its wire); the real handshake is a dialogue (lines are
    written in response to lines: C06/C07, Auth/Handshake2.lean), the first frame behind `BEGIN` is `Hello`, and nothing
    is routed to a client before its `Hello` - so every instance in which message bytes of THIS model share a read with
    a handshake line is unreachable with txdbus peers; `Hello`, `NameAcquired` and every message to the bus itself (C13)
    are not in the model;
(3) byte-level PROGRESS for runs from `BNet.init`: `bytes_quiescence_reachable_in_domain` /
    `C11_bytes_completion_always_reachable_partial` - CONDITIONAL on a domain hypothesis about what the draining schedule
    will serialise (a premise about the model's own future computation; dischargeable by evaluating a concrete run:
    `drain_domain_of_stopped`; no closure lemma - `Ok` closed under `withSender` / replies - derives it from the inputs,
    neither for the abstract `Ok` nor for `C03Ok`); not transferred to runs from `BNet.initH`;
(4) `hok` constrains what the run serialises (calls, replies, error texts, the bus's stamped copies) to the codec's
    domain; nothing relates that domain to `World.encErr = none`, the model's own "this body encodes"; the progress
    theorem needs the domain to contain what the draining schedule serialises as well;
(5) one `enc : Msg -> bytes` for every writer: the real bus forwards the sender's BODY bytes verbatim in the sender's
    byte order (fixes/C11-01), a function of the raw message, and `Msg` has no byte order - no instance can describe a
    run with a big-endian sender (the harness does run such senders, at message level);
(6) `protocol.py` calls `rawDBusMessageReceived` INSIDE the framing loop, the model frames the whole read and then folds
    the handlers (same order of handler calls; a handler cannot affect the framing of the same read in either);
(7) `dec raw = none` is "ignore and continue" in the model, where the real exception leaves the remaining frames
    buffered and drops the connection - unreachable inside the codec's domain, unspecified outside it. -/
theorem C11_bytes_any_delivery_order_partial {α : Type} (C : WireCodec V) (Ok : Msg V → Prop) (hC : C.Laws Ok)
    (A : Txdbus.Proto.Auth α) (a0 : α) (w : World V) (n : Nat) (first : Nat → Nat) (bsteps : List (BStep V))
    (hok : ∀ m, m ∈ (brun C A w (BNet.init n first a0) bsteps).sent → Ok m)
    (hq : (brun C A w (BNet.init n first a0) bsteps).Quiescent) :
    ∃ msteps,
      (run w (Net.init n first) msteps).Quiescent ∧
      (∀ c, ((brun C A w (BNet.init n first a0) bsteps).cl c).issued = ((run w (Net.init n first) msteps).cl c).issued ∧
            ((brun C A w (BNet.init n first a0) bsteps).cl c).completions =
              ((run w (Net.init n first) msteps).cl c).completions ∧
            ((brun C A w (BNet.init n first a0) bsteps).cl c).invocations =
              ((run w (Net.init n first) msteps).cl c).invocations ∧
            ((brun C A w (BNet.init n first a0) bsteps).cl c).answers =
              ((run w (Net.init n first) msteps).cl c).answers) ∧
      ∀ a, a < n → ∀ r, r ∈ ((brun C A w (BNet.init n first a0) bsteps).cl a).issued → r.dest < n →
        ∃ o ans, Completed w (run w (Net.init n first) msteps) a r o ans := by
  obtain ⟨msteps, hs⟩ := bytes_run_simulated C Ok hC A a0 w n first bsteps hok
  have hqm := hs.quiescent hC hok hq
  have hlogs : ∀ c, ((brun C A w (BNet.init n first a0) bsteps).cl c).issued =
      ((run w (Net.init n first) msteps).cl c).issued ∧
      ((brun C A w (BNet.init n first a0) bsteps).cl c).completions =
        ((run w (Net.init n first) msteps).cl c).completions ∧
      ((brun C A w (BNet.init n first a0) bsteps).cl c).invocations =
        ((run w (Net.init n first) msteps).cl c).invocations ∧
      ((brun C A w (BNet.init n first a0) bsteps).cl c).answers =
        ((run w (Net.init n first) msteps).cl c).answers := by
    intro c
    rw [hs.cl c]
    exact ⟨rfl, rfl, rfl, rfl⟩
  refine ⟨msteps, hqm, hlogs, ?_⟩
  intro a ha r hr hd
  rw [(hlogs a).1] at hr
  exact C11_end_to_end w n first msteps hqm a ha r hr hd

/-- **Nothing gets stuck in a receiver** (the proved half of byte-level progress): in every state of every byte-level
run within the codec's domain, no receiver - the bus's protocol instance for a connection, or a client's - holds a
complete frame in its buffer: whatever has been delivered completely has surfaced as a message. -/
theorem bytes_nothing_stuck_in_a_receiver {α : Type} (C : WireCodec V) (Ok : Msg V → Prop) (hC : C.Laws Ok)
    (A : Txdbus.Proto.Auth α) (a0 : α) (w : World V) (n : Nat) (first : Nat → Nat) (bsteps : List (BStep V))
    (hok : ∀ m, m ∈ (brun C A w (BNet.init n first a0) bsteps).sent → Ok m) (c : Nat) :
    ¬ Txdbus.Proto.Spec.hasFrame ((brun C A w (BNet.init n first a0) bsteps).busRx c).buffer ∧
    ¬ Txdbus.Proto.Spec.hasFrame ((brun C A w (BNet.init n first a0) bsteps).cliRx c).buffer := by
  obtain ⟨msteps, hs⟩ := bytes_run_simulated C Ok hC A a0 w n first bsteps hok
  exact hs.no_complete_frame_buffered c

/-- **Byte-level `quiescence_reachable`, CONDITIONAL on the codec's domain** (byte-level PROGRESS; `_in_domain`: unlike
the message-level `quiescence_reachable` this is not unconditional - `hok` is a premise about the model's own future
computation, what the draining schedule will serialise, and no closure lemma derives it from the inputs: for the abstract
`Ok` there is nothing to derive it from, for `C03Ok` closure under `withSender` / replies is not proved).  From every state a byte-level run reaches, the
canonical draining schedule `drain` (Net/Bytes.lean: the bus reads everything queued on a link; a client reads everything
queued for it, every invocation this leads to returning a Deferred; the oldest Deferred of a client fires with the result
`fire c e` - any policy `fire`) reaches `BNet.Quiescent` after finitely many steps: nothing can get stuck on a wire or
in a receiver's buffer.  The domain hypothesis `hok` covers the run AND what the draining schedule serialises (the bus's
stamped copies, the replies) - no lawful codec is total, so some such hypothesis is unavoidable; being about ONE
computable schedule it is checked by evaluation (`drain_domain_of_stopped`), as the example at the end of this file
does.  `bytes_quiescence_reachable_in_class_in_domain` restates it for any class of continuations closed under these steps. -/
theorem bytes_quiescence_reachable_in_domain {α : Type} (C : WireCodec V) (Ok : Msg V → Prop) (hC : C.Laws Ok)
    (A : Txdbus.Proto.Auth α) (a0 : α) (w : World V) (n : Nat) (first : Nat → Nat) (bsteps : List (BStep V))
    (fire : Nat → Exec → Result V)
    (hok : ∀ fuel m, m ∈ (brun C A w (BNet.init n first a0)
      (bsteps ++ drain C A w fire fuel (brun C A w (BNet.init n first a0) bsteps))).sent → Ok m) :
    ∃ fuel, (brun C A w (BNet.init n first a0)
      (bsteps ++ drain C A w fire fuel (brun C A w (BNet.init n first a0) bsteps))).Quiescent := by
  have hok0 : ∀ m, m ∈ (brun C A w (BNet.init n first a0) bsteps).sent → Ok m := by
    intro m hm
    apply hok 0 m
    simpa [drain] using hm
  obtain ⟨msteps, hs⟩ := bytes_run_simulated C Ok hC A a0 w n first bsteps hok0
  obtain ⟨fuel, hq, _⟩ := drain_reaches_quiescence hC A w fire _ _ _ hs (Nat.le_refl _)
    (fun fuel m hm => hok fuel m (by rw [brun_append]; exact hm))
  exact ⟨fuel, by rw [brun_append]; exact hq⟩

/-- The same for any class `P` of continuation steps that contains the reads and, for every unfired Deferred, one
firing: if every continuation of the run by steps in `P` stays in the codec's domain, one of them ends quiescent.
(`P` should be small: for a class containing `call` steps with arbitrary arguments the hypothesis is unsatisfiable for
every non-total codec.) -/
theorem bytes_quiescence_reachable_in_class_in_domain {α : Type} (C : WireCodec V) (Ok : Msg V → Prop) (hC : C.Laws Ok)
    (A : Txdbus.Proto.Auth α) (a0 : α) (w : World V) (n : Nat) (first : Nat → Nat) (bsteps : List (BStep V))
    (P : BStep V → Prop) (fire : Nat → Exec → Result V)
    (hP1 : ∀ c k, P (.readBus c k)) (hP2 : ∀ c k, P (.readClient c k []))
    (hP3 : ∀ c e, P (.resolve c e.tok (fire c e)))
    (hok : ∀ more, (∀ st, st ∈ more → P st) →
      ∀ m, m ∈ (brun C A w (BNet.init n first a0) (bsteps ++ more)).sent → Ok m) :
    ∃ more, (∀ st, st ∈ more → P st) ∧ (brun C A w (BNet.init n first a0) (bsteps ++ more)).Quiescent := by
  have hin : ∀ fuel st, st ∈ drain C A w fire fuel (brun C A w (BNet.init n first a0) bsteps) → P st := by
    intro fuel st hst
    rcases drain_mem C A w fire fuel _ st hst with ⟨c, k, rfl⟩ | ⟨c, k, rfl⟩ | ⟨c, e, rfl⟩
    · exact hP1 c k
    · exact hP2 c k
    · exact hP3 c e
  obtain ⟨fuel, hq⟩ := bytes_quiescence_reachable_in_domain C Ok hC A a0 w n first bsteps fire
    (fun fuel m hm => hok _ (hin fuel) m hm)
  exact ⟨_, hin fuel, hq⟩

/-- **C11 at byte level, without assuming quiescence** (PARTIAL for the reasons (1), (2), (4)-(7) listed above
`C11_bytes_any_delivery_order_partial`; (3) is closed by this theorem).  Every byte-level run - any interleaving of
calls, reads of any sizes on any link, firings, deadlines - can be EXTENDED by reads and Deferred firings ONLY (first
clause: no `call`, no `expire` step is added, so no completion of the extension is a `TimeOut` of its making) to a run that ends with nothing on any wire, nothing buffered and no unfired Deferred, and in
that run every call issued to an attached client is `Completed`: exactly one completion, exactly one answer, the
invocation exactly once iff accepted - read off a message-level schedule with the same client logs. -/
theorem C11_bytes_completion_always_reachable_partial {α : Type} (C : WireCodec V) (Ok : Msg V → Prop)
    (hC : C.Laws Ok) (A : Txdbus.Proto.Auth α) (a0 : α) (w : World V) (n : Nat) (first : Nat → Nat)
    (bsteps : List (BStep V)) (fire : Nat → Exec → Result V)
    (hok : ∀ fuel m, m ∈ (brun C A w (BNet.init n first a0)
      (bsteps ++ drain C A w fire fuel (brun C A w (BNet.init n first a0) bsteps))).sent → Ok m) :
    ∃ more,
      (∀ st, st ∈ more → (∃ c k, st = .readBus c k) ∨ (∃ c k, st = .readClient c k []) ∨
        (∃ c e, st = .resolve c e.tok (fire c e))) ∧
      (brun C A w (BNet.init n first a0) (bsteps ++ more)).Quiescent ∧
      ∃ msteps,
        (run w (Net.init n first) msteps).Quiescent ∧
        (∀ c, ((brun C A w (BNet.init n first a0) (bsteps ++ more)).cl c).issued =
                ((run w (Net.init n first) msteps).cl c).issued ∧
              ((brun C A w (BNet.init n first a0) (bsteps ++ more)).cl c).completions =
                ((run w (Net.init n first) msteps).cl c).completions ∧
              ((brun C A w (BNet.init n first a0) (bsteps ++ more)).cl c).invocations =
                ((run w (Net.init n first) msteps).cl c).invocations ∧
              ((brun C A w (BNet.init n first a0) (bsteps ++ more)).cl c).answers =
                ((run w (Net.init n first) msteps).cl c).answers) ∧
        ∀ a, a < n → ∀ r, r ∈ ((brun C A w (BNet.init n first a0) (bsteps ++ more)).cl a).issued → r.dest < n →
          ∃ o ans, Completed w (run w (Net.init n first) msteps) a r o ans := by
  obtain ⟨fuel, hq⟩ := bytes_quiescence_reachable_in_domain C Ok hC A a0 w n first bsteps fire hok
  exact ⟨_, fun st hst => drain_mem C A w fire fuel _ st hst, hq,
    C11_bytes_any_delivery_order_partial C Ok hC A a0 w n first _ (hok fuel) hq⟩

/-! ## 3e'. a synthetic start before the end of the handshake -/

/-- **The C04 hand-off lifted to the network, for a SYNTHETIC prefilled handshake** (PARTIAL: see what is missing below).
`BNet.initH`: per link and direction the receiver is either already in binary mode (`hs = []`) or still in LINE mode with
the authentication lines it still expects already in front of its wire (`HsOK`: `Spec.unlines (lines ++ [last])`,
accepted by ITS authenticator state `aUp c` / `aDown c`); message bytes queue up behind them.  For every byte-level run
from there in which the FIRST read on a line-mode link takes at least these lines (`HSRun`; it may take message bytes
with them - the hand-off of `dataReceived`, C04 `handoff`; afterwards reads are arbitrary): a run of the same length
from `BNet.init` ends in the same state up to `HRel` (same clients, `dropped`, `sent`; same wire and buffer on every link
that has been read).  The state of a real connection between the client's `BEGIN` and the bus's reading it is the instance
`hsUp c = BEGIN\r\n`, `hsDown c = []`; there `HSRun` only forbids a read that ends inside `BEGIN\r\n`.

MISSING (why `_partial`, and why this does not close item (2)): the real handshake is a DIALOGUE - the bus writes `OK`
while reading `AUTH`, the client writes `BEGIN` while reading `OK` (C06/C07; Auth/Handshake2.lean models it for one
connection) - whereas here the expected lines are constants already on the wire and nobody writes a line in response, so
with more than the final line in `hsUp` the schedules of `HSRun` and the schedules of txdbus peers are DISJOINT (the real
first read on the up link is `AUTH…` alone: `BEGIN` does not exist yet).  The first message behind `BEGIN` is `Hello`
(not in this model); a method call in that place makes the real bus drop the connection, and nothing is ever routed to
a client before its `Hello`: every instance in which MESSAGE bytes of this model share a read with a handshake line is
unreachable with txdbus peers (the frame stands where `Hello` stands in reality).  A handshake line cut by a read
(C04 `line_partition_independent`) is not composed.  The statement gives only the LENGTH of the matching run (the proof
builds it step by step with the first reads shortened). -/
theorem bytes_run_from_handshake_reduces_partial {α : Type} (C : WireCodec V) (A : Txdbus.Proto.Auth α) (a0 : α)
    (aUp aDown : Nat → α) (w : World V)
    (n : Nat) (first : Nat → Nat) (hsUp hsDown : Nat → Txdbus.Proto.Bytes)
    (hup : ∀ c, HsOK A (aUp c) (hsUp c)) (hdown : ∀ c, HsOK A (aDown c) (hsDown c))
    (bsteps : List (BStep V)) (hrun : HSRun C A w hsUp hsDown (BNet.initH n first aUp aDown hsUp hsDown) bsteps) :
    ∃ bsteps', bsteps'.length = bsteps.length ∧
      HRel A hsUp hsDown (brun C A w (BNet.initH n first aUp aDown hsUp hsDown) bsteps)
        (brun C A w (BNet.init n first a0) bsteps') :=
  handshake_run_reduces C A w bsteps (hrel_init A n first a0 aUp aDown hsUp hsDown hup hdown) hrun

/-- **C11 at byte level from the synthetic start** (PARTIAL like `C11_bytes_any_delivery_order_partial`, and for the
reasons listed at `bytes_run_from_handshake_reduces_partial`).  Such a run ending quiescent (so every line-mode link has
been read): a message-level schedule exists with the same client logs, quiescent, in which every call issued to an
attached client is `Completed`. -/
theorem C11_bytes_from_handshake_partial {α : Type} (C : WireCodec V) (Ok : Msg V → Prop) (hC : C.Laws Ok)
    (A : Txdbus.Proto.Auth α) (a0 : α) (aUp aDown : Nat → α) (w : World V) (n : Nat) (first : Nat → Nat)
    (hsUp hsDown : Nat → Txdbus.Proto.Bytes)
    (hup : ∀ c, HsOK A (aUp c) (hsUp c)) (hdown : ∀ c, HsOK A (aDown c) (hsDown c))
    (bsteps : List (BStep V)) (hrun : HSRun C A w hsUp hsDown (BNet.initH n first aUp aDown hsUp hsDown) bsteps)
    (hok : ∀ m, m ∈ (brun C A w (BNet.initH n first aUp aDown hsUp hsDown) bsteps).sent → Ok m)
    (hq : (brun C A w (BNet.initH n first aUp aDown hsUp hsDown) bsteps).Quiescent) :
    ∃ msteps,
      (run w (Net.init n first) msteps).Quiescent ∧
      (∀ c, ((brun C A w (BNet.initH n first aUp aDown hsUp hsDown) bsteps).cl c).issued =
              ((run w (Net.init n first) msteps).cl c).issued ∧
            ((brun C A w (BNet.initH n first aUp aDown hsUp hsDown) bsteps).cl c).completions =
              ((run w (Net.init n first) msteps).cl c).completions ∧
            ((brun C A w (BNet.initH n first aUp aDown hsUp hsDown) bsteps).cl c).invocations =
              ((run w (Net.init n first) msteps).cl c).invocations ∧
            ((brun C A w (BNet.initH n first aUp aDown hsUp hsDown) bsteps).cl c).answers =
              ((run w (Net.init n first) msteps).cl c).answers) ∧
      ∀ a, a < n → ∀ r, r ∈ ((brun C A w (BNet.initH n first aUp aDown hsUp hsDown) bsteps).cl a).issued → r.dest < n →
        ∃ o ans, Completed w (run w (Net.init n first) msteps) a r o ans := by
  obtain ⟨bsteps', _, hr⟩ :=
    bytes_run_from_handshake_reduces_partial C A a0 aUp aDown w n first hsUp hsDown hup hdown bsteps hrun
  have hok' : ∀ m, m ∈ (brun C A w (BNet.init n first a0) bsteps').sent → Ok m := by
    intro m hm; rw [← hr.sent] at hm; exact hok m hm
  obtain ⟨msteps, h1, h2, h3⟩ :=
    C11_bytes_any_delivery_order_partial C Ok hC A a0 w n first bsteps' hok' (hr.quiescent hq)
  refine ⟨msteps, h1, ?_, ?_⟩
  · intro c; rw [hr.cl]; exact h2 c
  · intro a ha r hr'; rw [hr.cl] at hr'; exact h3 a ha r hr'

/-! ## 3e''. the codec: C03's model of message.py -/

/-- **`WireCodec.Laws` for txdbus's codec as C03 models it** (item (1) of the list above
`C11_bytes_any_delivery_order_partial`).  `c03Codec R BC na maxLen` (Net/CodecC03.lean): a message without sender stamp
is serialised by its constructor call (`MethodCallMessage` / `MethodReturnMessage` / `ErrorMessage`, C03 `construct`,
tables extracted from message.py), a message with the stamp is what the bus makes of that frame (`parseMessage`, then
`forward` = `msg.sender = …; msg._marshal(False, rawBody=…)`), frames are read by `parseMessage`.  On the domain `C03Ok`
- the premises of C03 `marshal_wellformed` / `parse_marshal` / `remarshal_parse`, see `c03Ok_of_constructed` for their
reduced form - every frame is well-formed in C04's sense and parses back to the message.  Composition of C03
`parse_marshal`, `remarshal_ok`, `remarshal_parse_gen`, C04 `wellFormed_of_constructed_gen`, `wellFormed_of_layout`.
What is NOT in it: `R : C03Rep V β`, the representation of C11's abstract messages in constructor arguments (client
index <-> bus name, strings, error text <-> body value) is a parameter, and "the receiver's view determines the message"
(`R.back`) is a clause of the domain - proved for no general `R`, evaluated for `byteRep` in the example below; the body
codec `BC` enters through its round-trip clauses (C01's theorems are not composed here). -/
theorem C11_wire_codec_laws_c03 {β : Type} (R : C03Rep V β) (BC : Txdbus.Msg.BodyCodec β) (na : Char → Bool)
    (maxLen : Nat) (hmax : maxLen ≤ Txdbus.Msg.Spec.maxMessage) :
    (c03Codec R BC na maxLen).Laws (C03Ok R BC na maxLen) :=
  c03Codec_laws R BC na maxLen hmax

/-- `C11_bytes_any_delivery_order_partial` with C03's codec in the place of the abstract one: no hypothesis about the
codec is left except that the run's serialised messages lie in `C03Ok` (still `_partial`: items (2), (4)-(7), and the
representation `R`). -/
theorem C11_bytes_any_delivery_order_c03_partial {α β : Type} (R : C03Rep V β) (BC : Txdbus.Msg.BodyCodec β)
    (na : Char → Bool) (maxLen : Nat) (hmax : maxLen ≤ Txdbus.Msg.Spec.maxMessage)
    (A : Txdbus.Proto.Auth α) (a0 : α) (w : World V) (n : Nat) (first : Nat → Nat) (bsteps : List (BStep V))
    (hok : ∀ m, m ∈ (brun (c03Codec R BC na maxLen) A w (BNet.init n first a0) bsteps).sent → C03Ok R BC na maxLen m)
    (hq : (brun (c03Codec R BC na maxLen) A w (BNet.init n first a0) bsteps).Quiescent) :
    ∃ msteps,
      (run w (Net.init n first) msteps).Quiescent ∧
      ∀ a, a < n → ∀ r, r ∈ ((brun (c03Codec R BC na maxLen) A w (BNet.init n first a0) bsteps).cl a).issued →
        r.dest < n → ∃ o ans, Completed w (run w (Net.init n first) msteps) a r o ans := by
  obtain ⟨msteps, h1, _, h3⟩ := C11_bytes_any_delivery_order_partial (c03Codec R BC na maxLen) (C03Ok R BC na maxLen)
    (c03Codec_laws R BC na maxLen hmax) A a0 w n first bsteps hok hq
  exact ⟨msteps, h1, h3⟩

/-! ## 3f. obtaining the proxy: the `interfaces=` argument of `getRemoteObject` -/

/-- **Introspection iff some requested NAME is unknown.**  `getRemoteObject` (Net/GetProxy.lean: the walk over the
`interfaces` argument as written) starts an introspection exactly when no interfaces were given, or some element of
the argument is an interface NAME that is not in the caller's `DBusInterface.knownInterfaces` - wherever in the list
that name stands (the flag is only ever set, never reset). -/
theorem getRemoteObject_introspects_iff_unknown_name (known : List (String × Iface)) (dest : Nat) (path : String)
    (p : IfacesParam) :
    (∃ req, getRemoteObjectPlan known dest path p = .introspect req) ↔
      (p.toList? = none ∨ ∃ l n, p.toList? = some l ∧ IfaceArg.name n ∈ l ∧ assocGet known n = none) := by
  cases hl : p.toList? with
  | none => simp [getRemoteObjectPlan, hl]
  | some l =>
    rw [plan_of_list known dest path p l hl]
    constructor
    · intro ⟨req, h⟩
      split at h
      · rename_i hany
        obtain ⟨a, ha, hn⟩ := List.any_eq_true.mp hany
        cases a with
        | inst i => simp [IfaceArg.resolve] at hn
        | name n =>
          refine Or.inr ⟨l, n, rfl, ha, ?_⟩
          simpa [IfaceArg.resolve] using hn
      · cases h
    · intro h
      rcases h with h | ⟨l', n, h1, h2, h3⟩
      · cases h
      · injection h1 with h1
        subst h1
        have : l.any (fun a => (a.resolve known).isNone) = true :=
          List.any_eq_true.mpr ⟨_, h2, by simp [IfaceArg.resolve, h3]⟩
        simp [this]

/-- **A proxy built without introspection lists every requested interface**: each `DBusInterface` instance given, and
for each name the definition the caller's process knows under it, in the order of the argument - nothing requested is
missing from it. -/
theorem getRemoteObject_built_lists_every_requested (known : List (String × Iface)) (dest : Nat) (path : String)
    (p : IfacesParam) (px : Proxy) (h : getRemoteObjectPlan known dest path p = .built px) :
    ∃ l, p.toList? = some l ∧ px.dest = dest ∧ px.path = path ∧
      px.ifaces = l.filterMap (IfaceArg.resolve known) ∧
      ∀ a, a ∈ l → ∃ i, a.resolve known = some i ∧ i ∈ px.ifaces := by
  cases hl : p.toList? with
  | none => simp [getRemoteObjectPlan, hl] at h
  | some l =>
    rw [plan_of_list known dest path p l hl] at h
    split at h
    · cases h
    · rename_i hany
      injection h with h
      subst h
      refine ⟨l, rfl, rfl, rfl, rfl, fun a ha => ?_⟩
      cases hr : a.resolve known with
      | none =>
        exfalso
        apply hany
        exact List.any_eq_true.mpr ⟨a, ha, by simp [hr]⟩
      | some i => exact ⟨i, rfl, List.mem_filterMap.mpr ⟨a, ha, hr⟩⟩

/-- ... and it AGREES with the exported object (the hypothesis of the headline theorem
`C11_call_through_agreeing_proxy`) whenever the instances given and the definitions known under the names given do.
(A GLUE lemma: the hypothesis is the conclusion element by element; what it adds is that a locally built proxy lists
NOTHING ELSE - from `getRemoteObject_built_lists_every_requested`.  Instantiated by the `example` below.) -/
theorem getRemoteObject_built_agrees (known : List (String × Iface)) (dest : Nat) (path : String)
    (p : IfacesParam) (px : Proxy) (h : getRemoteObjectPlan known dest path p = .built px) (o : ExpObj)
    (hag : ∀ l, p.toList? = some l → ∀ a, a ∈ l → ∀ i, a.resolve known = some i → i.AgreesIn o) :
    px.AgreesWith o := by
  obtain ⟨l, hl, _, _, hi, _⟩ := getRemoteObject_built_lists_every_requested known dest path p px h
  intro i hin
  rw [hi] at hin
  obtain ⟨a, ha, hr⟩ := List.mem_filterMap.mp hin
  exact hag l hl a ha i hr

/-- the three forms on the seeded example: an unknown name BEFORE a known one still means introspection -/
example :
    let kn : Iface := { name := "org.demo.Known", methods := [⟨"Twice", "i", "i", 1, 1⟩] }
    let known := [("org.demo.Known", kn)]
    (∃ req, getRemoteObjectPlan known 1 "/demo/obj" (.many [.name "org.demo.Extra", .name "org.demo.Known"]) =
      .introspect req) ∧
    (∃ req, getRemoteObjectPlan known 1 "/demo/obj" (.many [.name "org.demo.Known", .name "org.demo.Extra"]) =
      .introspect req) ∧
    (∃ px, getRemoteObjectPlan known 1 "/demo/obj" (.many [.inst exIface, .name "org.demo.Known"]) = .built px ∧
      px.ifaces = [exIface, kn]) ∧
    (∃ px, getRemoteObjectPlan known 1 "/demo/obj" (.one (.name "org.demo.Known")) = .built px ∧ px.ifaces = [kn]) :=
  ⟨⟨_, rfl⟩, ⟨_, rfl⟩, ⟨_, rfl, rfl⟩, ⟨_, rfl, rfl⟩⟩

/-! ## 4. what the completion is -/

/-- **C11.4**  The completion of an accepted call whose proxy declares the same return signature as the
exporter (`retSig = some sigOut`, which `agreeing_proxy_accepted` gives), in terms of what the method did:

1. it returned an object that is not a list/tuple, one non-struct return value declared: that value;
2. it returned a list/tuple for one declared non-struct return value: that object;
3. it returned a sequence of values for several declared return values: the list of these values;
4. nothing is declared: None, whatever was returned;
5. it raised an exception: RemoteError with the exception's DBus name (its `dbusErrorName`, else the
   `PythonException.` prefix of the source + class name) and its text after `send_error`'s NUL escape -
   provided the name is a valid error name (otherwise `InvalidErrorName`, documented);
6. one declared return value that IS a struct (the method returned a list/tuple, `nret = 1`, the signature
   starts with the struct character of the source): the one-element list holding it - the convention of
   `_cbCvtReply` that the upstream tests pin down (notes/C11.md, `struct-return-wrapped`). -/
theorem C11_returns_what_it_returned (w : World V) (sigOut : String) (nret : Nat) :
    (∀ v, sigOut ≠ "" → sigOut.toList.head? ≠ some Gen.C08Client.structOpen → w.encErr sigOut [v] = none →
      outcomeOf (some sigOut) (replyOf w (.result sigOut nret (.value (.obj v)))) = .single v) ∧
    (∀ self elems, sigOut ≠ "" → sigOut.toList.head? ≠ some Gen.C08Client.structOpen → nret = 1 →
      w.encErr sigOut [self] = none →
      outcomeOf (some sigOut) (replyOf w (.result sigOut nret (.value (.seq self elems)))) = .single self) ∧
    (∀ self e1 e2 rest, sigOut ≠ "" → nret ≠ 1 → w.encErr sigOut (e1 :: e2 :: rest) = none →
      outcomeOf (some sigOut) (replyOf w (.result sigOut nret (.value (.seq self (e1 :: e2 :: rest))))) =
        .many (e1 :: e2 :: rest)) ∧
    (∀ r, sigOut = "" → outcomeOf (some sigOut) (replyOf w (.result sigOut nret (.value r))) = .none) ∧
    (∀ e : Exc, w.validErrorName (e.dbusName.getD (Gen.Dispatch.pyExceptionPrefix ++ e.cls)) = true →
      outcomeOf (some sigOut) (replyOf w (.result sigOut nret (.raised e))) =
        .remoteError (e.dbusName.getD (Gen.Dispatch.pyExceptionPrefix ++ e.cls)) (escapeText e.text)) ∧
    (∀ self elems, sigOut.toList.head? = some Gen.C08Client.structOpen → nret = 1 →
      w.encErr sigOut [self] = none →
      outcomeOf (some sigOut) (replyOf w (.result sigOut nret (.value (.seq self elems)))) = .many [self]) := by
  refine ⟨?_, ?_, ?_, ?_, ?_, ?_⟩
  · intro v h1 h2 h3
    simp [outcomeOf, replyOf, valueReply, replyBody, cvtReply, h1, h2, h3]
  · intro self elems h1 h2 h3 h4
    simp [outcomeOf, replyOf, valueReply, replyBody, cvtReply, h1, h2, h3, h4]
  · intro self e1 e2 rest h1 h2 h3
    simp [outcomeOf, replyOf, valueReply, replyBody, cvtReply, h1, h2, h3]
  · intro r h1
    simp [outcomeOf, replyOf, valueReply, cvtReply, h1]
  · intro e h
    cases hdn : e.dbusName with
    | none =>
      simp only [hdn, Option.getD] at h
      simp [outcomeOf, replyOf, errorReply, hdn, h]
    | some nm =>
      simp only [hdn, Option.getD] at h
      simp [outcomeOf, replyOf, errorReply, hdn, h]
  · intro self elems h2 h3 h4
    have h1 : sigOut ≠ "" := by
      intro e; rw [e] at h2; simp at h2
    simp [outcomeOf, replyOf, valueReply, replyBody, cvtReply, h1, h2, h3, h4]

/-! ## 5. the hypotheses are satisfiable; the unrepaired bus violates the property -/

def exIface : Iface :=
  { name := "org.t.I", methods := [{ name := "echo", sigIn := "v", sigOut := "v", nargs := 1, nret := 1 },
                                   { name := "slow", sigIn := "", sigOut := "ss", nargs := 0, nret := 2 }] }

/-- one class: `dbus_echo` (plain) and a function decorated for (org.t.I, slow) -/
def exObj : ExpObj :=
  { path := "/o",
    classes := [{ ifaces := some [exIface],
                  attrs := [("dbus_echo", ⟨1, none⟩), ("impl_slow", ⟨2, some ("org.t.I", "slow")⟩)] }] }

/-- client 2 exports `/o`; every body encodes; every error name is valid -/
def exWorld : World Nat :=
  { exports := fun j => if j = 2 then [exObj] else [],
    introspect := fun _ _ => none, managed := fun _ _ => .ok 0, encErr := fun _ _ => none,
    validErrorName := fun _ => true }

def exProxy : Proxy := { dest := 2, path := "/o", ifaces := [exIface] }

/-- Clients 0 and 1 (both start at serial 1: the serials collide) call client 2 concurrently; the second
call returns a Deferred that fires after the first call has completed; the replies overtake each other. -/
def exSteps : List (Step Nat) :=
  [ .call 0 (.viaProxy exProxy none "echo" [7]),
    .call 1 (.viaProxy exProxy (some "org.t.I") "slow" []),
    .toBus 1, .toBus 0,
    .toClient 2 .deferred,
    .toClient 2 (.now (.value (.obj 8))),
    .toBus 2, .toClient 0 .deferred,
    .resolve 2 0 (.value (.seq 99 [5, 6])),
    .toBus 2, .toClient 1 .deferred ]

def exNet : Net Nat := run exWorld (Net.init 3 (fun _ => 1)) exSteps

/-- The example reaches a quiescent state with two issued calls to an attached client: the hypotheses of
`C11_end_to_end` are met by a non-trivial instance ... -/
example : exNet.Quiescent ∧
    (exNet.cl 0).issued.map (fun r => (r.serial, r.dest)) = [(1, 2)] ∧
    (exNet.cl 1).issued.map (fun r => (r.serial, r.dest)) = [(1, 2)] := by
  refine ⟨?_, by decide, by decide⟩
  intro j hj
  match j, hj with
  | 0, _ => decide
  | 1, _ => decide
  | 2, _ => decide
  | k + 3, h => exact absurd h (by simp [exNet, run_n, Net.init])

/-- ... and its conclusion reads: each call completed once with what its method returned, each method
ran once with the call's arguments and the true sender. -/
example : (exNet.cl 0).completions = [(1, .single 8)] ∧ (exNet.cl 1).completions = [(1, .many [5, 6])] ∧
    (exNet.cl 2).invocations =
      [{ sender := some 1, serial := 1, path := "/o", iface := "org.t.I", member := "slow", args := [], impl := 2 },
       { sender := some 0, serial := 1, path := "/o", iface := "org.t.I", member := "echo", args := [7], impl := 1 }] := by
  decide

/-- The hypotheses of `agreeing_proxy_accepted` / `C11_call_through_agreeing_proxy` are met by the example:
the proxy's object is found, the proxy agrees with it, `echo` is selected and bound to function 1. -/
example : lookupObj exProxy.path (exWorld.exports exProxy.dest) = some exObj ∧
    exProxy.AgreesWith exObj ∧
    exObj.resolveImpl "org.t.I" "echo" = some ⟨1, none⟩ ∧
    exObj.resolveImpl "org.t.I" "slow" = some ⟨2, some ("org.t.I", "slow")⟩ ∧
    (proxyLookup none "echo" exProxy.ifaces).map (fun p => p.2.name) = some "echo" ∧
    NotBuiltin "org.t.I" "echo" := by
  refine ⟨by decide, ?_, by decide, by decide, by decide, by unfold NotBuiltin; decide⟩
  intro i hi
  simp only [exProxy, List.mem_singleton] at hi
  subst hi
  exact Iface.agreesIn_of_find (by decide)

/-- `getRemoteObject_built_agrees` instantiated: a proxy for `exObj` requested with the caller's own `DBusInterface`
instance `exIface` (what the exporter declares) and the name of a locally known copy of it is built without
introspection and `AgreesWith` the exported object - the hypothesis of the headline theorem. -/
example : ∃ px, getRemoteObjectPlan [("org.t.K", exIface)] 2 "/o" (.many [.inst exIface, .name "org.t.K"]) = .built px ∧
    px.ifaces = [exIface, exIface] ∧ px.AgreesWith exObj := by
  refine ⟨_, rfl, rfl, ?_⟩
  refine getRemoteObject_built_agrees [("org.t.K", exIface)] 2 "/o" (.many [.inst exIface, .name "org.t.K"]) _ rfl exObj ?_
  intro l hl a ha i hi
  injection hl with hl
  subst hl
  have hex : exIface.AgreesIn exObj := Iface.agreesIn_of_find (by decide)
  simp only [List.mem_cons, List.not_mem_nil, or_false] at ha
  rcases ha with rfl | rfl
  · simp only [IfaceArg.resolve, Option.some.injEq] at hi; subst hi; exact hex
  · have : i = exIface := by
      have h : IfaceArg.resolve [("org.t.K", exIface)] (.name "org.t.K") = some exIface := by decide
      rw [h] at hi; injection hi with hi; exact hi.symm
    subst this; exact hex

/-- The hypotheses of `C11_call_through_introspected_proxy` are satisfiable: C15's sample object (two declared
interfaces, overwritten and deleted members) is `Declared`, its names and the standard ones are distinct, the empty
cache is fresh; the introspected proxy exists, lists the two declared interfaces and the three standard ones, and
selects `Foo` of `org.a.B` with the declaration the exporter holds (two `h` arguments after the overwrite). -/
example : ∃ cs, Intro.exportedGet? Intro.sampleExported "/a".toList = some cs ∧ Intro.Declared cs ∧
    ((Intro.decl cs).map (·.name)).Nodup ∧
    (∃ px, introspectedProxy 1 "/a".toList Intro.sampleExported [] [] false = some px ∧
      px.ifaces.map (·.name) = ["org.a.B", "org.a.b"] ++ stdNames ∧
      (proxyLookup none "Foo" px.ifaces).map (fun p => (p.1.name, p.2.sigIn, p.2.nargs)) = some ("org.a.B", "hh", 2) ∧
      "org.a.B" ∉ stdNames) := by
  refine ⟨_, rfl, ?_, by decide, ?_⟩
  · intro c hc
    simp only [List.mem_cons, List.not_mem_nil, or_false] at hc
    rcases hc with rfl | rfl
    · exact ⟨"org.a.B".toList, Intro.sampleOps, rfl⟩
    · exact ⟨"org.a.b".toList, [], rfl⟩
  · refine ⟨_, rfl, by decide, by decide, by decide⟩

/-! ### `C11_call_through_introspected_proxy` instantiated as a whole

Client 1 exports C15's sample object (interfaces `org.a.B` - `Foo(hh)`, `a_1` - and `org.a.b`) at `/a`, `Foo` bound to
function 1; the caller's cache already holds `org.a.b` (same definition) and `replaceKnownInterfaces=False`; client 0
builds the proxy by introspection and calls `Foo(3, 4)`; the run reaches quiescence.  Every hypothesis of the theorem
is discharged by evaluation, and its conclusion is read off for this run. -/

def exCA : Intro.Cached := match Intro.declare "org.a.B".toList Intro.sampleOps with | .ok c => c | .error _ => default
def exCB : Intro.Cached := match Intro.declare "org.a.b".toList [] with | .ok c => c | .error _ => default
def exCsA : List Intro.Cached := [exCA, exCB]
def exObjA : ExpObj :=
  { path := "/a",
    classes := [{ ifaces := some ((exCsA.map (·.iface)).map ifaceOfIntro), attrs := [("dbus_Foo", ⟨1, none⟩)] }] }
def exWorldA : World Nat :=
  { exports := fun j => if j = 1 then [exObjA] else [],
    introspect := fun _ _ => none, managed := fun _ _ => .ok 0, encErr := fun _ _ => none,
    validErrorName := fun _ => true }
def exHeapA : List Intro.Interface := (exCsA.map (·.iface)).drop 1
def exKnownA : List (Intro.Str × Nat) := [("org.a.b".toList, 0)]
def exPxA : Proxy := (introspectedProxy 1 "/a".toList Intro.sampleExported exHeapA exKnownA false).getD ⟨0, "", []⟩
def exStepsA : List (Step Nat) :=
  [.call 0 (.viaProxy exPxA none "Foo" [3, 4]), .toBus 0, .toClient 1 (.now (.value (.obj 0))), .toBus 1,
   .toClient 0 .deferred]
def exNetA : Net Nat := run exWorldA (Net.init 2 (fun _ => 1)) exStepsA

def exIA : Iface := (exPxA.ifaces[0]?).getD ⟨"", []⟩
def exMA : MethodDecl := ((exIA.method? "Foo")).getD ⟨"", "", "", 0, 0⟩
def exRA : CallRec Nat := ((exNetA.cl 0).issued[0]?).getD ⟨0, 0, "", none, "", "", [], none⟩

theorem exQuiescentA : exNetA.Quiescent := by
  intro j hj
  have hn : exNetA.n = 2 := by decide
  rw [hn] at hj
  match j, hj with
  | 0, _ => decide
  | 1, _ => decide

/-- the theorem applied: `Foo` ran once on the exporter with `[3, 4]`, bound function 1; the caller completed once -/
example : ∃ res,
    (exNetA.cl 1).invocations.filter (invKey 0 1) =
      [{ sender := some 0, serial := 1, path := "/a", iface := "org.a.B", member := "Foo", args := [3, 4], impl := 1 }] ∧
    (exNetA.cl 0).completions.filter (complKey 1) =
      [(1, outcomeOf (some exMA.sigOut) (replyOf exWorldA (.result exMA.sigOut exMA.nret res)))] := by
  have hdecl : Intro.Declared exCsA := by
    intro c hc
    simp only [exCsA, List.mem_cons, List.not_mem_nil, or_false] at hc
    rcases hc with rfl | rfl
    · exact ⟨"org.a.B".toList, Intro.sampleOps, by decide⟩
    · exact ⟨"org.a.b".toList, [], by decide⟩
  obtain ⟨px, hpx, _, H⟩ := C11_call_through_introspected_proxy exWorldA 2 (fun _ => 1) exStepsA exQuiescentA
    (path := "/a".toList) (exported := Intro.sampleExported) (cs := exCsA) (by decide) hdecl (by decide)
    exHeapA exKnownA false 1 (by decide) exObjA (by decide) (by decide)
  have hp : px = exPxA := by
    have h : introspectedProxy 1 "/a".toList Intro.sampleExported exHeapA exKnownA false = some exPxA := by decide
    rw [h] at hpx; injection hpx with e; exact e.symm
  subst hp
  obtain ⟨res, h1, _, h3, _⟩ := H 0 (by decide) none "Foo" [3, 4] exIA exMA ⟨1, none⟩ 0 exCA.iface
    (by decide) (by decide) (by decide) (Or.inr (Or.inl (by decide))) (by decide) (by decide) (by decide) (by decide)
    exRA (by decide) ⟨_, rfl, by decide⟩ (by intro h; simp [exStepsA] at h)
  have hs : exRA.serial = 1 := by decide
  have hn : exIA.name = "org.a.B" := by decide
  rw [hs, hn] at h1
  rw [hs] at h3
  exact ⟨res, by simpa [exNetA] using h1, by simpa [exNetA] using h3⟩

def exMixed : ExpObj :=
  { path := "/m",
    classes := [{ ifaces := none,
                  attrs := [("dbus_foo", ⟨1, none⟩), ("b_foo", ⟨2, some ("org.t.B", "foo")⟩)] }] }

def exDeco : ExpObj :=
  { path := "/d",
    classes := [{ ifaces := none,
                  attrs := [("dbus_foo", ⟨1, some ("org.t.A", "foo")⟩), ("b_foo", ⟨2, some ("org.t.B", "foo")⟩)] }] }

/-- The documented resolution order of `executeMethod` (DESIGN C10 "Binding"): a plain `dbus_foo` serves
`foo` on EVERY interface, also on one for which a decorated implementation exists; the decorated function is
reached only when `dbus_foo` is absent or decorated for another interface; nothing bound = None. -/
example : exMixed.resolveImpl "org.t.B" "foo" = some ⟨1, none⟩ ∧
    exDeco.resolveImpl "org.t.B" "foo" = some ⟨2, some ("org.t.B", "foo")⟩ ∧
    exDeco.resolveImpl "org.t.C" "foo" = none := by
  decide

/-- A deadline passes while the method is still executing; the reply that comes later is ignored (and does
not disturb anything): exactly one completion, `TimeOut`. -/
example :
    let net := run exWorld (Net.init 3 (fun _ => 1))
      [ .call 0 (.viaProxy exProxy none "echo" [7]), .toBus 0, .toClient 2 .deferred, .expire 0 1,
        .resolve 2 0 (.value (.obj 8)), .toBus 2, .toClient 0 .deferred ]
    (net.cl 0).completions = [(1, .timedOut)] ∧ (net.cl 0).late = [1] ∧ (net.cl 0).down = [] ∧
    (net.cl 2).answers = [(some 0, 1, .result "v" 1 (.value (.obj 8)))] := by
  decide

/-! ### the byte-level hypotheses are satisfiable -/

def exCallB : Msg Nat := .call 1 none (some 5) "/o" (some "org.t.I") "echo" "v" [7]
/-- a 16-byte frame: little-endian, METHOD_CALL, empty body, empty header array -/
def exFrame : Txdbus.Bytes := [108, 1, 0, 1, 0, 0, 0, 0, 1, 0, 0, 0, 0, 0, 0, 0]
/-- a codec whose domain is one message -/
def exCodec : WireCodec Nat := { enc := fun _ => exFrame, dec := fun _ => some exCallB }
def exAuth : Txdbus.Proto.Auth Unit := ⟨fun a _ => (a, .cont)⟩

/-- `WireCodec.Laws` is satisfiable (on a domain; no codec is lawful on all messages: frames have 32-bit lengths) -/
example : exCodec.Laws (fun m => m = exCallB) :=
  ⟨fun m _ => by show Txdbus.Proto.Spec.WellFormed exFrame; decide, fun m hm => by rw [hm]; rfl⟩

/-- one client calls a destination that is not attached; the bus reads the 16 bytes as 7 + 0 + the rest -/
def exB : BNet Nat Unit :=
  brun exCodec exAuth exWorld (BNet.init 1 (fun _ => 1) ())
    [.call 0 (.raw 5 "/o" (some "org.t.I") "echo" "v" [7]), .readBus 0 7, .readBus 0 0, .readBus 0 100]

/-- the hypotheses `hok` and `hq` of `C11_bytes_any_delivery_order_partial` hold for this run: everything serialised
is in the codec's domain, and the byte-level network ends quiescent (the message was cut off after the third read,
parsed, stamped and - the destination being unknown - dropped) -/
example : (∀ m, m ∈ exB.sent → m = exCallB) ∧ exB.Quiescent ∧ exB.dropped = [exCallB.withSender 0] := by
  have h : exB.sent = [exCallB] ∧ exB.upWire 0 = [] ∧ exB.downWire 0 = [] ∧ (exB.busRx 0).buffer = [] ∧
      (exB.cliRx 0).buffer = [] ∧ (exB.cl 0).exec = [] ∧ exB.n = 1 ∧ exB.dropped = [exCallB.withSender 0] := by
    decide +kernel
  obtain ⟨h1, h2, h3, h4, h5, h6, h7, h8⟩ := h
  refine ⟨fun m hm => by rw [h1] at hm; simpa using hm, ?_, h8⟩
  intro j hj
  rw [h7] at hj
  have : j = 0 := by omega
  subst this
  exact ⟨h2, h3, h4, h5, h6⟩

/-- every message gets a 16-byte frame whose serial byte is a tag: kind, serial, stamped or not -/
def tagOf : Msg Nat → Nat
  | .call n sender _ _ _ _ _ _ => 4 * n + (if sender.isSome then 1 else 0)
  | .reply _ rs sender _ _ => 4 * rs + 2 + (if sender.isSome then 1 else 0)

def frameOf (t : Nat) : Txdbus.Bytes := [108, 1, 0, 1, 0, 0, 0, 0, UInt8.ofNat t, 0, 0, 0, 0, 0, 0, 0]

def exC1 : Msg Nat := .call 1 none (some 2) "/o" (some "org.t.I") "echo" "v" [7]
def exC2 : Msg Nat := .call 2 none (some 2) "/o" (some "org.t.I") "echo" "v" [9]
def exR1 : Msg Nat := .reply 1 1 none (some 0) (.ret "v" [8])
def exR2 : Msg Nat := .reply 2 2 none (some 0) (.ret "v" [10])
/-- the domain of the example codec: the two calls, the two replies, and their copies stamped by the bus -/
def exDomain : List (Msg Nat) :=
  [exC1, exC1.withSender 0, exC2, exC2.withSender 0, exR1, exR1.withSender 2, exR2, exR2.withSender 2]

def exCodec2 : WireCodec Nat :=
  { enc := fun m => frameOf (tagOf m),
    dec := fun raw => exDomain.find? (fun m => frameOf (tagOf m) == raw) }

theorem exCodec2_laws : exCodec2.Laws (fun m => m ∈ exDomain) := by
  constructor
  · intro m hm
    have : ∀ x, x ∈ exDomain → Txdbus.Proto.Spec.WellFormed (exCodec2.enc x) := by decide
    exact this m hm
  · intro m hm
    have : ∀ x, x ∈ exDomain → exCodec2.dec (exCodec2.enc x) = some x := by decide
    exact this m hm

/-- client 0 writes two calls; the bus gets both frames in ONE read; client 2 (the exporter) gets both in one read and
answers; the bus reads the replies as 5 bytes, then the rest; client 0 reads its two replies at once -/
def exB2 : BNet Nat Unit :=
  brun exCodec2 exAuth exWorld (BNet.init 3 (fun _ => 1) ())
    [.call 0 (.viaProxy exProxy none "echo" [7]), .call 0 (.viaProxy exProxy none "echo" [9]),
     .readBus 0 1000, .readClient 2 1000 [.now (.value (.obj 8)), .now (.value (.obj 10))],
     .readBus 2 5, .readBus 2 1000, .readClient 0 1000 []]

/-- `hok` and `hq` hold for this run, and its conclusion is not vacuous: both calls go to the attached client 2, which
invoked `echo` twice (bound function 1) and answered; both completed with what was returned; two frames were cut off in
one read three times. -/
example : (∀ m, m ∈ exB2.sent → m ∈ exDomain) ∧ exB2.Quiescent ∧
    (exB2.cl 0).completions = [(1, .single 8), (2, .single 10)] ∧
    (exB2.cl 2).invocations.map (fun i => (i.sender, i.serial, i.args, i.impl)) =
      [(some 0, 1, [7], 1), (some 0, 2, [9], 1)] := by
  have h : exB2.sent = [exC1, exC2, exC1.withSender 0, exC2.withSender 0, exR1, exR2, exR1.withSender 2,
        exR2.withSender 2] ∧ exB2.n = 3 ∧
      (∀ j, j < 3 → exB2.upWire j = [] ∧ exB2.downWire j = [] ∧ (exB2.busRx j).buffer = [] ∧
        (exB2.cliRx j).buffer = [] ∧ (exB2.cl j).exec = []) ∧
      (exB2.cl 0).completions = [(1, .single 8), (2, .single 10)] ∧
      (exB2.cl 2).invocations.map (fun i => (i.sender, i.serial, i.args, i.impl)) =
        [(some 0, 1, [7], 1), (some 0, 2, [9], 1)] := by
    decide +kernel
  obtain ⟨h1, h2, h3, h4, h5⟩ := h
  refine ⟨fun m hm => ?_, fun j hj => h3 j (by rw [h2] at hj; exact hj), h4, h5⟩
  rw [h1] at hm
  revert m
  decide

/-- what the Deferreds of the example fire with: `echo` returns its argument plus one -/
def exFire : Nat → Exec → Result Nat := fun _ e => .value (.obj (if e.serial = 1 then 8 else 10))

/-- the run to be extended: two calls written, the bus has read 21 bytes (one frame and 5 bytes of the second) -/
def exPrefix : List (BStep Nat) :=
  [.call 0 (.viaProxy exProxy none "echo" [7]), .call 0 (.viaProxy exProxy none "echo" [9]), .readBus 0 21]

def exB3 : BNet Nat Unit := brun exCodec2 exAuth exWorld (BNet.init 3 (fun _ => 1) ()) exPrefix

/-- The hypothesis of `bytes_quiescence_reachable_in_domain` / `C11_bytes_completion_always_reachable_partial` holds for this
run, the codec `exCodec2` (lawful on `exDomain`: `exCodec2_laws`) and the firing policy `exFire`: the run is NOT
quiescent (one stamped call on the wire to client 2, 11 bytes of a frame on the wire to the bus and 5 in the bus's
buffer); the draining schedule stops after 8 steps, and everything serialised up to there is in the domain - hence
for every fuel (`drain_domain_of_stopped`).  The extended run ends with both calls completed with what `exFire` gave. -/
example : (∀ fuel m, m ∈ (brun exCodec2 exAuth exWorld (BNet.init 3 (fun _ => 1) ())
        (exPrefix ++ drain exCodec2 exAuth exWorld exFire fuel exB3)).sent → m ∈ exDomain) ∧
    ¬ exB3.Quiescent ∧
    (drain exCodec2 exAuth exWorld exFire 100 exB3).length = 8 ∧
    ((brun exCodec2 exAuth exWorld exB3 (drain exCodec2 exAuth exWorld exFire 100 exB3)).cl 0).completions =
      [(1, .single 8), (2, .single 10)] := by
  have h : (brun exCodec2 exAuth exWorld exB3 (drain exCodec2 exAuth exWorld exFire 8 exB3)).pick exFire
        (brun exCodec2 exAuth exWorld exB3 (drain exCodec2 exAuth exWorld exFire 8 exB3)).n = none ∧
      (brun exCodec2 exAuth exWorld exB3 (drain exCodec2 exAuth exWorld exFire 8 exB3)).sent =
        [exC1, exC2, exC1.withSender 0, exC2.withSender 0, exR1, exR1.withSender 2, exR2, exR2.withSender 2] ∧
      (exB3.busRx 0).buffer.length = 5 ∧
      (drain exCodec2 exAuth exWorld exFire 100 exB3).length = 8 ∧
      ((brun exCodec2 exAuth exWorld exB3 (drain exCodec2 exAuth exWorld exFire 100 exB3)).cl 0).completions =
        [(1, .single 8), (2, .single 10)] := by
    decide +kernel
  obtain ⟨h1, h2, h3, h4, h5⟩ := h
  refine ⟨?_, ?_, h4, h5⟩
  · intro fuel m hm
    rw [brun_append] at hm
    refine drain_domain_of_stopped exCodec2 (fun m => m ∈ exDomain) exAuth exWorld exFire exB3 8 h1 ?_ fuel m hm
    intro x hx
    rw [h2] at hx
    revert x
    decide
  · intro hq
    have := (hq 0 (by decide +kernel)).2.2.1
    rw [this] at h3
    exact absurd h3 (by decide)

/-! ### the hypotheses of the synthetic handshake start are satisfiable -/

def lnBEGIN : Txdbus.Proto.Bytes := [66, 69, 71, 73, 78]
def lnOK : Txdbus.Proto.Bytes := [79, 75]
/-- an authenticator that reports success at `BEGIN` (bus side) and at `OK` (client side) -/
def exAuthH : Txdbus.Proto.Auth Unit :=
  ⟨fun a l => if l = lnBEGIN ∨ l = lnOK then (a, .success) else (a, .cont)⟩
/-- the state of real connections between the client's `BEGIN` and the bus's reading it: the bus still expects `BEGIN`;
the clients are in binary mode already (client 1 is the exception, to exercise the client side: it still expects `OK`) -/
def exHsUp : Nat → Txdbus.Proto.Bytes := fun _ => Txdbus.Proto.Spec.unlines ([] ++ [lnBEGIN])
def exHsDown : Nat → Txdbus.Proto.Bytes := fun c => if c = 1 then Txdbus.Proto.Spec.unlines ([] ++ [lnOK]) else []

/-- client 0 writes two calls behind its `BEGIN` (in reality the first frame there is `Hello`: not in this model); the
bus's first read takes the 7 bytes of `BEGIN\r\n`, the first frame and 5 bytes of the second in ONE read; client 2 is in
binary mode from the start; the links of client 1 carry only handshake lines and are read too -/
def exStepsH : List (BStep Nat) :=
  [.call 0 (.viaProxy exProxy none "echo" [7]), .call 0 (.viaProxy exProxy none "echo" [9]),
   .readBus 0 28, .readBus 0 1000, .readClient 2 1000 [.now (.value (.obj 8)), .now (.value (.obj 10))],
   .readBus 2 11, .readBus 2 1000, .readClient 0 3 [], .readClient 0 1000 [], .readBus 1 7, .readClient 1 4 []]

def exBH : BNet Nat Unit :=
  brun exCodec2 exAuthH exWorld (BNet.initH 3 (fun _ => 1) (fun _ => ()) (fun _ => ()) exHsUp exHsDown) exStepsH

/-- every hypothesis of `C11_bytes_from_handshake_partial` holds for this run: each direction of each link is binary or
has an acceptable handshake, the first read of every line-mode link takes its handshake (`HSRun`), everything serialised
is in the codec's domain, the run ends quiescent; both calls completed with what was returned -/
example : (∀ c, HsOK exAuthH () (exHsUp c)) ∧ (∀ c, HsOK exAuthH () (exHsDown c)) ∧
    HSRun exCodec2 exAuthH exWorld exHsUp exHsDown
      (BNet.initH 3 (fun _ => 1) (fun _ => ()) (fun _ => ()) exHsUp exHsDown) exStepsH ∧
    (∀ m, m ∈ exBH.sent → m ∈ exDomain) ∧ exBH.Quiescent ∧
    (exBH.cl 0).completions = [(1, .single 8), (2, .single 10)] := by
  have hB : HandshakeOK exAuthH () [] lnBEGIN := ⟨by decide, (), (), by decide, by decide⟩
  have hO : HandshakeOK exAuthH () [] lnOK := ⟨by decide, (), (), by decide, by decide⟩
  refine ⟨fun _ => Or.inr ⟨[], lnBEGIN, rfl, hB⟩, fun c => ?_, by decide +kernel, ?_, ?_, ?_⟩
  · by_cases hc : c = 1
    · exact Or.inr ⟨[], lnOK, by simp [exHsDown, hc], hO⟩
    · exact Or.inl (by simp [exHsDown, hc])
  · have h1 : exBH.sent = [exC1, exC2, exC1.withSender 0, exC2.withSender 0, exR1, exR2, exR1.withSender 2,
        exR2.withSender 2] := by decide +kernel
    intro m hm
    rw [h1] at hm
    revert m
    decide
  · have h : exBH.n = 3 ∧ ∀ j, j < 3 → exBH.upWire j = [] ∧ exBH.downWire j = [] ∧ (exBH.busRx j).buffer = [] ∧
        (exBH.cliRx j).buffer = [] ∧ (exBH.cl j).exec = [] := by decide +kernel
    intro j hj
    exact h.2 j (by rw [h.1] at hj; exact hj)
  · decide +kernel

/-! ### the domain of C03's codec is inhabited (unstamped and stamped) -/

def exName : Nat → List Char := fun i => [':', '1', '.', Char.ofNat (49 + i)]
def exIdx : List Char → Option Nat
  | [':', '1', '.', c] => some (c.toNat - 49)
  | _ => none
def exRep : C03Rep UInt8 Txdbus.Proto.Bytes := byteRep exName exIdx
/-- `MethodCallMessage('/o', 'echo', interface='org.t.I', destination=':1.3')`, serial 5, as client 0 writes it ... -/
def exM0 : Msg UInt8 := .call 5 none (some 2) "/o" (some "org.t.I") "echo" "" []
/-- ... and as the bus forwards it, with `sender=':1.1'` -/
def exM0s : Msg UInt8 := exM0.withSender 0

theorem exM0_ok : C03Ok exRep rawBodyCodec (fun _ => false) Gen.Message.maxMsgLen exM0 ∧
    C03Ok exRep rawBodyCodec (fun _ => false) Gen.Message.maxMsgLen exM0s := by
  obtain ⟨st', x, hc⟩ := Txdbus.Proto.WithMsg.construct_shape (T := Gen.Message.tables) (C := rawBodyCodec)
    (na := fun _ => false) (maxLen := Gen.Message.maxMsgLen) (st := ⟨5⟩) (c := exRep.call exM0) (by decide +kernel)
  have hsig : Txdbus.Msg.Main.SigNoNul (exRep.call exM0) := by
    intro sg h; cases h
  obtain ⟨f1, _, _, _, _, f6⟩ :=
    Txdbus.Msg.Main.constructed_from_arguments Gen.Message.tables Txdbus.Msg.genTables_ok rawBodyCodec _ _ _ st' _ x hc
  obtain ⟨c1, _, _, c4, c5, c6, c7, c8, c9, c10, c11⟩ := f1 _ rfl
  have hfd : x.attrs .unixFds = .none := f6.2
  obtain ⟨_, _, _, _, _, _, _, _, _, _, _, _, _, hser0, _⟩ :=
    Txdbus.Msg.Main.marshal_wellformed Gen.Message.tables Txdbus.Msg.genTables_ok rawBodyCodec (fun _ => false)
      Gen.Message.maxMsgLen (by decide) ⟨5⟩ st' _ x (by decide) hsig hc
  have hser : x.serial = 5 := hser0
  have hmt : Gen.Message.tables.messageType Txdbus.Msg.MsgClass.methodCall = 1 := by decide
  have hsg : ∀ sg, x.attrs .signature ≠ .str .plain sg := by
    intro sg h; rw [c8] at h; cases h
  have hsg' : ∀ sg, plainAttrs x .signature ≠ .str .plain sg := by
    intro sg h; simp only [plainAttrs, c8] at h; cases h
  have hcs : Txdbus.Msg.construct Gen.Message.tables rawBodyCodec (fun _ => false) Gen.Message.maxMsgLen
      ⟨exM0s.serialOf⟩ (exRep.call exM0s) = (st', .ok x) := hc
  constructor
  · refine c03Ok_of_constructed exRep rawBodyCodec _ _ exM0 st' x [] (by decide) hsig hc hfd
      (fun sg h => absurd h (hsg sg)) (fun sg h => absurd h (hsg' sg)) (fun h => absurd rfl h) ?_
    show exRep.back (viewPlain x []) = some exM0
    simp only [viewPlain, Txdbus.Proto.Receive.Sent.expected, Txdbus.Msg.Msg.view, exRep, byteRep, c1, c4, c5, c6, c7,
      c8, c11, hser]
    rw [if_pos hmt]
    decide
  · refine c03Ok_of_constructed exRep rawBodyCodec _ _ exM0s st' x [] (by decide) hsig hcs hfd
      (fun sg h => absurd h (hsg sg)) (fun sg h => absurd h (hsg' sg)) (fun _ => by decide +kernel) ?_
    show exRep.back (viewStamped x [] (exRep.name 0)) = some exM0s
    simp only [viewStamped, plainAttrs, exRep, byteRep, c1, c4, c5, c6, c7, c8, c11, hser]
    rw [if_pos hmt]
    decide

/-- The model of the bus BEFORE the repair (Net/OldBus.lean), with a re-encoding that raises for the body
of a `v` call (the implementation: argument `(1, 2**40)`, sent as `(ix)`, re-inferred as `ai`): the call
of client 0 is issued to an attached client, the network becomes quiescent, and the call is neither
invoked nor completed.  This is the replay corpus/C11/bus-reencode-variant-struct.json. -/
theorem prefix_model_violates :
    let reenc : String → List Nat → Option (List Nat) := fun sig body => if sig = "v" then none else some body
    let net := runOld reenc exWorld (Net.init 3 (fun _ => 1)) [.call 0 (.viaProxy exProxy none "echo" [7]), .toBus 0]
    (∀ j, j < 3 → (net.cl j).up = [] ∧ (net.cl j).down = [] ∧ (net.cl j).exec = []) ∧
    (net.cl 0).issued.map (fun r => (r.serial, r.dest)) = [(1, 2)] ∧
    (net.cl 0).completions = [] ∧ (net.cl 2).invocations = [] := by
  decide

end Txdbus.Net

#print axioms Txdbus.Net.link_refinement
#print axioms Txdbus.Net.link_refinement_framing_laws
#print axioms Txdbus.Net.link_refinement_txdbus_framing
#print axioms Txdbus.Net.call_stage_invariant
#print axioms Txdbus.Net.call_in_exactly_one_stage
#print axioms Txdbus.Net.queues_hold_only_issued_calls
#print axioms Txdbus.Net.step_n
#print axioms Txdbus.Net.run_n
#print axioms Txdbus.Net.C11_end_to_end
#print axioms Txdbus.Net.quiescence_reachable
#print axioms Txdbus.Net.C11_completion_always_reachable
#print axioms Txdbus.Net.agreeing_proxy_accepted
#print axioms Txdbus.Net.issued_from_call_steps
#print axioms Txdbus.Net.result_from_step
#print axioms Txdbus.Net.timedOut_from_expire_step
#print axioms Txdbus.Net.C11_call_selected_interface_agrees
#print axioms Txdbus.Net.C11_call_through_agreeing_proxy
#print axioms Txdbus.Net.C11_call_through_introspected_proxy
#print axioms Txdbus.Net.bytes_run_simulated
#print axioms Txdbus.Net.C11_bytes_any_delivery_order_partial
#print axioms Txdbus.Net.bytes_nothing_stuck_in_a_receiver
#print axioms Txdbus.Net.bytes_quiescence_reachable_in_domain
#print axioms Txdbus.Net.bytes_quiescence_reachable_in_class_in_domain
#print axioms Txdbus.Net.C11_bytes_completion_always_reachable_partial
#print axioms Txdbus.Net.bytes_run_from_handshake_reduces_partial
#print axioms Txdbus.Net.C11_bytes_from_handshake_partial
#print axioms Txdbus.Net.C11_wire_codec_laws_c03
#print axioms Txdbus.Net.C11_bytes_any_delivery_order_c03_partial
#print axioms Txdbus.Net.exM0_ok
#print axioms Txdbus.Net.getRemoteObject_introspects_iff_unknown_name
#print axioms Txdbus.Net.getRemoteObject_built_lists_every_requested
#print axioms Txdbus.Net.getRemoteObject_built_agrees
#print axioms Txdbus.Net.exQuiescentA
#print axioms Txdbus.Net.exCodec2_laws
#print axioms Txdbus.Net.C11_returns_what_it_returned
#print axioms Txdbus.Net.prefix_model_violates
