/-! Property theorems for C15 (stub: none yet). -/
