import TxdbusModel.Proofs.Intro.Final
import TxdbusModel.Proofs.Intro.Sorted
/-!
# C15 - Introspection XML round-trips every interface definition

Objects: `generate` (= `generateIntrospectionXML`, as SAX events), `getInterfaces` (= `getInterfacesFromXML`:
`IntrospectionHandler` run over the events, on a heap of `DBusInterface` objects and the process-wide cache
`knownInterfaces`), `callCheck` (= the method lookup and argument-count check of `RemoteDBusObject.callRemote`).
Specification vocabulary (Intro/Spec.lean): `SameDefinition` / `SameDefinitions`, `World.parseBlocks`,
`DeclOp` / `declare`, `attrSafe`.

`decl cs` below is what the exporter declared for the object: the definitions of its interfaces (in the
order of `getInterfaces()`) followed by the three standard interfaces `generateIntrospectionXML` appends.
-/
namespace Txdbus.Intro

/-- **C15, round trip (general form).**  For every exported object whose interfaces were declared through the
API (any members, any signatures from the type grammar, any access and change-notification modes, any number
of interfaces), any content of the heap and of `knownInterfaces`, with or without replacement: generating
succeeds, parsing the generated events succeeds, and the parse did to the cache exactly what the specification
`World.parseBlocks` prescribes for a list `rs` of definitions that are, element by element, the *same
definitions* as the declared ones (same name, methods with `sigIn`/`sigOut`/`nargs`/`nret`, signals, property
types and access modes). -/
theorem handler_gen {path : Str} {exported : List (Str × List Cached)} {cs : List Cached}
    (hobj : exportedGet? exported path = some cs) (hdecl : Declared cs)
    (heap : List Interface) (known : List (Str × Nat)) (replace : Bool) :
    ∃ evs st rs, generate path exported = .ok (some evs) ∧
      getInterfaces heap known replace evs = .ok st ∧
      SameDefinitions (decl cs) rs ∧
      st.world = World.parseBlocks (!replace) ⟨heap, known, []⟩ rs := by
  obtain ⟨hcoh, hwf⟩ := hdecl.wf
  obtain ⟨evs, st, h1, h2, h3⟩ := parse_generated hobj hcoh hwf heap known replace
  refine ⟨evs, st, _, h1, h2, sameDefinitions_recIface _ ?_, h3⟩
  intro i hi
  rcases List.mem_append.mp hi with hi | hi
  · obtain ⟨c, hc, rfl⟩ := List.mem_map.mp hi
    exact hwf c hc
  · exact std_wf i hi

/-- **C15, round trip.**  If in addition the interface names of the object are pairwise distinct (and none is
a standard one) and either replacement is requested or none of the names is known locally, the objects
returned by the parse hold, in order, the same definitions as declared. -/
theorem handler_gen_fresh {path : Str} {exported : List (Str × List Cached)} {cs : List Cached}
    (hobj : exportedGet? exported path = some cs) (hdecl : Declared cs)
    (hnames : ((decl cs).map (·.name)).Nodup)
    (heap : List Interface) (known : List (Str × Nat)) (replace : Bool)
    (hfresh : replace = true ∨ ∀ d ∈ decl cs, kget? known d.name = none) :
    ∃ evs st rs, generate path exported = .ok (some evs) ∧
      getInterfaces heap known replace evs = .ok st ∧
      SameDefinitions (decl cs) rs ∧ st.result = rs.map some := by
  obtain ⟨hcoh, hwf⟩ := hdecl.wf
  obtain ⟨evs, st, h1, h2, h3⟩ := parse_generated hobj hcoh hwf heap known replace
  have hall : ∀ i ∈ decl cs, i.WF := by
    intro i hi
    rcases List.mem_append.mp hi with hi | hi
    · obtain ⟨c, hc, rfl⟩ := List.mem_map.mp hi
      exact hwf c hc
    · exact std_wf i hi
  refine ⟨evs, st, _, h1, h2, sameDefinitions_recIface _ hall, ?_⟩
  exact fresh_result hnames heap known (!replace)
    (by rcases hfresh with h | h
        · exact Or.inl (by simp [h])
        · exact Or.inr h) h3

/-- **C15, proxy.**  Under the same conditions a proxy built from the parsed interfaces takes, for every method
name, every `interface=` keyword and every number of arguments, the same decision as the declaration:
unknown method, wrong argument count, or the call sent with the same interface name, signature and return
signature. -/
theorem proxy_accepts_same_calls {path : Str} {exported : List (Str × List Cached)} {cs : List Cached}
    (hobj : exportedGet? exported path = some cs) (hdecl : Declared cs)
    (hnames : ((decl cs).map (·.name)).Nodup)
    (heap : List Interface) (known : List (Str × Nat)) (replace : Bool)
    (hfresh : replace = true ∨ ∀ d ∈ decl cs, kget? known d.name = none) :
    ∃ evs st, generate path exported = .ok (some evs) ∧
      getInterfaces heap known replace evs = .ok st ∧
      ∀ (filter : Option Str) (methodName : Str) (nargs : Nat),
        callCheck (st.result.filterMap id) filter methodName nargs
          = callCheck (decl cs) filter methodName nargs := by
  obtain ⟨evs, st, rs, h1, h2, h3, h4⟩ := handler_gen_fresh hobj hdecl hnames heap known replace hfresh
  refine ⟨evs, st, h1, h2, fun f m n => ?_⟩
  have : st.result.filterMap id = rs := by
    rw [h4]; induction rs with
    | nil => rfl
    | cons r rs ih => simp
  rw [this]
  exact callCheck_congr h3 f m n

/-- what a declared method accepts: exactly as many arguments as its input signature has complete types -/
theorem declared_method_count {name : Str} {ops : List DeclOp} {c : Cached} (h : declare name ops = .ok c)
    {m : Method} (hm : m ∈ c.iface.methods) :
    ∃ ins outs : List Str, genCompleteTypes m.sigIn = .ok ins ∧ genCompleteTypes m.sigOut = .ok outs ∧
      m.nargs = ins.length ∧ m.nret = outs.length := by
  obtain ⟨ins, outs, hi, ho, hn, hr⟩ := (declare_wf h).1.methods m hm
  exact ⟨ins, outs, hi.1, ho.1, hn, hr⟩

/-- **C15, proxy, spec side.**  A method left in an interface declared through the API carries the type lists
it was declared with, and a proxy holding that interface sends a call to it iff the number of arguments is the
number of declared input types (one argument per complete type: an `a{sv}` is one) - with the declared
signatures; any other count is the `TypeError`. -/
theorem declared_method_accepts {name : Str} {ops : List DeclOp} {c : Cached} (h : declare name ops = .ok c)
    {m : Method} (hm : m ∈ c.iface.methods) :
    ∃ ins outs : List Ty, m.sigIn = renderAll ins ∧ m.sigOut = renderAll outs ∧
      ∀ k : Nat, callCheck [c.iface] none m.name k =
        if k = ins.length then .sent c.iface.name (renderAll ins) (renderAll outs) else .wrongCount := by
  obtain ⟨ins, outs, hi, ho, hn, _⟩ := declare_ty h m hm
  refine ⟨ins, outs, hi, ho, fun k => ?_⟩
  have hg := dget_of_mem (declare_wf h).1.mnames hm
  simp only [callCheck, findMethod, hg, Bool.false_eq_true, if_false]
  rw [hn, hi, ho]
  by_cases hk : k = ins.length
  · simp [hk]
  · have : (k : Int) ≠ (ins.length : Int) := by omega
    simp [hk, this]

/-- **C15, cache.**  "Interfaces already known locally are reused unless replacement is requested": for the
`j`-th interface `d` of the object (distinct names),
* no replacement and `d.name` known as object `k`: the `j`-th returned object *is* `k`, the cache entry stays;
* replacement requested, or the name unknown: the `j`-th returned object is a new object (allocated by this
  parse) holding the same definition as `d`, and the cache now maps the name to it;
* in every case the objects that existed before the parse - the cached ones included - are unchanged. -/
theorem known_reused_unless_replaced {path : Str} {exported : List (Str × List Cached)} {cs : List Cached}
    (hobj : exportedGet? exported path = some cs) (hdecl : Declared cs)
    (hnames : ((decl cs).map (·.name)).Nodup)
    (heap : List Interface) (known : List (Str × Nat)) (replace : Bool) :
    ∃ evs st, generate path exported = .ok (some evs) ∧
      getInterfaces heap known replace evs = .ok st ∧
      st.interfaces.length = (decl cs).length ∧
      (∀ id, id < heap.length → st.heap[id]? = heap[id]?) ∧
      ∀ (j : Nat) (d : Interface), (decl cs)[j]? = some d →
        (replace = false → ∀ k, kget? known d.name = some k →
            st.interfaces[j]? = some k ∧ kget? st.known d.name = some k) ∧
        ((replace = true ∨ kget? known d.name = none) →
            ∃ id r, st.interfaces[j]? = some id ∧ heap.length ≤ id ∧ st.heap[id]? = some r ∧
              SameDefinition d r ∧ kget? st.known d.name = some id) := by
  obtain ⟨hcoh, hwf⟩ := hdecl.wf
  obtain ⟨evs, st, h1, h2, h3⟩ := parse_generated hobj hcoh hwf heap known replace
  have hall : ∀ i ∈ decl cs, i.WF := by
    intro i hi
    rcases List.mem_append.mp hi with hi | hi
    · obtain ⟨c, hc, rfl⟩ := List.mem_map.mp hi
      exact hwf c hc
    · exact std_wf i hi
  obtain ⟨⟨ext, hext⟩, hlen, hidx⟩ := parsed_index hnames heap known (!replace) h3
  simp only [HState.world] at hext hlen hidx
  refine ⟨evs, st, h1, h2, hlen, ?_, ?_⟩
  · intro id hid
    rw [hext]; exact heap_prefix hid
  · intro j d hd
    have hf := hidx j d hd
    constructor
    · intro hr k hk
      exact hf.reused (by simp [hr]) k hk
    · intro hc
      obtain ⟨id, e1, e2, e3, e4⟩ := hf.fresh (by
        rcases hc with h | h
        · exact Or.inl (by simp [h])
        · exact Or.inr h)
      exact ⟨id, recIface d, e1, e2, e3, recIface_same (hall d (List.mem_of_getElem? hd)), e4⟩

/-- **Text/event boundary.**  No attribute value written by `_getXml` for a definition with valid names
(characters of `if_re` / `mbr_re`, generated table) and signatures from the type grammar, none written for the
three standard interfaces, and no object path (characters of `invalid_obj_path_re`'s allowed set) contains a
character that would need escaping in a double-quoted XML attribute or that the parser would normalise:
the unescaped `'...="%s"' % value` formatting of interface.py / introspection.py is faithful on the domain
of the property. -/
theorem generated_attribute_values_need_no_escaping :
    (∀ (i : Interface) (evs : List Event), i.ValidNames → ifaceEvents i = .ok evs →
        ∀ e ∈ evs, e.attrsSafe = true) ∧
    introEvents.all Event.attrsSafe = true ∧
    (∀ s : Str, inClass Gen.Validators.objPathAllowed s = true → s.all attrSafe = true) ∧
    (∀ ts : List Ty, (renderAll ts).all attrSafe = true) :=
  ⟨fun _ _ hv h => ifaceEvents_safe hv h, introEvents_safe,
   fun _ h => inClass_safe objPathAllowed_no_special h, renderAll_safe⟩

/-- **`_xml` cache.**  After any sequence of API operations (arbitrary members, also malformed signatures),
`introspectionXml` returns the text of the *current* definition: the cache is never stale. -/
theorem xml_cache_coherent (name : Str) (ops : List Op) {c c' : Cached} {x : List Event}
    (h : (Cached.new name).applyAll ops = .ok c) (hx : c.getXml = .ok (x, c')) :
    ifaceEvents c.iface = .ok x := by
  have hc := Cached.applyAll_coherent ops (Cached.new_coherent name) h
  have := Cached.getXml_eq hc
  rw [hx] at this
  exact this.symm

/-- **Order of the generated elements.**  `_getXml` lists methods, signals and properties each in Python's
`sorted` order of their names (code-point lexicographic) - this fixes the event order the correspondence check
compares; the round trip itself does not depend on it. -/
theorem members_sorted (i : Interface) :
    ((sortedValues Method.name i.methods).map Method.name).Pairwise (fun a b => strLe a b = true) ∧
    ((sortedValues Signal.name i.signals).map Signal.name).Pairwise (fun a b => strLe a b = true) ∧
    ((sortedValues Property.name i.properties).map Property.name).Pairwise (fun a b => strLe a b = true) := by
  simp only [sortedValues_names]
  exact ⟨sortStrs_sorted _, sortStrs_sorted _, sortStrs_sorted _⟩

/-! ## outside the assumptions: a declared interface named like a standard one (pinned, not judged) -/

/-- an exporter implementing `org.freedesktop.DBus.ObjectManager` itself, with the two signals of the DBus
specification -/
def omOps : List DeclOp :=
  [ .addMethod "GetManagedObjects".toList []
      [.array (.dict (.basic .o) (.array (.dict (.basic .s) (.array (.dict (.basic .s) .variant)))))],
    .addSignal "InterfacesAdded".toList
      [.basic .o, .array (.dict (.basic .s) (.array (.dict (.basic .s) .variant)))],
    .addSignal "InterfacesRemoved".toList [.basic .o, .array (.basic .s)] ]

def omName : Str := "org.freedesktop.DBus.ObjectManager".toList

def omExported : List (Str × List Cached) :=
  match declare omName omOps with
  | .ok c => [("/a".toList, [c])]
  | .error _ => []

/-- per returned interface its name and number of signals; and the number of signals of the definition the
cache holds for `omName` afterwards (99 = no entry) -/
def omSummary (replace : Bool) : List (Str × Nat) × Nat :=
  match generate "/a".toList omExported with
  | .ok (some evs) =>
    match getInterfaces [] [] replace evs with
    | .ok st =>
      ((st.result.filterMap id).map fun i => (i.name, i.signals.length),
       match kget? st.known omName with
       | some id => match st.heap[id]? with
         | some i => i.signals.length
         | none => 99
       | none => 99)
    | .error _ => ([], 99)
  | _ => ([], 99)

/-- **Witness (documented limitation, see ASSUMPTIONS).**  `generateIntrospectionXML` appends its own
`ObjectManager` block even when the object declares that interface itself, so the name occurs twice.  The
declared definition (2 signals) is returned first in both modes - the clauses of the statement hold for the
returned list and a proxy resolves to it first - but with replacement requested the *cache* ends up with the
poorer standard definition (0 signals); without replacement the second block is skipped as known. -/
theorem std_name_collision_witness :
    omSummary true = ([(omName, 2), ("org.freedesktop.DBus.Introspectable".toList, 0),
                       ("org.freedesktop.DBus.Peer".toList, 0), (omName, 0)], 0) ∧
    omSummary false = ([(omName, 2), ("org.freedesktop.DBus.Introspectable".toList, 0),
                        ("org.freedesktop.DBus.Peer".toList, 0), (omName, 2)], 2) := by decide

/-! ## the hypotheses are satisfiable; concrete evaluation of the models -/

/-- a declared interface: containers, a dict entry, nested structs, all access modes, overwritten and deleted
members, the XML read in between -/
def sampleOps : List DeclOp :=
  [ .addMethod "Foo".toList [.array (.dict (.basic .s) .variant), .basic .i, .struct [.basic .i, .basic .i]]
      [.basic .s],
    .getXml,
    .addMethod "Z".toList [] [],
    .addMethod "a_1".toList [.array (.array (.basic .i))]
      [.array (.struct [.basic .i, .basic .i]), .array (.dict (.basic .s) (.struct [.basic .i, .variant]))],
    .addMethod "Foo".toList [.basic .h, .basic .h] [],
    .addSignal "Sig".toList [.basic .s, .array (.dict (.basic .s) .variant), .array (.basic .s)],
    .addSignal "E".toList [],
    .addProperty "P".toList [.array (.dict (.basic .s) .variant)] true true .true,
    .addProperty "Q".toList [.basic .s] false true .false,
    .addProperty "R".toList [.basic .i] true false .invalidates,
    .getXml,
    .delMethod "Z".toList,
    .delProperty "Q".toList ]

def sampleExported : List (Str × List Cached) :=
  match declare "org.a.B".toList sampleOps, declare "org.a.b".toList [] with
  | .ok c, .ok c' => [("/a".toList, [c, c']), ("/a/b".toList, [])]
  | _, _ => []

example : ∃ cs, exportedGet? sampleExported "/a".toList = some cs ∧ Declared cs ∧
    ((decl cs).map (·.name)).Nodup ∧ cs.length = 2 := by
  refine ⟨_, rfl, ?_, by decide, rfl⟩
  intro c hc
  simp only [List.mem_cons, List.not_mem_nil, or_false] at hc
  rcases hc with rfl | rfl
  · exact ⟨"org.a.B".toList, sampleOps, rfl⟩
  · exact ⟨"org.a.b".toList, [], rfl⟩

/-- what comes back for the sample: per returned interface the methods (name, nargs, nret), the signals'
argument counts and the properties' access strings -/
def sampleSummary : List (List (Str × Int × Int) × List Int × List Str) :=
  match generate "/a".toList sampleExported with
  | .ok (some evs) =>
    match getInterfaces [] [] false evs with
    | .ok st => (st.result.filterMap id).map fun i =>
        (i.methods.map fun m => (m.name, m.nargs, m.nret), i.signals.map (·.nargs),
         i.properties.map (·.access))
    | .error _ => []
  | _ => []

/-- the model evaluated on the sample: the first interface comes back with 2 methods (`Foo` counted as 2
arguments after the overwrite, `a_1` as 1 in / 2 out - an `a{s(iv)}` is one argument), 2 signals, 2 properties;
the second, empty one as empty; the standard ones follow -/
example : sampleSummary.take 2 =
    [([("Foo".toList, 2, 0), ("a_1".toList, 1, 2)], [0, 3], ["readwrite".toList, "read".toList]),
     ([], [], [])] ∧ sampleSummary.length = 2 + stdIfaces.length := by decide

example : ∃ i : Interface, i.ValidNames ∧ i.methods.length = 1 :=
  ⟨⟨"org.a.B".toList, [⟨"Foo".toList, 1, 0, "a{sv}".toList, []⟩], [], []⟩,
   ⟨by decide, (fun m hm => by
      simp only [List.mem_cons, List.not_mem_nil, or_false] at hm
      subst hm
      exact ⟨by decide, [.array (.dict (.basic .s) .variant)], [], by decide, by decide⟩),
    (fun s hs => by cases hs), (fun p hp => by cases hp)⟩, rfl⟩

#print axioms handler_gen
#print axioms handler_gen_fresh
#print axioms proxy_accepts_same_calls
#print axioms declared_method_count
#print axioms declared_method_accepts
#print axioms known_reused_unless_replaced
#print axioms generated_attribute_values_need_no_escaping
#print axioms xml_cache_coherent
#print axioms members_sorted
#print axioms std_name_collision_witness

end Txdbus.Intro
